(* The plain Suber (one value per key) against the dictionary key -> value. *)
From Hio Require Import Base.Prelude Base.ListFacts Model.Lmdb Model.IoSub
  Proofs.LmdbProofs Proofs.IoSubHex Proofs.IoSubBlock Proofs.IoSubProofs.

Section Plain.
  Notation db := (db bytes).

  Lemma db_get_insert_other (A B : db) k v k' : k' <> k ->
    db_get (A ++ (k, v) :: B) k' = db_get (A ++ B) k'.
  Proof.
    intros Hne. induction A as [|[a w] A IH]; simpl.
    - destruct (bcmp k' k) eqn:E; auto. apply bcmp_eq in E. contradiction.
    - destruct (bcmp k' a); auto.
  Qed.

  Lemma db_get_insert_same (A B : db) k v : kgt k A -> db_get (A ++ (k, v) :: B) k = Some v.
  Proof. intros H. rewrite db_get_skip by now apply kgt_neq. apply db_get_hd. Qed.

  Lemma db_get_absent (A B : db) k : kgt k A -> klt k B -> db_get (A ++ B) k = None.
  Proof.
    intros HA HB. apply db_get_none. rewrite Forall_app. split; [now apply kgt_neq|now apply klt_neq].
  Qed.

  Lemma sorted_insert (A B : db) k v : sorted (A ++ B) -> kgt k A -> klt k B -> sorted (A ++ (k, v) :: B).
  Proof.
    intros S HA HB. apply sorted_app in S. destruct S as (SA & SB & SAB).
    apply sorted_app. split; [auto|]. split; [simpl; auto|].
    unfold kgt in HA. rewrite Forall_forall in *. intros a Ha. constructor; [now apply HA|now apply SAB].
  Qed.

  Lemma sorted_remove (A B : db) e : sorted (A ++ e :: B) -> sorted (A ++ B).
  Proof.
    intros S. apply sorted_app in S. destruct S as (SA & [SB1 SB2] & SAB).
    apply sorted_app. split; [auto|]. split; [auto|].
    eapply Forall_impl; [|exact SAB]. intros a Ha. now inversion Ha.
  Qed.

  Definition plain_op (o : op) : Prop :=
    match o with
    | OPut _ (_ :: _) | OPin _ (_ :: _) | OGet _ | ORem _ => True
    | _ => False
    end.

  Definition RelP (d : db) (s : bytes -> option bytes) : Prop :=
    sorted d /\ forall k, db_get d k = s k.

  Lemma badkey_empty k : badkey k = false -> emptykey k = false.
  Proof. destruct k; simpl; auto. Qed.

  Theorem step_plain_refines d s o :
    RelP d s -> plain_op o -> badkey (tokey (op_key o)) = false ->
    snd (step_plain d o) = snd (spec_plain bytes_eqb s o (tokey (op_key o))) /\
    RelP (fst (step_plain d o)) (fst (spec_plain bytes_eqb s o (tokey (op_key o)))).
  Proof.
    intros [S G] P Bk. pose proof (badkey_empty _ Bk) as Ek.
    destruct (sorted_split d (tokey (op_key o)) S) as (A & B & -> & HA & HB).
    assert (Upd : forall (B' : db) x,
               (forall k', k' <> tokey (op_key o) -> db_get (A ++ B') k' = db_get (A ++ B) k') ->
               db_get (A ++ B') (tokey (op_key o)) = x ->
               forall k', db_get (A ++ B') k' = upd bytes_eqb s (tokey (op_key o)) x k').
    { intros B' x H1 H2 k'. unfold upd. destruct (bytes_eqb k' (tokey (op_key o))) eqn:E.
      - apply bytes_eqb_eq in E. now subst.
      - rewrite H1, G; auto. intros ->. rewrite beqb_refl in E. discriminate. }
    destruct o as [k vs|k vs|k v|k|k|k|k|k|k v|k|k e]; try (now elim P); cbn [op_key] in *; cbn [step_plain spec_plain].
    - (* put *) destruct vs as [|v vs]; [now elim P|]. rewrite Bk. rewrite <- G.
      destruct HB as [HB|(v0 & B' & -> & HB)].
      + rewrite db_put_mid, db_get_absent by assumption. cbn [fst snd]. split; [reflexivity|]. split.
        * now apply sorted_insert.
        * apply (Upd ((tokey k, v) :: B)).
          -- intros k' Hne. now apply db_get_insert_other.
          -- now apply db_get_insert_same.
      + rewrite db_put_hit, db_get_insert_same by assumption. cbn [fst snd]. split; [reflexivity|]. split; auto.
    - (* pin *) destruct vs as [|v vs]; [now elim P|]. rewrite Bk.
      destruct HB as [HB|(v0 & B' & -> & HB)].
      + rewrite db_put_mid by assumption. cbn [fst snd]. split; [reflexivity|]. split.
        * now apply sorted_insert.
        * apply (Upd ((tokey k, v) :: B)).
          -- intros k' Hne. now apply db_get_insert_other.
          -- now apply db_get_insert_same.
      + rewrite db_put_hit by assumption. cbn [fst snd]. split; [reflexivity|]. split.
        * apply sorted_insert; auto. eapply sorted_remove; eauto.
        * apply (Upd ((tokey k, v) :: B')).
          -- intros k' Hne. now rewrite !db_get_insert_other.
          -- now apply db_get_insert_same.
    - (* get *) rewrite Ek. cbn [fst snd]. rewrite G. split; [reflexivity|]. split; auto.
    - (* rem *) rewrite Ek. rewrite <- G.
      destruct HB as [HB|(v0 & B' & -> & HB)].
      + rewrite db_del_none, db_get_absent; auto.
        2:{ rewrite Forall_app. split; [now apply kgt_neq|now apply klt_neq]. }
        cbn [fst snd]. split; [reflexivity|]. split; auto.
        apply (Upd B); auto. now apply db_get_absent.
      + rewrite db_del_hit, db_get_insert_same by (auto; now apply kgt_neq). cbn [fst snd].
        split; [reflexivity|]. split.
        * eapply sorted_remove; eauto.
        * apply (Upd B').
          -- intros k' Hne. now rewrite db_get_insert_other.
          -- now apply db_get_absent.
  Qed.

  Theorem run_plain_refines : forall ops d s,
    RelP d s -> Forall (fun o => plain_op o /\ badkey (tokey (op_key o)) = false) ops ->
    snd (run Plain d ops) = spec_run_plain bytes_eqb (fun o => tokey (op_key o)) s ops.
  Proof.
    induction ops as [|o ops IH]; intros d s Hr Hk; [reflexivity|].
    inversion Hk as [|? ? [Po Bo] Kops]; subst. cbn [run spec_run_plain step].
    destruct (step_plain_refines d s o Hr Po Bo) as [E1 E2].
    destruct (step_plain d o) as [d' r]. destruct (spec_plain bytes_eqb s o (tokey (op_key o))) as [s' r'].
    cbn [fst snd] in *. subst r'. specialize (IH d' s' E2 Kops).
    destruct (run Plain d' ops) as [d'' rs]. cbn [snd] in *. now f_equal.
  Qed.
End Plain.

(* renaming of dictionary keys for the plain store *)
Section RenameP.
  Context {K1 K2 : Type} (e1 : K1 -> K1 -> bool) (e2 : K2 -> K2 -> bool) (f : K1 -> K2).
  Variable T : K1 -> Prop.
  Hypothesis f_inj : forall a b, T a -> T b -> e2 (f a) (f b) = e1 a b.

  Lemma spec_plain_rename (key : op -> K1) : forall ops s1 s2,
    (forall t, T t -> s1 t = s2 (f t)) -> Forall (fun o => T (key o)) ops ->
    spec_run_plain e1 key s1 ops = spec_run_plain e2 (fun o => f (key o)) s2 ops.
  Proof.
    induction ops as [|o ops IH]; intros s1 s2 H Hk; [reflexivity|].
    inversion Hk as [|? ? Tk Kops]; subst. cbn [spec_run_plain].
    pose proof (H _ Tk) as Hk1.
    assert (Upd : forall X t, T t -> upd e1 s1 (key o) X t = upd e2 s2 (f (key o)) X (f t)).
    { intros X t Tt. unfold upd. rewrite f_inj by assumption. destruct (e1 t (key o)); auto. }
    destruct o as [k vs|k vs|k v|k|k|k|k|k|k v|k|k e]; cbn [spec_plain]; try (f_equal; now apply IH).
    - destruct vs as [|v vs]; [f_equal; now apply IH|]. rewrite <- Hk1.
      destruct (s1 (key (OPut k (v :: vs)))); f_equal; apply IH; auto.
    - destruct vs as [|v vs]; f_equal; apply IH; auto.
    - rewrite <- Hk1. f_equal. now apply IH.
    - rewrite <- Hk1. f_equal. apply IH; auto.
  Qed.
End RenameP.
