(* C03, part 3: what the reference cycle model of Proofs/SchedCycleDue.v says
   (pure list reasoning, no interpreter involved):
   - in one pass exactly the due doers run, once each, in list order, at the
     pass's tyme; the list order never changes (it is the enter order);
   - cycle k happens at tyme  grid start tock k;
   - the due tyme of a doer that only yields positive tocks is the cumulative
     sum of what it yielded, whatever the tymes at which it actually ran
     (no drift); over ZTime with a constant tock t this is  r0 + n*t;
   - a doer that yields 0/None is due in the very next cycle. *)
From Hio Require Import Base.Prelude Base.AMap Base.Time Model.Sched Proofs.SchedCycleTick Proofs.SchedCycleDue.

Section Subseq.
Context {A : Type}.
Inductive subseq : list A -> list A -> Prop :=
| ss_nil : subseq [] []
| ss_skip x l m : subseq l m -> subseq l (x :: m)
| ss_take x l m : subseq l m -> subseq (x :: l) (x :: m).

Lemma subseq_refl l : subseq l l.
Proof. induction l; constructor; assumption. Qed.
Lemma subseq_nil l : subseq [] l.
Proof. induction l; constructor; assumption. Qed.
Lemma subseq_trans a b c : subseq a b -> subseq b c -> subseq a c.
Proof.
  intros Hab Hbc. revert a Hab. induction Hbc as [|x l m Hlm IH|x l m Hlm IH]; intros a Hab.
  - exact Hab.
  - constructor. now apply IH.
  - inversion Hab; subst; [constructor; now apply IH|constructor; now apply IH].
Qed.
Lemma subseq_app a b c d : subseq a b -> subseq c d -> subseq (a ++ c) (b ++ d).
Proof. induction 1; intros; cbn; [assumption|apply ss_skip; auto|apply ss_take; auto]. Qed.
Lemma subseq_In a b x : subseq a b -> In x a -> In x b.
Proof. induction 1; intro I; [exact I|right; auto|destruct I as [<-|I]; [left; reflexivity|right; auto]]. Qed.
Lemma subseq_NoDup a b : subseq a b -> NoDup b -> NoDup a.
Proof.
  induction 1 as [|x l m S IH|x l m S IH]; intro N; [constructor| |].
  - apply IH. now inversion N.
  - inversion N as [|? ? Nin N']; subst. constructor; [|now apply IH].
    intro I. apply Nin. eapply subseq_In; eassumption.
Qed.
End Subseq.

Section Ref.
Context {T : Type} `{Time T}.
Variable D : amap (fdef T).
Variable tock : T.

Definition due_now (now : T) (d : @rdoer T) : bool := tleb (r_due d) now.

(* ---------- one pass ---------- *)

(* exactly the due doers are run, once each, in list order, at tyme [now] *)
Lemma ref_pass_out now q :
  snd (ref_pass D now tock q) = map (fun d => (r_id d, now)) (filter (due_now now) q).
Proof.
  induction q as [|d q IH]; [reflexivity|]. cbn [ref_pass filter].
  destruct (ref_pass D now tock q) as [b o']. cbn [snd] in IH.
  unfold ref_visit, due_now. destruct (tleb (r_due d) now).
  - destruct (out_at D (r_id d) (r_pc d)); cbn [snd map app]; now rewrite IH.
  - cbn [snd app]. exact IH.
Qed.

(* what happens to each doer: the rule *)
Definition visit_spec (now : T) (d : @rdoer T) (q' : list (@rdoer T)) : Prop :=
  if tleb (r_due d) now then
    match out_at D (r_id d) (r_pc d) with
    | OYield t => q' = [{| r_id := r_id d; r_due := next_due now tock (r_due d) t; r_pc := S (r_pc d) |}]
    | _ => q' = []
    end
  else q' = [d].

Lemma ref_visit_spec now d : visit_spec now d (fst (ref_visit D now tock d)).
Proof.
  unfold visit_spec, ref_visit. destruct (tleb (r_due d) now); [|reflexivity].
  destruct (out_at D (r_id d) (r_pc d)); reflexivity.
Qed.

Lemma ref_pass_keep now q :
  fst (ref_pass D now tock q) = flat_map (fun d => fst (ref_visit D now tock d)) q.
Proof.
  induction q as [|d q IH]; [reflexivity|]. cbn [ref_pass flat_map].
  destruct (ref_visit D now tock d) as [a o]. destruct (ref_pass D now tock q) as [b o'].
  cbn [fst] in *. now rewrite IH.
Qed.

(* the list order is stable: ids after a pass are a sub-sequence of the ids before *)
Lemma ref_visit_ids now d : subseq (map r_id (fst (ref_visit D now tock d))) [r_id d].
Proof.
  unfold ref_visit. destruct (tleb (r_due d) now); [|apply subseq_refl].
  destruct (out_at D (r_id d) (r_pc d)); cbn; first [apply subseq_refl|apply subseq_nil].
Qed.

Lemma ref_pass_ids now q : subseq (map r_id (fst (ref_pass D now tock q))) (map r_id q).
Proof.
  rewrite ref_pass_keep. induction q as [|d q IH]; [constructor|].
  cbn [flat_map map]. rewrite map_app. change (r_id d :: map r_id q) with ([r_id d] ++ map r_id q).
  apply subseq_app; [apply ref_visit_ids|exact IH].
Qed.

Lemma filter_subseq {A} (f : A -> bool) l : subseq (filter f l) l.
Proof. induction l as [|x l IH]; cbn; [constructor|]. destruct (f x); constructor; exact IH. Qed.
Lemma map_subseq {A B} (f : A -> B) l m : subseq l m -> subseq (map f l) (map f m).
Proof. induction 1; cbn; constructor; assumption. Qed.

Lemma ref_pass_out_ids now q : subseq (map fst (snd (ref_pass D now tock q))) (map r_id q).
Proof.
  rewrite ref_pass_out, map_map. cbn [fst]. apply map_subseq, filter_subseq.
Qed.

Lemma ref_pass_out_tyme now q : Forall (fun x => snd x = now) (snd (ref_pass D now tock q)).
Proof. rewrite ref_pass_out. apply Forall_forall. intros x I. apply in_map_iff in I. destruct I as (d & <- & _). reflexivity. Qed.

(* an invariant of single doers is an invariant of the list *)
Lemma ref_pass_forall (P : @rdoer T -> Prop) now q :
  (forall d, P d -> Forall P (fst (ref_visit D now tock d))) ->
  Forall P q -> Forall P (fst (ref_pass D now tock q)).
Proof.
  intros Pv F. rewrite ref_pass_keep. induction F as [|d q Pd F IH]; [constructor|].
  cbn [flat_map]. apply Forall_app. split; [now apply Pv|exact IH].
Qed.

(* ---------- the cycles ---------- *)

(* per-cycle blocks: block k carries the tyme of cycle k and its doers are a
   sub-sequence of [ids] *)
Fixpoint blocks_ok (now : T) (ids : list id) (blocks : list (list (id * T))) : Prop :=
  match blocks with
  | [] => True
  | o :: r => Forall (fun x => snd x = now) o /\ subseq (map fst o) ids /\ blocks_ok (tadd now tock) ids r
  end.

Lemma grid_shift (a : T) n : grid (tadd a tock) tock n = tadd (grid a tock n) tock.
Proof. induction n as [|n IH]; cbn [grid]; [reflexivity|now rewrite IH]. Qed.

Lemma blocks_ok_sub now ids ids' bl : subseq ids ids' -> blocks_ok now ids bl -> blocks_ok now ids' bl.
Proof.
  intro S. revert now. induction bl as [|o r IH]; intros now B; [exact I|].
  destruct B as (B1 & B2 & B3). split; [exact B1|]. split; [eapply subseq_trans; eassumption|now apply IH].
Qed.

Lemma ref_cycles_blocks limit stop cycles : forall now q outs res fin dn,
  ref_cycles D tock limit stop cycles now q outs = Some (res, fin, dn) ->
  exists news, res = outs ++ news /\ news <> [] /\ fin = grid now tock (length news) /\
               blocks_ok now (map r_id q) news.
Proof.
  induction cycles as [|c IH]; intros now q outs res fin dn E; cbn [ref_cycles] in E; [discriminate|].
  pose proof (ref_pass_out_tyme now q) as Ty. pose proof (ref_pass_out_ids now q) as Ids.
  pose proof (ref_pass_ids now q) as Keep.
  destruct (ref_pass D now tock q) as [q' o]. cbn [fst snd] in *.
  assert (One : forall dn', Some (outs ++ [o], tadd now tock, dn') = Some (res, fin, dn) ->
     exists news, res = outs ++ news /\ news <> [] /\ fin = grid now tock (length news) /\
                  blocks_ok now (map r_id q) news).
  { intros dn' X. inversion X; subst. exists [o]. split; [reflexivity|]. split; [discriminate|].
    split; [reflexivity|]. cbn [blocks_ok]. auto. }
  destruct q' as [|d q']; [now apply (One true)|].
  destruct (limited limit && tleb stop (tadd now tock)); [now apply (One false)|].
  destruct (IH _ _ _ _ _ _ E) as (news & -> & _ & -> & B).
  exists (o :: news). split; [now rewrite <- app_assoc|]. split; [discriminate|].
  split; [cbn [length]; rewrite grid_shift; reflexivity|].
  cbn [blocks_ok]. split; [exact Ty|]. split; [exact Ids|].
  eapply blocks_ok_sub; [exact Keep|exact B].
Qed.

Lemma ref_enter_ids now ids : subseq (map r_id (ref_enter D now ids)) ids.
Proof.
  induction ids as [|i ids IH]; [constructor|]. cbn [ref_enter flat_map].
  destruct (out_at D i 0); cbn [app map]; try (constructor; exact IH).
Qed.

(* ---------- no drift: the due tyme is the cumulative sum of the yielded tocks ---------- *)

Variable start : T.

(* the due tyme of doer i when it is about to run its step pc, if it never asked for asap *)
Fixpoint due_cum (i : id) (pc : nat) : T :=
  match pc with
  | O => start
  | S n =>
    match n with
    | O => start
    | S _ => match out_at D i n with
             | OYield (Some x) => tadd (due_cum i n) x
             | _ => due_cum i n
             end
    end
  end.

Lemma due_cum_SS i m : due_cum i (S (S m)) =
  match out_at D i (S m) with OYield (Some x) => tadd (due_cum i (S m)) x | _ => due_cum i (S m) end.
Proof. reflexivity. Qed.

(* steps 1 .. n-1 of doer i yield a positive (non-falsy) tock *)
Definition all_pos (i : id) (n : nat) : Prop :=
  forall pc, (1 <= pc < n)%nat -> exists x, out_at D i pc = OYield (Some x) /\ tfalsy x = false.

Definition cum_ok (d : @rdoer T) : Prop :=
  (1 <= r_pc d)%nat /\ (all_pos (r_id d) (r_pc d) -> r_due d = due_cum (r_id d) (r_pc d)).

Lemma cum_ok_visit now d : cum_ok d -> Forall cum_ok (fst (ref_visit D now tock d)).
Proof.
  intros (P1 & P2). unfold ref_visit. destruct (tleb (r_due d) now); [|repeat constructor; assumption].
  destruct (out_at D (r_id d) (r_pc d)) as [t| | |] eqn:Eo; cbn [fst]; try constructor; [|constructor].
  split; cbn [r_pc r_id r_due]; [lia|]. intro AP.
  assert (AP' : all_pos (r_id d) (r_pc d)) by (intros pc Hpc; apply AP; lia).
  destruct (AP (r_pc d)) as (x & Ex & Fx); [lia|].
  rewrite Eo in Ex. inversion Ex; subst t. unfold next_due. rewrite Fx.
  destruct (r_pc d) as [|n] eqn:Epc; [lia|]. cbn [due_cum].
  rewrite Eo. rewrite (P2 AP'). destruct n; reflexivity.
Qed.

Lemma cum_ok_enter ids : Forall cum_ok (ref_enter D start ids).
Proof.
  induction ids as [|i ids IH]; [constructor|]. cbn [ref_enter flat_map].
  destruct (out_at D i 0); cbn [app]; try exact IH.
  constructor; [|exact IH]. split; cbn; [lia|reflexivity].
Qed.

(* asap: a doer that yields 0/None at tyme [now] is due at the next cycle's tyme *)
Lemma asap_next now d t :
  tleb (r_due d) now = true -> out_at D (r_id d) (r_pc d) = OYield t ->
  (match t with None => true | Some x => tfalsy x end) = true ->
  fst (ref_visit D now tock d) = [{| r_id := r_id d; r_due := tadd now tock; r_pc := S (r_pc d) |}].
Proof.
  intros Due Eo As. unfold ref_visit. rewrite Due, Eo. cbn [fst]. unfold next_due.
  destruct t as [x|]; [rewrite As|]; reflexivity.
Qed.

(* all states the reference passes through *)
Inductive ref_reach : T -> list (@rdoer T) -> T -> list (@rdoer T) -> Prop :=
| rr_refl now q : ref_reach now q now q
| rr_step now q now1 q1 : ref_reach now q now1 q1 ->
    ref_reach now q (tadd now1 tock) (fst (ref_pass D now1 tock q1)).

Lemma ref_reach_forall (P : @rdoer T -> Prop) now q now' q' :
  (forall now d, P d -> Forall P (fst (ref_visit D now tock d))) ->
  ref_reach now q now' q' -> Forall P q -> Forall P q'.
Proof. intros Pv R. induction R; intro F; [exact F|]. apply ref_pass_forall; auto. Qed.

End Ref.

(* ---------- closed form over exact time ---------- *)
Section RefZ.
Variable D : amap (fdef Z).
Variables tock start : Z.

(* a doer whose steps 1 .. n-1 all yield the same t <> 0 is, before its step pc
   (1 <= pc <= n), due at  start + (pc-1)*t : no drift, whatever the lateness *)
Lemma due_cum_const i t n :
  (forall pc, (1 <= pc < n)%nat -> out_at D i pc = OYield (Some t)) ->
  forall pc, (1 <= pc <= n)%nat -> due_cum D start i pc = (start + Z.of_nat (pc - 1) * t)%Z.
Proof.
  intros C pc. induction pc as [|pc IH]; intro Hpc; [lia|].
  destruct pc as [|m]; [cbn; lia|].
  rewrite due_cum_SS. rewrite C by lia. rewrite IH by lia. cbn [tadd ZTime].
  replace (S (S m) - 1)%nat with (S (S m - 1))%nat by lia. lia.
Qed.

Lemma all_pos_const i t n : t <> 0%Z ->
  (forall pc, (1 <= pc < n)%nat -> out_at D i pc = OYield (Some t)) -> all_pos D i n.
Proof.
  intros Nz C pc Hpc. exists t. split; [now apply C|]. cbn. now apply Z.eqb_neq.
Qed.

Theorem ref_no_drift now' q' i t n :
  t <> 0%Z -> (forall pc, (1 <= pc < n)%nat -> out_at D i pc = OYield (Some t)) ->
  forall ids, ref_reach D tock start (ref_enter D start ids) now' q' ->
  forall d, In d q' -> r_id d = i -> (r_pc d <= n)%nat ->
  r_due d = (start + Z.of_nat (r_pc d - 1) * t)%Z.
Proof.
  intros Nz C ids R d I Ei Hn.
  assert (F : Forall (cum_ok D start) q').
  { eapply ref_reach_forall; [|exact R|apply cum_ok_enter]. intros now0 d0. apply cum_ok_visit. }
  rewrite Forall_forall in F. destruct (F d I) as (P1 & P2). subst i.
  rewrite P2.
  - apply (due_cum_const (r_id d) t n C). lia.
  - intros pc Hpc. exists t. split; [apply C; lia|]. cbn. now apply Z.eqb_neq.
Qed.

(* a doer that yielded 0/None in the pass at tyme now is due (and therefore
   run) in the pass at tyme now + tock *)
Lemma asap_due_next (now : Z) : due_now (tadd now tock) {| r_id := 0%N; r_due := tadd now tock; r_pc := 0 |} = true.
Proof. unfold due_now. cbn. apply Z.leb_refl. Qed.

End RefZ.

(* ---------- no drift, per run: in which cycles a constant-tock doer runs ---------- *)
Section DriftZ.
Variable D : amap (fdef Z).
Variables tock start : Z.
Variable i : id.
Variable t : Z.
Variable n : nat.
Hypothesis t_nz : t <> 0%Z.
Hypothesis const_t : forall pc, (1 <= pc < n)%nat -> out_at D i pc = OYield (Some t).

Definition occ (o : list (id * Z)) : nat := count_occ N.eq_dec (map fst o) i.

(* walk through the cycles: [now] = the cycle's tyme, [c] = how often doer i has run before.
   As long as its next step is one of the constant-tock steps (c+1 <= n), doer i runs in
   this cycle iff  start + c*t <= now : its c-th due tyme does not depend on when it ran. *)
Fixpoint drift_ok (now : Z) (c : nat) (blocks : list (list (id * Z))) : Prop :=
  match blocks with
  | [] => True
  | o :: r => ((S c <= n)%nat -> (In i (map fst o) <-> (start + Z.of_nat c * t <= now)%Z)) /\
              drift_ok (now + tock)%Z (c + occ o) r
  end.

Definition J (q : list (@rdoer Z)) (c : nat) : Prop :=
  NoDup (map r_id q) /\
  ((S c <= n)%nat -> exists d, In d q /\ r_id d = i /\ r_pc d = S c /\ r_due d = (start + Z.of_nat c * t)%Z).

Lemma nodup_map_inj {A B} (f : A -> B) l a b : NoDup (map f l) -> In a l -> In b l -> f a = f b -> a = b.
Proof.
  induction l as [|x l IH]; intros N Ia Ib E; [destruct Ia|].
  cbn [map] in N. inversion N as [|? ? Nin N']; subst.
  destruct Ia as [<-|Ia], Ib as [<-|Ib]; auto.
  - exfalso. apply Nin. rewrite E. now apply in_map.
  - exfalso. apply Nin. rewrite <- E. now apply in_map.
Qed.

Lemma pass_J now q c : J q c ->
  J (fst (ref_pass D now tock q)) (c + occ (snd (ref_pass D now tock q))) /\
  ((S c <= n)%nat -> (In i (map fst (snd (ref_pass D now tock q))) <-> (start + Z.of_nat c * t <= now)%Z)).
Proof.
  intros (ND & Ex).
  assert (ND' : NoDup (map r_id (fst (ref_pass D now tock q)))) by (eapply subseq_NoDup; [apply ref_pass_ids|exact ND]).
  assert (NDo : NoDup (map fst (snd (ref_pass D now tock q)))) by (eapply subseq_NoDup; [apply ref_pass_out_ids|exact ND]).
  destruct (le_lt_dec (S c) n) as [Hc|Hc].
  - destruct (Ex Hc) as (d & Id & Ei & Epc & Edue).
    assert (Iff : In i (map fst (snd (ref_pass D now tock q))) <-> due_now now d = true).
    { rewrite ref_pass_out, map_map. cbn [fst]. rewrite in_map_iff. split.
      - intros (d2 & E2 & I2). apply filter_In in I2. destruct I2 as [I2 Du].
        assert (d2 = d) by (eapply (nodup_map_inj r_id); [exact ND|exact I2|exact Id|congruence]). now subst.
      - intro Du. exists d. split; [exact Ei|]. apply filter_In. split; assumption. }
    assert (DueZ : due_now now d = true <-> (start + Z.of_nat c * t <= now)%Z).
    { unfold due_now. rewrite Edue. cbn [tleb ZTime]. apply Z.leb_le. }
    split; [|intros _; rewrite Iff; exact DueZ].
    split; [exact ND'|]. intro Hc'.
    destruct (due_now now d) eqn:Du.
    + (* it ran *)
      assert (Oc : occ (snd (ref_pass D now tock q)) = 1%nat).
      { unfold occ. apply NoDup_count_occ'; [exact NDo|]. apply Iff. reflexivity. }
      rewrite Oc in Hc' |- *.
      assert (Eo : out_at D i (S c) = OYield (Some t)) by (apply const_t; lia).
      exists {| r_id := i; r_due := (start + Z.of_nat (c + 1) * t)%Z; r_pc := S (c + 1) |}.
      split; [|cbn [r_id r_pc r_due]; repeat split; lia].
      rewrite ref_pass_keep. apply in_flat_map. exists d. split; [exact Id|].
      unfold ref_visit. unfold due_now in Du. rewrite Du, Ei, Epc, Eo. cbn [fst]. left.
      unfold next_due. cbn [tfalsy tadd ZTime]. rewrite (proj2 (Z.eqb_neq t 0) t_nz), Edue.
      f_equal; lia.
    + (* it did not *)
      assert (Oc : occ (snd (ref_pass D now tock q)) = 0%nat).
      { unfold occ. apply count_occ_not_In. intro X. apply Iff in X. discriminate. }
      rewrite Oc in Hc' |- *. rewrite Nat.add_0_r. exists d. split; [|auto].
      rewrite ref_pass_keep. apply in_flat_map. exists d. split; [exact Id|].
      unfold ref_visit. unfold due_now in Du. rewrite Du. left. reflexivity.
  - split; [|intro; lia]. split; [exact ND'|]. intro; lia.
Qed.

Lemma ref_cycles_drift limit stop cycles : forall now q outs res fin dn c,
  ref_cycles D tock limit stop cycles now q outs = Some (res, fin, dn) -> J q c ->
  exists news, res = outs ++ news /\ drift_ok now c news.
Proof.
  induction cycles as [|cy IH]; intros now q outs res fin dn c E Jq; cbn [ref_cycles] in E; [discriminate|].
  destruct (pass_J now q c Jq) as (J' & Iff).
  destruct (ref_pass D now tock q) as [q' o]. cbn [fst snd] in *.
  assert (One : forall dn', Some (outs ++ [o], tadd now tock, dn') = Some (res, fin, dn) ->
     exists news, res = outs ++ news /\ drift_ok now c news).
  { intros dn' X. inversion X; subst. exists [o]. split; [reflexivity|]. cbn [drift_ok]. auto. }
  destruct q' as [|d q']; [now apply (One true)|].
  destruct (limited limit && tleb stop (tadd now tock)); [now apply (One false)|].
  destruct (IH _ _ _ _ _ _ _ E J') as (news & -> & B).
  exists (o :: news). split; [now rewrite <- app_assoc|]. cbn [drift_ok]. split; [exact Iff|exact B].
Qed.

Lemma J_enter ids : NoDup ids -> In i ids -> (exists t0, out_at D i 0 = OYield t0) -> J (ref_enter D start ids) 0.
Proof.
  intros ND I (t0 & E0). split; [eapply subseq_NoDup; [apply ref_enter_ids|exact ND]|].
  intros _. exists {| r_id := i; r_due := start; r_pc := 1 |}. split; [|cbn; repeat split; lia].
  unfold ref_enter. apply in_flat_map. exists i. split; [exact I|]. rewrite E0. left. reflexivity.
Qed.

End DriftZ.
