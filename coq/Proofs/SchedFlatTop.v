(* C04 — whole runs: do_run of a grouped static leaf program computes spec_run;
   hence (with Proofs/SchedFlatSim.v) the leaf view of the grouped run equals the
   leaf view of the flat run. *)
From Coq Require Import Permutation.
From Hio Require Import Base.Prelude Base.AMap Base.Time Model.Sched
  Proofs.SchedEqs Proofs.SchedFrame Proofs.SchedFlatDefs Proofs.SchedFlatRun Proofs.SchedFlatSim.

Section Top.
Context {T : Type} `{Time T}.

(* ---------- lookups in the tables of nest_prog ---------- *)

Lemma get_app_some {V} (m m' : amap V) k v : get m k = Some v -> get (m ++ m') k = Some v.
Proof.
  induction m as [|[k' v'] m IH]; cbn [get app]; [discriminate|].
  destruct (N.eqb k k'); auto.
Qed.
Lemma get_app_none {V} (m m' : amap V) k : get m k = None -> get (m ++ m') k = get m' k.
Proof.
  induction m as [|[k' v'] m IH]; cbn [get app]; [reflexivity|].
  destruct (N.eqb k k'); [discriminate|auto].
Qed.

Lemma get_leaf_defs (ls : list (leaf T)) l :
  NoDup (map lf_id ls) -> In l ls -> get (map leaf_def ls) (lf_id l) = Some (FLeaf (lf_kind l) (lf_script l)).
Proof.
  induction ls as [|a ls IH]; intros ND Hin; [destruct Hin|].
  cbn [map] in *. apply NoDup_cons_iff in ND as [Na ND]. unfold leaf_def at 1. cbn [get].
  destruct Hin as [->|Hin]; [now rewrite N.eqb_refl|].
  destruct (N.eqb (lf_id l) (lf_id a)) eqn:E; [|now apply IH].
  apply N.eqb_eq in E. exfalso. apply Na. rewrite <- E. now apply in_map.
Qed.
Lemma get_leaf_defs_none (ls : list (leaf T)) k : ~ In k (map lf_id ls) -> get (map leaf_def ls) k = None.
Proof.
  induction ls as [|a ls IH]; intro Hn; [reflexivity|].
  cbn [map] in *. unfold leaf_def at 1. cbn [get].
  destruct (N.eqb k (lf_id a)) eqn:E; [apply N.eqb_eq in E; exfalso; apply Hn; now left|].
  apply IH. intro. apply Hn. now right.
Qed.

Lemma in_nest_ids (gs : list (gitem T)) n kids : In (GGroup n kids) gs -> In n (nest_ids gs).
Proof. intro Hin. unfold nest_ids. apply in_flat_map. exists (GGroup n kids). split; [exact Hin|now left]. Qed.

(* a table with one entry per group *)
Definition gtab {V} (h : id -> list (leaf T) -> V) (gs : list (gitem T)) : amap V :=
  flat_map (fun g => match g with GLeaf _ => [] | GGroup n kids => [(n, h n kids)] end) gs.

Lemma get_gtab {V} (h : id -> list (leaf T) -> V) (gs : list (gitem T)) n kids :
  NoDup (nest_ids gs) -> In (GGroup n kids) gs -> get (gtab h gs) n = Some (h n kids).
Proof.
  induction gs as [|g gs IH]; intros ND Hin; [destruct Hin|].
  unfold gtab, nest_ids in *. cbn [flat_map] in *.
  destruct g as [l|n' kids']; cbn [g_nests app] in *.
  - destruct Hin as [Heq|Hin]; [discriminate|]. now apply IH.
  - apply NoDup_cons_iff in ND as [Nn ND]. cbn [get].
    destruct Hin as [Heq|Hin].
    + inversion Heq; subst. now rewrite N.eqb_refl.
    + destruct (N.eqb n n') eqn:E; [|now apply IH].
      apply N.eqb_eq in E. subst n'. exfalso. apply Nn. eapply in_nest_ids; exact Hin.
Qed.

Variables (tk : T) (limit : option T) (t0 z0 : T).

Lemma nest_defs_gtab (gs : list (gitem T)) :
  flat_map (g_nestdef z0) gs = gtab (fun _ kids => FNest z0 false (map lf_id kids)) gs.
Proof. reflexivity. Qed.

Definition sched_of_def (x : id * fdef T) : list (id * sched (T:=T)) :=
  let '(i, d) := x in
  match d with FNest _ _ kids => [(i, {| doers := kids; deeds := [] |})] | _ => [] end.

Lemma scheds_leaf_defs (ls : list (leaf T)) : flat_map sched_of_def (map leaf_def ls) = [].
Proof. induction ls as [|l ls IH]; [reflexivity|]. cbn [map flat_map]. now rewrite IH. Qed.
Lemma scheds_nest_defs (gs : list (gitem T)) :
  flat_map sched_of_def (flat_map (g_nestdef z0) gs) =
  gtab (fun _ kids => {| doers := map lf_id kids; deeds := [] |}) gs.
Proof.
  induction gs as [|g gs IH]; [reflexivity|]. unfold gtab in *. cbn [flat_map].
  rewrite flat_map_app, IH. destruct g; reflexivity.
Qed.

Section Prog.
Variable gs : list (gitem T).
Hypothesis WF : wf_group gs.

Let p := nest_prog tk limit t0 z0 gs.
Let ids := map lf_id (flatten gs).
Let vis := 0%N :: ids.

Lemma nd_parts : ~ In 0%N (ids ++ nest_ids gs) /\ NoDup ids /\ NoDup (nest_ids gs) /\
  (forall x, In x ids -> ~ In x (nest_ids gs)).
Proof.
  destruct WF as [ND _]. apply NoDup_cons_iff in ND as [N0 ND].
  split; [exact N0|]. split; [eapply NoDup_app_l; exact ND|]. split; [eapply NoDup_app_r; exact ND|].
  apply NoDup_app_disj. exact ND.
Qed.

Lemma in_flatten_leaf l : In (GLeaf l) gs -> In l (flatten gs).
Proof. intro Hin. unfold flatten. apply in_flat_map. exists (GLeaf l). split; [exact Hin|now left]. Qed.
Lemma in_flatten_kid n kids l : In (GGroup n kids) gs -> In l kids -> In l (flatten gs).
Proof. intros Hin Hl. unfold flatten. apply in_flat_map. exists (GGroup n kids). split; [exact Hin|exact Hl]. Qed.

Lemma leaf_in_init l : In l (flatten gs) -> leaf_in (defs (init_st p)) l.
Proof.
  intro Hin. destruct nd_parts as (_ & NDi & _). split.
  - cbn [init_st defs p nest_prog p_defs]. apply get_app_some. now apply get_leaf_defs.
  - destruct WF as [_ P]. rewrite forallb_forall in P. now apply P.
Qed.

Lemma init_scheds_nest :
  flat_map sched_of_def (p_defs p) = gtab (fun _ kids => {| doers := map lf_id kids; deeds := [] |}) gs.
Proof.
  change (p_defs p) with (map leaf_def (flatten gs) ++ flat_map (g_nestdef z0) gs).
  now rewrite flat_map_app, scheds_leaf_defs, scheds_nest_defs.
Qed.

Lemma nest_in_init n kids : In (GGroup n kids) gs ->
  get (defs (init_st p)) n = Some (FNest z0 false (map lf_id kids)) /\
  get_sched (init_st p) n = {| doers := map lf_id kids; deeds := [] |} /\ ~ In n vis.
Proof.
  intro Hin. destruct nd_parts as (N0 & NDi & NDn & Disj).
  pose proof (in_nest_ids _ _ _ Hin) as Hn.
  assert (Nn : ~ In n ids) by (intro X; exact (Disj n X Hn)).
  assert (Nn0 : n <> 0%N) by (intro; subst n; apply N0; apply in_or_app; now right).
  split; [|split].
  - cbn [init_st defs p nest_prog p_defs]. rewrite get_app_none by (now apply get_leaf_defs_none).
    rewrite nest_defs_gtab. exact (get_gtab (fun _ kids => FNest z0 false (map lf_id kids)) gs n kids NDn Hin).
  - unfold get_sched. cbn [init_st scheds]. unfold init_scheds. cbn [get].
    destruct (N.eqb n 0) eqn:E; [apply N.eqb_eq in E; contradiction|].
    fold sched_of_def. rewrite init_scheds_nest.
    now rewrite (get_gtab (fun _ kids => {| doers := map lf_id kids; deeds := [] |}) gs n kids NDn Hin).
  - intros [Heq|X]; [now apply Nn0|now apply Nn].
Qed.

Lemma gs_wf_init : Forall (g_wf vis z0 (defs (init_st p))) gs /\ Forall (g_st (init_st p)) gs.
Proof.
  split; rewrite Forall_forall; intros g Hg; destruct g as [l|n kids]; cbn [g_wf g_st].
  - split; [apply leaf_in_init; now apply in_flatten_leaf|].
    right. apply in_map. now apply in_flatten_leaf.
  - destruct (nest_in_init n kids Hg) as (Dn & _ & NV).
    split; [exact NV|]. split; [eexists; exact Dn|].
    split; rewrite Forall_forall; intros l Hl.
    + apply leaf_in_init. eapply in_flatten_kid; eassumption.
    + right. apply in_map. eapply in_flatten_kid; eassumption.
  - exact I.
  - destruct (nest_in_init n kids Hg) as (_ & -> & _). split; reflexivity.
Qed.

Lemma gs_ids_perm : forall (l : list (gitem T)), Permutation (gs_ids l) (map lf_id (flatten l) ++ nest_ids l).
Proof.
  induction l as [|g l IH]; [constructor|].
  unfold gs_ids, flatten, nest_ids in *. cbn [flat_map]. destruct g as [lf|n kids]; cbn [g_ids g_leaves g_nests map app].
  - now constructor.
  - rewrite map_app, <- app_assoc.
    apply Permutation_trans with (n :: map lf_id kids ++ (map lf_id (flat_map g_leaves l) ++ flat_map g_nests l)).
    + apply perm_skip. apply Permutation_app_head. exact IH.
    + rewrite !app_assoc. apply Permutation_middle.
Qed.

Lemma nd_gs_ids : NoDup (0%N :: gs_ids gs).
Proof.
  destruct WF as [ND _]. eapply Permutation_NoDup; [|exact ND].
  apply perm_skip. symmetry. apply gs_ids_perm.
Qed.

Lemma ok_init : out_ok vis (init_st p) out0.
Proof.
  split; [reflexivity|]. intros i _. unfold get_done, out0, upd; cbn [init_st dones get o_dn].
  destruct (N.eqb i 0); reflexivity.
Qed.

Lemma filter_rev' {A} (q : A -> bool) (l : list A) : filter q (rev l) = rev (filter q l).
Proof.
  induction l as [|a l IH]; [reflexivity|]. cbn [rev filter]. rewrite filter_app, IH. cbn [filter].
  destruct (q a); [reflexivity|now rewrite app_nil_r].
Qed.

Lemma view_ok (s : st T) (o : out T) : out_ok vis s o -> leaf_view ids s = view_of ids (tyme s, o).
Proof.
  intros [E D]. unfold leaf_view, view_of; cbn [fst snd]. f_equal. f_equal.
  - rewrite filter_rev'. f_equal. exact E.
  - apply map_ext_in. intros i Hi. now apply D.
Qed.

Theorem nest_run_spec cycles f :
  oof (do_run cycles f p) = false ->
  exists r, spec_run tk (tabs z0) cycles limit t0 gs = Some r /\
            leaf_view ids (do_run cycles f p) = view_of ids r.
Proof.
  intro O. unfold do_run in *.
  change (p_tock p) with tk in *. change (p_doers p) with (map g_top gs) in *. change (p_limit p) with limit in *.
  destruct (enter_own tk f (init_st p) 0%N (map g_top gs)) as [s1 r] eqn:Ee.
  assert (O1 : oof s1 = false).
  { destruct r; try exact O.
    - apply oof_cycle_loop in O. exact O.
    - apply oof_cycle_loop in O. exact O.
    - rewrite oof_emit in O. now apply oof_close_own in O. }
  destruct gs_wf_init as [W St].
  assert (GN : forall x, In x (gs_ids gs) -> get_gen (init_st p) x = GNew) by reflexivity.
  destruct (gs_enter_own vis tk z0 gs f (init_st p) out0 s1 r Ee O1 GN W St nd_gs_ids ok_init)
    as (its & o1 & He & -> & Dq & G & OK & F).
  change (tyme (init_st p)) with t0 in He.
  assert (T1 : tyme s1 = t0) by (destruct F as (-> & _); reflexivity).
  destruct (gs_enter_wf vis z0 t0 (defs (init_st p)) gs out0 its o1 He) as [Sub Wf].
  assert (R : Rep vis z0 (set_rlive s1 true) its o1).
  { apply Rep_rlive. split; [exact Dq|]. split; [exact G|].
    split; [destruct F as (_ & -> & _); auto|].
    split; [|exact OK].
    eapply subl_NoDup; [apply subl_keep; exact Sub|exact nd_gs_ids]. }
  rewrite T1 in O |- *.
  destruct (cycle_spec vis tk z0 (or_introl eq_refl) cycles f (set_rlive s1 true) its o1 _ _ O R)
    as (t' & o' & Hs & Ht & OK').
  change (tyme (set_rlive s1 true)) with (tyme s1) in Hs. rewrite T1 in Hs.
  exists (t', o'). split.
  - unfold spec_run. rewrite He. exact Hs.
  - rewrite (view_ok _ _ OK'). now rewrite Ht.
Qed.

End Prog.

(* ---------- flat vs grouped ---------- *)

Lemma flatten_ungroup (gs : list (gitem T)) : flatten (ungroup gs) = flatten gs.
Proof.
  unfold ungroup. generalize (flatten gs). intro ls. unfold flatten.
  induction ls as [|l ls IH]; [reflexivity|]. cbn [map flat_map g_leaves app]. now rewrite IH.
Qed.
Lemma nest_ids_ungroup (gs : list (gitem T)) : nest_ids (ungroup gs) = [].
Proof.
  unfold ungroup. generalize (flatten gs). intro ls. unfold nest_ids.
  induction ls as [|l ls IH]; [reflexivity|]. cbn [map flat_map g_nests app]. exact IH.
Qed.
Lemma nestdefs_ungroup (gs : list (gitem T)) : flat_map (g_nestdef z0) (ungroup gs) = [].
Proof.
  unfold ungroup. generalize (flatten gs). intro ls.
  induction ls as [|l ls IH]; [reflexivity|]. cbn [map flat_map g_nestdef app]. exact IH.
Qed.
Lemma tops_ungroup (gs : list (gitem T)) : map g_top (ungroup gs) = map lf_id (flatten gs).
Proof. unfold ungroup. rewrite map_map. reflexivity. Qed.

(* the flat program is the grouped program of the trivial grouping *)
Lemma flat_prog_ungroup (gs : list (gitem T)) :
  flat_prog tk limit t0 (flatten gs) = nest_prog tk limit t0 z0 (ungroup gs).
Proof.
  unfold flat_prog, nest_prog. now rewrite tops_ungroup, flatten_ungroup, nestdefs_ungroup, app_nil_r.
Qed.

Lemma wf_ungroup (gs : list (gitem T)) : wf_group gs -> wf_group (ungroup gs).
Proof.
  intros [ND P]. split; [|now rewrite flatten_ungroup].
  rewrite flatten_ungroup, nest_ids_ungroup, app_nil_r.
  apply NoDup_cons_iff in ND as [N0 ND]. constructor.
  - intro X. apply N0. apply in_or_app. now left.
  - eapply NoDup_app_l; exact ND.
Qed.

(* time laws used by the comparison (see Proofs/SchedFlatSim.v) *)
Definition flat_laws : Prop :=
  (forall a : T, tleb a a = true) /\
  (forall a b : T, tleb a b = true -> tleb a (tadd b tk) = true) /\
  (forall a : T, tadd a (tabs z0) = a).

Theorem flatten_run (gs : list (gitem T)) c1 f1 c2 f2 :
  flat_laws -> wf_group gs ->
  forallb no_asap_then_positive (grouped_leaves gs) = true ->
  oof (do_run c1 f1 (nest_prog tk limit t0 z0 gs)) = false ->
  oof (do_run c2 f2 (flat_prog tk limit t0 (flatten gs))) = false ->
  leaf_view (map lf_id (flatten gs)) (do_run c1 f1 (nest_prog tk limit t0 z0 gs)) =
  leaf_view (map lf_id (flatten gs)) (do_run c2 f2 (flat_prog tk limit t0 (flatten gs))).
Proof.
  intros (L1 & L2 & L3) WF Hy O1 O2.
  rewrite flat_prog_ungroup in *.
  destruct (nest_run_spec gs WF c1 f1 O1) as (r1 & S1 & V1).
  destruct (nest_run_spec (ungroup gs) (wf_ungroup gs WF) c2 f2 O2) as (r2 & S2 & V2).
  rewrite flatten_ungroup in V2. rewrite V1, V2. f_equal.
  exact (spec_run_sim tk (tabs z0) L1 L2 L3 c1 c2 limit t0 gs r1 r2 Hy S1 S2).
Qed.

End Top.
