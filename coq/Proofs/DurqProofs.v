(* Proofs about the Durq / Dusq model. *)
From Hio Require Import Base.Prelude Base.ListFacts Model.Lmdb Model.IoSub Model.Durq.

Lemma push_fifo pyeq q s st v :
  mem (snd (fst (qstep pyeq false q s st (Push v)))) = mem st ++ [v] /\
  fst (fst (qstep pyeq false q s st (Push v))) q = s q ++ [v].
Proof.
  unfold qstep, st_step, spec_io; simpl. unfold upd. now rewrite N.eqb_refl.
Qed.
