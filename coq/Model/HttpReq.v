(* C14 — requests built by the HTTP client are recovered by the server.
   Model of  clienting.Requester.build  (with httping.updateQargsQuery and
   packHeader, after the D20 fixes) and of the server side
   Requestant.parseHead / parseBody + Server.buildEnviron, as functions on
   bytes.  Text is [ustr] (code points); the wire is [bytes].  No proofs. *)
From Hio Require Import Base.Prelude Model.HttpReqUrl Model.HttpTotal.
From Coq Require Import String.
Local Open Scope N_scope.

(* ---------- the request as the caller of the client gives it ---------- *)
Inductive rbody :=
| Raw (b : bytes)                         (* body= *)
| Json (encoded : bytes)                  (* data= : json.dumps(data, separators=(',', ':')).encode('utf-8'), external *)
| Form (fields : list (ustr * ustr)).     (* fargs= *)

Record request := { q_method : ustr;                  (* upper case, one of METHODS *)
                    q_path : ustr;                    (* unicode, not quoted *)
                    q_qargs : list (ustr * ustr);     (* dict: distinct keys *)
                    q_headers : list (ustr * ustr);   (* Hict built with distinct names *)
                    q_body : rbody }.

Definition CRLFb : bytes := [13; 10].

Fixpoint join (sep : ustr) (l : list ustr) : ustr :=
  match l with
  | [] => []
  | [x] => x
  | x :: l' => x ++ sep ++ join sep l'
  end.

(* "k=v" pairs of updateQargsQuery / the form body, keys and values quote_plus'ed *)
Definition enc_pairs (l : list (ustr * ustr)) : ustr :=
  join [38] (map (fun kv => quote_plus [] (fst kv) ++ 61 :: quote_plus [] (snd kv)) l).

(* bytes.title() on ASCII: first letter of every run of letters upper, others lower *)
Fixpoint title_aux (s : ustr) (in_word : bool) : ustr :=
  match s with
  | [] => []
  | c :: r => if is_alpha c
              then (if in_word then lower1 c else upper1a c) :: title_aux r true
              else c :: title_aux r false
  end.
Definition title (s : ustr) : ustr := title_aux s false.

Fixpoint dec_digits (fuel : nat) (n : N) (acc : ustr) : ustr :=
  match fuel with
  | O => acc
  | S f => let acc' := (48 + n mod 10) :: acc in
           if n <? 10 then acc' else dec_digits f (n / 10) acc'
  end.
Definition dec_str (n : N) : ustr := dec_digits 40 n [].

Definition pack_header (name value : ustr) : bytes := title name ++ [58; 32] ++ value.

Definition body_bytes (r : request) : bytes :=
  if ustr_eqb (q_method r) (str "GET") then [] else
  match q_body r with
  | Raw b => b
  | Json e => e
  | Form f => enc_pairs f          (* ASCII after quoting; utf-8 encode is the identity *)
  end.

(* .headers after build has set content-type for data / fargs: replace in place or append *)
Definition final_headers (r : request) : list (ustr * ustr) :=
  if ustr_eqb (q_method r) (str "GET") then q_headers r else
  match q_body r with
  | Raw _ => q_headers r
  | Json _ => hset (q_headers r) (str "content-type") (str "application/json; charset=utf-8")
  | Form _ => hset (q_headers r) (str "content-type") (str "application/x-www-form-urlencoded; charset=utf-8")
  end.

Definition has_header (h : list (ustr * ustr)) (lk : string) : bool :=
  match hget h (str lk) with Some _ => true | None => false end.

(* Requester.build for hostname [host] (ASCII, no ':'), port [port] *)
Definition target (r : request) : ustr :=
  let query := enc_pairs (q_qargs r) in
  quote_path (q_path r) ++ match query with [] => [] | _ => 63 :: query end.

Definition start_line (r : request) : bytes := q_method r ++ 32 :: target r ++ 32 :: str "HTTP/1.1".

(* the header fields in the order they are sent *)
Definition all_headers (host : ustr) (port : N) (r : request) : list (ustr * ustr) :=
  let body := body_bytes r in
  let hs := final_headers r in
  (if has_header (q_headers r) "host" then [] else [(str "Host", host ++ 58 :: dec_str port)])
  ++ (if has_header (q_headers r) "accept-encoding" then [] else [(str "Accept-Encoding", str "identity")])
  ++ (if negb (is_nil body) && negb (has_header hs "content-length")
      then [(str "Content-Length", dec_str (blen body))] else [])
  ++ hs.

Definition build (host : ustr) (port : N) (r : request) : bytes :=
  let lines := start_line r :: map (fun nv => pack_header (fst nv) (snd nv)) (all_headers host port r) in
  flat_map (fun l => l ++ CRLFb) lines ++ CRLFb ++ body_bytes r.

(* ---------- the server side ---------- *)
Record parsed := { p_method : ustr; p_v10 : bool; p_path : ustr; p_query : ustr;
                   p_headers : hdrs; p_length : option N; p_body : bytes }.

Fixpoint leader_all (fuel : nat) (h : hdrs) (b : bytes) : res (hdrs * bytes) :=
  match fuel with
  | O => Exc OtherErr
  | S f => match leader_step h b with
           | Need => Exc StopIter              (* incomplete message *)
           | Fail k _ => Exc k
           | Got (inl h') rest => leader_all f h' rest
           | Got (inr h') rest => Ok (h', rest)
           end
  end.

Fixpoint chunks_all (fuel : nat) (c : cst) (body : bytes) (b : bytes) : res (bytes * bytes) :=
  match fuel with
  | O => Exc OtherErr
  | S f => match chunk_step c body b with
           | Need => Exc StopIter
           | Fail k _ => Exc k
           | Got (inl (c', body')) rest => chunks_all f c' body' rest
           | Got (inr body') rest => Ok (body', rest)
           end
  end.

(* Requestant.parse() on a buffer that starts with a complete message: the parsed request and
   the bytes left in the buffer (the next request on the connection) *)
Definition parse_request_rest (o : url_oracle) (b : bytes) : res (parsed * bytes) :=
  match line_lf b with
  | Need => Exc StopIter
  | Fail k _ => Exc k
  | Got l rest =>
    bind (request_line o l) (fun mv =>
    let u := nth 1 (split_ws l) [] in
    bind (url_site o u) (fun sp =>
    bind (leader_all (S (List.length rest)) [] rest) (fun hr =>
    let '(h, rest') := hr in
    if is_chunked h then
      bind (chunks_all (S (List.length rest')) CSize [] rest') (fun br =>
      Ok ({| p_method := fst (fst mv); p_v10 := snd (fst mv); p_path := unquote (u_path (fst sp));
             p_query := u_query (fst sp); p_headers := h;
             p_length := Some (blen (fst br)); p_body := fst br |}, snd br))
    else match req_length h with
         | None => Exc HTTPExc
         | Some n => if blen rest' <? n then Exc StopIter else
                     Ok ({| p_method := fst (fst mv); p_v10 := snd (fst mv); p_path := unquote (u_path (fst sp));
                            p_query := u_query (fst sp); p_headers := h;
                            p_length := Some n; p_body := firstn (N.to_nat n) rest' |},
                         skipn (N.to_nat n) rest')
         end)))
  end.

Definition parse_request (o : url_oracle) (b : bytes) : res parsed :=
  bind (parse_request_rest o b) (fun pr => Ok (fst pr)).

(* one Requestant serving a connection: parse, makeParser(), parse the next from what is left.
   Every request starts from a fresh header dict. *)
Fixpoint parse_many (o : url_oracle) (n : nat) (b : bytes) : list (res parsed) :=
  match n with
  | O => []
  | S n' => match parse_request_rest o b with
            | Ok (p, rest) => Ok p :: parse_many o n' rest
            | Exc k => [Exc k]
            end
  end.

(* urllib.parse.parse_qsl(qs, keep_blank_values=True): what a WSGI application does with QUERY_STRING *)
Fixpoint split_on (c : N) (s : ustr) (cur : ustr) : list ustr :=
  match s with
  | [] => [frev cur]
  | x :: r => if N.eqb x c then frev cur :: split_on c r [] else split_on c r (x :: cur)
  end.

Definition parse_qsl (qs : ustr) : list (ustr * ustr) :=
  flat_map (fun part =>
              match part with
              | [] => []
              | _ => let '(k, _, v) := partition1 61 part in [(unquote_plus k, unquote_plus v)]
              end) (split_on 38 qs []).

(* Server.buildEnviron: PATH_INFO, QUERY_STRING, CONTENT_LENGTH, HTTP_* keys *)
Definition environ_key (k : ustr) : ustr :=
  str "HTTP_" ++ map (fun c => upper1a (if N.eqb c 45 then 95 else c)) k.
Record environ := { e_method : ustr; e_path_info : ustr; e_query_string : ustr;
                    e_content_type : ustr;
                    e_content_length : option ustr; e_http : list (ustr * ustr);
                    e_input : bytes }.
Definition build_environ (p : parsed) : environ :=
  {| e_method := p_method p; e_path_info := quote_path (p_path p); e_query_string := p_query p;
     e_content_type := hget_str (p_headers p) "content-type"; e_input := p_body p;
     e_content_length := match p_length p with Some n => Some (dec_str n) | None => None end;
     e_http := map (fun kv => (environ_key (fst kv), snd kv)) (p_headers p) |}.

(* ---------- what "recovered exactly" means ---------- *)
Definition pairs_eqb (x y : list (ustr * ustr)) : bool :=
  list_eqb (pair_eqb ustr_eqb ustr_eqb) x y.

Definition recovered (r : request) (p : parsed) : bool :=
  ustr_eqb (p_method p) (q_method r)
  && ustr_eqb (p_path p) (q_path r)
  && ustr_eqb (unquote (e_path_info (build_environ p))) (q_path r)
  && pairs_eqb (parse_qsl (e_query_string (build_environ p))) (q_qargs r)
  && forallb (fun nv => option_eqb ustr_eqb (hget (p_headers p) (lower (fst nv))) (Some (snd nv))) (final_headers r)
  && forallb (fun nv => existsb (fun kv => ustr_eqb (fst kv) (environ_key (fst nv)) && ustr_eqb (snd kv) (snd nv))
                                (e_http (build_environ p))) (final_headers r)
  && bytes_eqb (p_body p) (body_bytes r)
  && match q_body r with
     | Form f => if ustr_eqb (q_method r) (str "GET") then true else pairs_eqb (parse_qsl (p_body p)) f
     | _ => true
     end.

Definition roundtrip (o : url_oracle) (host : ustr) (port : N) (r : request) : bool :=
  match parse_request o (build host port r) with
  | Ok p => recovered r p
  | Exc _ => false
  end.

(* ---------- well-formed requests (the domain of the property) ---------- *)
Definition scalar (c : N) : bool := (c <? 55296) || ((57343 <? c) && (c <? 1114112)).
Definition text_ok (s : ustr) : bool := forallb scalar s.

(* a path as Requester takes it: absolute, no query / fragment part, nothing urlsplit would strip or
   take for a netloc *)
Definition wf_path (p : ustr) : bool :=
  text_ok p &&
  match p with
  | 47 :: r => negb (starts_with [47] r) && forallb (fun c => negb (mem_n c [63; 35; 9; 10; 13])) p
  | _ => false
  end.

Definition token_char (c : N) : bool :=
  is_alpha c || is_digit c || mem_n c [33; 35; 36; 37; 38; 39; 42; 43; 45; 46; 94; 95; 96; 124; 126].
Definition wf_hname (n : ustr) : bool := negb (is_nil n) && forallb token_char n.
(* field value: latin-1, no CR/LF; hio's parser splits lines at LF and strips one CR *)
Definition wf_hvalue (v : ustr) : bool :=
  forallb (fun c => (c <? 256) && negb (mem_n c [10; 13])) v.

Fixpoint distinct_keys (l : list (ustr * ustr)) : bool :=
  match l with
  | [] => true
  | (k, _) :: l' => negb (existsb (fun kv => ustr_eqb (lower (fst kv)) (lower k)) l') && distinct_keys l'
  end.
Fixpoint distinct_exact (l : list (ustr * ustr)) : bool :=
  match l with
  | [] => true
  | (k, _) :: l' => negb (existsb (fun kv => ustr_eqb (fst kv) k) l') && distinct_exact l'
  end.

Definition wf_request (r : request) : bool :=
  existsb (ustr_eqb (q_method r)) METHODS
  && wf_path (q_path r)
  && forallb (fun kv => text_ok (fst kv) && text_ok (snd kv)) (q_qargs r)
  && distinct_exact (q_qargs r)
  && forallb (fun nv => wf_hname (fst nv) && wf_hvalue (snd nv)) (q_headers r)
  && distinct_keys (q_headers r)
  && negb (has_header (q_headers r) "transfer-encoding")
  && (* an explicit Content-Length must be the decimal body length *)
     match hget (final_headers r) (str "content-length") with
     | None => true
     | Some v => ustr_eqb v (dec_str (blen (body_bytes r)))
     end
  && match q_body r with
     | Raw _ => true
     | Json _ => true
     | Form f => forallb (fun kv => text_ok (fst kv) && text_ok (snd kv)) f && distinct_exact f
                 && forallb (fun kv => negb (is_nil (fst kv)) || negb (is_nil (snd kv))) f
     end
  && forallb (fun kv => negb (is_nil (fst kv)) || negb (is_nil (snd kv))) (q_qargs r)
  (* the limits of hio's parser: line length, number of header fields (3 may be added by build) *)
  && (blen (start_line r) <=? MAXL)
  && forallb (fun nv => blen (pack_header (fst nv) (snd nv)) <=? MAXL) (final_headers r)
  && (N.of_nat (List.length (final_headers r)) + 3 <=? MAXH)
  && (blen (body_bytes r) <? 10 ^ 40).

(* where [build] above is a faithful model of Requester.build (it does not model the merging of a
   query / scheme / host given inside the path argument, nor text that cannot be encoded) *)
Definition build_modelled (r : request) : bool :=
  wf_path (q_path r)
  && forallb (fun kv => text_ok (fst kv) && text_ok (snd kv)) (q_qargs r)
  && distinct_exact (q_qargs r)
  && forallb (fun nv => forallb (fun c => c <? 128) (fst nv) && forallb (fun c => c <? 256) (snd nv)) (q_headers r)
  && distinct_keys (q_headers r)
  && match q_body r with
     | Form f => forallb (fun kv => text_ok (fst kv) && text_ok (snd kv)) f && distinct_exact f
     | _ => true
     end.

(* the WSGI server on one keep-alive connection: the environ handed to the application for the
   k-th request is build_environ of the k-th parsed request - a function of that request only *)
Definition serve_many (o : url_oracle) (n : nat) (b : bytes) : list (res environ) :=
  map (fun x => match x with Ok p => Ok (build_environ p) | Exc k => Exc k end) (parse_many o n b).

(* ---------- the Requester as a stateful object ----------
   Requester keeps its attributes between builds; rebuild(args) = reinit(args); build().
   reinit replaces method / path / qargs / headers only when given, and ALWAYS replaces
   body / data / fargs (b'' / None when not given).  build() itself writes back: .path (the
   split-off, *unquoted* path), .qargs (merged with a query given in the path) and
   .headers (content-type for data / fargs stays for later requests). *)
Record rstate := { s_method : ustr; s_path : ustr; s_qargs : list (ustr * ustr);
                   s_headers : list (ustr * ustr); s_body : bytes;
                   s_data : option bytes;                       (* json.dumps(data) encoded, external *)
                   s_fargs : option (list (ustr * ustr)) }.

Record rargs := { a_method : option ustr; a_path : option ustr;
                  a_qargs : option (list (ustr * ustr)); a_headers : option (list (ustr * ustr));
                  a_body : option bytes; a_data : option bytes;
                  a_fargs : option (list (ustr * ustr));
                  a_bare : bool }.   (* Client.transmit() with no argument: build() without reinit - the held
                                        request is resent unchanged (only .headers may have been touched, e.g.
                                        Last-Event-ID before the resend of an event stream request) *)

Definition reinit (st : rstate) (a : rargs) : rstate :=
  {| s_method := match a_method a with Some m => m | None => s_method st end;
     s_path := match a_path a with Some p => p | None => s_path st end;
     s_qargs := match a_qargs a with Some q => q | None => s_qargs st end;
     s_headers := match a_headers a with Some h => h | None => s_headers st end;
     s_body := match a_body a with Some b => b | None => [] end;
     s_data := a_data a;
     s_fargs := a_fargs a |}.

Definition apply_args (st : rstate) (a : rargs) : rstate :=
  if a_bare a then
    {| s_method := s_method st; s_path := s_path st; s_qargs := s_qargs st;
       s_headers := match a_headers a with Some h => h | None => s_headers st end;
       s_body := s_body st; s_data := s_data st; s_fargs := s_fargs st |}
  else reinit st a.

(* the request the next build() sends: data takes precedence over fargs over body *)
Definition request_of (st : rstate) : request :=
  {| q_method := s_method st; q_path := s_path st; q_qargs := s_qargs st; q_headers := s_headers st;
     q_body := match s_data st, s_fargs st with
               | Some e, _ => Json e
               | None, Some f => Form f
               | None, None => Raw (s_body st)
               end |}.

(* build(): the bytes and the attributes it leaves behind (within [build_modelled]) *)
(* the url given as `path=` may carry a query and a fragment: build() splits it (urlsplit: '#'
   first, then '?'), merges the query's arguments into .qargs (updateQargsQuery: later names
   replace, values and names unquote_plus'ed), stores the bare path back and NEVER sends the
   fragment *)
Definition qargs_merge (q : list (ustr * ustr)) (query : ustr) : list (ustr * ustr) :=
  match query with
  | [] => q
  | _ =>
    let parts := if mem_n 59 query then split_at 59 query []
                 else if mem_n 38 query then split_at 38 query [] else [query] in
    fold_left (fun d part =>
                 match part with
                 | [] => d
                 | _ => let '(k, f, v) := partition1 61 part in
                        if f then dset d (unquote_plus k) (unquote_plus v)
                        else dset d (unquote_plus part) (str "true")
                 end) parts q
  end.

Definition effective (r : request) : request :=
  let '(p0, _, _) := partition1 35 (q_path r) in
  let '(p, _, query) := partition1 63 p0 in
  {| q_method := q_method r; q_path := p; q_qargs := qargs_merge (q_qargs r) query;
     q_headers := q_headers r; q_body := q_body r |}.

Definition build_step (host : ustr) (port : N) (st : rstate) : bytes * rstate :=
  let r := effective (request_of st) in
  (build host port r,
   {| s_method := s_method st; s_path := q_path r; s_qargs := q_qargs r;
      s_headers := final_headers r; s_body := s_body st; s_data := s_data st; s_fargs := s_fargs st |}).

(* a history: the first build, then rebuild(args) for each args.  Result: for every build the
   request it was asked to send (state after reinit) and the bytes *)
Fixpoint history (host : ustr) (port : N) (st : rstate) (ops : list rargs) : list (request * bytes) :=
  let '(w, st') := build_step host port st in
  (effective (request_of st), w) ::
  match ops with
  | [] => []
  | a :: ops' => history host port (apply_args st' a) ops'
  end.

Definition state_of (r : request) : rstate :=
  {| s_method := q_method r; s_path := q_path r; s_qargs := q_qargs r; s_headers := q_headers r;
     s_body := match q_body r with Raw b => b | _ => [] end;
     s_data := match q_body r with Json e => Some e | _ => None end;
     s_fargs := match q_body r with Form f => Some f | _ => None end |}.

(* ---------- correspondence ---------- *)
Record stepobs := { y_built : option bytes;                  (* Requester.build()/rebuild(): None = it raised *)
                    y_parsed : option (ustr * ustr * ustr * list (ustr * ustr) * bytes);   (* method path query headers body *)
                    y_path_info : ustr; y_query_string : ustr; y_content_length : option ustr;
                    y_qsl : list (ustr * ustr);              (* urllib parse_qsl(QUERY_STRING) *)
                    y_form_qsl : list (ustr * ustr) }.       (* urllib parse_qsl(body) for form requests *)

Record case := { y_req : request; y_ops : list rargs; y_host : ustr; y_port : N;
                 y_ip6 : tbl; y_nfkc : tbl;
                 y_steps : list stepobs;                     (* one per build, in order *)
                 (* all built requests (after an optional foreign first request) through ONE Requestant *)
                 y_stream_in : bytes; y_stream_n : nat;
                 y_stream : list (option (ustr * ustr * ustr * list (ustr * ustr) * bytes));
                 (* the environ snapshots of the WSGI application behind a real Server on one connection *)
                 y_wsgi : list (ustr * ustr * ustr * ustr * option ustr * list (ustr * ustr) * bytes) }.

Definition check_step (o : url_oracle) (rw : request * bytes) (c : stepobs) : bool :=
  let '(req, mwire) := rw in
  match y_built c with
  | None => negb (wf_request req)      (* build may raise only outside the domain *)
  | Some wire =>
    (if build_modelled req then bytes_eqb mwire wire else true) &&
    match parse_request o wire, y_parsed c with
    | Ok p, Some (m, pa, q, hs, body) =>
      ustr_eqb (p_method p) m && ustr_eqb (p_path p) pa && ustr_eqb (p_query p) q
      && pairs_eqb (p_headers p) hs && bytes_eqb (p_body p) body
      && ustr_eqb (e_path_info (build_environ p)) (y_path_info c)
      && ustr_eqb (e_query_string (build_environ p)) (y_query_string c)
      && option_eqb ustr_eqb (e_content_length (build_environ p)) (y_content_length c)
      && pairs_eqb (parse_qsl (p_query p)) (y_qsl c)
      && pairs_eqb (match q_body req with Form _ => (if ustr_eqb (q_method req) (str "GET") then [] else parse_qsl (p_body p)) | _ => [] end) (y_form_qsl c)
    | Exc _, None => true
    | _, _ => false
    end
  end.

(* histories are compared as long as every request so far is inside the modelled domain of
   build (afterwards the stored attributes are not modelled); the first build always is *)
Fixpoint check_steps (o : url_oracle) (h : list (request * bytes)) (obs : list stepobs) : bool :=
  match h, obs with
  | rw :: h', c :: obs' =>
    check_step o rw c &&
    (if build_modelled (fst rw) && match y_built c with Some _ => true | None => false end
     then check_steps o h' obs' else true)
  | [], [] => true
  | _, _ => false
  end.

Definition check_case (c : case) : bool :=
  let o := mk_oracle (y_ip6 c) (y_nfkc c) in
  let h := history (y_host c) (y_port c) (state_of (y_req c)) (y_ops c) in
  Nat.eqb (List.length h) (List.length (y_steps c)) && check_steps o h (y_steps c)
  && list_eqb2 (fun (m : res parsed) (ob : option (ustr * ustr * ustr * list (ustr * ustr) * bytes)) =>
                  match m, ob with
                  | Ok p, Some (me, pa, q, hs, body) =>
                    ustr_eqb (p_method p) me && ustr_eqb (p_path p) pa && ustr_eqb (p_query p) q
                    && pairs_eqb (p_headers p) hs && bytes_eqb (p_body p) body
                  | Exc _, None => true
                  | _, _ => false
                  end)
               (parse_many o (y_stream_n c) (y_stream_in c)) (y_stream c)
  && list_eqb2 (fun (e : environ) ob =>
                  let '(me, pi, qs, ct, cl, http, body) := ob in
                  ustr_eqb (e_method e) me && ustr_eqb (e_path_info e) pi && ustr_eqb (e_query_string e) qs
                  && ustr_eqb (e_content_type e) ct && option_eqb ustr_eqb (e_content_length e) cl
                  && pairs_eqb (e_http e) http && bytes_eqb (e_input e) body)
               (* the connection may be closed early (non persistent or malformed request): the
                  snapshots taken must be the model's first ones *)
               (firstn (List.length (y_wsgi c))
                       (flat_map (fun x => match x with Ok e => [e] | Exc _ => [] end)
                                 (serve_many o (y_stream_n c) (y_stream_in c))))
               (y_wsgi c).

Definition case_branches (c : case) : list nat :=
  let r := y_req c in
  let o := mk_oracle (y_ip6 c) (y_nfkc c) in
  let h := history (y_host c) (y_port c) (state_of r) (y_ops c) in
  (match q_body r with Raw [] => 0%nat | Raw _ => 1%nat | Json _ => 2%nat | Form _ => 3%nat end) ::
  (if ustr_eqb (q_method r) (str "GET") then 4%nat else 5%nat) ::
  (if is_nil (q_qargs r) then 6%nat else 7%nat) ::
  (if has_header (q_headers r) "content-length" then [8%nat] else []) ++
  (if forallb (fun rw => wf_request (fst rw)) h then [9%nat] else [10%nat]) ++
  (if forallb (fun rw => roundtrip o (y_host c) (y_port c) (fst rw)) h then [11%nat] else [12%nat]) ++
  (match y_ops c with [] => [13%nat] | [_] => [14%nat] | _ => [15%nat] end) ++
  (if existsb (fun a => match a_path a with None => true | Some _ => false end) (y_ops c) then [16%nat] else []).
Definition n_branches : nat := 17.
