"""C24 — keyed durable stores (Suber / IoSuber / IoSetSuber over real LMDB) match a dictionary of
values / lists / ordered sets for all keys; ops on one key never change what another key returns."""
import atexit
from harness.core import coq_bytes, coq_list, coq_bool, coq_N, exn_kind, scratch_dir

PROP = "C24"
COQ_REQUIRES = ["Hio.Model.Lmdb", "Hio.Model.IoSub"]
COQ_CHECK = "IoSub.check_case"
COQ_CASE_TYPE = "IoSub.case"
COQ_BRANCHES = ("IoSub.case_branches", "IoSub.n_branches")
SHARD = 120
RULE = ("op sequences (put, pin, add, get, getFirst, getLast, pop, rem, rem(val), cnt) on a real LMDB sub-db through "
        "Suber / IoSuber / IoSetSuber over key universes of 2-5 keys drawn from families with prefix-related keys "
        "('a','ab','abc',''), keys containing the ion separator '.', the tuple separator '_', 32-hex-digit tails, "
        "and tuple keys; in 30% of the cases SEVERAL stores of one environment are driven in one history with the same "
        "key set; 12% of the io / ioset ops on independent key sets are pin / put whose VALUE ARGUMENT IS LAZY (a generator "
        "over get / getIter of the same key = in-place rewrite, over another key, one that raises part way, or with a "
        "member the Dom suber cannot serialise): evaluated before any effect, no effect when it raises; stores: (the plain / io / ioset subers of a Duror, or the cans / drqs / dsqs Dom subers of a real Subery with "
        "Bag(value=str) values), each against its own dictionary; values from a small domain with duplicates and the empty value; keys passed as str, bytes, "
        "memoryview or tuple; a separate malformed stream uses empty / over-long keys on the plain store; a case is "
        "non-trivial when it uses >= 2 keys of which one is a prefix of another or contains a separator, and has "
        ">= 1 mutating and >= 1 reading op; every result and the final full sub-db dump are compared with the model, "
        "every result and the final per-key content with a Python dictionary")
MODELLED = ["LMDB (sorted list of unique byte keys, lexicographic order; cursor = split of the list; transactions "
            "abort on raise); key length limit 511 only on the plain store",
            "ordered_set.OrderedSet and memoryview/bytes equality (list without duplicates, byte equality)",
            "int(x, 16) restricted to the lower-case hex digits that suffix() writes",
            "str/bytes utf-8 round trip of keys and values (identity on the ASCII domain used)"]

HEX0 = "0" * 32
HEX1 = "0" * 31 + "1"

# key universes; a key is a list of parts (1 part = str key, more = tuple key)
INDEP_FAMILIES = [
    [["a"], ["ab"], ["abc"], ["b"]],
    [[""], ["a"], ["aa"], ["b"]],
    [["a.b"], ["a.c"], ["b"], ["a-b"]],
    [["k"], ["k0"], ["k/"], ["k-"], ["kz"]],
    [["a", "b"], ["a", "bc"], ["ab", "c"], ["a"]],
    [["x_y"], ["x"], ["xy"], ["y_"]],
    [["f" * 32], ["0" * 32], ["a"], ["a0"]],
    [["q." + HEX0], ["r"], ["q-"], ["qq"]],
    [["."], ["a"], ["a_"], ["_"]],
]
RISKY_FAMILIES = [
    [["a"], ["a.b"], ["a.1"], ["b"]],
    [["k"], ["k.f"], ["k.z.z"], ["k-"]],
    [["k"], ["k." + HEX0], ["k." + HEX1], ["j"]],
    [["a"], ["a.b"], ["a.b.c"], ["b"]],
    [["a_b", "c"], ["a", "b_c"], ["a", "b", "c"], ["a_b_c"]],
    [["a"], ["a.0"], ["a." + HEX0 + "x"], ["a.f"]],
    [[""], ["." + HEX0], ["a"], [".z"]],
    [["k"], ["k.0000000000000000000000000000000A"], ["k.z"]],
]
VALS = ["v", "w", "x", "vv", "1", "", "v.0", "w_w"]


def _op(name, key, *a):
    return [name, key] + list(a)


def directed():
    a, ab, b = ["a"], ["ab"], ["b"]
    out = []
    # plain: every op, both outcomes, bad keys
    out.append({"kind": "plain", "ops": [
        _op("put", a, ["v"]), _op("put", a, ["w"]), _op("get", a), _op("get", ab), _op("pin", a, ["x"]), _op("get", a),
        _op("put", ab, [""]), _op("get", ab), _op("cnt", a), _op("rem", a), _op("rem", a), _op("get", a), _op("cnt", a),
        _op("put", [""], ["v"]), _op("get", [""]), _op("pin", [""], ["v"]), _op("rem", [""]),
        _op("put", ["k" * 512], ["v"]), _op("put", ["k" * 511], ["v"]), _op("get", ["k" * 511]),
        _op("put", ["a", "b"], ["t"]), _op("get", ["a_b"]), _op("cnt", a)]})
    for kind in ("io", "ioset"):
        ops = [
            _op("get", a), _op("getfirst", a), _op("getlast", a), _op("pop", a), _op("rem", a), _op("cnt", a),
            _op("add", a, "v"), _op("add", a, "w"), _op("add", a, "v"), _op("add", ab, "x"), _op("add", b, "y"),
            _op("get", a), _op("get", ab), _op("get", b), _op("getfirst", a), _op("getlast", a), _op("getlast", ab),
            _op("getlast", b), _op("cnt", a), _op("pop", a), _op("get", a), _op("add", a, "z"), _op("get", a),
            _op("put", a, ["v", "v", "q", "z"]), _op("get", a), _op("put", a, []), _op("put", ab, ["x"]),
            _op("pin", ab, ["p", "p", "q"]), _op("get", ab), _op("pin", ab, []), _op("get", ab), _op("getlast", a),
            _op("rem", a), _op("rem", a), _op("get", a), _op("get", b), _op("getfirst", b), _op("getlast", b),
            _op("add", [""], "e"), _op("get", [""]), _op("getlast", [""]), _op("add", ["a", "b"], "t"), _op("get", ["a_b"]),
        ]
        if kind == "ioset":
            ops += [_op("put", b, ["m", "n", "o"]), _op("remval", b, "n"), _op("remval", b, "n"), _op("get", b),
                    _op("remval", b, ""), _op("get", b), _op("remval", b, "zz"), _op("add", b, ""), _op("add", b, ""),
                    _op("get", b)]
        out.append({"kind": kind, "ops": ops})
    # getLast with a later key present / max ion neighbours
    out.append({"kind": "io", "ops": [_op("add", ["b"], "1"), _op("add", ["a"], "2"), _op("getlast", ["a"]),
                                       _op("getlast", ["b"]), _op("getlast", ["c"]), _op("getlast", ["0"]),
                                       _op("pop", ["b"]), _op("getlast", ["b"]), _op("getlast", ["a"])]})
    # several stores of one environment with the SAME keys (also prefix / separator keys): each is its own dictionary
    for envname in ("subery", "duror"):
        out.append({"kind": "multi", "env": envname, "ops": [
            _op("add", a, "v", "io"), _op("add", a, "v", "ioset"), _op("add", a, "v", "ioset"), _op("put", a, ["p"], "plain"),
            _op("get", a, "io"), _op("get", a, "ioset"), _op("get", a, "plain"), _op("add", a, "w", "io"), _op("cnt", a, "ioset"),
            _op("put", ab, ["x", "y"], "io"), _op("put", ab, ["y", "z"], "ioset"), _op("pin", a, ["q"], "ioset"), _op("get", a, "io"),
            _op("rem", a, "ioset"), _op("get", a, "io"), _op("getlast", a, "io"), _op("rem", ab, "io"), _op("get", ab, "ioset"),
            _op("pop", a, "io"), _op("remval", ab, "y", "ioset"), _op("get", ab, "ioset"), _op("get", ab, "io"),
            _op("add", ["a.b"], "v", "io"), _op("add", ["a.b"], "v", "ioset"), _op("pop", ["a.b"], "ioset"), _op("get", ["a.b"], "io"),
            _op("rem", a, "plain"), _op("get", a, "io"), _op("cnt", a, "plain"), _op("cnt", a, "io")]})
    # lazy value arguments: a generator over the SAME key's content (in-place rewrite), over another key, one that raises
    # part way, (Dom subers) a member that cannot be serialised: evaluated before any effect / no effect when it raises
    for kind in ("io", "ioset"):
        out.append({"kind": kind, "ops": [
            _op("put", a, ["v", "w", "v"]), _op("pinself", a, "+"), _op("get", a), _op("pinself", a, ""), _op("cnt", a),
            _op("putself", a, "'"), _op("get", a), _op("add", ab, "x"), _op("pinfrom", ab, "!", a), _op("get", ab), _op("get", a),
            _op("putfrom", a, "?", ab), _op("get", a), _op("pinraise", a, ["p", "q"], 1), _op("get", a), _op("pinraise", a, ["p"], 0),
            _op("putraise", ab, ["p", "q", "r"], 2), _op("get", ab), _op("pinraise", a, ["p", "q"], 2), _op("get", a),
            _op("pinself", b, "z"), _op("get", b), _op("pinself", a, "+"), _op("getlast", a), _op("pop", a)]})
    for kd in ("io", "ioset"):
        out.append({"kind": "multi", "env": "subery", "ops": [
            _op("put", a, ["v", "w"], kd), _op("pinbad", a, ["p", "q"], 1, kd), _op("get", a, kd), _op("putbad", a, ["p"], 1, kd),
            _op("get", a, kd), _op("pinbad", a, ["p", "q"], 0, kd), _op("pinself", a, "+", kd), _op("get", a, kd),
            _op("pinraise", a, ["x"], 1, kd), _op("get", a, kd), _op("pinfrom", ab, "", a, kd), _op("get", ab, kd)]})
    # keys K and K' = K + '.' + rest where rest does not look like an ordinal: only getLast(K) is affected by D27;
    # add / put / pin / get / pop / rem / cnt on K and K' must still behave as the dictionary
    for kind in ("io", "ioset"):
        for kp in ("a.b", "a.1", "a.f", "a.z.z"):
            out.append({"kind": kind, "ops": [
                _op("add", ["a"], "v"), _op("add", ["a"], "w"), _op("add", [kp], "p"), _op("put", ["a"], ["x", "y"]), _op("get", ["a"]),
                _op("add", ["a"], "z"), _op("put", [kp], ["q", "r"]), _op("get", [kp]), _op("cnt", ["a"]), _op("pop", ["a"]),
                _op("put", ["a"], ["u"]), _op("get", ["a"]), _op("getfirst", ["a"]), _op("pin", ["a"], ["m", "n"]), _op("put", ["a"], ["o"]),
                _op("get", ["a"]), _op("rem", [kp]), _op("put", ["a"], ["t"]), _op("get", ["a"]), _op("get", [kp])]})
    # witnesses of the D27 classes
    out.append({"kind": "io", "ops": [_op("add", ["k"], "v0"), _op("add", ["k"], "v1"),
                                       _op("add", ["k." + HEX0], "w"), _op("get", ["k"])]})
    out.append({"kind": "io", "ops": [_op("add", ["a"], "1"), _op("add", ["a.b"], "2"), _op("getlast", ["a"])]})
    out.append({"kind": "plain", "ops": [_op("put", ["a_b", "c"], ["x"]), _op("put", ["a", "b_c"], ["y"]),
                                          _op("get", ["a_b", "c"]), _op("get", ["a", "b_c"])]})
    return out


def _gen_multi(rng, fams, nops):
    """several stores of ONE environment in one history, all using the same key set"""
    fam = rng.choice(fams)
    keys = rng.sample(fam, rng.randint(2, len(fam)))
    vals = rng.sample(VALS, rng.randint(2, 5))
    stores = rng.choice([["io", "ioset"], ["io", "ioset"], ["plain", "io", "ioset"], ["plain", "io"], ["plain", "ioset"]])
    envname = rng.choice(["subery", "subery", "duror"])
    ops = []
    for _ in range(nops):
        kd = rng.choice(stores)
        o = _gen_case(rng, [keys], kd, 1, keys=keys, vals=vals, lazy=fams is INDEP_FAMILIES, dom=envname == "subery")["ops"][0]
        ops.append(o + [kd])
    return {"kind": "multi", "env": envname, "ops": ops}


def _gen_lazy(rng, kind, keys, vals, dom):
    """pin / put with a lazy value argument"""
    k = rng.choice(keys)
    which = rng.choice(["pin", "put"])
    r = rng.random()
    sfx = rng.choice(["", "+", "'", "v"])
    if r < 0.45:
        return _op(which + "self", k, sfx)
    if r < 0.65:
        return _op(which + "from", k, sfx, rng.choice(keys))
    vs = [rng.choice(vals) for _ in range(rng.choice([1, 2, 3]))]
    if r < 0.85 or not dom:
        return _op(which + "raise", k, vs, rng.randrange(len(vs) + 1))
    return _op(which + "bad", k, vs, rng.randrange(len(vs) + 1))


def _gen_case(rng, fams, kind, nops, keys=None, vals=None, lazy=False, dom=False):
    fam = rng.choice(fams)
    keys = keys or rng.sample(fam, rng.randint(2, len(fam)))
    vals = vals or rng.sample(VALS, rng.randint(2, 5))
    ops = []
    if kind == "plain":
        names, w = ["put", "pin", "get", "rem", "cnt"], [4, 3, 5, 2, 1]
    elif kind == "io":
        names, w = ["add", "put", "pin", "get", "getfirst", "getlast", "pop", "rem", "cnt"], [6, 3, 1.5, 4, 2, 3, 3, 1, 2]
    else:
        names, w = (["add", "put", "pin", "get", "getfirst", "getlast", "pop", "rem", "remval", "cnt"],
                    [6, 3, 1.5, 4, 2, 3, 3, 1, 3, 2])
    for _ in range(nops):
        if lazy and kind != "plain" and rng.random() < 0.12:
            ops.append(_gen_lazy(rng, kind, keys, vals, dom))
            continue
        n = rng.choices(names, w)[0]
        k = rng.choice(keys)
        if kind == "plain" and k == [""]:
            k = ["e"] if rng.random() < 0.8 else k
        if n in ("put", "pin"):
            if kind == "plain":
                ops.append(_op(n, k, [rng.choice(vals)]))
            else:
                ops.append(_op(n, k, [rng.choice(vals) for _ in range(rng.choice([0, 1, 2, 3, 4]))]))
        elif n in ("add", "remval"):
            ops.append(_op(n, k, rng.choice(vals)))
        else:
            ops.append(_op(n, k))
    return {"kind": kind, "ops": ops}


def generate(rng, tier):
    n = 420 if tier == "quick" else 6000
    out = []
    for i in range(n):
        kind = rng.choice(["plain", "io", "io", "ioset", "ioset"])
        fams = RISKY_FAMILIES if rng.random() < 0.2 else INDEP_FAMILIES
        if rng.random() < 0.3:
            out.append(_gen_multi(rng, fams, rng.choice([6, 10, 16, 24])))
        else:
            out.append(_gen_case(rng, fams, kind, rng.choice([4, 8, 12, 20, 30]), lazy=fams is INDEP_FAMILIES))
    # malformed stream: empty / over-long keys on the plain store
    for i in range(20 if tier == "quick" else 200):
        ops = []
        for _ in range(6):
            k = rng.choice([[""], ["k" * 512], ["k" * 511], ["a"], ["", ""], ["a", ""]])
            n = rng.choice(["put", "pin", "get", "rem", "cnt"])
            ops.append(_op(n, k, ["v"]) if n in ("put", "pin") else _op(n, k))
        out.append({"kind": "plain", "ops": ops})
    return out


# ---------------------------------------------------------------- implementation driver
_ENV = {}
KINDS = ("plain", "io", "ioset")


def _store_of(case, o):
    """the store an op goes to: the case's single kind, or (kind 'multi') the op's last element"""
    return o[-1] if case["kind"] == "multi" else case["kind"]


def _op_of(case, o):
    return o[:-1] if case["kind"] == "multi" else o


def _stores(envname="duror"):
    """'duror': three subers with their own sub-db names on a Duror; 'subery': the cans / drqs / dsqs of a real Subery
    (Dom subers: values are Bag(value=str), serialised as  Bag LF {"value":"..."} )."""
    if envname not in _ENV:
        from hio.base.during import Duror, Suber, IoSuber, IoSetSuber, Subery
        e = {}
        if envname == "duror":
            d = Duror(name="c24", headDirPath=str(scratch_dir() / "c24"), reopen=True)
            e.update(plain=Suber(db=d, subkey="plain."), io=IoSuber(db=d, subkey="io."), ioset=IoSetSuber(db=d, subkey="ioset."))
        else:
            d = Subery(name="c24s", headDirPath=str(scratch_dir() / "c24"), reopen=True)
            e.update(plain=d.cans, io=d.drqs, ioset=d.dsqs)
        e["duror"] = d
        atexit.register(lambda: d.close(clear=True))
        _ENV[envname] = e
    return _ENV[envname]


def _wrap(v):
    return 'Bag\n{"value":"%s"}' % v


def _pykey(parts, i):
    """How the key is handed to the API: one part -> str / bytes / memoryview, several -> tuple."""
    if len(parts) == 1:
        s = parts[0]
        return [s, s.encode(), memoryview(s.encode()), s][i % 4]
    if i % 3 == 1:
        return tuple(p.encode() if j % 2 else p for j, p in enumerate(parts))
    return tuple(parts) if i % 3 else list(parts)


def _pyval(v, i):
    return [v, v.encode(), v, memoryview(v.encode())][(i // 2) % 4]


def _bagval(v, i):
    from hio.base.hier import Bag
    return Bag(value=v)


def _unbag(r):
    return None if r is None else r.value


def _apply(st, kind, i, o, dom=False):
    k = _pykey(o[1], i)
    return _apply_raw(_Dom(st) if dom else st, kind, i, o, k, _ident if dom else _pyval)


class _Dom:
    """view of a Dom suber taking / returning plain strings as Bag(value=str)"""
    def __init__(self, st):
        self.st = st

    @staticmethod
    def _in(v):
        if isinstance(v, str):
            return _bagval(v, 0)
        if isinstance(v, list):
            return [x if isinstance(x, _Unser) else _bagval(x, 0) for x in v]
        return (x if isinstance(x, _Unser) else _bagval(x, 0) for x in v)      # stays lazy

    def put(self, k, v):
        return self.st.put(k, self._in(v))

    def pin(self, k, v):
        return self.st.pin(k, self._in(v))

    def getIter(self, k):
        for x in self.st.getIter(k):
            yield _unbag(x)

    def add(self, k, v):
        return self.st.add(k, _bagval(v, 0))

    def get(self, k):
        r = self.st.get(k)
        return [_unbag(x) for x in r] if isinstance(r, list) else _unbag(r)

    def getFirst(self, k):
        return _unbag(self.st.getFirst(k))

    def getLast(self, k):
        return _unbag(self.st.getLast(k))

    def pop(self, k):
        return _unbag(self.st.pop(k))

    def rem(self, k, v=None):
        return self.st.rem(k) if v is None else self.st.rem(k, _bagval(v, 0))

    def cnt(self, k):
        return self.st.cnt(k)

    def cntAll(self):
        return self.st.cntAll()


def _ident(v, i):
    return v


class _Boom(ValueError):
    pass


def _lazy(st, o, k, i):
    """pin / put whose value argument is a lazy iterable (a generator)"""
    name = o[0]
    call = st.pin if name.startswith("pin") else st.put
    if name in ("pinself", "putself", "pinfrom", "putfrom"):
        src = k if name.endswith("self") else _pykey(o[3], i + 1)
        reader = st.getIter if i % 2 else st.get

        def content():                                    # reads the store only when it is consumed
            for v in reader(src):
                yield v + o[2]
        return ["bool", bool(call(k, content()))]
    if name in ("pinraise", "putraise"):
        def gen():
            for j, v in enumerate(o[2]):
                if j == o[3]:
                    raise _Boom("value source failed")
                yield v
            raise _Boom("value source failed")
        return ["bool", bool(call(k, gen()))]
    if name in ("pinbad", "putbad"):                       # a member that cannot be serialised (Dom subers: not a RegDom)
        vals = list(o[2])
        vals.insert(min(o[3], len(vals)), _Unser())
        return ["bool", bool(call(k, iter(vals) if i % 2 else vals))]
    raise ValueError(name)


class _Unser:
    """stands for a value the Dom suber cannot serialise"""


def _apply_raw(st, kind, i, o, k, _pyval):
    name = o[0]
    if name in LAZY:
        return _lazy(st, o, k, i)
    if name == "put":
        return ["bool", bool(st.put(k, _pyval(o[2][0], i)) if kind == "plain" else st.put(k, [_pyval(v, i + j) for j, v in enumerate(o[2])]))]
    if name == "pin":
        return ["bool", bool(st.pin(k, _pyval(o[2][0], i)) if kind == "plain" else st.pin(k, [_pyval(v, i + j) for j, v in enumerate(o[2])]))]
    if name == "add":
        return ["bool", bool(st.add(k, _pyval(o[2], i)))]
    if name == "get":
        r = st.get(k)
        return ["opt", r] if kind == "plain" else ["list", list(r)]
    if name == "getfirst":
        return ["opt", st.getFirst(k)]
    if name == "getlast":
        return ["opt", st.getLast(k)]
    if name == "pop":
        return ["opt", st.pop(k)]
    if name == "rem":
        return ["bool", bool(st.rem(k))]
    if name == "remval":
        return ["bool", bool(st.rem(k, _pyval(o[2], i)))]
    if name == "cnt":
        return ["nat", st.cntAll() if kind == "plain" else st.cnt(k)]
    raise ValueError(name)


def _dump(env, st):
    with env.begin(db=st.sdb) as txn:
        return [[bytes(k).decode("latin-1"), bytes(v).decode("latin-1")] for k, v in txn.cursor()]


def run_impl(case):
    envname = case.get("env", "duror")
    e = _stores(envname)
    env = e["duror"].env
    dom = envname == "subery"
    with env.begin(write=True) as txn:     # harness-level reset of the sub-dbs between cases
        for kd in KINDS:
            txn.drop(e[kd].sdb, delete=False)
    results = []
    for i, o in enumerate(case["ops"]):
        kd = _store_of(case, o)
        try:
            results.append(["ok", _apply(e[kd], kd, i, _op_of(case, o), dom)])
        except Exception as ex:
            results.append(["exc", exn_kind(ex)])
    final = []
    for kd, parts in _keys_of(case):
        st = _Dom(e[kd]) if dom else e[kd]
        try:
            r = st.get(tuple(parts) if len(parts) > 1 else parts[0])
            final.append([kd, parts, ["opt", r] if kd == "plain" else ["list", list(r)]])
        except Exception as ex:
            final.append([kd, parts, ["exc", exn_kind(ex)]])
    return {"results": results, "dump": [_dump(env, e[kd]) for kd in KINDS], "final": final}


def _keys_of(case):
    """(store, key) pairs of the case, in order of first use"""
    seen, out = set(), []
    for o in case["ops"]:
        for key in [o[1]] + ([o[3]] if o[0] in ("pinfrom", "putfrom") else []):
            t = (_store_of(case, o), tuple(key))
            if t not in seen:
                seen.add(t); out.append((t[0], list(key)))
    return out


# ---------------------------------------------------------------- oracle: a Python dictionary
def _dedupe(vs):
    out = []
    for v in vs:
        if v not in out:
            out.append(v)
    return out


def _joined(parts):
    return "_".join(parts)


def _spec_step(kind, s, o, dom=False):
    name, k = o[0], tuple(o[1])
    if kind == "plain":
        j = _joined(o[1])
        if name != "cnt" and (len(j) == 0 or (len(j) > 511 and name in ("put", "pin"))):
            return ["exc", "KeyErr"]            # LMDB's documented key domain: 1..511 bytes
        if name == "put":
            if k in s:
                return ["ok", ["bool", False]]
            s[k] = o[2][0]; return ["ok", ["bool", True]]
        if name == "pin":
            s[k] = o[2][0]; return ["ok", ["bool", True]]
        if name == "get":
            return ["ok", ["opt", s.get(k)]]
        if name == "rem":
            return ["ok", ["bool", s.pop(k, None) is not None]]
        if name == "cnt":
            return ["ok", ["nat", len(s)]]
    cur = s.setdefault(k, [])
    st = kind == "ioset"
    if name == "add":
        if st and o[2] in cur:
            return ["ok", ["bool", False]]
        cur.append(o[2]); return ["ok", ["bool", True]]
    if name == "put":
        new = [v for v in _dedupe(o[2]) if v not in cur] if st else list(o[2])
        cur.extend(new); return ["ok", ["bool", bool(new)]]
    if name == "pin":
        new = _dedupe(o[2]) if st else list(o[2])
        s[k] = new; return ["ok", ["bool", bool(new)]]
    if name == "get":
        return ["ok", ["list", list(cur)]]
    if name == "getfirst":
        return ["ok", ["opt", cur[0] if cur else None]]
    if name == "getlast":
        return ["ok", ["opt", cur[-1] if cur else None]]
    if name == "pop":
        return ["ok", ["opt", cur.pop(0) if cur else None]]
    if name == "rem":
        r = bool(cur); s[k] = []; return ["ok", ["bool", r]]
    if name == "remval":
        if o[2] == "" and not dom:               # documented: empty val removes all values at key (a Bag is never empty)
            r = bool(cur); s[k] = []; return ["ok", ["bool", r]]
        if o[2] in cur:
            cur.remove(o[2]); return ["ok", ["bool", True]]
        return ["ok", ["bool", False]]
    if name == "cnt":
        return ["ok", ["nat", len(cur)]]
    raise ValueError(name)


LAZY = ("pinself", "putself", "pinfrom", "putfrom", "pinraise", "putraise", "pinbad", "putbad")


def _resolve(case):
    """The ops with lazy value arguments made explicit, as (store, op) pairs.  An argument is evaluated BEFORE the call
    has any effect, so  pin(k, (v + sfx for v in getIter(k2)))  is  pin(k, [v + sfx for v in <content of k2 before the
    call>]),  and an argument that raises while consumed is a call without effect that raises."""
    dom = case.get("env", "duror") == "subery"
    dicts = {kd: {} for kd in KINDS}
    out = []
    for o in case["ops"]:
        kd, o2 = _store_of(case, o), list(_op_of(case, o))
        name = o2[0]
        if name in ("pinself", "putself", "pinfrom", "putfrom"):
            src = o2[1] if name.endswith("self") else o2[3]
            vals = [v + o2[2] for v in dicts[kd].get(tuple(src), [])]
            o2 = [name[:3], o2[1], vals]
        elif name in ("pinraise", "putraise"):
            o2 = ["raise", o2[1], "ValueErr"]
        elif name in ("pinbad", "putbad"):
            o2 = ["raise", o2[1], "HierErr"]
        if o2[0] != "raise":
            _spec_step(kd, dicts[kd], o2, dom)
        out.append((kd, o2))
    return out


def oracle(case, obs):
    f = _first_failure(case, obs)
    return None if f is None else f[3]


def _first_failure(case, obs):
    """None, or (position ('op', i) | ('final', n), store, key parts, message) of the first departure from the dictionaries"""
    dom = case.get("env", "duror") == "subery"
    dicts = {kd: {} for kd in KINDS}        # one independent dictionary per store of the environment
    what = {"plain": "values", "io": "lists", "ioset": "ordered sets"}
    for i, (o, (kd, o2)) in enumerate(zip(case["ops"], _resolve(case))):
        # an argument that raises leaves the store unchanged and the call raises; everything else is the plain op
        want = ["exc", o2[2]] if o2[0] == "raise" else _spec_step(kd, dicts[kd], o2, dom)
        got = obs["results"][i]
        if want != got:
            return (("op", i), kd, list(o[1]),
                    f"op {i} {o[0]} on key {o[1]!r} of the {kd} store: store returned {got}, a dictionary of "
                    f"{what[kd]} returns {want}")
    for kd, parts, got in obs["final"]:
        k = tuple(parts)
        if kd == "plain":
            j = _joined(parts)
            want = ["exc", "KeyErr"] if len(j) == 0 else ["opt", dicts[kd].get(k)]
        else:
            want = ["list", list(dicts[kd].get(k, []))]
        if got != want:
            return (("final", 0), kd, list(parts),
                    f"final content at key {parts!r} of the {kd} store is {got}, its dictionary has {want}")
    return None


def _hexlike(r):
    """does key + '.' + r + '.' + ordinal sort AMONG the entries key + '.' + ordinal (ordinals below 16**8)?"""
    return len(r) >= 32 and r.startswith("0" * 24)


def classify(case, obs, why):
    """Known-finding classes, decided from the key set of the store in which the first departure happens and from the
    operation that departs.  D27-ioscan covers exactly what the unchanged code gets wrong:
      * a key K' = K + '.' + r with r starting like a 32-hex-digit ordinal sorts among K's entries: every scan of K
        (and of K') can stop early - any op on these keys may depart;
      * any other K' = K + '.' + r only sorts between K.000..0 and K.fff..f: only getLast(K) looks there - only a
        getLast on K may depart (add / put / get / pop / rem walk K's entries from K.000..0 and are correct)."""
    f = _first_failure(case, obs) if obs is not None else None
    stores = [f[1]] if f else list(KINDS)
    tup = scan = False
    for kd in stores:
        joined = {}
        for k2, parts in _keys_of(case):
            if k2 == kd:
                joined.setdefault(_joined(parts), set()).add(tuple(parts))
        if any(len(v) > 1 for v in joined.values()):
            tup = True                          # two distinct keys are joined to the same db key
        js = list(joined)
        if kd == "plain":
            continue
        ext = [(a, b[len(a) + 1:]) for a in js for b in js if a != b and b.startswith(a + ".")]
        if f is None:
            scan = scan or bool(ext)
        elif any(_hexlike(r) for _, r in ext):
            scan = True
        elif ext and f[0][0] == "op":
            o = case["ops"][f[0][1]]
            if o[0] == "getlast" and any(a == _joined(o[1]) for a, _ in ext):
                scan = True
    return "D27-tuplekey" if tup else "D27-ioscan" if scan else None


# ---------------------------------------------------------------- Gallina
def _b(s):
    return coq_bytes(s.encode("latin-1"))


def _key(parts):
    return coq_list([_b(p) for p in parts], "bytes")


def _coq_op(o):
    name, k = o[0], _key(o[1])
    if name in ("put", "pin"):
        return f"(IoSub.{'OPut' if name == 'put' else 'OPin'} {k} {coq_list([_b(v) for v in o[2]], 'bytes')})"
    if name == "add":
        return f"(IoSub.OAdd {k} {_b(o[2])})"
    if name == "remval":
        return f"(IoSub.ORemVal {k} {_b(o[2])})"
    if name == "raise":
        return f"(IoSub.ORaise {k} {o[2]})"
    c = {"get": "OGet", "getfirst": "OGetFirst", "getlast": "OGetLast", "pop": "OPop", "rem": "ORem", "cnt": "OCnt"}[name]
    return f"(IoSub.{c} {k})"


def _coq_rv(r):
    t, v = r
    if t == "bool":
        return f"(IoSub.RBool {coq_bool(v)})"
    if t == "opt":
        return "(IoSub.ROpt None)" if v is None else f"(IoSub.ROpt (Some {_b(v)}))"
    if t == "list":
        return f"(IoSub.RList {coq_list([_b(x) for x in v], 'bytes')})"
    return f"(IoSub.RNat {coq_N(v)})"


def to_coq(case, obs):
    dom = case.get("env", "duror") == "subery"
    w = (lambda v: None if v is None else _wrap(v)) if dom else (lambda v: v)
    kinds = {"plain": "IoSub.Plain", "io": "IoSub.Io", "ioset": "IoSub.IoSet"}
    ops = []
    for kd, o2 in _resolve(case):
        o2 = list(o2)
        if o2[0] in ("put", "pin"):
            o2[2] = [w(v) for v in o2[2]]
        elif o2[0] in ("add", "remval"):
            o2[2] = w(o2[2])
        ops.append(f"({kinds[kd]}, {_coq_op(o2)})")
    res = []
    for r in obs["results"]:
        if r[0] != "ok":
            res.append(f"(Exc {r[1]})"); continue
        t, v = r[1]
        if t == "opt":
            v = w(v)
        elif t == "list":
            v = [w(x) for x in v]
        res.append(f"(Ok {_coq_rv([t, v])})")
    dumps = [coq_list([f"({_b(k)}, {_b(v)})" for k, v in d], "bytes * bytes") for d in obs["dump"]]
    return ("{| IoSub.c_ops := %s; IoSub.c_results := %s; IoSub.c_dump := %s |}" % (
        coq_list(ops, "IoSub.kind * IoSub.op"), coq_list(res, "res IoSub.rv"),
        coq_list(dumps, "list (bytes * bytes)")))


def nontrivial(case, obs):
    js = [_joined(p) for _, p in _keys_of(case)]
    if len(js) < 2:
        return False
    related = any(a != b and b.startswith(a) for a in js for b in js) or any("." in j or "_" in j for j in js)
    names = {o[0] for o in case["ops"]}
    return related and bool(names & {"put", "pin", "add", "pop", "rem", "remval"}) and \
        bool(names & {"get", "getfirst", "getlast", "cnt"})


def shrink(case):
    ops = case["ops"]
    for i in range(len(ops)):
        yield dict(case, ops=ops[:i] + ops[i + 1:])


def distribution(cases, obs):
    d = {"plain": 0, "io": 0, "ioset": 0, "multi": 0, "risky_keyset": 0, "ops": 0}
    for c in cases:
        d[c["kind"]] += 1
        d["ops"] += len(c["ops"])
        if classify(c, None, None) is not None:
            d["risky_keyset"] += 1
    return d
