(* Whole-run form of "forced exits in reverse enter order" (C02) for programs
   of class WX (class W and no extend()): the state handed to the final exit()
   has every deque sorted by enter position in its canonical (un-rotated) order,
   and the root's exit() ceases the root's alive doers in the reverse of it. *)
From Coq Require Import Sorting.Sorted.
From Hio Require Import Base.Prelude Base.AMap Base.Time Model.Sched Proofs.SchedEqs Proofs.SchedFrame Proofs.SchedLife
  Proofs.SchedTop Proofs.SchedDeque Proofs.SchedDequeHold Proofs.SchedDequeAll Proofs.SchedDequeUniq
  Proofs.SchedDequeOrder Proofs.SchedDequeEffects Proofs.SchedDequeTop Proofs.SchedDequeTop2
  Proofs.SchedDequeEpos Proofs.SchedDequeSortB Proofs.SchedDequeSortA.

Section Top3.
Context {T : Type} `{Time T}.
Implicit Types s : st T.

Lemma dids_rev (ds : list (deed T)) : dids (rev ds) = rev (dids ds).
Proof.
  induction ds as [|d ds IH]; [reflexivity|]. cbn [rev]. rewrite dids_app, IH.
  change (d :: ds) with ([d] ++ ds). rewrite dids_app, rev_app_distr. destruct d; reflexivity.
Qed.

Lemma gooda_init (p : prog T) : GoodA (init_st p).
Proof.
  split; intro x; unfold dq; rewrite init_deeds; [constructor|intros []].
Qed.

(* after the enter phase every deque lists its doers in enter order, no markers *)
Theorem enter_phase_sorted fuel (p : prog T) s1 r :
  WX (p_defs p) -> enter_own (p_tock p) fuel (init_st p) 0%N (p_doers p) = (s1, r) -> oof s1 = false -> GoodA s1.
Proof.
  intros Wx E O. destruct (sorta_all (p_tock p) fuel) as (_ & Ieo).
  eapply (Ieo (init_st p) []); [exact Wx|apply hold_init; exact (proj1 Wx)|apply hold2_init|now left|apply gooda_init|exact E|exact O].
Qed.

(* the state handed to the final exit() *)
Definition final_sorted s : Prop :=
  exists s0 k seg,
    trace s = {| e_kind := k; e_id := 0%N; e_tyme := tyme s0 |} :: seg ++ trace s0 /\
    (k = DoReturn \/ k = DoRaise) /\
    tops (rev (canon (dq s0 0%N))) seg = rev (canon (dq s0 0%N)) /\
    (forall x, srt (epos s0) (canon (dq s0 x))).

Lemma close_end3 tk fuel s k ord :
  (k = DoReturn \/ k = DoRaise) -> I s [] -> I2 s [] -> SrtF ord s -> (forall j, epos s j = ord j) ->
  oof (emit (close_own tk fuel s 0%N) k 0%N) = false -> final_sorted (emit (close_own tk fuel s 0%N) k 0%N).
Proof.
  intros Hk HI HI2 S Eo O.
  destruct (close_end2 tk fuel s k Hk HI HI2 O) as (s0 & k0 & seg & Tr & _ & _ & _ & Top).
  (* close_end2 chooses s0 := s; recover it from the statement *)
  change (oof (close_own tk fuel s 0%N) = false) in O.
  pose proof (oof_back_own _ _ _ _ O) as Os.
  destruct HI as [Ob|Hh]; [congruence|]. destruct HI2 as [Ob|Hh2]; [congruence|].
  destruct (close_own_order tk fuel s 0%N [] Hh Hh2 O) as (seg1 & Tr1 & Top1).
  exists s, k, seg1. split; [|split; [exact Hk|split]].
  - cbn [trace emit]. rewrite Tr1. f_equal. f_equal.
    destruct (frame_all tk fuel) as (_ & _ & _ & _ & Fco & _). apply (steps_tyme s). apply Fco, st_refl.
  - unfold canon. rewrite <- dids_rev. exact Top1.
  - intro x. eapply srt_ext; [|apply S]. intros y _. apply Eo.
Qed.

Lemma cycle_oof_back tk cycles : forall fuel s limit stop,
  oof (cycle_loop tk cycles fuel s limit stop) = false -> oof s = false.
Proof.
  induction cycles as [|c IH]; intros fuel s limit stop O; cbn [cycle_loop] in O; [cbn in O; discriminate|].
  destruct (recur_pass tk fuel s 0%N) as [s1 r] eqn:E.
  destruct (ob_all tk fuel) as (_ & _ & _ & Bco & _ & _ & Brp & _).
  assert (O1 : oof s1 = false).
  { destruct r as [t| |[|]|]; try (apply Bco in O; exact O); try exact O.
    - destruct (deeds (get_sched (set_tyme s1 (tadd (tyme s1) tk)) 0%N)); [apply Bco in O; exact O|].
      destruct (_ && _); [apply Bco in O; exact O|apply IH in O; exact O].
    - destruct (deeds (get_sched (set_tyme s1 (tadd (tyme s1) tk)) 0%N)); [apply Bco in O; exact O|].
      destruct (_ && _); [apply Bco in O; exact O|apply IH in O; exact O]. }
  eapply Brp; eassumption.
Qed.

Lemma cycle_sorted tk cycles ord : forall fuel s limit stop,
  I s [] -> I2 s [] -> XF (defs s) -> GoodB ord s -> mf (dq s 0%N) -> (forall j, epos s j = ord j) ->
  oof (cycle_loop tk cycles fuel s limit stop) = false -> final_sorted (cycle_loop tk cycles fuel s limit stop).
Proof.
  induction cycles as [|c IH]; intros fuel s limit stop HI HI2 X G M Eo O; [cbn in O; discriminate|].
  pose proof O as O'. cbn [cycle_loop] in O |- *.
  destruct (recur_pass tk fuel s 0%N) as [s1 r] eqn:E.
  destruct (hold_all tk fuel) as (_ & _ & _ & _ & _ & _ & _ & _ & _ & Irp & _).
  destruct (hold2_all tk fuel) as (_ & _ & _ & _ & _ & _ & _ & _ & _ & Jrp & _).
  destruct (ob_all tk fuel) as (_ & _ & _ & Bco & _ & _ & Brp & _).
  assert (I1 : I s1 []) by (eapply Irp; [exact HI|now left|exact E]).
  assert (J1 : I2 s1 []) by (eapply Jrp; [exact HI2|exact E]).
  assert (O1 : oof s1 = false).
  { destruct r as [t| |[|]|]; try (apply Bco in O; exact O); try exact O.
    - destruct (deeds (get_sched (set_tyme s1 (tadd (tyme s1) tk)) 0%N)); [apply Bco in O; exact O|].
      destruct (_ && _); [apply Bco in O; exact O|apply cycle_oof_back in O; exact O].
    - destruct (deeds (get_sched (set_tyme s1 (tadd (tyme s1) tk)) 0%N)); [apply Bco in O; exact O|].
      destruct (_ && _); [apply Bco in O; exact O|apply cycle_oof_back in O; exact O]. }
  assert (W0 : own' s 0%N) by (split; [right; split; [reflexivity|exact (proj1 X)]|intro Hz; now destruct Hz]).
  destruct (srtb_all tk ord fuel) as (_ & _ & _ & _ & _ & _ & Srp & _).
  destruct (Srp s 0%N s1 r X W0 M G E O1) as [G1 P1].
  destruct (noenter_all tk fuel) as (_ & _ & _ & _ & _ & _ & Nrp & _).
  assert (E1 : forall j, epos s1 j = ord j).
  { intro j. rewrite <- Eo. apply nen_epos. eapply Nrp; [exact X|apply nen_refl|exact E]. }
  assert (X1 : XF (defs s1)).
  { destruct (frame_all tk fuel) as (_ & _ & _ & _ & _ & _ & _ & _ & _ & Frp & _).
    rewrite (steps_defs s s1); [exact X|]. eapply Frp; [apply st_refl|exact E]. }
  assert (Tick : final_sorted (match deeds (get_sched (set_tyme s1 (tadd (tyme s1) tk)) 0%N) with
           | [] => emit (close_own tk fuel (set_done (set_tyme s1 (tadd (tyme s1) tk)) 0%N (Some true)) 0%N) DoReturn 0%N
           | _ :: _ =>
               if match limit with Some l => negb (tfalsy l) | None => false end && tleb stop (tyme (set_tyme s1 (tadd (tyme s1) tk)))
               then emit (close_own tk fuel (set_tyme s1 (tadd (tyme s1) tk)) 0%N) DoReturn 0%N
               else cycle_loop tk c fuel (set_tyme s1 (tadd (tyme s1) tk)) limit stop
           end) \/ (forall t, r <> GYield t) /\ r <> GReturn).
  { destruct r as [t| |kbd|]; try (right; split; [intro; discriminate|discriminate]); left.
    - destruct (deeds (get_sched (set_tyme s1 (tadd (tyme s1) tk)) 0%N)).
      + apply (close_end3 _ _ _ _ ord); [now left|exact I1|exact J1|exact (proj1 G1)|exact E1|exact O].
      + destruct (_ && _).
        * apply (close_end3 _ _ _ _ ord); [now left|exact I1|exact J1|exact (proj1 G1)|exact E1|exact O].
        * apply IH; [exact I1|exact J1|exact X1|exact G1|exact P1|exact E1|exact O].
    - destruct (deeds (get_sched (set_tyme s1 (tadd (tyme s1) tk)) 0%N)).
      + apply (close_end3 _ _ _ _ ord); [now left|exact I1|exact J1|exact (proj1 G1)|exact E1|exact O].
      + destruct (_ && _).
        * apply (close_end3 _ _ _ _ ord); [now left|exact I1|exact J1|exact (proj1 G1)|exact E1|exact O].
        * apply IH; [exact I1|exact J1|exact X1|exact G1|exact P1|exact E1|exact O]. }
  destruct r as [t| |[|]|].
  - destruct Tick as [Tk|[Hn _]]; [exact Tk|now destruct (Hn t)].
  - destruct Tick as [Tk|[_ Hn]]; [exact Tk|now destruct Hn].
  - apply (close_end3 _ _ _ _ ord); [now left|exact I1|exact J1|exact (proj1 G1)|exact E1|exact O].
  - apply (close_end3 _ _ _ _ ord); [now right|exact I1|exact J1|exact (proj1 G1)|exact E1|exact O].
  - destruct (fuel_all tk fuel) as (_ & _ & _ & _ & _ & _ & K & _). rewrite (K _ _ _ E) in O. discriminate.
Qed.

Theorem do_run_exit_order cycles fuel (p : prog T) :
  WX (p_defs p) -> oof (do_run cycles fuel p) = false -> final_sorted (do_run cycles fuel p).
Proof.
  intros Wx O. unfold do_run in *.
  destruct (enter_own (p_tock p) fuel (init_st p) 0%N (p_doers p)) as [s1 r] eqn:E.
  destruct (hold_all (p_tock p) fuel) as (_ & _ & _ & _ & _ & _ & Ieo & _).
  destruct (hold2_all (p_tock p) fuel) as (_ & _ & _ & _ & _ & _ & Jeo & _).
  destruct (ob_all (p_tock p) fuel) as (_ & _ & _ & Bco & _).
  assert (I1 : I s1 []) by (eapply Ieo; [right; apply hold_init; exact (proj1 Wx)|now left|exact E]).
  assert (J1 : I2 s1 []) by (eapply Jeo; [right; apply hold2_init|exact E]).
  assert (O1 : oof s1 = false).
  { destruct r as [t| |kbd|]; try exact O; try (apply Bco in O; exact O); apply cycle_oof_back in O; exact O. }
  pose proof (enter_phase_sorted fuel p s1 r Wx E O1) as [S1 M1].
  assert (SF : SrtF (epos s1) s1) by (intro x; rewrite (canon_mf _ (M1 x)); apply S1).
  assert (X1 : XF (defs s1)).
  { destruct (frame_all (p_tock p) fuel) as (_ & _ & _ & _ & _ & _ & Feo & _).
    rewrite (steps_defs (init_st p) s1); [exact (proj2 Wx)|]. eapply Feo; [apply st_refl|exact E]. }
  assert (G1 : GoodB (epos s1) s1) by (split; [exact SF|intros x _ Nm; now destruct (Nm (M1 x))]).
  destruct r as [t| |kbd|].
  - apply (cycle_sorted _ _ (epos s1)); [exact I1|exact J1|exact X1|exact G1|apply M1|reflexivity|exact O].
  - apply (cycle_sorted _ _ (epos s1)); [exact I1|exact J1|exact X1|exact G1|apply M1|reflexivity|exact O].
  - apply (close_end3 _ _ _ _ (epos s1)); [now right|exact I1|exact J1|exact SF|reflexivity|exact O].
  - exact (False_ind _ (eq_true_false_abs _ (match fuel_all (p_tock p) fuel with
                                             | conj _ (conj _ (conj _ (conj K _))) => K _ _ _ _ E end) O)).
Qed.

(* ---------- executable form of the class WX, and a non-trivial member ---------- *)

Definition XFb (d : amap (fdef T)) : bool :=
  match get d 0%N with None => true | Some _ => false end &&
  forallb (fun '(i, fd) => match fd with
                           | FLeaf k sc => forallb (fun stp => forallb is_remove (f_es stp)) sc
                           | FNest _ _ _ => true
                           end) d.
Definition WXb (d : amap (fdef T)) : bool := Wb d && XFb d.

Lemma XFb_XF d : XFb d = true -> XF d.
Proof.
  unfold XFb. intro Hb. apply andb_true_iff in Hb. destruct Hb as [H0 Hall].
  rewrite forallb_forall in Hall. split.
  - destruct (get d 0%N); [discriminate|reflexivity].
  - intros i k sc pc D. specialize (Hall _ (get_in _ _ _ D)). cbn in Hall. rewrite forallb_forall in Hall.
    destruct (nth_in_or_default pc sc default_step) as [Hin|Hd]; [|rewrite Hd; constructor].
    specialize (Hall _ Hin). rewrite forallb_forall in Hall. apply Forall_forall. intros e He.
    specialize (Hall e He). destruct e; [discriminate|exact Logic.I].
Qed.

Lemma WXb_WX d : WXb d = true -> WX d.
Proof.
  unfold WXb. intro Hb. apply andb_true_iff in Hb. destruct Hb as [Hw Hx]. split; [now apply Wb_W|now apply XFb_XF].
Qed.

End Top3.

(* nested DoDoer, a remove() at run time, a raise in the middle of a pass of the
   nested DoDoer: enters 1 2 3 4 5 6; doer 1 removes 5; 4 raises in its third recur *)
Definition x_prog : prog Z :=
  let Y := {| f_es := []; f_out := OYield None |} in
  let X := {| f_es := []; f_out := ORaise |} in
  {| p_tock := 1%Z; p_limit := None; p_tyme := 0%Z; p_doers := [1; 2; 5; 6]%N;
     p_defs := [(1, FLeaf KFunc [Y; {| f_es := [ERemove 0 [5]]; f_out := OYield None |}; Y; Y; Y]);
                (2, FNest 0%Z true [3; 4]);
                (3, FLeaf KDoer [Y; Y; Y; Y; Y]); (4, FLeaf KDoerGen [Y; Y; Y; X]);
                (5, FLeaf KFunc [Y; Y; Y; Y]); (6, FLeaf KDoer [Y; Y; Y; Y; Y; Y])]%N |}.
Definition kind_ids (k : ekind) (s : st Z) : list id :=
  map e_id (filter (fun e => match e_kind e, k with Enter, Enter | Cease, Cease => true | _, _ => false end)
                   (rev (trace s))).
Example x_prog_ok :
  WXb (p_defs x_prog) = true /\ oof (do_run 10 100 x_prog) = false /\
  kind_ids Enter (do_run 10 100 x_prog) = [1; 2; 3; 4; 5; 6]%N /\
  kind_ids Cease (do_run 10 100 x_prog) = [5; 3; 6; 1]%N.
Proof. vm_compute. repeat split. Qed.
