(* Id 0 is only the root: when the program defines no doer 0, no interpreter
   function ever touches the generator slot of id 0. *)
From Hio Require Import Base.Prelude Base.AMap Base.Time Model.Sched Proofs.SchedEqs Proofs.SchedFrame Proofs.SchedLife
  Proofs.SchedDeque.

Section Root0.
Context {T : Type} `{Time T}.
Implicit Types s a b : st T.
Variable tk : T.
Variable d : amap (fdef T).
Hypothesis D0 : get d 0%N = None.

Definition Z0 a s : Prop := get_gen s 0%N = get_gen a 0%N /\ defs s = d.

Lemma z_emit a s k i : Z0 a s -> Z0 a (emit s k i). Proof. exact (fun x => x). Qed.
Lemma z_done a s i x : Z0 a s -> Z0 a (set_done s i x). Proof. exact (fun x => x). Qed.
Lemma z_sched a s i c : Z0 a s -> Z0 a (set_sched s i c). Proof. exact (fun x => x). Qed.
Lemma z_deeds a s i c : Z0 a s -> Z0 a (set_deeds s i c). Proof. exact (fun x => x). Qed.
Lemma z_oof a s : Z0 a s -> Z0 a (out_of_fuel s). Proof. exact (fun x => x). Qed.
Lemma z_if a s1 s2 (c : bool) : Z0 a s1 -> Z0 a s2 -> Z0 a (if c then s1 else s2). Proof. destruct c; auto. Qed.
Lemma z_gen a s i g : i <> 0%N -> Z0 a s -> Z0 a (set_gen s i g).
Proof. intros Hne [G D]. split; [|exact D]. rewrite gen_set_gen_other by congruence. exact G. Qed.
Lemma z_ne s i x : defs s = d -> get (defs s) i = Some x -> i <> 0%N.
Proof. intros Dd G Heq. subst i. rewrite Dd, D0 in G. discriminate. Qed.

Definition z_at (f : nat) : Prop :=
  (forall a s i s' r, Z0 a s -> gen_start tk f s i = (s', r) -> Z0 a s') /\
  (forall a s i k sc pc s' r, Z0 a s -> i <> 0%N -> run_step tk f s i k sc pc = (s', r) -> Z0 a s') /\
  (forall a s i s' r, Z0 a s -> gen_send tk f s i = (s', r) -> Z0 a s') /\
  (forall a s i, Z0 a s -> Z0 a (gen_close tk f s i)) /\
  (forall a s i, Z0 a s -> Z0 a (close_own tk f s i)) /\
  (forall a s ds, Z0 a s -> Z0 a (close_list tk f s ds)) /\
  (forall a s sid ids s' r, Z0 a s -> enter_own tk f s sid ids = (s', r) -> Z0 a s') /\
  (forall a s ids acc s' r acc', Z0 a s -> enter_local tk f s ids acc = (s', r, acc') -> Z0 a s') /\
  (forall a s c es s' r, Z0 a s -> run_effects tk f s c es = (s', r) -> Z0 a s') /\
  (forall a s sid s' r, Z0 a s -> recur_pass tk f s sid = (s', r) -> Z0 a s') /\
  (forall a s sid s' r, Z0 a s -> recur_loop tk f s sid = (s', r) -> Z0 a s').

Lemma z_all : forall f, z_at f.
Proof.
  induction f as [|f IH].
  - unfold z_at. repeat match goal with |- _ /\ _ => split end; intros;
      try match goal with E : _ = _ |- _ => cbn in E; inversion E; subst; clear E end; cbn; assumption.
  - destruct IH as (Ist & Irs & Isd & Icl & Ico & Ili & Ieo & Iel & Ief & Irp & Irl).
    Ltac goZ Ist Irs Isd Icl Ico Ili Ieo Iel Ief Irp Irl :=
      let rec loop :=
        match goal with
        | H : Z0 ?a ?s |- Z0 ?a ?s => exact H
        | |- _ <> 0%N => first [assumption | eapply z_ne; [|eassumption]; match goal with H : Z0 _ _ |- _ => exact (proj2 H) end]
        | |- Z0 _ (emit _ _ _) => apply z_emit; loop
        | |- Z0 _ (set_gen _ _ _) => apply z_gen; loop
        | |- Z0 _ (set_done _ _ _) => apply z_done; loop
        | |- Z0 _ (set_deeds _ _ _) => apply z_deeds; loop
        | |- Z0 _ (set_sched _ _ _) => apply z_sched; loop
        | |- Z0 _ (out_of_fuel _) => apply z_oof; loop
        | |- Z0 _ (if _ then _ else _) => apply z_if; loop
        | |- Z0 _ (gen_close _ _ _ _) => apply Icl; loop
        | |- Z0 _ (close_own _ _ _ _) => apply Ico; loop
        | |- Z0 _ (close_list _ _ _ _) => apply Ili; loop
        | E : gen_start _ _ _ _ = (?s1, _) |- Z0 _ ?s1 => eapply Ist; [|exact E]; loop
        | E : run_step _ _ _ _ _ _ _ = (?s1, _) |- Z0 _ ?s1 => eapply Irs; [| |exact E]; loop
        | E : gen_send _ _ _ _ = (?s1, _) |- Z0 _ ?s1 => eapply Isd; [|exact E]; loop
        | E : enter_own _ _ _ _ _ = (?s1, _) |- Z0 _ ?s1 => eapply Ieo; [|exact E]; loop
        | E : enter_local _ _ _ _ _ = (?s1, _, _) |- Z0 _ ?s1 => eapply Iel; [|exact E]; loop
        | E : run_effects _ _ _ _ _ = (?s1, _) |- Z0 _ ?s1 => eapply Ief; [|exact E]; loop
        | E : recur_pass _ _ _ _ = (?s1, _) |- Z0 _ ?s1 => eapply Irp; [|exact E]; loop
        | E : recur_loop _ _ _ _ = (?s1, _) |- Z0 _ ?s1 => eapply Irl; [|exact E]; loop
        end in loop.
    unfold z_at. repeat match goal with |- _ /\ _ => split end; intros.
    + rewrite gen_start_S in *. brk; fin; goZ Ist Irs Isd Icl Ico Ili Ieo Iel Ief Irp Irl.
    + rewrite run_step_S in *. brk; fin; goZ Ist Irs Isd Icl Ico Ili Ieo Iel Ief Irp Irl.
    + rewrite gen_send_S in *. brk; fin; goZ Ist Irs Isd Icl Ico Ili Ieo Iel Ief Irp Irl.
    + rewrite gen_close_S. brk; goZ Ist Irs Isd Icl Ico Ili Ieo Iel Ief Irp Irl.
    + rewrite close_own_S. cbv zeta. goZ Ist Irs Isd Icl Ico Ili Ieo Iel Ief Irp Irl.
    + rewrite close_list_S. brk; goZ Ist Irs Isd Icl Ico Ili Ieo Iel Ief Irp Irl.
    + rewrite enter_own_S in *. brk; fin; goZ Ist Irs Isd Icl Ico Ili Ieo Iel Ief Irp Irl.
    + rewrite enter_local_S in *. brk; fin; goZ Ist Irs Isd Icl Ico Ili Ieo Iel Ief Irp Irl.
    + rewrite run_effects_S in *. brk; fin; goZ Ist Irs Isd Icl Ico Ili Ieo Iel Ief Irp Irl.
    + rewrite recur_pass_S in *. cbv zeta in *. goZ Ist Irs Isd Icl Ico Ili Ieo Iel Ief Irp Irl.
    + rewrite recur_loop_S in *. brk; fin; goZ Ist Irs Isd Icl Ico Ili Ieo Iel Ief Irp Irl.
Qed.

End Root0.
