(* Membership (C06): refinement of the doers list of a scheduler to a list
   specification.  One resumption of a doer executes a sequence of effects; the
   doers list of any scheduler t afterwards is the list before, transformed by
   the specification operations of the executed effects on t, in order.
   Class NE0: doers run no effect in their first resumption (then entering new
   doers cannot interleave further membership changes). *)
From Hio Require Import Base.Prelude Base.AMap Base.Time Model.Sched Proofs.SchedEqs Proofs.SchedFrame Proofs.SchedLife
  Proofs.SchedDeque Proofs.SchedDequeHold Proofs.SchedDequeAll Proofs.SchedDequeEffects.

Section Members.
Context {T : Type} `{Time T}.
Implicit Types s a b : st T.
Variable tk : T.

(* the list specification *)
Inductive mop := MExt (news : list id) | MRem (who : list id).
Definition apply_mop (l : list id) (o : mop) : list id :=
  match o with
  | MExt news => l ++ dedupe (filter (fun d => negb (memN d l)) news) []
  | MRem who => fold_left (fun l d => remove_first d l) (dedupe (filter (fun d => memN d l) who) []) l
  end.
Definition ops_on (t : id) (es : list effect) : list mop :=
  flat_map (fun e => match e with
                     | EExtend t' n => if N.eqb t' t then [MExt n] else []
                     | ERemove t' w => if N.eqb t' t then [MRem w] else []
                     end) es.

Inductive subs {A} : list A -> list A -> Prop :=
| subs_nil l : subs [] l
| subs_take x l1 l2 : subs l1 l2 -> subs (x :: l1) (x :: l2)
| subs_skip x l1 l2 : subs l1 l2 -> subs l1 (x :: l2).

Lemma subs_app_skip {A} (p l1 l2 : list A) : subs l1 l2 -> subs l1 (p ++ l2).
Proof. induction p as [|x p IH]; intro S; [exact S|]. cbn. apply subs_skip. now apply IH. Qed.

Definition NE0 (d : amap (fdef T)) : Prop :=
  forall i k sc, get d i = Some (FLeaf k sc) -> f_es (nth 0 sc default_step) = [].

Definition dsame s s' : Prop := forall x, doers (get_sched s' x) = doers (get_sched s x).
Lemma dsame_refl s : dsame s s. Proof. intro; reflexivity. Qed.
Lemma dsame_trans a b c : dsame a b -> dsame b c -> dsame a c.
Proof. intros H1 H2 x. now rewrite H2, H1. Qed.
Lemma dsame_deeds s sid l : dsame s (set_deeds s sid l).
Proof.
  intro x. unfold set_deeds. destruct (N.eq_dec x sid) as [Heq|Hne]; [subst x; now rewrite sched_set_same|now rewrite sched_set_other].
Qed.

(* entering doers that run no effect in their first resumption changes no doers list *)
Definition dstart_at (f : nat) : Prop :=
  (forall s i s' r, NE0 (defs s) -> gen_start tk f s i = (s', r) -> dsame s s') /\
  (forall s sid ids s' r, NE0 (defs s) -> enter_own tk f s sid ids = (s', r) -> dsame s s') /\
  (forall s ids acc s' r acc', NE0 (defs s) -> enter_local tk f s ids acc = (s', r, acc') -> dsame s s').

Lemma ne0_defs s s' : defs s' = defs s -> NE0 (defs s) -> NE0 (defs s').
Proof. intros E N. now rewrite E. Qed.

Lemma dstart_all : forall f, dstart_at f.
Proof.
  induction f as [|f (Ist & Ieo & Iel)].
  - repeat split; intros; match goal with E : _ = _ |- _ => cbn in E; inversion E; subst; clear E end; intro; reflexivity.
  - destruct (doers_close tk f) as (Dcl & Dco & Dli).
    repeat split.
    + intros s i s' r N E. rewrite gen_start_S in E.
      destruct (startable s i); cbn [negb] in E; [|fin; apply dsame_refl].
      destruct (get (defs s) i) as [[k sc|t0 al kids]|] eqn:D; [| |fin; apply dsame_refl].
      * (* a leaf: its first resumption runs no effect *)
        destruct f as [|f']; [cbn in E; fin; intro; reflexivity|].
        rewrite run_step_S in E. cbv zeta in E. rewrite (N i k sc D) in E.
        destruct f' as [|f'']; [cbn in E; fin; intro; reflexivity|].
        rewrite run_effects_S in E. cbv beta iota zeta in E.
        destruct (f_out _); fin; intro; reflexivity.
      * cbv zeta in E. destruct (enter_own tk f _ i _) as [s2 r0] eqn:Ee.
        assert (D2 : dsame s s2) by (intro x; exact (Ieo (emit (set_gen s i (GRun 0)) Enter i) _ _ _ _ N Ee x)).
        destruct r0; fin; try exact D2.
        intro x. cbn [get_sched set_gen emit scheds]. change (doers (get_sched (close_own tk f (if kbd then s2 else emit s2 Abort i) i) x) = doers (get_sched s x)).
        rewrite Dco. destruct kbd; apply D2.
    + intros s sid ids s' r N E. rewrite enter_own_S in E.
      destruct ids as [|i rest]; [fin; apply dsame_refl|]. cbv zeta in E.
      destruct (gen_start tk f _ i) as [s1 r0] eqn:Eg.
      assert (D1 : dsame s s1) by (intro x; exact (Ist (set_done s i (Some false)) _ _ _ N Eg x)).
      assert (N1 : NE0 (defs s1)).
      { eapply ne0_defs; [|exact N]. destruct (defs_all tk f) as (K & _). now rewrite (K _ _ _ _ Eg). }
      destruct r0; fin; try exact D1.
      * eapply dsame_trans; [exact D1|]. eapply dsame_trans; [apply dsame_deeds|]. eapply Ieo; [|exact E]. exact N1.
      * eapply dsame_trans; [exact D1|]. eapply Ieo; [exact N1|exact E].
    + intros s ids acc s' r acc' N E. rewrite enter_local_S in E.
      destruct ids as [|i rest]; [fin; apply dsame_refl|]. cbv zeta in E.
      destruct (gen_start tk f _ i) as [s1 r0] eqn:Eg.
      assert (D1 : dsame s s1) by (intro x; exact (Ist (set_done s i (Some false)) _ _ _ N Eg x)).
      assert (N1 : NE0 (defs s1)).
      { eapply ne0_defs; [|exact N]. destruct (defs_all tk f) as (K & _). now rewrite (K _ _ _ _ Eg). }
      destruct r0; fin; try exact D1.
      * eapply dsame_trans; [exact D1|]. eapply Iel; [exact N1|exact E].
      * eapply dsame_trans; [exact D1|]. eapply Iel; [exact N1|exact E].
      * intro x. rewrite Dli. apply D1.
Qed.

(* the refinement, for the effects of one resumption *)
Theorem members_refine : forall f s c es s' r t,
  NE0 (defs s) -> run_effects tk f s c es = (s', r) ->
  exists ops, subs ops (ops_on t es) /\ doers (get_sched s' t) = fold_left apply_mop ops (doers (get_sched s t)).
Proof.
  induction f as [|f IH]; intros s c es s' r t N E.
  - cbn in E. fin. exists []. split; [constructor|reflexivity].
  - rewrite run_effects_S in E. destruct es as [|e rest]; [fin; exists []; split; [constructor|reflexivity]|].
    assert (Skip : forall s0, NE0 (defs s0) -> run_effects tk f s0 c rest = (s', r) ->
                   doers (get_sched s0 t) = doers (get_sched s t) ->
                   exists ops, subs ops (ops_on t (e :: rest)) /\
                               doers (get_sched s' t) = fold_left apply_mop ops (doers (get_sched s t))).
    { intros s0 N0 E0 D0. destruct (IH _ _ _ _ _ t N0 E0) as (ops & S & F). exists ops. split.
      - cbn [ops_on flat_map]. now apply subs_app_skip.
      - now rewrite F, D0. }
    destruct (negb (live s match e with EExtend t0 _ => t0 | ERemove t0 _ => t0 end)); [now apply (Skip s)|].
    destruct e as [t' news|t' who]; cbv zeta in E.
    + destruct (enter_local tk f s _ []) as [[s1 r0] acc] eqn:Ee.
      destruct (dstart_all f) as (_ & _ & Iel). pose proof (Iel _ _ _ _ _ _ N Ee) as D1.
      assert (N1 : NE0 (defs s1)).
      { eapply ne0_defs; [|exact N]. destruct (defs_all tk f) as (_ & _ & _ & K & _). now rewrite (K _ _ _ _ _ _ Ee). }
      assert (Stop : doers (get_sched s1 t) = doers (get_sched s t) ->
                     exists ops, subs ops (ops_on t (EExtend t' news :: rest)) /\
                                 doers (get_sched s1 t) = fold_left apply_mop ops (doers (get_sched s t))).
      { intro D0. exists []. split; [constructor|exact D0]. }
      destruct r0; fin; try (apply Stop; apply D1).
      * (* GYield *)
        destruct (N.eq_dec t' t) as [Heq|Hne].
        -- subst t'. destruct ((fun n => IH _ _ _ _ _ t n E) N1) as (ops & S & F). exists (MExt news :: ops). split.
           ++ cbn [ops_on flat_map]. rewrite N.eqb_refl. cbn [app]. now apply subs_take.
           ++ rewrite F. cbn [fold_left apply_mop]. f_equal.
              change (get_sched (emit (set_sched s1 t {| doers := doers (get_sched s1 t) ++ dedupe (filter (fun d => negb (memN d (doers (get_sched s t)))) news) [];
                                                           deeds := deeds (get_sched s1 t) ++ acc |}) ExtRet c) t)
                with (get_sched (set_sched s1 t {| doers := doers (get_sched s1 t) ++ dedupe (filter (fun d => negb (memN d (doers (get_sched s t)))) news) [];
                                                     deeds := deeds (get_sched s1 t) ++ acc |}) t).
              rewrite sched_set_same. cbn [doers]. now rewrite (D1 t).
        -- apply ((fun n => Skip _ n E) N1).
           change (get_sched (emit (set_sched s1 t' {| doers := doers (get_sched s1 t') ++ dedupe (filter (fun d => negb (memN d (doers (get_sched s t')))) news) [];
                                                         deeds := deeds (get_sched s1 t') ++ acc |}) ExtRet c) t)
             with (get_sched (set_sched s1 t' {| doers := doers (get_sched s1 t') ++ dedupe (filter (fun d => negb (memN d (doers (get_sched s t')))) news) [];
                                                   deeds := deeds (get_sched s1 t') ++ acc |}) t).
           rewrite sched_set_other by congruence. apply D1.
      * (* GReturn *)
        destruct (N.eq_dec t' t) as [Heq|Hne].
        -- subst t'. destruct ((fun n => IH _ _ _ _ _ t n E) N1) as (ops & S & F). exists (MExt news :: ops). split.
           ++ cbn [ops_on flat_map]. rewrite N.eqb_refl. cbn [app]. now apply subs_take.
           ++ rewrite F. cbn [fold_left apply_mop]. f_equal.
              change (get_sched (emit (set_sched s1 t {| doers := doers (get_sched s1 t) ++ dedupe (filter (fun d => negb (memN d (doers (get_sched s t)))) news) [];
                                                           deeds := deeds (get_sched s1 t) ++ acc |}) ExtRet c) t)
                with (get_sched (set_sched s1 t {| doers := doers (get_sched s1 t) ++ dedupe (filter (fun d => negb (memN d (doers (get_sched s t)))) news) [];
                                                     deeds := deeds (get_sched s1 t) ++ acc |}) t).
              rewrite sched_set_same. cbn [doers]. now rewrite (D1 t).
        -- apply ((fun n => Skip _ n E) N1).
           change (get_sched (emit (set_sched s1 t' {| doers := doers (get_sched s1 t') ++ dedupe (filter (fun d => negb (memN d (doers (get_sched s t')))) news) [];
                                                         deeds := deeds (get_sched s1 t') ++ acc |}) ExtRet c) t)
             with (get_sched (set_sched s1 t' {| doers := doers (get_sched s1 t') ++ dedupe (filter (fun d => negb (memN d (doers (get_sched s t')))) news) [];
                                                   deeds := deeds (get_sched s1 t') ++ acc |}) t).
           rewrite sched_set_other by congruence. apply D1.
    + (* remove *)
      destruct (doers_close tk f) as (_ & _ & Dli).
      match type of E with run_effects tk f (emit (close_list tk f ?s1 ?l) RemRet c) c rest = _ =>
        assert (N1 : NE0 (defs (emit (close_list tk f s1 l) RemRet c)))
          by (eapply ne0_defs; [|exact N]; change (defs (close_list tk f s1 l) = defs s);
              destruct (defs_all tk f) as (_ & _ & K & _); now rewrite K);
        assert (Dx : forall x, doers (get_sched (emit (close_list tk f s1 l) RemRet c) x) = doers (get_sched s1 x))
          by (intro x; change (doers (get_sched (close_list tk f s1 l) x) = doers (get_sched s1 x)); apply Dli)
      end.
      destruct (N.eq_dec t' t) as [Heq|Hne].
      * subst t'. destruct ((fun n => IH _ _ _ _ _ t n E) N1) as (ops & S & F). exists (MRem who :: ops). split.
        -- cbn [ops_on flat_map]. rewrite N.eqb_refl. cbn [app]. now apply subs_take.
        -- rewrite F. cbn [fold_left apply_mop]. f_equal. rewrite Dx, sched_set_same. reflexivity.
      * apply ((fun n => Skip _ n E) N1). rewrite Dx. now rewrite sched_set_other by congruence.
Qed.

(* executable form of the class *)
Definition NE0b (d : amap (fdef T)) : bool :=
  forallb (fun '(i, fd) => match fd with
                           | FLeaf k sc => match f_es (nth 0 sc default_step) with [] => true | _ :: _ => false end
                           | FNest _ _ _ => true
                           end) d.
Lemma get_in' {V} (m : amap V) k v : get m k = Some v -> In (k, v) m.
Proof.
  induction m as [|[k' v'] m IH]; cbn; [discriminate|].
  destruct (N.eqb k k') eqn:E.
  - intro Hv. inversion Hv. apply N.eqb_eq in E. subst. now left.
  - intro Hv. right. now apply IH.
Qed.
Lemma NE0b_NE0 d : NE0b d = true -> NE0 d.
Proof.
  unfold NE0b. rewrite forallb_forall. intros Hall i k sc D. specialize (Hall _ (get_in' _ _ _ D)). cbn in Hall.
  destruct (f_es (nth 0 sc default_step)); [reflexivity|discriminate].
Qed.

End Members.
