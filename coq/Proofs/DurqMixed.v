(* Durq and Dusq objects side by side in one Subery: the durable side is keyed by
   (kind, key) because the two kinds live in two differently named sub-dbs. *)
From Hio Require Import Base.Prelude Base.ListFacts Model.Lmdb Model.IoSub Model.Durq
  Proofs.IoSubBlock Proofs.IoSubProofs Proofs.DurqProofs.

Lemma subkey_inj kd kd' : subkey_of kd = subkey_of kd' -> kd = kd'.
Proof. destruct kd, kd'; auto; vm_compute; discriminate. Qed.

Lemma subkey_other kd : subkey_of (negb kd) <> subkey_of kd.
Proof. intros H. apply subkey_inj in H. now destruct kd. Qed.

(* an operation on a queue of one kind never touches the sub-db of the other kind,
   whatever the store machine *)
Lemma mixed_independent pyeq (S : Type) sstep sview kd q (E : menv S) st o :
  fst (fst (mstep pyeq S sstep sview kd q E st o)) (subkey_of (negb kd)) = E (subkey_of (negb kd)).
Proof.
  unfold mstep. destruct (gstep pyeq S sstep sview kd q (E (subkey_of kd)) st o) as [[s' st'] r].
  cbn [fst]. apply upd_other_b. apply subkey_other.
Qed.

Section M.
  Variable pyeq : bytes -> bytes -> bool.
  Hypothesis pyeq_ser : forall a b, pyeq a b = true <-> a = b.

  Lemma any_step kd q s st o :
    s q = mem st -> (kd = true -> NoDup (mem st)) -> wf_op o ->
    step_ok pyeq kd q s st o /\ (kd = true -> NoDup (mem (snd (fst (qstep pyeq kd q s st o))))).
  Proof.
    intros I ND W. destruct kd.
    - destruct (dusq_step pyeq pyeq_ser q s st o I (ND eq_refl) W) as [H1 H2]. split; auto.
    - split; [now apply durq_step|discriminate].
  Qed.

  Lemma mref_run_ext ops : forall ls1 ls2, (forall kd q, ls1 kd q = ls2 kd q) ->
    mref_run pyeq ls1 ops = mref_run pyeq ls2 ops.
  Proof.
    induction ops as [|[[kd q] o] ops IH]; intros ls1 ls2 E; simpl; [reflexivity|].
    rewrite (E kd q). destruct (ref_step pyeq kd (ls2 kd q) o) as [l' r]. f_equal.
    apply IH. intros kd' q'. destruct (Bool.eqb kd' kd && N.eqb q' q); auto.
  Qed.

  Theorem mixed_run : forall ops (E : menv store) qs,
    (forall kd q, E (subkey_of kd) q = mem (qs kd q) /\ (kd = true -> NoDup (mem (qs kd q)))) ->
    Forall (fun x => wf_op (snd x)) ops ->
    mrun_ok ops (mrun pyeq store spec_sstep spec_view E qs ops)
                (mref_run pyeq (fun kd q => mem (qs kd q)) ops).
  Proof.
    induction ops as [|[[kd q] o] ops IH]; intros E qs Inv Wf; [exact I|].
    inversion Wf as [|? ? Wo Wf']; subst. cbn [snd] in Wo.
    destruct (Inv kd q) as [Iq Nq].
    destruct (any_step kd q (E (subkey_of kd)) (qs kd q) o Iq Nq Wo) as [Hok HN].
    unfold step_ok, qstep in Hok, HN. cbn [mrun mref_run]. unfold mstep.
    destruct (gstep pyeq store spec_sstep spec_view kd q (E (subkey_of kd)) (qs kd q) o) as [[s' st'] r].
    cbn [fst snd] in HN. destruct Hok as [Hs [Hfr [Hm Hr]]].
    destruct (ref_step pyeq kd (mem (qs kd q)) o) as [l' r'] eqn:R. cbn [fst snd] in Hm, Hr.
    cbn [sn_mem sn_store sn_res mrun_ok]. rewrite upd_same_b. unfold spec_view at 1.
    split; [exact Hm|]. split; [congruence|]. split; [exact Hr|].
    rewrite (mref_run_ext ops _ (fun kd' q' => mem (mqupd qs kd q st' kd' q'))).
    - apply IH; auto. intros kd' q'. unfold mqupd.
      destruct (Bool.eqb kd' kd) eqn:Ek.
      + apply Bool.eqb_prop in Ek. subst kd'. rewrite upd_same_b. cbn [andb].
        destruct (N.eqb q' q) eqn:Eq.
        * apply N.eqb_eq in Eq. subst q'. split; auto.
        * assert (q' <> q) by (intros ->; rewrite N.eqb_refl in Eq; discriminate).
          rewrite Hfr by assumption. apply Inv.
      + cbn [andb]. rewrite upd_other_b; [apply Inv|].
        intros H. apply subkey_inj in H. subst. rewrite Bool.eqb_reflx in Ek. discriminate.
    - intros kd' q'. unfold mqupd. destruct (Bool.eqb kd' kd && N.eqb q' q); congruence.
  Qed.
End M.
