(* Memoer.verify as modelled (MemoGram.mverify): canonical decoding of key and
   signature text, and which key a signer id is checked against. *)
From Hio Require Import Base.Prelude Model.B64 Model.MemoGram Model.MemoRx Proofs.MemoRxProofs
  Proofs.MemoCodecB2Proofs.
Local Open Scope N_scope.

(* ---------- the decoders accept canonical text only ---------- *)
Theorem decode_key_canonical : forall t c raw, decode_key t = Some (c, raw) -> encode_key c raw = t.
Proof.
  intros t c raw H. unfold decode_key in H. destruct t as [|c0 rest]; [discriminate|].
  destruct (Nat.eqb (length (c0 :: rest)) 44) eqn:L; cbn [andb] in H; [|discriminate].
  destruct (is_b64 (c0 :: rest)) eqn:B; [|discriminate].
  destruct (dec (65 :: rest)) as [|z raw'] eqn:D; [discriminate|].
  destruct z; [|discriminate]. inversion H; subst c0 raw'; clear H.
  apply Nat.eqb_eq in L. cbn [is_b64 forallb] in B. apply andb_prop in B. destruct B as [_ Br].
  destruct (enc_dec 11 (65 :: rest)) as [E _]; [cbn [length] in *; lia|cbn [is_b64 forallb]; exact Br|].
  unfold encode_key. rewrite <- D, E. reflexivity.
Qed.

Theorem decode_sgn_canonical : forall t raw, decode_sgn t = Some raw -> encode_sgn raw = t.
Proof.
  intros t raw H. unfold decode_sgn in H. destruct t as [|c0 [|c1 rest]]; try discriminate.
  destruct (c0 =? 48) eqn:E0; cbn [andb] in H; [|discriminate].
  destruct (c1 =? 66) eqn:E1; cbn [andb] in H; [|discriminate].
  destruct (Nat.eqb (length (c0 :: c1 :: rest)) 88) eqn:L; cbn [andb] in H; [|discriminate].
  destruct (is_b64 (c0 :: c1 :: rest)) eqn:B; [|discriminate].
  destruct (dec (65 :: 65 :: rest)) as [|z0 l] eqn:D; [discriminate|].
  destruct z0; [|discriminate]. destruct l as [|z1 raw']; [discriminate|].
  destruct z1; [|discriminate]. inversion H; subst raw'; clear H.
  apply N.eqb_eq in E0. apply N.eqb_eq in E1. subst c0 c1. apply Nat.eqb_eq in L.
  cbn [is_b64 forallb] in B. apply andb_prop in B. destruct B as [_ B]. apply andb_prop in B. destruct B as [_ Br].
  destruct (enc_dec 22 (65 :: 65 :: rest)) as [E _]; [cbn [length] in *; lia|cbn [is_b64 forallb]; exact Br|].
  unfold encode_sgn. rewrite <- D, E. reflexivity.
Qed.

(* two accepted texts of the same raw value are the same text *)
Corollary sgn_text_unique : forall a b raw, decode_sgn a = Some raw -> decode_sgn b = Some raw -> a = b.
Proof. intros a b raw Ha Hb. rewrite <- (decode_sgn_canonical _ _ Ha), <- (decode_sgn_canonical _ _ Hb). reflexivity. Qed.

Corollary key_text_unique : forall a b c raw, decode_key a = Some (c, raw) -> decode_key b = Some (c, raw) -> a = b.
Proof. intros a b c raw Ha Hb. rewrite <- (decode_key_canonical _ _ _ Ha), <- (decode_key_canonical _ _ _ Hb). reflexivity. Qed.

Section MVerify.
  Variable rawverify : bytes -> bytes -> bytes -> res unit.
  Variable keep : bytes -> option bytes.

  Lemma mverify_ok : forall vid sg ser, mverify rawverify keep vid sg ser = Ok tt ->
    exists key rs, key_raw keep vid = Some key /\ decode_sgn sg = Some rs /\ encode_sgn rs = sg /\
                   rawverify key rs ser = Ok tt.
  Proof.
    intros vid sg ser H. unfold mverify in H.
    destruct (key_raw keep vid) as [k|]; [|discriminate].
    destruct (decode_sgn sg) as [rs|] eqn:D; [|discriminate].
    exists k, rs. repeat split; auto. apply decode_sgn_canonical. exact D.
  Qed.

  Lemma mverify_no_vid : forall s m, mverify rawverify keep [] s m <> Ok tt.
  Proof. intros s m. discriminate. Qed.

  Lemma mverify_contract :
    (forall k s m, rawverify k s m = Ok tt \/ rawverify k s m = Exc MemoErr) ->
    forall v s m, mverify rawverify keep v s m = Ok tt \/ mverify rawverify keep v s m = Exc MemoErr.
  Proof.
    intros Hc v s m. unfold mverify. destruct (key_raw keep v); [|right; reflexivity].
    destruct (decode_sgn s); [apply Hc|right; reflexivity].
  Qed.

  (* a transferable / digest signer id without a keep entry verifies nothing *)
  Lemma no_keep_no_verify : forall vid sg ser,
    hd 0 vid <> 66 -> keep vid = None -> mverify rawverify keep vid sg ser <> Ok tt.
  Proof.
    intros vid sg ser Hc Hk H. apply mverify_ok in H. destruct H as (key & rs & K & _).
    unfold key_raw in K. destruct (decode_key vid) as [[c rawv]|] eqn:D; [|discriminate].
    assert (c = hd 0 vid).
    { unfold decode_key in D. destruct vid as [|c0 rest]; [discriminate|].
      destruct (_ && _); [|discriminate]. destruct (dec (65 :: rest)) as [|z r]; [discriminate|].
      destruct z; [|discriminate]. inversion D; reflexivity. }
    subst c. destruct (hd 0 vid =? 66) eqn:E; [apply N.eqb_eq in E; contradiction|].
    rewrite Hk in K. destruct (_ || _); discriminate.
  Qed.
End MVerify.
