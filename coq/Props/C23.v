(* C23 — Durable queues and sets behave as FIFO models and survive reopen.
   Statements only; proofs are in Proofs/DurqProofs.v.
   Vocabulary (Model/Durq.v): [qrun pyeq set store0 queues0 ops] is the history of the model of
   Durq (set=false) / Dusq (set=true) objects bound through Hold to keys of one durable sub-db
   (the dictionary spec side of C24), [ref_run] the history of plain FIFO queues / insertion-ordered
   sets, [run_ok] says that after EVERY op memory = reference content = durable copy (same values,
   same order) and the result is the reference's.  [Reopen pre] is a crash point: the store is
   reopened and a new object (preloaded with pre) is injected and resynced; ops may contain it
   between any two operations. *)
From Hio Require Import Base.Prelude Model.Lmdb Model.IoSub Model.Durq Proofs.DurqProofs Proofs.DurqMixed.

(* Durq: full statement, for every Python equality on values, every history over any number
   of queues, reopen/resync at any point. *)
Theorem C23_durq_fifo : forall pyeq ops,
  run_ok ops (qrun pyeq false store0 queues0 ops) (ref_run pyeq false (fun _ => []) ops).
Proof. intros. apply (durq_run pyeq ops store0 queues0). reflexivity. Qed.
Print Assumptions C23_durq_fifo.

(* Dusq.  Full statement (same as above with set = true, for every pyeq) is FALSE: see
   C23_dusq_refuted.  Proved under the hypothesis that Python equality of values coincides with
   equality of their serialisations (D38 is exactly its failure); [wf_op]: a removed value has a
   non-empty serialisation (always true: it starts with the class name). *)
Theorem C23_dusq_oset_partial : forall pyeq ops,
  (forall a b, pyeq a b = true <-> a = b) ->
  Forall (fun qo => wf_op (snd qo)) ops ->
  run_ok ops (qrun pyeq true store0 queues0 ops) (ref_run pyeq true (fun _ => []) ops).
Proof.
  intros pyeq ops E W. apply (dusq_run pyeq E ops store0 queues0); auto.
  intros q. split; [reflexivity|constructor].
Qed.
Print Assumptions C23_dusq_oset_partial.

(* D38: Bag(1) and Bag(1.0) are equal in Python and serialised differently: after two pushes memory
   holds one value and the durable copy two. *)
Definition v_int : bytes := [66; 97; 103; 10; 49]%N.        (* stands for  Bag LF 1   *)
Definition v_flt : bytes := [66; 97; 103; 10; 49; 46; 48]%N. (* stands for  Bag LF 1.0 *)
Definition py_d38 : bytes -> bytes -> bool := pyeq_of [(v_int, 0%N); (v_flt, 0%N)].
Theorem C23_dusq_refuted : exists pyeq ops,
  Forall (fun qo => wf_op (snd qo)) ops /\
  ~ run_ok ops (qrun pyeq true store0 queues0 ops) (ref_run pyeq true (fun _ => []) ops).
Proof.
  exists py_d38, [(0%N, Push v_int); (0%N, Push v_flt)]. split.
  - repeat constructor; exact I.
  - vm_compute. intros [_ [_ [_ [H _]]]]. discriminate H.
Qed.
Print Assumptions C23_dusq_refuted.

(* Reopening the store and resyncing restores exactly the content, in every state in which the
   durable copy equals memory (every reachable state, by the two theorems above). *)
Theorem C23_reopen_restores : forall pyeq set q s st,
  s q = mem st ->
  (set = true -> NoDup (mem st) /\ forall a b, pyeq a b = true <-> a = b) ->
  let '(s', st', r) := qstep pyeq set q s st (Reopen []) in
  mem st' = mem st /\ s' q = mem st /\ r = Ok (RBool true).
Proof. exact reopen_restores. Qed.
Print Assumptions C23_reopen_restores.

(* A rejected operation — extend/update of a batch with a member that is not a RegDom at any
   position, push/remove/put/add of such a value — leaves the cached content and the durable
   store exactly as they were (all-or-nothing), in every state and over every store machine;
   the histories of the theorems above may contain such operations anywhere. *)
Theorem C23_rejected_identity : forall pyeq (S : Type) sstep sview set q (s : S) st o,
  rejected o = true ->
  let '(s', st', r) := gstep pyeq S sstep sview set q s st o in
  s' = s /\ mem st' = mem st /\ (exists k, r = Exc k).
Proof. exact rejected_identity. Qed.
Print Assumptions C23_rejected_identity.

(* Every way a queue can enter a Hold — hold[k] = q, hold.k = q, update(mapping),
   update(pairs) with a re-iterable OR a single-pass iterable (zip, generator, iterator),
   update(k=q), and Hold(...) with each of these — hands exactly the given items to Hold.inject
   and is therefore the one abstract step enter_hold = [Reopen pre] (inject: bind key and
   sub-db, sync), over every store machine.  All history theorems above cover [Enter e pre]
   at any position. *)
Theorem C23_entry_points_inject_all : forall (A : Type) e (items : list A), hold_enter e items = items.
Proof. exact @hold_enter_all. Qed.
Print Assumptions C23_entry_points_inject_all.

Theorem C23_entry_points_refine_enter_hold : forall pyeq (S : Type) sstep sview set q (s : S) st e pre,
  gstep pyeq S sstep sview set q s st (Enter e pre) = gstep pyeq S sstep sview set q s st (Reopen pre).
Proof. exact enter_is_reopen. Qed.
Print Assumptions C23_entry_points_refine_enter_hold.

(* Queues AND sets side by side in one Subery, also at the same key.  Subery opens the sub-db
   "drqs." for Durq and "dsqs." for Dusq, so the durable side is keyed by (kind, key):
   - an operation on a queue of one kind never touches the sub-db of the other kind (every state,
     every store machine);
   - every mixed history (ops tagged with kind and key, Enter/Reopen anywhere, a key may change kind
     across a reopen) behaves as one independent FIFO queue / ordered set per (kind, key), with
     durable copy = memory after every op (Dusq part under py-equality = serialisation equality). *)
Theorem C23_kinds_independent : forall pyeq (S : Type) sstep sview kd q (E : menv S) st o,
  fst (fst (mstep pyeq S sstep sview kd q E st o)) (subkey_of (negb kd)) = E (subkey_of (negb kd)).
Proof. exact mixed_independent. Qed.
Print Assumptions C23_kinds_independent.

Theorem C23_mixed_history_partial : forall pyeq ops,
  (forall a b, pyeq a b = true <-> a = b) ->
  Forall (fun x => wf_op (snd x)) ops ->
  mrun_ok ops (mrun pyeq store spec_sstep spec_view menv0 mqueues0 ops)
              (mref_run pyeq (fun _ _ => []) ops).
Proof.
  intros pyeq ops E W. apply (mixed_run pyeq E ops menv0 mqueues0); auto.
  intros kd q. split; [reflexivity|constructor].
Qed.
Print Assumptions C23_mixed_history_partial.

Example C23_mixed_example :
  let ops := [(false, 0, Push v_int); (true, 0, Push v_flt); (true, 0, Push v_flt); (false, 0, Push v_int);
              (true, 0, Enter ESetItem []); (false, 0, Pull true); (true, 0, Clear); (false, 0, Enter ECtorKw [])]%N in
  map sn_store (mrun bytes_eqb store spec_sstep spec_view menv0 mqueues0 ops) =
    [[v_int]; [v_flt]; [v_flt]; [v_int; v_int]; [v_flt]; [v_int]; []; [v_int]].
Proof. vm_compute. reflexivity. Qed.

(* Value semantics: a caller changing a value object it handed in through push / extend / update /
   the constructor, or obtained from iteration or pull, does not operate on the container (both
   classes keep and hand out private copies of non-frozen values; for Durq after the repair of
   D40).  The history theorems cover [CallerMutates] at any position; that the real classes behave
   so is what the correspondence check observes. *)
Theorem C23_caller_mutation_identity : forall pyeq (S : Type) sstep sview set q (s : S) st,
  gstep pyeq S sstep sview set q s st CallerMutates = (s, st, Ok (ROpt None)).
Proof. exact caller_mutation_identity. Qed.
Print Assumptions C23_caller_mutation_identity.

(* Non-vacuity: a history with duplicates, pulls, a crash point and a preloaded re-injection,
   for both kinds, satisfies the hypotheses and behaves as stated. *)
Example C23_example :
  let ops := [(0, Push v_int); (0, Push v_flt); (1, Extend [v_int; v_int; v_flt]); (0, Push v_int);
              (0, Enter (EUpdatePairs OneShot) []); (0, Pull true); (1, Enter ECtorKw [v_flt]); (1, Remove v_int); (1, Clear);
              (1, Reopen [v_flt; v_flt]); (0, ExtendBad [v_int] [v_flt]); (0, Pull false)]%N in
  Forall (fun qo => wf_op (snd qo)) ops /\
  map sn_mem (qrun bytes_eqb false store0 queues0 ops) =
    [[v_int]; [v_int; v_flt]; [v_int; v_int; v_flt]; [v_int; v_flt; v_int]; [v_int; v_flt; v_int];
     [v_flt; v_int]; [v_int; v_int; v_flt]; [v_int; v_int; v_flt]; []; [v_flt; v_flt]; [v_flt; v_int]; [v_int]] /\
  map sn_mem (qrun bytes_eqb true store0 queues0 ops) =
    [[v_int]; [v_int; v_flt]; [v_int; v_flt]; [v_int; v_flt]; [v_int; v_flt];
     [v_flt]; [v_int; v_flt]; [v_flt]; []; [v_flt]; [v_flt]; []].
Proof. vm_compute. repeat split; repeat constructor; discriminate. Qed.

(* ---- layering on C24: the same histories with the durable side modelled at the LMDB level
   (sorted byte-key sub-db, Duror Io functions with their hidden ordinal suffixes), queue q bound
   to the Hold key [name q].  Hypotheses: distinct queues have distinct, independent keys (C24's
   [indep2]: no key followed by '.' starts another) and fewer than 2^128-1 values are ever written
   ([qbudget]).  [drun] then yields exactly the history [qrun] yields over the dictionary
   (Proofs/DurqLayer.v, by C24's step refinement), hence: ---- *)
From Hio Require Import Proofs.DurqLayer.

Theorem C23_durq_fifo_lmdb : forall pyeq name (Q : N -> Prop) ops,
  (forall a b, Q a -> Q b -> name a = name b -> a = b) ->
  (forall a b, Q a -> Q b -> a <> b -> indep2 (name a) (name b)) ->
  Forall (fun qo => Q (fst qo)) ops ->
  (qbudget pyeq false store0 queues0 ops <= maxsuffix)%N ->
  run_ok ops (drun pyeq name false [] queues0 ops) (ref_run pyeq false (fun _ => []) ops).
Proof.
  intros pyeq name Q ops Hi Hd HQ HB.
  rewrite (layer_run pyeq name Q Hi Hd false ops 0%N store0 [] queues0); auto.
  - apply C23_durq_fifo.
  - apply RL_init.
Qed.
Print Assumptions C23_durq_fifo_lmdb.

Theorem C23_dusq_oset_lmdb_partial : forall pyeq name (Q : N -> Prop) ops,
  (forall a b, pyeq a b = true <-> a = b) ->
  Forall (fun qo => wf_op (snd qo)) ops ->
  (forall a b, Q a -> Q b -> name a = name b -> a = b) ->
  (forall a b, Q a -> Q b -> a <> b -> indep2 (name a) (name b)) ->
  Forall (fun qo => Q (fst qo)) ops ->
  (qbudget pyeq true store0 queues0 ops <= maxsuffix)%N ->
  run_ok ops (drun pyeq name true [] queues0 ops) (ref_run pyeq true (fun _ => []) ops).
Proof.
  intros pyeq name Q ops E W Hi Hd HQ HB.
  rewrite (layer_run pyeq name Q Hi Hd true ops 0%N store0 [] queues0); auto.
  - now apply C23_dusq_oset_partial.
  - apply RL_init.
Qed.
Print Assumptions C23_dusq_oset_lmdb_partial.

(* the Hold keys used by the correspondence harness satisfy the hypotheses *)
Example C23_names_example :
  let name := fun q => nth (N.to_nat q) ([[113]; [113; 113]; [116; 111; 112; 46; 113]]%N : list bytes) [] in
  forall a b, (a < 3)%N -> (b < 3)%N -> a <> b -> name a <> name b /\ indep2 (name a) (name b).
Proof.
  intros name a b Ha Hb Hne.
  assert (Ca : (a = 0 \/ a = 1 \/ a = 2)%N) by lia. assert (Cb : (b = 0 \/ b = 1 \/ b = 2)%N) by lia.
  destruct Ca as [Ea|[Ea|Ea]], Cb as [Eb|[Eb|Eb]]; subst; try congruence; unfold indep2; vm_compute;
    (split; [discriminate|split; reflexivity]).
Qed.
