From Hio Require Import Base.Prelude Base.AMap Model.Namer.

(* The two maps are exact inverses of each other. *)
Definition Inv (s : namer) : Prop :=
  forall n a, get (abn s) n = Some a <-> get (nba s) a = Some n.

Lemma inv_init : Inv init.
Proof. intros n a; simpl; split; discriminate. Qed.

(* no two names share an address: a consequence of Inv *)
Lemma inv_injective s : Inv s ->
  forall n1 n2 a, get (abn s) n1 = Some a -> get (abn s) n2 = Some a -> n1 = n2.
Proof.
  intros H n1 n2 a H1 H2. apply H in H1. apply H in H2. congruence.
Qed.

Ltac eqb_cases :=
  repeat match goal with
  | H : N.eqb _ _ = true |- _ => apply N.eqb_eq in H; subst
  | H : N.eqb _ _ = false |- _ => apply N.eqb_neq in H
  end.

Lemma add_inv s n a : Inv s -> Inv (fst (add s n a)).
Proof.
  intros H. unfold add.
  destruct (falsy n || falsy a); [exact H|].
  destruct (get (abn s) n) as [a0|] eqn:En.
  { destruct (N.eqb a a0); exact H. }
  destruct (get (nba s) a) as [n0|] eqn:Ea.
  { destruct (N.eqb n n0); exact H. }
  cbn [fst abn nba]. intros n' a'. cbn [fst abn nba].
  destruct (N.eq_dec n' n) as [->|Hn]; destruct (N.eq_dec a' a) as [->|Ha].
  - rewrite !get_set_same. split; reflexivity.
  - rewrite get_set_same, get_set_other by assumption. split; intro E.
    + injection E as <-. contradiction.
    + apply H in E. congruence.
  - rewrite get_set_same, get_set_other by assumption. split; intro E.
    + apply H in E. congruence.
    + injection E as <-. contradiction.
  - rewrite !get_set_other by assumption. apply H.
Qed.

Lemma rem_inv s n a : Inv s -> Inv (fst (rem s n a)).
Proof.
  intros H. unfold rem.
  destruct (negb (falsy n)).
  - destruct (get (abn s) n) as [a0|] eqn:En; [|exact H].
    destruct (negb (N.eqb (if falsy a then a0 else a) a0)) eqn:Ec; [exact H|].
    apply negb_false_iff, N.eqb_eq in Ec. rewrite Ec. cbn [fst abn nba].
    intros n' a'; simpl.
    destruct (N.eq_dec n' n) as [->|Hn]; destruct (N.eq_dec a' a0) as [->|Ha].
    + rewrite !get_del_same. split; discriminate.
    + rewrite get_del_same, get_del_other by assumption. split; [discriminate|].
      intro E. apply H in E. congruence.
    + rewrite get_del_same, get_del_other by assumption. split; [|discriminate].
      intro E. apply H in E. apply H in En. congruence.
    + rewrite !get_del_other by assumption. apply H.
  - destruct (negb (falsy a)); [|exact H].
    destruct (get (nba s) a) as [n0|] eqn:Ea; [|exact H].
    cbn [fst abn nba]. intros n' a'. cbn [fst abn nba].
    destruct (N.eq_dec n' n0) as [->|Hn]; destruct (N.eq_dec a' a) as [->|Ha].
    + rewrite !get_del_same. split; discriminate.
    + rewrite get_del_same, get_del_other by assumption. split; [discriminate|].
      intro E. apply H in E. apply H in Ea. congruence.
    + rewrite get_del_same, get_del_other by assumption. split; [|discriminate].
      intro E. apply H in E. congruence.
    + rewrite !get_del_other by assumption. apply H.
Qed.

Lemma chg_addr_inv s n a : Inv s -> Inv (fst (chg_addr s n a)).
Proof.
  intros H. unfold chg_addr.
  destruct (falsy n || falsy a); [exact H|].
  destruct (get (abn s) n) as [old|] eqn:En; [|exact H].
  destruct (N.eqb a old) eqn:Eo; [exact H|].
  destruct (mem (nba s) a) eqn:Em; [exact H|].
  apply N.eqb_neq in Eo. apply mem_false_iff in Em.
  cbn [fst abn nba]. intros n' a'. cbn [fst abn nba].
  destruct (N.eq_dec n' n) as [->|Hn]; destruct (N.eq_dec a' a) as [->|Ha].
  - rewrite !get_set_same. split; reflexivity.
  - rewrite get_set_same, get_set_other by assumption. split; intro E.
    + injection E as <-. contradiction.
    + destruct (N.eq_dec a' old) as [->|Ho].
      * rewrite get_del_same in E. discriminate.
      * rewrite get_del_other in E by assumption. apply H in E. congruence.
  - rewrite get_set_same, get_set_other by assumption. split; intro E.
    + apply H in E. congruence.
    + injection E as <-. contradiction.
  - rewrite !get_set_other by assumption.
    destruct (N.eq_dec a' old) as [->|Ho].
    + rewrite get_del_same. split; [|discriminate].
      intro E. apply H in E. apply H in En. congruence.
    + rewrite get_del_other by assumption. apply H.
Qed.

Lemma chg_name_inv s a n : Inv s -> Inv (fst (chg_name s a n)).
Proof.
  intros H. unfold chg_name.
  destruct (falsy n || falsy a); [exact H|].
  destruct (get (nba s) a) as [old|] eqn:Ea; [|exact H].
  destruct (N.eqb n old) eqn:Eo; [exact H|].
  destruct (mem (abn s) n) eqn:Em; [exact H|].
  apply N.eqb_neq in Eo. apply mem_false_iff in Em.
  cbn [fst abn nba]. intros n' a'. cbn [fst abn nba].
  destruct (N.eq_dec n' n) as [->|Hn]; destruct (N.eq_dec a' a) as [->|Ha].
  - rewrite !get_set_same. split; reflexivity.
  - rewrite get_set_same, get_set_other by assumption. split; intro E.
    + injection E as <-. contradiction.
    + apply H in E. congruence.
  - rewrite get_set_same, get_set_other by assumption. split; intro E.
    + destruct (N.eq_dec n' old) as [->|Ho].
      * rewrite get_del_same in E. discriminate.
      * rewrite get_del_other in E by assumption. apply H in E. congruence.
    + injection E as <-. contradiction.
  - rewrite !get_set_other by assumption.
    destruct (N.eq_dec n' old) as [->|Ho].
    + rewrite get_del_same. split; [discriminate|].
      intro E. apply H in E. apply H in Ea. congruence.
    + rewrite get_del_other by assumption. apply H.
Qed.

Lemma step_inv s o : Inv s -> Inv (fst (step s o)).
Proof.
  intros H. destruct o; simpl.
  - now apply add_inv.
  - now apply rem_inv.
  - now apply chg_addr_inv.
  - now apply chg_name_inv.
  - apply inv_init.
Qed.

Lemma run_inv ops : forall s, Inv s -> Inv (fst (run s ops)).
Proof.
  induction ops as [|o ops IH]; intros s H; simpl; [exact H|].
  destruct (step s o) as [s' r] eqn:Es.
  specialize (IH s'). destruct (run s' ops) as [s'' rs] eqn:Er. simpl.
  apply IH. change s' with (fst (s', r)). rewrite <- Es. now apply step_inv.
Qed.

Lemma final_inv ops : Inv (final ops).
Proof. unfold final. apply run_inv, inv_init. Qed.

(* A rejected (raise) or no-change (False) operation returns the very same
   state: both maps are untouched. *)
Lemma step_unchanged s o :
  o <> Clear ->
  (snd (step s o) = Ok false \/ exists k, snd (step s o) = Exc k) ->
  fst (step s o) = s.
Proof.
  intros Hc Hr. destruct o as [n a|n a|n a|a n|]; simpl in *; try congruence.
  - unfold add in *. destruct (falsy n || falsy a); [reflexivity|].
    destruct (get (abn s) n); [destruct (N.eqb a n0); reflexivity|].
    destruct (get (nba s) a); [destruct (N.eqb n n0); reflexivity|].
    simpl in Hr. destruct Hr as [Hr|[k Hr]]; discriminate.
  - unfold rem in *. destruct (negb (falsy n)).
    + destruct (get (abn s) n); [|reflexivity].
      destruct (negb (N.eqb (if falsy a then n0 else a) n0)); [reflexivity|].
      simpl in Hr. destruct Hr as [Hr|[k Hr]]; discriminate.
    + destruct (negb (falsy a)); [|reflexivity].
      destruct (get (nba s) a); [|reflexivity].
      simpl in Hr. destruct Hr as [Hr|[k Hr]]; discriminate.
  - unfold chg_addr in *. destruct (falsy n || falsy a); [reflexivity|].
    destruct (get (abn s) n); [|reflexivity].
    destruct (N.eqb a n0); [reflexivity|].
    destruct (mem (nba s) a); [reflexivity|].
    simpl in Hr. destruct Hr as [Hr|[k Hr]]; discriminate.
  - unfold chg_name in *. destruct (falsy n || falsy a); [reflexivity|].
    destruct (get (nba s) a); [|reflexivity].
    destruct (N.eqb n n0); [reflexivity|].
    destruct (mem (abn s) n); [reflexivity|].
    simpl in Hr. destruct Hr as [Hr|[k Hr]]; discriminate.
Qed.

(* Functional meaning of a successful op, so that the invariant is not the
   only thing proved: after Ok true the new pair is bound both ways. *)
Lemma add_ok_binds s n a :
  snd (add s n a) = Ok true ->
  get (abn (fst (add s n a))) n = Some a /\ get (nba (fst (add s n a))) a = Some n.
Proof.
  unfold add. destruct (falsy n || falsy a); [discriminate|].
  destruct (get (abn s) n); [destruct (N.eqb a n0); discriminate|].
  destruct (get (nba s) a); [destruct (N.eqb n n0); discriminate|].
  cbn [fst abn nba]. intros _. now rewrite !get_set_same.
Qed.

Lemma rem_ok_unbinds s n a :
  Inv s -> n <> 0%N -> snd (rem s n a) = Ok true ->
  get (abn (fst (rem s n a))) n = None.
Proof.
  intros H Hn. unfold rem, falsy.
  destruct (N.eqb n 0) eqn:E0; [apply N.eqb_eq in E0; contradiction|]. simpl.
  destruct (get (abn s) n); [|discriminate].
  destruct (negb _); [discriminate|]. cbn [fst abn nba]. intros _. apply get_del_same.
Qed.

(* ---- the constructor Namer(entries=...) ---- *)

Lemma construct_inv entries : forall s s', Inv s -> construct s entries = Ok s' -> Inv s'.
Proof.
  induction entries as [|[n a] rest IH]; intros s s' H E; cbn [construct] in E.
  - inversion E; subst; exact H.
  - destruct (add s n a) as [s1 r] eqn:Ea. destruct r as [b|k]; [|discriminate].
    eapply IH; [|exact E]. change s1 with (fst (s1, @Ok bool b)). rewrite <- Ea. now apply add_inv.
Qed.

(* an object built by the constructor and then driven by any operations has inverse maps *)
Lemma constructed_run_inv entries ops s0 :
  construct init entries = Ok s0 -> Inv (fst (run s0 ops)).
Proof. intro E. apply run_inv. eapply construct_inv; [apply inv_init|exact E]. Qed.

(* the constructor accepts exactly the entry lists whose adds are all accepted, and then it is the
   same as adding them one by one: a conflicting entry (an address already held by another name, or a
   name already bound to another address) makes it raise *)
Lemma construct_as_run entries : forall s,
  construct s entries =
  let (s', rs) := run s (map (fun e => Add (fst e) (snd e)) entries) in
  match find (fun r => match r with Exc _ => true | Ok _ => false end) rs with
  | Some (Exc k) => Exc k
  | _ => Ok s'
  end.
Proof.
  induction entries as [|[n a] rest IH]; intro s; cbn [construct map run fst snd]; [reflexivity|].
  cbn [step]. destruct (add s n a) as [s1 r] eqn:Ea. destruct r as [b|k].
  - rewrite IH. destruct (run s1 _) as [s2 rs]. cbn [find]. reflexivity.
  - destruct (run s1 _) as [s2 rs]. cbn [find]. reflexivity.
Qed.

Lemma add_conflict_addr s n a n0 :
  falsy n = false -> falsy a = false -> get (abn s) n = None -> get (nba s) a = Some n0 -> n0 <> n ->
  exists k, snd (add s n a) = Exc k.
Proof.
  intros Fn Fa Hn Ha Hne. unfold add. rewrite Fn, Fa. cbn [orb]. rewrite Hn, Ha.
  destruct (N.eqb n n0) eqn:E; [apply N.eqb_eq in E; congruence|]. eexists; reflexivity.
Qed.
