From Hio Require Import Base.Prelude Model.Sched.
Theorem C05_placeholder : True. Proof. exact I. Qed.
Print Assumptions C05_placeholder.
