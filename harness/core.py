"""Shared machinery of every check: proof-obligation rebuild and audit,
case generation, implementation run, model run (generated Cases/*.v evaluated
by coqc with vm_compute), decision, known-finding matching, shrinking,
evidence and replay files.

A driver module (harness/drivers/cNN.py) provides:

  PROP            "C27"
  COQ_REQUIRES    ["Hio.Model.Namer"]        modules the case files Require Import
  COQ_CHECK       "Namer.check_case"         Gallina  case -> bool  (true = model and impl agree)
  COQ_CASE_TYPE   "Namer.case"               Gallina type of one case
  COQ_BRANCHES    ("Namer.case_branches", "Namer.n_branches") or None
  RULE            text: how cases are made and what makes one non-trivial
  MODELLED        list[str]: what is modelled-not-verified for this property
  directed()      -> list[case]              seed-independent stream, one per model branch
  generate(rng, tier) -> list[case]          seeded streams
  run_impl(case)  -> obs (JSON-able)         drives the real hio code
  oracle(case, obs) -> None | str            direct property oracle on the observation
  to_coq(case, obs) -> str                   Gallina term of COQ_CASE_TYPE
  nontrivial(case, obs) -> bool
  classify(case, obs, why) -> str | None     id of the known-finding class a failing case is in
  shrink(case)    -> iterable[case]          optional: smaller candidates
  extra(tier, ctx)-> dict                    optional: additional sweeps/soaks; may append to ctx.violations
"""
import hashlib, importlib, json, os, random, re, shutil, subprocess, sys, time
from concurrent.futures import ThreadPoolExecutor
from pathlib import Path

VERIF = Path(__file__).resolve().parent.parent
COQ = VERIF / "coq"
REPO = Path(os.environ.get("VERIF_REPO", "/repo")).resolve()
SCRATCH = Path(os.environ.get("VERIF_SCRATCH", f"/var/tmp/hio-verif-{os.getpid()}"))
# evidence/ and replays/ go under VERIF unless VERIF_OUT redirects them (used when a mutant tree is checked)
OUT = Path(os.environ.get("VERIF_OUT", str(VERIF)))

ALLOWED_AXIOMS = {
    # stdlib axioms a tactic or library may bring in; each is named in the evidence when present
    "functional_extensionality_dep", "FunctionalExtensionality.functional_extensionality_dep",
    "Eqdep.Eq_rect_eq.eq_rect_eq", "eq_rect_eq", "JMeq_eq", "JMeq.JMeq_eq",
    "proof_irrelevance", "ProofIrrelevance.proof_irrelevance",
    "classic", "Classical_Prop.classic",
}
# primitive types/operations listed by Print Assumptions are not axioms
PRIMITIVE_PREFIXES = ("PrimFloat.", "Uint63.", "PrimInt63.", "FloatOps.", "FloatAxioms.", "Sint63.", "PArray.", "float", "int")

AUDIT_RE = re.compile(
    r"\bAdmitted\b|\badmit\b|\bAxiom\b|\bAxioms\b|\bParameter\b|\bParameters\b|\bConjecture\b|"
    r"\bAdmit Obligations\b|Unset Guard|bypass_check|Unset Positivity|Unset Universe Checking|"
    r"type-in-type|impredicative-set|native_compute")


# --------------------------------------------------------------------------- environment

def ensure_tree():
    """Abort (exit 2, no verdict) unless hio is imported from the tree under test."""
    src = str(REPO / "src")
    if sys.path[0] != src:
        sys.path.insert(0, src)
    import hio
    if not os.path.realpath(hio.__file__).startswith(os.path.realpath(src) + os.sep):
        print(f"ERROR: hio imported from {hio.__file__}, not from {src}", file=sys.stderr)
        sys.exit(2)
    return hio


def scratch_dir():
    SCRATCH.mkdir(parents=True, exist_ok=True)
    return SCRATCH


def cleanup_scratch():
    shutil.rmtree(SCRATCH, ignore_errors=True)


# --------------------------------------------------------------------------- Coq literal emitters

def coq_bytes(b):
    """bytes -> Gallina term of type [bytes] (list N) via a Byte.byte constructor list."""
    if len(b) == 0:
        return "(@nil N)"
    return "(of_bytes [" + ";".join("x%02x" % x for x in bytes(b)) + "])"


def coq_N(n):
    assert n >= 0
    return f"{n}%N"


def coq_Z(n):
    return f"({n})%Z"


def coq_nat(n):
    assert 0 <= n < 5000, "never write large nat literals"
    return f"{n}%nat"


def coq_bool(b):
    return "true" if b else "false"


def coq_list(items, ty=None):
    items = list(items)
    if not items:
        return f"(@nil ({ty}))" if ty else "[]"
    return "[" + "; ".join(items) + "]"


def coq_option(x, f=lambda s: s, ty=None):
    if x is None:
        return f"(@None ({ty}))" if ty else "None"
    return f"(Some {f(x)})"


def coq_float(x):
    """Python float -> Coq primitive float literal, bit exact."""
    import math
    if x != x:
        return "PrimFloat.nan"
    if x == math.inf:
        return "PrimFloat.infinity"
    if x == -math.inf:
        return "PrimFloat.neg_infinity"
    h = float(x).hex()
    if h.startswith("-"):
        return f"(PrimFloat.opp {h[1:]}%float)"
    return f"{h}%float"


EXN_NAMES = {
    "HTTPException": "HTTPExc", "MemoerError": "MemoErr", "NamerError": "NamerErr", "HierError": "HierErr",
    "ValueError": "ValueErr", "TypeError": "TypeErr", "KeyError": "KeyErr", "IndexError": "IndexErr",
    "UnicodeDecodeError": "UnicodeErr", "UnicodeEncodeError": "UnicodeErr", "UnicodeError": "UnicodeErr",
    "UnboundLocalError": "UnboundErr", "RuntimeError": "RuntimeErr", "OSError": "OSErr",
    "AssertionError": "AssertErr", "AttributeError": "AttrErr", "OverflowError": "OverflowErr",
    "StopIteration": "StopIter", "FilerError": "OtherErr", "TimeoutError": "OSErr",
}


def exn_kind(ex):
    """Map an exception instance to the model's small enum (by MRO, most specific first)."""
    for cls in type(ex).__mro__:
        if cls.__name__ in EXN_NAMES:
            return EXN_NAMES[cls.__name__]
    return "OtherErr"


def coq_res(r, f):
    """r = ("ok", value) | ("exc", kind)."""
    return f"(Ok {f(r[1])})" if r[0] == "ok" else f"(Exc {r[1]})"


# --------------------------------------------------------------------------- Coq build & audit

def _run(cmd, cwd=None, timeout=1800, env=None):
    t0 = time.time()
    p = subprocess.run(cmd, cwd=cwd, stdout=subprocess.PIPE, stderr=subprocess.STDOUT, text=True,
                       timeout=timeout, env=env, shell=isinstance(cmd, str))
    return p.returncode, p.stdout, time.time() - t0


def cone_files(prop):
    """Source files Props/<prop>.v depends on, transitively (from coqdep)."""
    files = [str(f.relative_to(COQ)) for d in ("Base", "Model", "Proofs", "Props") for f in sorted((COQ / d).glob("*.v"))]
    rc, out, _ = _run(["coqdep", "-R", ".", "Hio"] + files, cwd=COQ, timeout=300)
    deps = {}
    for line in out.splitlines():
        if ":" not in line:
            continue
        lhs, rhs = line.split(":", 1)
        tgt = [t for t in lhs.split() if t.endswith(".vo")]
        if not tgt:
            continue
        deps[tgt[0][:-1]] = [d[:-1] for d in rhs.split() if d.endswith(".vo")]
    seen, todo = [], [f"Props/{prop}.v"]
    while todo:
        f = todo.pop()
        if f in seen:
            continue
        seen.append(f)
        todo += deps.get(f, [])
    return sorted(COQ / f for f in seen if (COQ / f).exists())


def audit_sources(prop=None):
    """Grep the development (the dependency cone of the property when given) for forbidden
    declarations.  Returns list of offending lines."""
    bad = []
    files = cone_files(prop) if prop else [f for d in ("Base", "Model", "Proofs", "Props") for f in sorted((COQ / d).glob("*.v"))]
    for d in (1,):
        for f in files:
            text = f.read_text()
            # strip comments (nested) before grepping
            out, depth, i = [], 0, 0
            while i < len(text):
                if text.startswith("(*", i):
                    depth += 1; i += 2
                elif text.startswith("*)", i) and depth:
                    depth -= 1; i += 2
                else:
                    if depth == 0:
                        out.append(text[i])
                    elif text[i] == "\n":
                        out.append("\n")
                    i += 1
            for ln, line in enumerate("".join(out).splitlines(), 1):
                if AUDIT_RE.search(line):
                    bad.append(f"{f.relative_to(COQ)}:{ln}: {line.strip()}")
                # Variable/Hypothesis outside a section are axioms too: allowed only inside Section
            sec = 0
            for ln, line in enumerate("".join(out).splitlines(), 1):
                s = line.strip()
                if re.match(r"Section\s+\w+", s):
                    sec += 1
                elif re.match(r"End\s+\w+\s*\.", s) and sec:
                    sec -= 1
                elif re.match(r"(Variable|Variables|Hypothesis|Hypotheses|Context)\b", s) and sec == 0:
                    bad.append(f"{f.relative_to(COQ)}:{ln}: {s} (outside a Section)")
    return bad


def build_props(prop):
    """Rebuild Props/<prop>.vo (and its whole cone if any source changed) under a lock; return
    dict(ok, theorems, assumptions{thm: [axioms]}, output, wall_s, error)."""
    pf = COQ / "Props" / f"{prop}.v"
    res = {"ok": False, "theorems": [], "assumptions": {}, "output": "", "wall_s": 0.0, "error": None}
    if not pf.exists():
        res["error"] = f"missing {pf}"
        return res
    src = pf.read_text()
    theorems = re.findall(r"^\s*Theorem\s+(\w+)", src, re.M)
    printed = re.findall(r"^\s*Print Assumptions\s+(\w+)\s*\.", src, re.M)
    res["theorems"] = theorems
    missing = [t for t in theorems if t not in printed]
    if missing:
        res["error"] = f"theorems without Print Assumptions: {missing}"
        return res
    lock = COQ / ".lock"
    cmd = (f"flock {lock} sh -c 'python3 {VERIF}/tools/gen_coqproject.py && rm -f Props/{prop}.vo && "
           f"timeout 1500 make -j8 Props/{prop}.vo'")
    rc, out, wall = _run(cmd, cwd=COQ, timeout=1700)
    res["output"], res["wall_s"] = out[-6000:], wall
    if rc != 0:
        m = re.search(r'File "([^"]+)", line (\d+)', out)
        res["error"] = "coq build failed" + (f" at {m.group(1)}:{m.group(2)}" if m else "")
        return res
    # Print Assumptions blocks, in file order
    blocks, cur = [], None
    for line in out.splitlines():
        if line.startswith("Closed under the global context"):
            if cur is not None:
                blocks.append(cur)
            blocks.append([]); cur = None
        elif line.startswith("Axioms:"):
            if cur is not None:
                blocks.append(cur)
            cur = []
        elif cur is not None:
            m = re.match(r"^(\S+)\s*:", line)
            if m and not line.startswith(" "):
                cur.append(m.group(1))
            elif line.startswith(("COQC", "COQDEP", "make")):
                blocks.append(cur); cur = None
    if cur is not None:
        blocks.append(cur)
    if len(blocks) != len(printed):
        res["error"] = f"expected {len(printed)} Print Assumptions blocks, saw {len(blocks)}"
        return res
    bad = []
    for name, axs in zip(printed, blocks):
        axs = [a for a in axs if not a.startswith(PRIMITIVE_PREFIXES)]
        res["assumptions"][name] = axs
        for a in axs:
            if a not in ALLOWED_AXIOMS and a.split(".")[-1] not in ALLOWED_AXIOMS:
                bad.append(f"{name}: {a}")
    if bad:
        res["error"] = f"disallowed assumptions: {bad}"
        return res
    aud = audit_sources(prop)
    if aud:
        res["error"] = f"audit grep: {aud[:5]}"
        return res
    res["ok"] = True
    return res


def coqchk(prop):
    rc, out, wall = _run(f"timeout 1200 coqchk -silent -o -R . Hio Hio.Props.{prop}", cwd=COQ, timeout=1300)
    axioms = []
    m = re.search(r"\* Axioms:(.*?)(\n\s*\n|\Z)", out, re.S)
    if m:
        axioms = [l.strip() for l in m.group(1).splitlines() if l.strip() and l.strip() != "<none>"]
    return {"ok": rc == 0, "axioms": axioms, "wall_s": wall, "tail": out[-1500:]}


# --------------------------------------------------------------------------- model evaluation

def _write_case_file(path, requires, header, body_terms, case_type, check, branches):
    lines = ["From Coq Require Import Init.Byte.", "From Hio Require Import Base.Prelude."]
    for r in requires:
        lines.append(f"Require Import {r}.")
    lines += ["Import ListNotations.", "Local Open Scope list_scope.", "Set Printing Width 1000000.", "Set Printing Depth 1000000."]
    lines += header
    names = []
    for i, t in enumerate(body_terms):
        lines.append(f"Definition c{i} : {case_type} := {t}.")
        names.append(f"c{i}")
    lines.append(f"Definition all_cases : list ({case_type}) := {coq_list(names, case_type)}.")
    lines.append(f"Eval vm_compute in (failing {check} all_cases).")
    if branches:
        fn, nb = branches
        lines.append(f"Eval vm_compute in (histogram {nb} (concat (map {fn} all_cases))).")
    path.write_text("\n".join(lines) + "\n")


def _parse_nat_list(block):
    body = block.split("=", 1)[1]
    body = body.rsplit(":", 1)[0]
    return [int(x) for x in re.findall(r"\d+", body)]


def eval_cases(driver, terms, tag, shard=300, jobs=16, extra_eval=None):
    """Write shards, run coqc in parallel.  Returns (failing global indices, histogram or None, errors)."""
    cdir = COQ / "Cases"
    cdir.mkdir(exist_ok=True)
    header = getattr(driver, "COQ_HEADER", [])
    shards = [terms[i:i + shard] for i in range(0, len(terms), shard)]
    paths = []
    for k, sh in enumerate(shards):
        p = cdir / f"{driver.PROP}_{tag}_{os.getpid()}_{k}.v"
        _write_case_file(p, driver.COQ_REQUIRES, header, sh, driver.COQ_CASE_TYPE, driver.COQ_CHECK,
                         getattr(driver, "COQ_BRANCHES", None))
        if extra_eval:
            with open(p, "a") as f:
                f.write(extra_eval + "\n")
        paths.append(p)

    def one(p):
        rc, out, wall = _run(["timeout", "900", "coqc", "-R", ".", "Hio", "-w", "-notation-overridden,-deprecated",
                              str(p.relative_to(COQ))], cwd=COQ, timeout=1000)
        return p, rc, out

    failing, hist, errors, raw = [], None, [], []
    with ThreadPoolExecutor(max_workers=jobs) as ex:
        results = list(ex.map(one, paths))
    for k, (p, rc, out) in enumerate(results):
        raw.append(out)
        if rc != 0:
            errors.append(f"{p.name}: coqc rc={rc}: {out[-800:]}")
        else:
            blocks = re.split(r"\n(?=\s*= )", "\n" + out)
            blocks = [b for b in blocks if b.strip().startswith("=")]
            if not blocks:
                errors.append(f"{p.name}: no result in output: {out[-400:]}")
            else:
                failing += [k * shard + i for i in _parse_nat_list(blocks[0])]
                if getattr(driver, "COQ_BRANCHES", None) and len(blocks) > 1:
                    h = _parse_nat_list(blocks[1])
                    hist = h if hist is None else [a + b for a, b in zip(hist, h)]
        for ext in (".v", ".vo", ".vok", ".vos", ".glob"):
            q = p.with_suffix(ext)
            if q.exists() and not os.environ.get("VERIF_KEEP_CASES"):
                q.unlink()
        aux = p.parent / f".{p.stem}.aux"
        if aux.exists():
            aux.unlink()
    return failing, hist, errors, raw


# --------------------------------------------------------------------------- known findings

def load_findings(prop):
    p = VERIF / "known_findings.json"
    if not p.exists():
        return []
    data = json.loads(p.read_text())
    return [e for e in data.get("findings", []) if e.get("property") == prop]


# --------------------------------------------------------------------------- the check

class Ctx:
    def __init__(self, prop, tier, seed):
        self.prop, self.tier, self.seed = prop, tier, seed
        self.violations = []      # list of dict(kind, why, case, obs, finding)
        self.known_hits = {}      # finding id -> count
        self.notes = []
        self.coverage_extra = {}


def case_hash(case):
    return hashlib.sha256(json.dumps(case, sort_keys=True, default=repr).encode()).hexdigest()


def load_corpus(prop):
    d = VERIF / "corpus" / prop
    out = []
    if d.is_dir():
        for f in sorted(d.glob("*.json")):
            out.append(json.loads(f.read_text())["case"])
    return out


def write_replay(prop, seed, n, payload):
    d = OUT / "replays"
    d.mkdir(exist_ok=True)
    p = d / f"{prop}-{seed}-{n}.json"
    p.write_text(json.dumps(payload, indent=1, default=repr))
    return p


def load_driver(prop):
    ensure_tree()
    return importlib.import_module(f"harness.drivers.{prop.lower()}")


class CaseTimeout(BaseException):
    """Raised by the per-case alarm: the implementation did not finish the case (hang / livelock)."""


def _alarm(signum, frame):
    raise CaseTimeout()


def run_impl_safe(driver, case):
    import signal
    limit = int(getattr(driver, "CASE_TIMEOUT", 30))
    use_alarm = hasattr(signal, "SIGALRM") and limit > 0
    if use_alarm:
        old = signal.signal(signal.SIGALRM, _alarm)
        signal.alarm(limit)
    try:
        return driver.run_impl(case)
    except CaseTimeout:
        return {"harness_escape": f"timeout: the implementation did not finish this case within {limit} s (hang or livelock)"}
    except BaseException as ex:  # a harness bug or an escape the driver did not expect
        if isinstance(ex, (KeyboardInterrupt, SystemExit)):
            raise
        return {"harness_escape": f"{type(ex).__name__}: {ex}"}
    finally:
        if use_alarm:
            signal.alarm(0)
            signal.signal(signal.SIGALRM, old)


class LineCov:
    """Which lines of the property's anchored source files the implementation runs of this check executed
    (sys.monitoring LINE events, each location reported once, so the overhead is negligible).  Reported in the
    evidence so that code paths of the anchored functions that no generated case reaches are visible."""

    def __init__(self, prop):
        self.files = {}
        self.hit = set()
        self.tool = None
        try:
            for l in (VERIF / "properties.jsonl").read_text().splitlines():
                d = json.loads(l)
                if d["id"] == prop:
                    for f in d["anchors"]["files"]:
                        q = (REPO / f).resolve()
                        if q.suffix == ".py" and q.exists():
                            self.files[str(q)] = f
        except Exception:
            self.files = {}

    def start(self):
        if not self.files or os.environ.get("VERIF_NO_LINECOV") or not hasattr(sys, "monitoring"):
            return
        mon = sys.monitoring
        try:
            mon.use_tool_id(mon.COVERAGE_ID, "verif-linecov")
        except ValueError:
            return
        self.tool = mon.COVERAGE_ID
        files, hit = self.files, self.hit

        def on_line(code, lineno):
            if code.co_filename in files:
                hit.add((code.co_filename, lineno))
            return mon.DISABLE
        mon.register_callback(self.tool, mon.events.LINE, on_line)
        mon.set_events(self.tool, mon.events.LINE)

    def stop(self):
        if self.tool is None:
            return
        mon = sys.monitoring
        mon.set_events(self.tool, 0)
        mon.register_callback(self.tool, mon.events.LINE, None)
        mon.free_tool_id(self.tool)
        self.tool = None

    def report(self):
        if not self.files:
            return None
        out = {"files": {}, "partially_executed_functions": {}, "note":
               "lines of the anchored source files executed in this process by this run's implementation cases; "
               "functions listed are those entered at least once with lines never reached (line numbers of the current tree)"}
        for path, rel in self.files.items():
            try:
                top = compile(Path(path).read_text(), path, "exec")
            except Exception:
                continue
            funcs, stack = {}, [top]
            while stack:
                co = stack.pop()
                lines = {ln for _, _, ln in co.co_lines() if ln is not None}
                lines.discard(co.co_firstlineno)
                if co is not top:
                    funcs[(co.co_qualname, co.co_firstlineno)] = lines
                for k in co.co_consts:
                    if hasattr(k, "co_lines"):
                        stack.append(k)
            hits = {ln for f, ln in self.hit if f == path}
            allx = set().union(*funcs.values()) if funcs else set()
            out["files"][rel] = {"executable_lines_in_functions": len(allx), "executed": len(allx & hits)}
            for (qn, first), lines in sorted(funcs.items(), key=lambda x: x[0][1]):
                if lines & hits and lines - hits and "<" not in qn.split(".")[-1]:
                    out["partially_executed_functions"][f"{rel}:{qn}"] = sorted(lines - hits)[:40]
        return out


def check(prop, tier="quick", seed=0):
    t0 = time.time()
    os.environ.setdefault("TMPDIR", str(scratch_dir() / "tmp"))
    Path(os.environ["TMPDIR"]).mkdir(parents=True, exist_ok=True)
    driver = load_driver(prop)
    ctx = Ctx(prop, tier, seed)
    findings = load_findings(prop)
    open_ids = {e["id"] for e in findings if e.get("status") == "open"}

    # 1. proof obligations
    proof = build_props(prop)
    chk = None
    if tier == "thorough" and proof["ok"] and not os.environ.get("VERIF_SKIP_COQCHK"):
        chk = coqchk(prop)
        if not chk["ok"]:
            proof["ok"] = False
            proof["error"] = "coqchk failed: " + chk["tail"][-300:]

    # 2. cases: corpus + witnesses of findings, directed stream, seeded streams
    rng = random.Random(seed * 1000003 + int(prop[1:]))
    cases, origin = [], []
    for c in load_corpus(prop):
        cases.append(c); origin.append("corpus")
    for e in findings:
        if "witness" in e and e["witness"] is not None:
            cases.append(e["witness"]); origin.append("finding:" + e.get("id", "?") + ":" + e.get("status", ""))
    for c in driver.directed():
        cases.append(c); origin.append("directed")
    for c in driver.generate(rng, tier):
        cases.append(c); origin.append("seeded")

    # 3. implementation run + oracle
    obs, n_timeouts = [], 0
    linecov = LineCov(prop)
    linecov.start()
    for c in cases:
        o = run_impl_safe(driver, c)
        obs.append(o)
        if isinstance(o, dict) and str(o.get("harness_escape", "")).startswith("timeout"):
            n_timeouts += 1
            if n_timeouts >= 3:      # the implementation hangs: three witnesses are enough, do not wait for the rest
                ctx.notes.append(f"stopped after {n_timeouts} case timeouts; {len(cases) - len(obs)} cases not run")
                break
    linecov.stop()
    cases, origin = cases[:len(obs)], origin[:len(obs)]
    verdicts = []
    for c, o in zip(cases, obs):
        if isinstance(o, dict) and "harness_escape" in o:
            verdicts.append("harness escape: " + o["harness_escape"])
        else:
            verdicts.append(driver.oracle(c, o))

    # 4. model run
    evaluable = [i for i, o in enumerate(obs) if not (isinstance(o, dict) and "harness_escape" in o)]
    # a driver may declare a case outside its model (to_coq -> None): such a case is decided by the oracle alone
    terms_all = [(i, driver.to_coq(cases[i], obs[i])) for i in evaluable]
    oracle_only = [i for i, t in terms_all if t is None]
    evaluable = [i for i, t in terms_all if t is not None]
    terms = [t for _, t in terms_all if t is not None]
    failing, hist, errors, _ = ([], None, [], None)
    corr_ok = proof["error"] is None or "coq build failed" not in (proof["error"] or "")
    model_built = (COQ / (driver.COQ_REQUIRES[-1].replace("Hio.", "").replace(".", "/") + ".vo")).exists()
    if model_built and terms:
        failing, hist, errors, _ = eval_cases(driver, terms, tier, shard=getattr(driver, "SHARD", 300))
        failing = [evaluable[i] for i in failing]
    elif not model_built:
        errors = ["model not built; correspondence not evaluated"]

    # 5. decision
    n_viol = 0
    lines = []
    seen_classes = set()

    def report(kind, idx, why, suffix=""):
        nonlocal n_viol
        n_viol += 1
        payload = {"property": prop, "kind": kind, "why": why, "seed": seed, "tier": tier}
        if idx is not None:
            payload.update({"case": cases[idx], "observed": obs[idx], "origin": origin[idx]})
        rp = write_replay(prop, seed, n_viol, payload)
        lines.append(f"VIOLATION property={prop} replay={rp}{suffix}")

    # oracle failures on the implementation
    oracle_fail_idx = []
    for i, why in enumerate(verdicts):
        if why is None:
            continue
        escaped = isinstance(obs[i], dict) and "harness_escape" in obs[i]
        cls = driver.classify(cases[i], obs[i], why) if hasattr(driver, "classify") and not escaped else None
        if cls is not None and cls in open_ids:
            ctx.known_hits[cls] = ctx.known_hits.get(cls, 0) + 1
            continue
        oracle_fail_idx.append(i)
    # report at most a handful, smallest first
    oracle_fail_idx.sort(key=lambda i: len(json.dumps(cases[i], default=repr)))
    for i in oracle_fail_idx[:3]:
        c, o = cases[i], obs[i]
        if hasattr(driver, "shrink") and "timeout" not in str(verdicts[i])[:40]:   # never shrink a hang: every candidate may hang too
            c, o = shrink_case(driver, c, lambda cc, oo: driver.oracle(cc, oo) is not None)
            cases[i], obs[i] = c, o
        report("oracle", i, verdicts[i] if c is cases[i] else driver.oracle(c, o))
    have_failing_input = bool(oracle_fail_idx)

    # fixed findings must not come back: their witnesses are in `cases` with origin finding:*:fixed and
    # go through the same oracle, so a regression is reported above.

    # correspondence
    if failing and not have_failing_input:
        i = min(failing, key=lambda i: len(json.dumps(cases[i], default=repr)))
        report("correspondence", i,
               f"model {driver.COQ_CHECK} and implementation disagree on {len(failing)} case(s); "
               f"no case failed the property oracle", " no-failing-input-found")
    elif failing:
        ctx.notes.append(f"correspondence also disagreed on {len(failing)} cases")
    if errors:
        ctx.notes.append("correspondence evaluation errors: " + "; ".join(errors)[:600])
    if errors and not failing and not have_failing_input:
        report("correspondence-error", None, "; ".join(errors)[:2000], " no-failing-input-found")
    if not proof["ok"] and not have_failing_input and not failing and not errors:
        report("proof", None, f"proof obligation no longer checks: {proof['error']}; theorems: {proof['theorems']}",
               " no-failing-input-found")
    elif not proof["ok"]:
        ctx.notes.append(f"proof obligations failed: {proof['error']}")
        if not lines:
            report("proof", None, f"proof obligation no longer checks: {proof['error']}", " no-failing-input-found")

    # extra sweeps / soaks supplied by the driver
    extra = {}
    if hasattr(driver, "extra"):
        extra = driver.extra(tier, ctx) or {}
        for v in ctx.violations:
            n_viol += 1
            rp = write_replay(prop, seed, n_viol, {"property": prop, **v})
            lines.append(f"VIOLATION property={prop} replay={rp}" + (" no-failing-input-found" if v.get("no_input") else ""))

    # known findings: print one line per listed open finding that still reproduces
    for e in findings:
        if e.get("status") == "open":
            hits = ctx.known_hits.get(e["id"], 0)
            if hits:
                print(f"KNOWN-FINDING: property={prop} {e['id']} {e['what']} (reproduced on {hits} case(s))")
            else:
                ctx.notes.append(f"listed finding {e['id']} did not reproduce on this run")

    # 6. evidence
    hashes = {}
    for i in evaluable:
        if driver.nontrivial(cases[i], obs[i]):
            hashes[case_hash(cases[i])] = i
    sample_idx = [i for i, og in enumerate(origin) if og == "seeded"][:2] + [i for i, og in enumerate(origin) if og == "directed"][:1]
    samples = [{"origin": origin[i], "case": cases[i], "observed": obs[i]} for i in sample_idx]
    tb = [
        "Coq 8.16.1 kernel; vm_compute (case evaluation, finite sweeps, refutation witnesses); no native_compute",
        "axioms per theorem (Print Assumptions): " + json.dumps(proof["assumptions"]),
        "hand-written Gallina model tied to /repo's working tree by this run's differential correspondence (Python harness, generators, canonicalisers, literal emitter)",
        "no extraction; no Extract Constant/Inductive directives",
    ] + [f"modelled, not verified: {m}" for m in getattr(driver, "MODELLED", [])]
    if chk:
        tb.append("coqchk -o axioms: " + json.dumps(chk["axioms"]))
    coverage = {
        "obligations": len(proof["theorems"]),
        "discharged": len(proof["theorems"]) if proof["ok"] else 0,
        "checker_cmd": f"make -C coq Props/{prop}.vo (coqc 8.16.1, Print Assumptions per theorem)" + ("; coqchk -o -R coq Hio Hio.Props." + prop if chk else ""),
        "trusted_base": tb,
        "theorems": proof["theorems"],
        "evaluations": len(cases),
        "distinct_nontrivial": len(hashes),
        "rule": driver.RULE,
        "samples": samples,
        "traces_validated_against_impl": 0 if errors else len(evaluable) - len(failing),
        "origins": {k: origin.count(k) for k in sorted(set(o.split(":")[0] for o in origin))},
        "model_branch_histogram": hist,
        "correspondence_disagreements": len(failing),
        "cases_outside_model_oracle_only": len(oracle_only),
        "oracle_failures_unlisted": len(oracle_fail_idx),
        "known_finding_hits": ctx.known_hits,
        "notes": ctx.notes,
        "exhaustive": False,
    }
    if hasattr(driver, "distribution"):
        coverage["input_distribution"] = driver.distribution(cases, obs)
    lc = linecov.report()
    if lc:
        coverage["anchored_source_line_coverage"] = lc
    coverage.update(extra)
    ev = {
        "property_id": prop, "tier": tier, "seed": seed, "level": "proof", "coverage": coverage,
        "assumptions": getattr(driver, "MODELLED", []),
        "wall_s": round(time.time() - t0, 2), "violations": n_viol,
    }
    (OUT / "evidence").mkdir(parents=True, exist_ok=True)
    (OUT / "evidence" / f"{prop}.json").write_text(json.dumps(ev, indent=1, default=repr))
    for l in lines:
        print(l)
    print(f"{prop} {tier} seed={seed}: theorems={len(proof['theorems'])} proved={'yes' if proof['ok'] else 'NO'} "
          f"cases={len(cases)} nontrivial={len(hashes)} disagree={len(failing)} oracle_fail={len(oracle_fail_idx)} "
          f"known={sum(ctx.known_hits.values())} wall={ev['wall_s']}s")
    return 1 if n_viol else 0


def shrink_case(driver, case, still_fails, budget=200):
    """Greedy shrink on the implementation side only (cheap): keep a smaller case while the predicate
    (oracle fails) still holds."""
    obs = run_impl_safe(driver, case)
    steps = 0
    improved = True
    while improved and steps < budget:
        improved = False
        for cand in driver.shrink(case):
            steps += 1
            o = run_impl_safe(driver, cand)
            if isinstance(o, dict) and "harness_escape" in o:
                continue
            if still_fails(cand, o):
                case, obs, improved = cand, o, True
                break
            if steps >= budget:
                break
    return case, obs


def replay(prop, path):
    driver = load_driver(prop)
    payload = json.loads(Path(path).read_text())
    case = payload.get("case")
    if case is None:
        print(json.dumps(payload, indent=1))
        return 0
    obs = run_impl_safe(driver, case)
    why = driver.oracle(case, obs) if not (isinstance(obs, dict) and "harness_escape" in obs) else obs["harness_escape"]
    print("case:", json.dumps(case, default=repr))
    print("implementation observed:", json.dumps(obs, default=repr))
    print("oracle:", "PASS" if why is None else f"FAIL: {why}")
    term = driver.to_coq(case, obs)
    if term is None:
        failing, errors = [], []
        print("model vs implementation: case is outside the model (decided by the oracle alone)")
    else:
        failing, hist, errors, raw = eval_cases(driver, [term], "replay")
        print("model vs implementation:", "AGREE" if not failing and not errors else f"DISAGREE {errors}")
    return 0 if why is None and not failing and not errors else 1
