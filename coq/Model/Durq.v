(* Model of hio.base.hier.durqing.Durq and dusqing.Dusq (with Hold.inject's
   sync) over an abstract durable store machine (state S, [sstep] = one call of
   an IoSuber/IoSetSuber method at the queue's key, [sview] = the values the
   store returns for the key).  Two instances: the SPEC side of the keyed stores
   (Model/IoSub.v spec_io: a dictionary  queue id -> list of serialised values;
   [qstep]/[qrun], used by the theorems of C23) and the LMDB level (step_io over
   the sorted byte-key db of Model/Lmdb.v; [dstep]/[drun]); C24's refinement
   theorem makes them agree (Proofs/DurqLayer.v).
   A value is represented by its serialisation (class name, LF, json): that is
   all that can be observed of it.  Python equality of values is a parameter
   [pyeq]: it is coarser than equality of serialisations (Bag(1) == Bag(1.0) ==
   Bag(True)).  Dusq.remove is modelled AFTER the repair of D26.  NO proofs. *)
From Hio Require Import Base.Prelude Model.Lmdb Model.IoSub.

Notation val := bytes (only parsing).

Record queue := { mem : list val;      (* _deq / _oset, first in first *)
                  stale : bool }.
Definition fresh (pre : list val) : queue := {| mem := pre; stale := true |}.

(* ---- how a queue enters a Hold (hio.base.hier.holding.Hold / hio.help.mining.Mine) ----
   Every entry point stores the item and then hands (key, value) to Hold.inject.  Hold.update
   with a positional non-Mapping iterable walks its argument ONCE, materialising the list [ri],
   and injects from [ri]; an iterable may be single-pass (zip, generator, iterator). *)
Inductive source := Reiterable | OneShot.
Record iterable (A : Type) := { it_items : list A; it_src : source; it_used : bool }.
Arguments it_items {A}. Arguments it_src {A}. Arguments it_used {A}.
Definition walk {A} (it : iterable A) : list A * iterable A :=
  (match it_src it, it_used it with OneShot, true => [] | _, _ => it_items it end,
   {| it_items := it_items it; it_src := it_src it; it_used := true |}).

Inductive entry :=
| ESetItem                        (* hold[k] = q *)
| ESetAttr                        (* hold.k = q  ->  __setitem__ *)
| EUpdateMap                      (* hold.update({k: q}) *)
| EUpdatePairs (src : source)     (* hold.update([(k, q)]) / update(zip(..)) / generator / iterator *)
| EUpdateKw                       (* hold.update(k=q) *)
| ECtorMap | ECtorPairs (src : source) | ECtorKw.   (* Hold(...) = update(...) on a new Hold *)

(* the items Hold hands to inject(), in order, given the items of its argument *)
Definition hold_enter {A} (e : entry) (items : list A) : list A :=
  match e with
  | ESetItem | ESetAttr => items                 (* __setitem__: store, then inject(k, v) *)
  | EUpdateMap | ECtorMap => items               (* rd = {tokey(k): v ...}; for k, v in rd.items(): inject *)
  | EUpdateKw | ECtorKw => items                 (* for k, v in kwa.items(): inject *)
  | EUpdatePairs src | ECtorPairs src =>
    let (ri, _) := walk {| it_items := items; it_src := src; it_used := false |} in
                                                 (* for k, v in di: ri.append((tokey(k), v)) *)
    ri                                           (* for k, v in ri: inject(k, v) *)
  end.

Inductive qop :=
| Push (v : val)
| PushNone
| Extend (vs : list val)        (* Durq.extend / Dusq.update *)
| Pull (emptive : bool)
| Clear
| Count (v : val)               (* Durq only *)
| Remove (v : val)              (* Dusq only *)
| Sync (force : bool)
| Reopen (pre : list val)       (* store closed and reopened; a NEW queue object preloaded with
                                   [pre] is injected at the same key (Hold.inject -> sync) *)
| Enter (e : entry) (pre : list val)  (* a NEW queue object preloaded with [pre] enters the Hold at the
                                        key through entry point e; [Reopen pre] is the abstract step *)
(* rejected operations: an argument that is not a RegDom / IceRegDom instance (it has no
   serialisation, so it is not a [val]) *)
| ExtendBad (pre post : list val) (* extend / update of the batch  pre ++ [invalid] ++ post *)
| PushBad                       (* push(invalid), invalid is not None *)
| RemoveBad                     (* Dusq.remove(invalid) *)
| RawPutBad (pre post : list val) (* .put(pre ++ [invalid] ++ post): the durable-side method itself *)
| RawAddBad                     (* .add(invalid) *)
(* the caller changes a (non-frozen) value object it handed in earlier through push / extend /
   update / the constructor, or obtained from iteration or pull.  Durq (after the repair of D40)
   and Dusq keep and hand out private copies, so this is not an operation on the container. *)
| CallerMutates
(* the store was reopened in a way that does not keep its directory (clear=True, or a temporary
   store reopened without reuse=True): the durable content at the key is gone and the old queue
   object is abandoned; an [Enter] follows *)
| Wiped.

Record snap := { sn_res : res rv; sn_mem : list val; sn_store : list bytes }.

Section Durq.
  Variable pyeq : val -> val -> bool.
  (* the durable side *)
  Variable S : Type.
  Variable st_step : bool -> S -> IoSub.op -> N -> S * res rv.   (* set?, state, method call (its key field is unused), queue id *)
  Variable sview : S -> N -> list bytes.                         (* _sdb.cnt(key) / _sdb.getIter(key) *)

  Definition is_false (r : res rv) : bool :=
    match r with Ok (RBool false) => true | _ => false end.
  Definition is_none (r : res rv) : bool :=
    match r with Ok (ROpt None) => true | _ => false end.

  (* OrderedSet.add / update with Python equality *)
  Definition oset_add (m : list val) (v : val) : list val :=
    if existsb (pyeq v) m then m else m ++ [v].
  Definition oset_update (m : list val) (vs : list val) : list val := fold_left oset_add vs m.
  Fixpoint oset_remove (m : list val) (v : val) : option (list val) :=
    match m with
    | [] => None
    | x :: m' => if pyeq v x then Some m'
                 else match oset_remove m' v with Some r => Some (x :: r) | None => None end
    end.

  (* sync(): durable and (stale or force) *)
  Definition gsync (set : bool) (q : N) (s : S) (st : queue) (force : bool)
    : S * queue * res rv :=
    if stale st || force then
      match sview s q with
      | [] =>                                   (* cnt == 0: pin memory *)
        let (s', _) := st_step set s (OPin [] (mem st)) q in
        (s', {| mem := mem st; stale := false |}, Ok (RBool true))
      | l =>                                    (* load *)
        (s, {| mem := if set then oset_update [] l else l; stale := false |}, Ok (RBool true))
      end
    else (s, st, Ok (ROpt None)).

  (* one operation of a durable Durq (set = false) or Dusq (set = true) bound to key q *)
  Definition gstep (set : bool) (q : N) (s : S) (st : queue) (o : qop)
    : S * queue * res rv :=
    match o with
    | PushNone => (s, st, Ok (RBool false))
    | Push v =>
      if set then
        let m' := oset_add (mem st) v in
        let unique := Nat.ltb (length (mem st)) (length m') in
        let (s', r) := st_step true s (OAdd [] v) q in
        let st' := {| mem := m'; stale := false |} in
        if unique && is_false r then (s', st', Exc HierErr) else (s', st', Ok (RBool true))
      else
        let (s', r) := st_step false s (OAdd [] v) q in
        let st' := {| mem := mem st ++ [v]; stale := false |} in
        if is_false r then (s', st', Exc HierErr) else (s', st', Ok (RBool true))
    | Extend vs =>
      if set then
        let m' := oset_update (mem st) vs in
        if Nat.ltb (length (mem st)) (length m') then
          let (s', r) := st_step true s (OPut [] vs) q in
          let st' := {| mem := m'; stale := false |} in
          if is_false r then (s', st', Exc HierErr) else (s', st', Ok (RBool true))
        else (s, {| mem := m'; stale := stale st |}, Ok (RBool false))
      else
        match vs with
        | [] => (s, st, Ok (RBool false))
        | _ =>
          let (s', r) := st_step false s (OPut [] vs) q in
          let st' := {| mem := mem st ++ vs; stale := false |} in
          if is_false r then (s', st', Exc HierErr) else (s', st', Ok (RBool true))
        end
    | Pull emptive =>
      let (s', r) := st_step set s (OPop []) q in
      match mem st with
      | [] =>
        if negb (is_none r) then (s', st, Exc HierErr)
        else if emptive then (s', st, Ok (ROpt None)) else (s', st, Exc IndexErr)
      | v :: m' =>
        let st' := {| mem := m'; stale := stale st |} in
        if is_none r then (s', st', Exc HierErr) else (s', st', Ok (ROpt (Some v)))
      end
    | Clear =>
      match mem st with
      | [] => (s, st, Ok (RBool false))
      | _ =>
        let (s', r) := st_step set s (ORem []) q in
        let st' := {| mem := []; stale := stale st |} in
        if is_false r then (s', st', Exc HierErr) else (s', st', Ok (RBool true))
      end
    | Count v =>
      if set then (s, st, Exc AttrErr)
      else (s, st, Ok (RNat (N.of_nat (length (filter (pyeq v) (mem st))))))
    | Remove v =>
      if set then
        match oset_remove (mem st) v with
        | None => (s, st, Ok (RBool false))
        | Some m' =>
          let (s', r) := st_step true s (ORemVal [] v) q in
          let st' := {| mem := m'; stale := stale st |} in
          if is_false r then (s', st', Exc HierErr) else (s', st', Ok (RBool true))
        end
      else (s, st, Exc AttrErr)
    | Sync force => gsync set q s st force
    | Enter e pre =>
      match hold_enter e [pre] with
      | [pre'] => gsync set q s (fresh (if set then oset_update [] pre' else pre')) false
      | _ =>      (* stored in the Hold but never handed to inject: not durable *)
        (s, fresh (if set then oset_update [] pre else pre), Ok (RBool false))
      end
    (* the validation loop runs over the whole batch BEFORE anything is touched *)
    | ExtendBad _ _ | PushBad => (s, st, Exc HierErr)
    | RemoveBad => if set then (s, st, Exc HierErr) else (s, st, Exc AttrErr)
    (* put()/add() clear the stale flag, then _ser raises on the invalid member before any write *)
    | RawPutBad _ _ | RawAddBad => (s, {| mem := mem st; stale := false |}, Exc HierErr)
    | CallerMutates => (s, st, Ok (ROpt None))
    | Wiped => let (s', _) := st_step set s (ORem []) q in (s', fresh [], Ok (ROpt None))
    | Reopen pre =>
      gsync set q s (fresh (if set then oset_update [] pre else pre)) false
    end.

  (* several queues of one kind share the sub-db *)
  Definition queues := N -> queue.
  Definition qupd (qs : queues) (q : N) (st : queue) : queues :=
    fun q' => if N.eqb q' q then st else qs q'.

  Fixpoint grun (set : bool) (s : S) (qs : queues) (ops : list (N * qop)) : list snap :=
    match ops with
    | [] => []
    | (q, o) :: ops' =>
      let '(s', st', r) := gstep set q s (qs q) o in
      {| sn_res := r; sn_mem := mem st'; sn_store := sview s' q |} :: grun set s' (qupd qs q st') ops'
    end.

  Definition queues0 : queues := fun _ => fresh [].

  (* ---- SPEC: a FIFO queue (set = false) / an insertion-ordered set with FIFO pull
     (set = true) as a plain list; [Reopen pre] = store reopened and a new object
     resynced: the content is restored (an empty content takes the preload). ---- *)
  Definition ref_step (set : bool) (l : list val) (o : qop) : list val * res rv :=
    match o with
    | PushNone => (l, Ok (RBool false))
    | Push v => if set && existsb (bytes_eqb v) l then (l, Ok (RBool true))
                else (l ++ [v], Ok (RBool true))
    | Extend vs => let new := if set then minus (dedupe vs) l else vs in
                   (l ++ new, Ok (RBool (nonempty new)))
    | Pull emptive =>
      match l with
      | [] => (l, if emptive then Ok (ROpt None) else Exc IndexErr)
      | v :: l' => (l', Ok (ROpt (Some v)))
      end
    | Clear => ([], Ok (RBool (nonempty l)))
    | Count v => if set then (l, Exc AttrErr)
                 else (l, Ok (RNat (N.of_nat (length (filter (pyeq v) l)))))
    | Remove v => if set then (remove1 v l, Ok (RBool (existsb (bytes_eqb v) l)))
                  else (l, Exc AttrErr)
    | Sync _ => (l, Ok (RBool true))          (* content unchanged; the result is not specified *)
    (* a rejected operation leaves the content as it is *)
    | ExtendBad _ _ | PushBad | RawPutBad _ _ | RawAddBad => (l, Exc HierErr)
    | RemoveBad => (l, if set then Exc HierErr else Exc AttrErr)
    | CallerMutates => (l, Ok (ROpt None))
    | Wiped => ([], Ok (ROpt None))
    | Reopen pre | Enter _ pre =>
      match l with
      | [] => (if set then dedupe pre else pre, Ok (RBool true))
      | _ => (l, Ok (RBool true))
      end
    end.
  Definition res_specified (o : qop) : bool := match o with Sync _ => false | _ => true end.

  Fixpoint ref_run (set : bool) (ls : N -> list val) (ops : list (N * qop)) : list (res rv * list val) :=
    match ops with
    | [] => []
    | (q, o) :: ops' =>
      let (l', r) := ref_step set (ls q) o in
      (r, l') :: ref_run set (fun q' => if N.eqb q' q then l' else ls q') ops'
    end.
End Durq.

(* ---- instance 1: the durable side is the dictionary spec of C24, keyed by queue id ---- *)
Definition store := N -> list bytes.
Definition spec_sstep (set : bool) (s : store) (o : IoSub.op) (q : N) : store * res rv :=
  spec_io N.eqb set s o q.
Definition spec_view (s : store) (q : N) : list bytes := s q.
Definition store0 : store := fun _ => [].
Definition qstep (pyeq : val -> val -> bool) := gstep pyeq store spec_sstep spec_view.
Definition qrun (pyeq : val -> val -> bool) := grun pyeq store spec_sstep spec_view.

(* ---- instance 2: the durable side is the LMDB-level model of IoSuber / IoSetSuber; queue q is
   bound to the Hold key [name q] ---- *)
Definition with_key (o : IoSub.op) (k : list bytes) : IoSub.op :=
  match o with
  | OPut _ vs => OPut k vs | OPin _ vs => OPin k vs | OAdd _ v => OAdd k v | OGet _ => OGet k
  | OGetFirst _ => OGetFirst k | OGetLast _ => OGetLast k | OPop _ => OPop k | ORem _ => ORem k
  | ORemVal _ v => ORemVal k v | OCnt _ => OCnt k | ORaise _ e => ORaise k e
  end.
Definition db_sstep (name : N -> bytes) (set : bool) (d : dbb) (o : IoSub.op) (q : N) : dbb * res rv :=
  step_io set d (with_key o [name q]).
Definition db_view (name : N -> bytes) (d : dbb) (q : N) : list bytes :=
  match getIoVals d (name q) with Ok l => l | Exc _ => [] end.
Definition dstep (pyeq : val -> val -> bool) (name : N -> bytes) :=
  gstep pyeq dbb (db_sstep name) (db_view name).
Definition drun (pyeq : val -> val -> bool) (name : N -> bytes) :=
  grun pyeq dbb (db_sstep name) (db_view name).

(* ordinals a queue op can consume in the store *)
Definition rejected (o : qop) : bool :=
  match o with ExtendBad _ _ | PushBad | RemoveBad | RawPutBad _ _ | RawAddBad => true | _ => false end.

Definition qweight (pyeq : val -> val -> bool) (set : bool) (st : queue) (o : qop) : N :=
  match o with
  | Push _ => 1
  | Extend vs => N.of_nat (length vs)
  | Sync _ => N.of_nat (length (mem st))
  | Reopen pre | Enter _ pre => N.of_nat (length (if set then oset_update pyeq [] pre else pre))
  | _ => 0
  end.
(* ... over a history (the queue states are those of the dictionary-level run) *)
Fixpoint qbudget (pyeq : val -> val -> bool) (set : bool) (s : store) (qs : queues)
  (ops : list (N * qop)) : N :=
  match ops with
  | [] => 0
  | (q, o) :: ops' =>
    let '(s', st', _) := qstep pyeq set q s (qs q) o in
    qweight pyeq set (qs q) o + qbudget pyeq set s' (qupd qs q st') ops'
  end.

(* The model's history [sns] agrees with the reference history [refs]: after every op the
   memory content is the reference content, THE DURABLE COPY EQUALS IT (same values, same
   order), and the result is the reference result. *)
Fixpoint run_ok (ops : list (N * qop)) (sns : list snap) (refs : list (res rv * list bytes)) : Prop :=
  match ops, sns, refs with
  | [], [], [] => True
  | (q, o) :: ops', sn :: sns', (r, l) :: refs' =>
    sn_mem sn = l /\ sn_store sn = l /\ (res_specified o = true -> sn_res sn = r) /\
    run_ok ops' sns' refs'
  | _, _, _ => False
  end.

(* ============== both kinds in one Subery ==============
   Subery.reopen opens two named sub-dbs: drqs = DomIoSuber(subkey "drqs.") for Durq and
   dsqs = DomIoSetSuber(subkey "dsqs.") for Dusq.  The environment maps a sub-db name to its
   store; a queue of kind kd at key q lives in the store named [subkey_of kd], so the durable
   side is keyed by (kind, key): a Durq and a Dusq may sit at the same key. *)
Definition drqs_key : bytes := [100; 114; 113; 115; 46]%N.   (* "drqs." *)
Definition dsqs_key : bytes := [100; 115; 113; 115; 46]%N.   (* "dsqs." *)
Definition subkey_of (kd : bool) : bytes := if kd then dsqs_key else drqs_key.

Section Mixed.
  Variable pyeq : val -> val -> bool.
  Variable S : Type.
  Variable st_step : bool -> S -> IoSub.op -> N -> S * res rv.
  Variable sview : S -> N -> list bytes.

  Definition menv := bytes -> S.
  Definition mqueues := bool -> N -> queue.
  Definition mqupd (qs : mqueues) (kd : bool) (q : N) (st : queue) : mqueues :=
    fun kd' q' => if Bool.eqb kd' kd && N.eqb q' q then st else qs kd' q'.

  Definition mstep (kd : bool) (q : N) (E : menv) (st : queue) (o : qop) : menv * queue * res rv :=
    let '(s', st', r) := gstep pyeq S st_step sview kd q (E (subkey_of kd)) st o in
    (upd bytes_eqb E (subkey_of kd) s', st', r).

  Fixpoint mrun (E : menv) (qs : mqueues) (ops : list (bool * N * qop)) : list snap :=
    match ops with
    | [] => []
    | (kd, q, o) :: ops' =>
      let '(E', st', r) := mstep kd q E (qs kd q) o in
      {| sn_res := r; sn_mem := mem st'; sn_store := sview (E' (subkey_of kd)) q |}
        :: mrun E' (mqupd qs kd q st') ops'
    end.

  (* reference: one independent FIFO queue / ordered set per (kind, key) *)
  Fixpoint mref_run (ls : bool -> N -> list val) (ops : list (bool * N * qop)) : list (res rv * list val) :=
    match ops with
    | [] => []
    | (kd, q, o) :: ops' =>
      let (l', r) := ref_step pyeq kd (ls kd q) o in
      (r, l') :: mref_run (fun kd' q' => if Bool.eqb kd' kd && N.eqb q' q then l' else ls kd' q') ops'
    end.
End Mixed.

Fixpoint mrun_ok (ops : list (bool * N * qop)) (sns : list snap) (refs : list (res rv * list bytes)) : Prop :=
  match ops, sns, refs with
  | [], [], [] => True
  | (_, _, o) :: ops', sn :: sns', (r, l) :: refs' =>
    sn_mem sn = l /\ sn_store sn = l /\ (res_specified o = true -> sn_res sn = r) /\
    mrun_ok ops' sns' refs'
  | _, _, _ => False
  end.

Definition mqueues0 : mqueues := fun _ _ => fresh [].
Definition menv0 : menv store := fun _ => store0.

(* ============== correspondence ============== *)
(* Python equality is supplied by the harness as a table value -> class id
   (computed by comparing the real objects with ==). *)
Fixpoint class_of (tbl : list (bytes * N)) (v : bytes) : option N :=
  match tbl with
  | [] => None
  | (x, c) :: t => if bytes_eqb v x then Some c else class_of t v
  end.
Definition pyeq_of (tbl : list (bytes * N)) (a b : bytes) : bool :=
  match class_of tbl a, class_of tbl b with
  | Some x, Some y => N.eqb x y
  | _, _ => bytes_eqb a b
  end.

Record case := { c_names : list bytes;                (* Hold key of queue 0, 1, ... *)
                 c_eq : list (bytes * N);
                 c_ops : list (bool * N * qop);      (* kind (false: Durq, true: Dusq), queue, op *)
                 c_obs : list snap }.                (* result, list(q), sdb content after every op *)

Definition snap_eqb (a b : snap) : bool :=
  res_eqb rv_eqb (sn_res a) (sn_res b) &&
  list_eqb bytes_eqb (sn_mem a) (sn_mem b) &&
  list_eqb bytes_eqb (sn_store a) (sn_store b).

(* both instances of the model must reproduce the observations: over the dictionary and over
   the LMDB-level model of the sub-db *)
Definition check_case (c : case) : bool :=
  list_eqb snap_eqb
    (mrun (pyeq_of (c_eq c)) store spec_sstep spec_view menv0 mqueues0 (c_ops c)) (c_obs c) &&
  list_eqb snap_eqb
    (mrun (pyeq_of (c_eq c)) dbb (db_sstep (fun q => nth (N.to_nat q) (c_names c) []))
          (db_view (fun q => nth (N.to_nat q) (c_names c) [])) (fun _ => @nil (bytes * bytes)) mqueues0 (c_ops c))
    (c_obs c).

Definition qop_index (o : qop) : nat :=
  match o with
  | Push _ => 0 | PushNone => 1 | Extend _ => 2 | Pull _ => 3 | Clear => 4 | Count _ => 5
  | Remove _ => 6 | Sync _ => 7 | Reopen _ => 8 | ExtendBad _ _ => 9 | PushBad => 10
  | RemoveBad => 11 | RawPutBad _ _ => 12 | RawAddBad => 13 | Enter _ _ => 14
  | CallerMutates => 15 | Wiped => 16
  end.
Definition n_branches : nat := 102.
Definition case_branches (c : case) : list nat :=
  map (fun p : (bool * N * qop) * snap => ((if fst (fst (fst p)) then 51 else 0) + qop_index (snd (fst p)) * 3 + outcome (sn_res (snd p)))%nat)
      (combine (c_ops c) (mrun (pyeq_of (c_eq c)) store spec_sstep spec_view menv0 mqueues0 (c_ops c))).
