#!/usr/bin/env python3
"""Regenerate coq/_CoqProject (and the coq_makefile Makefile) from the files
present under coq/{Base,Model,Proofs,Props}.  Rewrites only when the list
changed, so that `make` stays incremental."""
import os, subprocess, sys
from pathlib import Path
COQ = Path(__file__).resolve().parent.parent / "coq"
def main():
    files = []
    for d in ("Base", "Model", "Proofs", "Props"):
        files += sorted(str(p.relative_to(COQ)) for p in (COQ / d).glob("*.v"))
    text = "-R . Hio\n-arg -w -arg -notation-overridden,-deprecated\n" + "\n".join(files) + "\n"
    proj = COQ / "_CoqProject"
    changed = (not proj.exists()) or proj.read_text() != text
    if changed:
        proj.write_text(text)
    if changed or not (COQ / "Makefile").exists():
        subprocess.run(["coq_makefile", "-f", "_CoqProject", "-o", "Makefile"], cwd=COQ, check=True,
                       stdout=subprocess.DEVNULL)
    return 0
if __name__ == "__main__":
    sys.exit(main())
