(* Association-list maps keyed by N, with the four frame lemmas every
   invariant proof needs.  [get] finds the first binding, [del] removes all
   bindings of a key, [set] = cons after del, so keys stay unique. *)
From Hio Require Import Base.Prelude.

Section AMap.
  Context {V : Type}.
  Definition amap := list (N * V).

  Fixpoint get (m : amap) (k : N) : option V :=
    match m with
    | [] => None
    | (k', v) :: m' => if N.eqb k k' then Some v else get m' k
    end.

  Fixpoint del (m : amap) (k : N) : amap :=
    match m with
    | [] => []
    | (k', v) :: m' => if N.eqb k k' then del m' k else (k', v) :: del m' k
    end.

  Definition set (m : amap) (k : N) (v : V) : amap := (k, v) :: del m k.

  Definition mem (m : amap) (k : N) : bool :=
    match get m k with Some _ => true | None => false end.

  Definition keys (m : amap) : list N := map fst m.

  Lemma get_del_same m k : get (del m k) k = None.
  Proof.
    induction m as [|[k' v] m IH]; simpl; [reflexivity|].
    destruct (N.eqb k k') eqn:E; [exact IH|]. simpl. now rewrite E.
  Qed.

  Lemma get_del_other m k j : j <> k -> get (del m k) j = get m j.
  Proof.
    intros Hne. induction m as [|[k' v] m IH]; simpl; [reflexivity|].
    destruct (N.eqb k k') eqn:E.
    - apply N.eqb_eq in E. subst k'. rewrite IH.
      destruct (N.eqb j k) eqn:E2; [apply N.eqb_eq in E2; contradiction|reflexivity].
    - simpl. now rewrite IH.
  Qed.

  Lemma get_set_same m k v : get (set m k v) k = Some v.
  Proof. unfold set; simpl. now rewrite N.eqb_refl. Qed.

  Lemma get_set_other m k v j : j <> k -> get (set m k v) j = get m j.
  Proof.
    intros Hne. unfold set; simpl.
    destruct (N.eqb j k) eqn:E; [apply N.eqb_eq in E; contradiction|].
    now apply get_del_other.
  Qed.

  Lemma mem_true_iff m k : mem m k = true <-> exists v, get m k = Some v.
  Proof.
    unfold mem. destruct (get m k) as [v|]; split; intro H; try discriminate.
    - now exists v.
    - reflexivity.
    - destruct H as [v H]. discriminate.
  Qed.

  Lemma mem_false_iff m k : mem m k = false <-> get m k = None.
  Proof. unfold mem. destruct (get m k); split; intro H; congruence. Qed.
End AMap.
Arguments amap V : clear implicits.
