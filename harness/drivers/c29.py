"""C29 — Filer: everything created or deleted stays inside the Filer's own head directory; close(clear=True) removes
what it created and nothing outside its own path.

Every case runs the real Filer in a fresh sandbox directory tree under core.scratch_dir():
    <root>/head   headDirPath          <root>/alt   AltHeadDirPath (class attribute of a local subclass, never ~)
    <root>/tmp    TempHeadDir (mkdtemp makes <root>/tmp/hio_XXXX_test, canonicalised to tmp/T0, tmp/T1, ... in order of creation)
The tree is snapshotted before the constructor, after it, after an optional owner step (a file or directory made at
.path, as a subclass such as an LMDB or socket owner would) and after close(clear=True).
"""
import itertools, os, posixpath, shutil, socket, stat
from harness.core import coq_list, coq_bool, coq_res, coq_nat, exn_kind, scratch_dir

PROP = "C29"
COQ_REQUIRES = ["Hio.Model.Path"]
COQ_CHECK = "Path.check_case"
COQ_CASE_TYPE = "Path.case"
COQ_BRANCHES = ("Path.case_branches", "Path.n_branches")
SHARD = 200
RULE = ("name and base built from 0-3 segments out of {a, b, x.y, .h, .., ., '', a., ..., ~, c.text, ..a} (so dotted, "
        "empty, hidden, climbing and extension-bearing segments, sometimes absolute) x all 16 combinations of temp, "
        "clean, filed, extensioned x pre-populated sandbox (nothing / file or directory already at the target path, "
        "with siblings / the tail directory replaced by a file so that the alt head is used / something at the alt "
        "path) x owner step (a file, a directory, a FIFO, a bound unix socket or a symbolic link to a directory made at "
        ".path, with siblings in the same directory); a history stream runs the constructor and then 1-5 reopen(temp=None/True/False, fext, clear, "
        "reuse, clean) / close(clear) calls on one Filer with a sibling Filer's file and unrelated files in the shared "
        "directories, and direct remake(name, base, temp, clean, filed, extensioned, fext) calls whose base/name differ "
        "from the constructor's (climbing, absolute, empty); 40 % of the histories run inside `with openFiler(...)` and "
        "leave the block normally or by an exception (the exit is one more observed call); histories also wrap the Filer "
        "in a FilerDoer run by a real Doist (injected temp None/True/False, Filer opened or closed beforehand, normal end "
        "or forced exit at the time limit; enter and exit observed separately; close / reopen / remake calls on the filer "
        "between enter and exit; two doers sharing one filer); a stream gives the Filer a RELATIVE headDirPath (data, ./data, "
        "a/../data, ~/data, ...) and moves the working directory between the calls, with another instance's resources at "
        "the same relative place under the other working directory; 30 % of the cases use a Filer subclass overriding "
        "TempPrefix / TempSuffix (.path must be absolute; .temp is observed after every call, snapshotting after every call (the walk starts 6 directories "
        "above the sandbox root, so escapes show up as ../ paths); thorough enumerates all 16 flag sets x all name/base pairs of <= 2 segments; non-trivial "
        "= a dotted segment ('.', '..' or '...'), or temp with filed, extensioned or clean, or a history of >= 2 calls or "
        "with a clearing temp flip")
MODELLED = ["POSIX path strings as segment lists split at '/' (os.path.join/normpath/abspath/split/splitext/isabs)",
            "the file system as a set of (path, is-file) entries; os.makedirs/mkdir/remove/shutil.rmtree/os.open on it",
            "tempfile.mkdtemp as creation of one fresh directory tmp/T; os.access as always true (the owner); chmod as no-op",
            "symbolic links and concurrent modification of the tree are not modelled"]

SEGS = ["a", "b", "x.y", ".h", "..", ".", "", "a.", "...", "~", "c.text", "..a"]
_counter = itertools.count()


# ----------------------------------------------------------------------------- cases

def mk(name="x", base="", temp=False, clean=False, filed=False, ext=False, fext="text", pre=(), owner=0):
    return {"name": name, "base": base, "temp": temp, "clean": clean, "filed": filed, "ext": ext, "fext": fext,
            "pre": [list(p) for p in pre], "owner": owner}


def expected_rel(case, alt=False):
    """where the target lies when accepted (posixpath arithmetic, used only to place pre-existing entries)"""
    name = case["name"]
    if (case["filed"] or case["ext"]) and not posixpath.splitext(name)[1]:
        name = f"{name}.{case['fext']}"
    tail = (".hio" if alt else "hio") + ("/clean" if case["clean"] else "")
    head = "alt" if alt else "head"
    return posixpath.normpath(posixpath.join("/", head, tail, case["base"], name)).lstrip("/")


def directed():
    out = []
    for temp, clean, filed, ext in itertools.product([False, True], repeat=4):
        out.append(mk("x", "b", temp, clean, filed, ext))
    out += [
        mk("../../x"), mk("x", "../.."), mk(".."), mk("../../../x", temp=True), mk("a/../../x", "b"),      # D32a
        mk("x", temp=True), mk("x", "b/c", temp=True, filed=True), mk("x", temp=True, ext=True),            # D32b
        mk("x", temp=True, ext=True, owner=1), mk("x", temp=True, ext=True, owner=2), mk("x", ext=True, owner=2),
        mk("/x"), mk("x", "/b"), mk("a/", filed=True), mk("a.", filed=True), mk(".h", filed=True), mk("", filed=True),
        mk(""), mk("a/../b", "c/./d"), mk("..", "a"), mk("...", "", filed=True), mk("x.y", ext=True, owner=1),
        mk("~", "~", filed=True), mk("x", "", fext="db", filed=True),
    ]
    # clean over pre-existing things
    for filed, ext in [(False, False), (True, False), (False, True), (True, True)]:
        c = mk("x", "b", clean=True, filed=filed, ext=ext)
        p = expected_rel(c)
        out.append(dict(c, pre=[[p, True], [posixpath.dirname(p) + "/sib", True]]))
        out.append(dict(c, pre=[[p, False], [p + "/in", True], [posixpath.dirname(p) + "/sib", True]]))
    # existing without clean (reuse in place), filed over a directory
    c = mk("x", "b"); out.append(dict(c, pre=[[expected_rel(c), False], [expected_rel(c) + "/in", True]]))
    c = mk("x", "b", filed=True); out.append(dict(c, pre=[[expected_rel(c), True]]))
    c = mk("x", "b", filed=True); out.append(dict(c, pre=[[expected_rel(c), False]]))
    # alt head: tail directory is a file
    for filed, ext in [(False, False), (True, False), (False, True)]:
        c = mk("x", "b", filed=filed, ext=ext)
        out.append(dict(c, pre=[["head/hio", True]]))
        out.append(dict(c, pre=[["head/hio", True], [expected_rel(c, alt=True), bool(filed)]]))
    out.append(dict(mk("x"), pre=[["head/hio", True], ["alt/.hio", True]]))
    # an extensioned, non-filed Filer whose path end is a FIFO / unix socket / symbolic link to a directory (the
    # owner made it, as a uxd Peer does), siblings in the same directory
    for temp in (False, True):
        for ext in (True, False):
            for owner in (3, 4, 5):
                c = with_siblings(mk("x", "b", temp=temp, ext=ext, owner=owner))
                out.append(dict(c, pre=c["pre"] + [["alt/lt", False]]))
    return out + directed_histories() + directed_remakes() + directed_ctx() + directed_doers() + directed_rel() + directed_subs()


def rand_path(rng):
    k = rng.choice([0, 1, 1, 1, 2, 2, 3])
    s = "/".join(rng.choice(SEGS if rng.random() < 0.5 else ["a", "b", "x.y", ".."]) for _ in range(k))
    if rng.random() < 0.04:
        s = "/" + s
    return s


def random_case(rng):
    c = mk(rand_path(rng) if rng.random() < 0.9 else "x", rand_path(rng) if rng.random() < 0.6 else "",
           rng.random() < 0.4, rng.random() < 0.4, rng.random() < 0.5, rng.random() < 0.4,
           rng.choice(["text", "text", "db"]), (), rng.choice([0, 0, 0, 1, 2, 3, 4, 5]))
    r = rng.random()
    pre = []
    try:
        p, q = expected_rel(c), expected_rel(c, alt=True)
    except Exception:
        return c
    inside = p.startswith("head/") and p != "head"
    if inside and r < 0.15:
        pre = [[p, True]]
    elif inside and r < 0.25:
        pre = [[p, True], [posixpath.dirname(p) + "/sib", True]]
    elif inside and r < 0.4:
        pre = [[p, False], [p + "/in", True]]
    elif r < 0.5:
        pre = [["head/hio", True]]
    elif r < 0.55 and q.startswith("alt/"):
        pre = [["head/hio", True], [q, rng.random() < 0.5]]
    elif r < 0.6:
        pre = [["head/hio/other", False], ["head/hio/other/f", True], ["alt/.hio/o", True]]
    # drop pre entries that would clash (a file used as a directory by another entry)
    files = {e[0] for e in pre if e[1]}
    pre = [e for e in pre if not any(e[0].startswith(f + "/") for f in files)]
    if c["owner"] >= 3:
        if inside and not any(e[0] == "head/hio" for e in pre) and rng.random() < 0.7:
            d = posixpath.dirname(p)
            pre += [e for e in ([d + "/sib.text", True], [d + "/other", True]) if e[0] != p and not any(q[0] == e[0] for q in pre)]
        pre.append(["alt/lt", False])
    return dict(c, pre=pre)


def with_siblings(c):
    """unrelated files and a sibling Filer's file in the directories the Filer's persistent paths share"""
    pre = list(c["pre"])
    for clean in (False, True):
        p = expected_rel(dict(c, clean=clean))
        d = posixpath.dirname(p)
        if d.startswith("head/hio"):
            pre += [[d + "/sib.text", True], [d + "/other", True]]
    return dict(c, pre=pre)


def hist(c, *hops):
    return dict(with_siblings(c), hops=[list(h) for h in hops])


def directed_histories():
    R, C = "reopen", "close"
    out = []
    for filed, ext in [(True, False), (False, True), (False, False)]:
        per = mk("x", "b", filed=filed, ext=ext)
        tmp = mk("x", "b", temp=True, filed=filed, ext=ext)
        out += [
            hist(per, (R, True, None, True, False, False)),                    # seeded A: persistent -> temp with clear
            hist(tmp, (R, False, None, True, False, False)),                   # seeded B: temp -> persistent with clear
            hist(per, (R, True, None, False, True, False), (C, True)),         # D32c: reuse across a temp flip, then clear
            hist(tmp, (R, False, None, False, True, False), (C, True)),        # D32c the other way
            hist(per, (R, None, None, True, False, False), (C, True)),
            hist(tmp, (R, None, None, True, False, False), (R, True, None, True, True, False), (C, True)),
            hist(per, (C, False), (R, None, None, False, True, False), (R, None, "db", False, False, False), (C, True)),
            hist(per, (R, None, None, False, False, True), (R, None, None, True, False, True), (C, True)),
            hist(per, (R, True, None, False, False, False), (R, False, None, True, False, False), (C, True)),
        ]
    # a reopen that raises: the new extension's target already exists as a directory
    c = mk("x", "b", filed=True)
    out.append(dict(hist(c, (R, None, "db", True, False, False), (C, True)), pre=[["head/hio/b/x.db", False]]))
    return out


def rand_remake(rng):
    return ["remake", rand_path(rng) if rng.random() < 0.8 else "x",
            rng.choice(["", "b", "..", "../..", "../../../up", "../../../../up", "b/../..", "/abs", "c/..", rand_path(rng)]),
            rng.random() < 0.4, rng.random() < 0.2, rng.random() < 0.5, rng.random() < 0.3, rng.choice(["text", "db"])]


def directed_remakes():
    out = []
    for temp, filed, ext in [(False, False, False), (True, False, False), (False, True, False), (True, True, False),
                             (False, False, True), (True, False, True)]:
        c = mk("x", "b", temp=temp, filed=filed, ext=ext)
        hops = [["remake", "x", bs, temp, False, filed, ext, "text"]
                for bs in ("../../../up", "..", "", "c", "/abs", "b/../../..", "d/..")]
        hops += [["remake", nm, "b", temp, False, filed, ext, "text"] for nm in ("../../x", "y", "../y", "a/../../../z")]
        hops += [["remake", "y", "c", not temp, True, filed, ext, "db"], ["close", True]]
        out.append(dict(with_siblings(c), hops=hops))
    return out


def directed_ctx():
    R = "reopen"
    out = []
    for filed, ext in [(True, False), (False, False), (False, True)]:
        per = mk("x", "b", filed=filed, ext=ext)
        tmp = mk("x", "b", temp=True, filed=filed, ext=ext)
        for rz in (False, True):
            for cl in (False, True):
                out += [
                    dict(with_siblings(per), hops=[], ctx={"clear": cl, "raise": rz}),
                    dict(with_siblings(tmp), hops=[], ctx={"clear": cl, "raise": rz}),
                    # seeded C29-4: the temp flag changes inside the block
                    dict(hist(per, (R, True, None, True, False, False)), ctx={"clear": cl, "raise": rz}),
                    dict(hist(tmp, (R, False, None, True, False, False)), ctx={"clear": cl, "raise": rz}),
                    dict(hist(per, (R, True, None, False, False, False), (R, False, None, True, False, False)), ctx={"clear": cl, "raise": rz}),
                ]
        out.append(dict(hist(per, ("remake", "y", "c", True, False, filed, ext, "text")), ctx={"clear": False, "raise": False}))
    # a call that raises inside the block: the block is left by that exception
    c = mk("x", "b", filed=True)
    out.append(dict(hist(c, (R, None, "db", True, False, False)), pre=[["head/hio/b/x.db", False]], ctx={"clear": False, "raise": False}))
    return out


def directed_doers():
    R, C = "reopen", "close"
    out = []
    for filed, ext in [(True, False), (False, False), (False, True)]:
        for temp in (False, True):
            c = mk("x", "b", temp=temp, filed=filed, ext=ext)
            for inj in (None, True, False):
                for forced in (False, True):
                    out.append(hist(c, ("doer", inj, forced)))                        # opened beforehand
                    out.append(hist(c, (C, False), ("doer", inj, forced)))            # closed beforehand
            out.append(hist(c, ("doer", not temp, False), ("doer", None, True), (C, True)))
            # calls on the filer between the doer's enter and exit, and two doers sharing the filer
            for forced in (False, True):
                out.append(hist(c, ("doer", None, forced, [[C, False]])))                 # seeded C29-7: plain close() in between
                out.append(hist(c, ("doer", True, forced, [[C, False]])))
                out.append(hist(c, (C, False), ("doer", True, forced, [[C, False]], 2)))
                out.append(hist(c, ("doer", None, forced, [[C, True]])))
                out.append(hist(c, ("doer", None, forced, [[R, not temp, None, True, False, False], [C, False]])))
                out.append(hist(c, ("doer", None, forced, [["remake", "y", "c", True, False, filed, ext, "text"], [C, False]], 2)))
                out.append(hist(c, ("doer", None, forced, [], 2)))
                out.append(hist(c, (C, False), ("doer", not temp, forced, [[R, None, None, False, True, False]], 2)))
            out.append(hist(c, (C, True), ("doer", not temp, False), (R, None, None, False, True, False), ("doer", temp, True)))
    return out


REL_PRE = [["cw1/data", False], ["cw2/data", False], ["home/data", False], ["cw1/a/data", False], ["cw2/a", False]]


def rel_case(c, relhead, cwd0, hops, twin=True):
    """a Filer with a relative headDirPath, constructed in cwd0, with chdir calls in its history; `twin` puts another
    instance's resources at the same relative place under the other working directory"""
    pre = list(REL_PRE)
    if twin:
        p = expected_rel(c)                   # head/hio/...
        for cw in ("cw1", "cw2"):
            q = cw + "/data/" + p[len("head/"):]
            d = posixpath.dirname(q)
            pre += [[d + "/sib.text", True], [d + "/other", True]]
            if cw != cwd0 and not c["temp"]:
                pre.append([q, bool(c["filed"] or c["ext"])] if (c["filed"] or c["ext"]) else [q + "/theirs", True])
    return dict(c, pre=pre, relhead=relhead, cwd0=cwd0, hops=[list(h) for h in hops])


def directed_rel():
    R, C, D = "reopen", "close", "chdir"
    out = []
    for filed, ext in [(True, False), (False, False), (False, True)]:
        for relhead in ("data", "./data", "a/../data", "~/data"):
            c = mk("x", "b", filed=filed, ext=ext)
            out += [
                rel_case(c, relhead, "cw1", [(D, "cw2"), (C, True)]),                                   # seeded C29-8
                rel_case(c, relhead, "cw1", [(D, "cw2"), (R, None, None, True, False, False), (D, "cw1"), (C, True)]),
                rel_case(c, relhead, "cw1", [(C, False), (D, "cw2"), (R, None, None, False, True, False), (C, True)]),
                rel_case(c, relhead, "cw2", [(D, "cw1"), (R, None, None, False, False, True), (D, "cw2"), (C, True)]),
                rel_case(c, relhead, "cw1", [(D, "cw2"), ("doer", None, False, [[C, False]]), (C, True)]),
            ]
        out.append(rel_case(mk("x", "b", temp=True, filed=filed, ext=ext), "data", "cw1", [(D, "cw2"), (R, False, None, True, False, False), (D, "cw1"), (C, True)]))
    return out


def random_rel(rng):
    c = mk(rng.choice(["x", "x.y", "a/x"]), rng.choice(["b", "", "b/c"]), rng.random() < 0.2, False,
           rng.random() < 0.5, rng.random() < 0.35, "text")
    hops = []
    for _ in range(rng.choice([1, 2, 3, 4])):
        r = rng.random()
        if r < 0.4:
            hops.append(["chdir", rng.choice(["cw1", "cw2", "cw1/a", "home"])])
        elif r < 0.7:
            hops.append(["reopen", rng.choice([None, None, True, False]), None, rng.random() < 0.6, rng.random() < 0.35, False])
        else:
            hops.append(["close", rng.random() < 0.7])
    hops += [["chdir", rng.choice(["cw1", "cw2"])], ["close", True]]
    return rel_case(c, rng.choice(["data", "./data", "a/../data", "~/data", "data/", "./a/.././data"]),
                    rng.choice(["cw1", "cw2"]), hops, twin=rng.random() < 0.7)


def random_history(rng):
    c = mk(rng.choice(["x", "x", "x.y", "a/x", "x", ".h"]), rng.choice(["b", "b", "", "b/c"]),
           rng.random() < 0.4, rng.random() < 0.25, rng.random() < 0.5, rng.random() < 0.35, "text")
    hops = []
    for _ in range(rng.choice([1, 2, 2, 3, 4, 5])):
        if rng.random() < 0.2:
            inner = []
            for _ in range(rng.choice([0, 0, 1, 1, 2])):
                r = rng.random()
                if r < 0.5:
                    inner.append(["close", rng.random() < 0.3])
                elif r < 0.8:
                    inner.append(["reopen", rng.choice([None, None, True, False]), None, rng.random() < 0.5,
                                  rng.random() < 0.3, False])
                else:
                    inner.append(rand_remake(rng))
            hops.append(["doer", rng.choice([None, True, False]), rng.random() < 0.5, inner, rng.choice([1, 1, 2])])
        elif rng.random() < 0.3:
            hops.append(rand_remake(rng))
        elif rng.random() < 0.7:
            hops.append(["reopen", rng.choice([None, None, True, False]), rng.choice([None, None, None, "db"]),
                         rng.random() < 0.6, rng.random() < 0.35, rng.random() < 0.2])
        else:
            hops.append(["close", rng.random() < 0.7])
    h = dict(with_siblings(c), hops=hops)
    if rng.random() < 0.4:
        h["ctx"] = {"clear": rng.random() < 0.3, "raise": rng.random() < 0.3}
    return h


SUBS = [{"prefix": "app_", "suffix": "_tmp"}, {"prefix": "app_", "suffix": "_test"}, {"prefix": "hio_", "suffix": "_tmp"},
        {"prefix": "", "suffix": ""}, {"prefix": "hio_lmdb_", "suffix": "_test"}]


def with_sub(rng, c):
    if rng.random() < 0.3:
        c = dict(c, sub=rng.choice(SUBS))
    return c


def directed_subs():
    out = []
    for sub in SUBS[:3]:
        for clean, filed, ext in itertools.product([False, True], repeat=3):
            c = mk("x", "b", temp=True, clean=clean, filed=filed, ext=ext)
            out.append(dict(c, sub=sub))
        per = mk("x", "b", filed=True)
        tmp = mk("x", "b", temp=True, filed=True)
        out += [dict(hist(tmp, ("close", True)), sub=sub),
                dict(hist(per, ("reopen", True, None, True, False, False), ("close", True)), sub=sub),
                dict(hist(tmp, ("doer", None, False)), sub=sub),
                dict(hist(per, ("close", False), ("doer", True, True, [["close", False]])), sub=sub),
                dict(with_siblings(tmp), hops=[], ctx={"clear": False, "raise": False}, sub=sub),
                dict(hist(per, ("reopen", True, None, True, False, False)), ctx={"clear": False, "raise": True}, sub=sub)]
    return out


def generate(rng, tier):
    out = [with_sub(rng, random_case(rng)) for _ in range(900 if tier == "quick" else 6000)]
    out += [with_sub(rng, random_history(rng)) for _ in range(300 if tier == "quick" else 3000)]
    out += [random_rel(rng) for _ in range(150 if tier == "quick" else 1500)]
    if tier == "thorough":
        segs = ["a", "x.y", "..", ".", "", ".h"]
        paths = [""] + segs[:3] + ["/".join(p) for p in itertools.product(segs, repeat=2)]
        for flags in itertools.product([False, True], repeat=4):
            for name in paths:
                for base in ["", "b", "..", "b/..", "../b"]:
                    out.append(mk(name, base, *flags))
    return out


# ----------------------------------------------------------------------------- implementation

def _canon(parts, tmap):
    """name the mkdtemp directories T0, T1, ... in order of first appearance"""
    if len(parts) >= 2 and parts[0] == "tmp":
        if parts[1] not in tmap:
            tmap[parts[1]] = "T%d" % len(tmap)
        parts = [parts[0], tmap[parts[1]]] + parts[2:]
    return parts


DEPTH = 6     # the sandbox root sits this many directories below the per-case directory that is walked, so that
              # paths escaping the root with up to DEPTH '..' still land inside the scratch tree and are seen


def _snapshot(root, tmap):
    outer = root
    for _ in range(DEPTH):
        outer = os.path.dirname(outer)
    out = []
    for d, dirs, files in os.walk(outer):
        dirs.sort()
        for x in dirs + sorted(files):
            full = os.path.join(d, x)
            m = os.lstat(full).st_mode
            # False = directory, True = regular file, "o" = exists but neither (FIFO, socket, symbolic link)
            kind = False if stat.S_ISDIR(m) else (True if stat.S_ISREG(m) else "o")
            out.append([os.path.relpath(full, root), kind])
    # the chain of directories leading to the root is not content; anything else above the root shows up as ../...
    out = [e for e in out if e[0] != "." and set(e[0].split(os.sep)) != {".."}]
    return sorted([_canon(rel.split(os.sep), tmap), isf] for rel, isf in out)


def _relpath(path, root, tmap):
    if path is None:
        return None
    rel = os.path.relpath(path, root).split(os.sep)
    return [] if rel == ["."] else _canon(rel, tmap)


def run_impl(case):
    from hio.base.filing import Filer
    outer = os.path.join(str(scratch_dir()), "c29", str(next(_counter)))
    shutil.rmtree(outer, ignore_errors=True)
    root = os.path.join(outer, *(["r"] * DEPTH))
    for d in ("head", "alt", "tmp"):
        os.makedirs(os.path.join(root, d))

    class SandboxFiler(Filer):
        HeadDirPath = os.path.join(root, "head")
        AltHeadDirPath = os.path.join(root, "alt")
        TempHeadDir = os.path.join(root, "tmp")
    sub = case.get("sub")
    if sub:
        # a subclass that overrides the naming of its mkdtemp directory (as hio's own Duror / Peer subclasses do)
        SandboxFiler.TempPrefix = sub["prefix"]
        SandboxFiler.TempSuffix = sub["suffix"]

    filer = None
    cwd_before, home_before = os.getcwd(), os.environ.get("HOME")
    try:
        for rel, isf in case["pre"]:
            full = os.path.join(root, rel)
            if os.path.lexists(full) and not isf:
                continue
            if isf:
                os.makedirs(os.path.dirname(full), exist_ok=True)
                with open(full, "w") as f:
                    f.write("pre")
            else:
                os.makedirs(full, exist_ok=True)
        tmap = {}
        obs = {"pre": _snapshot(root, tmap)}
        head_arg = os.path.join(root, "head")
        if case.get("relhead") is not None:
            # a relative headDirPath: resolved by remake against the working directory of that moment ("~": HOME)
            head_arg = case["relhead"]
            os.environ["HOME"] = os.path.join(root, "home")
            os.chdir(os.path.join(root, case["cwd0"]))
        kw = dict(name=case["name"], base=case["base"], temp=case["temp"], headDirPath=head_arg,
                  clean=case["clean"], filed=case["filed"], extensioned=case["ext"], fext=case["fext"], reopen=True)

        def observe(filer, hop, r):
            obs["hops_run"].append(hop)
            obs["hops"].append({"res": r, "path": _relpath(filer.path, root, tmap), "temp": bool(filer.temp),
                                "abs": filer.path is None or os.path.isabs(filer.path), "snap": _snapshot(root, tmap)})

        def do_call(filer, hop):
            """one plain call on the filer; returns True when it raised (a rejected remake() changes nothing)"""
            try:
                if hop[0] == "chdir":
                    os.chdir(os.path.join(root, hop[1]))
                elif hop[0] == "close":
                    filer.close(clear=hop[1])
                elif hop[0] == "remake":
                    _, nm, bs, temp, clean, filed, ext, fext = hop
                    _, fl = filer.remake(name=nm, base=bs, temp=temp, headDirPath=head_arg,
                                         clean=clean, filed=filed, extensioned=ext, fext=fext)
                    if fl is not None:
                        fl.close()
                else:
                    _, temp, fext, clear, reuse, clean = hop
                    filer.reopen(temp=temp, fext=fext, clear=clear, reuse=reuse, clean=clean)
                r = ["ok", None]
            except Exception as ex:
                r = ["exc", exn_kind(ex)]
            observe(filer, hop, r)
            return r[0] != "ok" and hop[0] != "remake"

        def run_doer(filer, inj, forced, inner=(), shared=1):
            """`shared` FilerDoers around the one filer, run by a real Doist to a normal end or a forced exit (time
            limit); every enter and exit is observed separately; the `inner` calls are made on the filer between the
            enters and the exits (in the first doer's first recur); returns True when anything raised"""
            from hio.base import doing
            from hio.base.filing import FilerDoer
            bad, pending = [], list(inner)

            class ObservedDoer(FilerDoer):
                def enter(self, *, temp=None):
                    try:
                        # temp is what the Doist / Doer.do machinery hands down (an injected False arrives as None)
                        super().enter(temp=temp)
                        observe(self.filer, ["doerenter", temp], ["ok", None])
                    except Exception as ex:
                        bad.append(1)
                        observe(self.filer, ["doerenter", temp], ["exc", exn_kind(ex)])
                        raise

                def recur(self, tyme):
                    while pending and not bad:
                        if do_call(self.filer, pending.pop(0)):
                            bad.append(1)
                    return not forced

                def exit(self):
                    try:
                        super().exit()
                        observe(self.filer, ["doerexit"], ["ok", None])
                    except Exception as ex:
                        bad.append(1)
                        observe(self.filer, ["doerexit"], ["exc", exn_kind(ex)])
                        raise

            doist = doing.Doist(real=False, tock=0.125, limit=0.5 if forced else None)
            try:
                doist.do(doers=[ObservedDoer(filer=filer) for _ in range(shared)], temp=inj)
            except Exception:
                if not bad:
                    raise
            return bool(bad)

        def run_hops(filer):
            """the calls of the history; returns True when a call other than remake() raised"""
            obs["hops"], obs["hops_run"] = [], []
            for hop in case.get("hops") or []:
                if hop[0] == "doer":
                    if run_doer(filer, hop[1], hop[2], hop[3] if len(hop) > 3 else (), hop[4] if len(hop) > 4 else 1):
                        return True
                    continue
                if do_call(filer, hop):
                    return True    # the history stops at the first exception (a rejected remake() call changes nothing)
            return False

        ctx = case.get("ctx")
        if ctx:
            # with openFiler(...) as filer: <history>; the block is left normally or by an exception
            from hio.base.filing import openFiler

            class Boom(Exception):
                pass
            exit_res = ["ok", None]
            try:
                with openFiler(cls=SandboxFiler, clear=ctx["clear"], **kw) as f:
                    filer = f
                    obs["mid"] = _snapshot(root, tmap)
                    obs["open"] = ["ok", _relpath(filer.path, root, tmap)]
                    obs["open_abs"] = os.path.isabs(filer.path)
                    if run_hops(filer) or ctx["raise"]:
                        raise Boom()
            except Boom:
                pass
            except Exception as ex:
                if filer is None:
                    obs["open"] = ["exc", exn_kind(ex)]
                    obs["mid"] = _snapshot(root, tmap)
                else:
                    exit_res = ["exc", exn_kind(ex)]
            if filer is not None:
                observe(filer, ["exit", ctx["clear"]], exit_res)
            return obs
        try:
            filer = SandboxFiler(**kw)
            obs["mid"] = _snapshot(root, tmap)
            obs["open"] = ["ok", _relpath(filer.path, root, tmap)]
            obs["open_abs"] = os.path.isabs(filer.path)
        except Exception as ex:
            obs["open"] = ["exc", exn_kind(ex)]
            obs["mid"] = _snapshot(root, tmap)
        if filer is not None and case.get("hops"):
            run_hops(filer)
        elif filer is not None:
            p = filer.path
            if not os.path.lexists(p) and os.path.isdir(os.path.dirname(p)):
                if case["owner"] == 1:
                    open(p, "w").close()
                elif case["owner"] == 2:
                    os.mkdir(p)
                elif case["owner"] == 3:
                    os.mkfifo(p)
                elif case["owner"] == 4:
                    sk = socket.socket(socket.AF_UNIX, socket.SOCK_STREAM)
                    try:
                        sk.bind(p)       # what a uxd Peer leaves at its extensioned path
                    finally:
                        sk.close()
                elif case["owner"] == 5:
                    os.symlink(os.path.join(root, "alt", "lt"), p)     # symbolic link to a directory
            obs["owned"] = _snapshot(root, tmap)
            try:
                filer.close(clear=True)
                obs["clear"] = ["ok", None]
            except Exception as ex:
                obs["clear"] = ["exc", exn_kind(ex)]
            obs["post"] = _snapshot(root, tmap)
        return obs
    finally:
        os.chdir(cwd_before)
        if home_before is None:
            os.environ.pop("HOME", None)
        else:
            os.environ["HOME"] = home_before
        if filer is not None and filer.file and not filer.file.closed:
            filer.file.close()
        shutil.rmtree(outer, ignore_errors=True)


# ----------------------------------------------------------------------------- oracle

H, A, T = ["head"], ["alt"], ["tmp", "T0"]
TMP = ["tmp"]


def heads(case):
    """the persistent head directories of the case: head, or a relative head resolved against every working directory
    the history visits ("~" against home)"""
    if case.get("relhead") is None:
        return [H]
    rel = case["relhead"]
    if rel.split("/")[0] == "~":
        return [posixpath.normpath("home/" + rel[1:].lstrip("/")).split("/")]
    cwds = [case["cwd0"]] + [h[1] for h in case.get("hops") or [] if h[0] == "chdir"]
    out = []
    for c in cwds:
        h = posixpath.normpath(posixpath.join(c, rel)).split("/")
        if h not in out:
            out.append(h)
    return out


def _in_heads(case, p, strict=True):
    return any(_under(h, p, strict) for h in heads(case))


def _under(head, p, strict=True):
    return p[:len(head)] == head and (len(p) > len(head) or not strict)


def _paths(snap):
    return [tuple(p) for p, _ in snap]


def oracle(case, obs):
    pre, mid = set(_paths(obs["pre"])), set(_paths(obs["mid"]))
    changed = sorted(mid ^ pre)
    for p in map(list, changed):
        if case["temp"]:
            if not _under(T, p, strict=False):
                return f"constructor created or deleted {'/'.join(p)} outside its temp head tmp/T0"
        elif not (_in_heads(case, p) or _under(A, p)):
            return f"constructor created or deleted {'/'.join(p)} outside its head directory"
    if obs["open"][0] != "ok":
        return None
    P = obs["open"][1]
    if not obs.get("open_abs", True):
        return f"Filer.path {'/'.join(P)} is not absolute after construction with headDirPath={case.get('relhead')!r}"
    own = T if case["temp"] else (next((h for h in heads(case) if _under(h, P, strict=False)), heads(case)[0])
                                  if _in_heads(case, P, strict=False) or not _under(A, P, strict=False) else A)
    if not _under(own, P):
        return f".path {'/'.join(P) or '(sandbox root)'} is not inside its head directory {'/'.join(own)}"
    if obs.get("hops"):
        return _oracle_history(case, obs, P)
    if obs["clear"][0] != "ok":
        return None   # close raised because the owner put a directory at an extensioned path: nothing the Filer made there
    owned, post = set(_paths(obs["owned"])), set(_paths(obs["post"]))
    if post - owned:
        return f"close(clear=True) created {sorted(post - owned)[:2]}"
    scope = T if case["temp"] else P
    for p in map(list, sorted(owned - post)):
        if not _under(scope, p, strict=False):
            return f"close(clear=True) deleted {'/'.join(p)} outside {'/'.join(scope)}"
    if tuple(P) in post:
        return f"close(clear=True) left .path {'/'.join(P)} in place"
    left = [list(p) for p in sorted((mid - pre) & post)]
    for p in left:
        if case["temp"]:
            return f"close(clear=True) on a temp Filer left {'/'.join(p)} behind"
        if not (len(p) < len(P) and P[:len(p)] == p):
            return f"close(clear=True) left {'/'.join(p)} (created by the constructor, not an intermediate directory of .path) behind"
    return None


def _temp_head(P):
    return P[:2] if P is not None and len(P) >= 2 and P[0] == "tmp" else None


def _oracle_history(case, obs, P):
    """after every reopen/close: deletions only at or below the Filer's own previous .path (its own mkdtemp directory
    when that path is a temp one) or, for reopen(clean=True), inside the clean tail; creations only inside a head or
    a temp directory; after a clear the previous path (or its whole mkdtemp directory) is gone"""
    before = set(_paths(obs["mid"]))
    opened, temp_now = True, case["temp"]
    for n, (hop, o) in enumerate(zip(obs["hops_run"], obs["hops"])):
        after = set(_paths(o["snap"]))
        if o["res"][0] != "ok" and hop[0] != "remake":
            return None
        clear = hop[1] if hop[0] == "close" else (hop[3] if hop[0] == "reopen" else False)
        what = f"hop {n} {hop[0]}({', '.join(map(str, hop[1:]))})"
        if not o.get("abs", True):
            return f"{what}: Filer.path is not absolute"
        if hop[0] == "chdir":
            if before != after:
                return f"{what} changed the tree"
            continue
        if hop[0] == "doerenter" and opened:
            if before != after or o["path"] != P or o["temp"] != temp_now:
                return (f"{what}: FilerDoer.enter on an opened Filer changed it: path {'/'.join(P or [])} -> "
                        f"{'/'.join(o['path'] or [])}, temp {temp_now} -> {o['temp']}, tree changed: {before != after}")
        if hop[0] in ("exit", "doerexit"):
            # leaving "with openFiler": a temp resource (by where the Filer's path lies NOW) goes, a persistent one
            # stays unless clear was asked for
            clear = bool(_temp_head(P)) or (hop[0] == "exit" and hop[1])
            if not clear and before != after:
                return (f"{hop[0]} of a persistent Filer without clear changed the tree: deleted "
                        f"{sorted('/'.join(p) for p in before - after)[:3]}, created {sorted('/'.join(p) for p in after - before)[:3]}")
        clean = (hop[0] == "reopen" and hop[5]) or (hop[0] == "remake" and hop[4])
        what = f"hop {n} {hop[0]}({', '.join(map(str, hop[1:]))})"
        th = _temp_head(P)
        for p in map(list, sorted(before - after)):
            ok = clear and P is not None and (_under(th, p, strict=False) if th else _under(P, p, strict=False))
            ok = ok or (clean and (any(_under(h + ["hio", "clean"], p, strict=False) for h in heads(case))
                                   or _under(A + [".hio", "clean"], p, strict=False)))
            if not ok:
                return (f"{what} deleted {'/'.join(p)}, which is not at or below the Filer's own previous path "
                        f"{'/'.join(P or [])}")
        for p in map(list, sorted(after - before)):
            if hop[0] in ("close", "exit", "doerexit"):
                return f"{what} created {'/'.join(p)}"
            if not (_in_heads(case, p) or _under(A, p) or _under(TMP, p)):
                return f"{what} created {'/'.join(p)} outside every head directory"
            if hop[0] == "remake" and _under(TMP, p) and not hop[3]:
                return f"{what} created {'/'.join(p)} in the temp directory without temp"
        newP = o["path"]
        if clear and P is not None:
            if th:
                left = [q for q in after if _under(th, list(q), strict=False)]
                if left:
                    return f"{what} cleared a temp Filer but left {'/'.join(left[0])} of its temp head behind"
            elif tuple(P) in after and not (hop[0] == "reopen" and newP == P):
                return f"{what} left the previous path {'/'.join(P)} in place"
        if hop[0] in ("close", "exit", "doerexit"):
            opened = False
        elif hop[0] in ("reopen", "doerenter"):
            opened = True
        P, before, temp_now = newP, after, o["temp"]
    return None


def nontrivial(case, obs):
    if case.get("ctx"):
        return True
    if case.get("hops"):
        hs = case["hops"]
        return len(hs) >= 2 or any(h[0] == "reopen" and h[1] is not None and h[3] for h in hs)
    segs = (case["name"] + "/" + case["base"]).split("/")
    return any(s in (".", "..", "...") for s in segs) or (case["temp"] and (case["filed"] or case["ext"] or case["clean"]))


def classify(case, obs, why):
    return None


def shrink(case):
    hs = case.get("hops")
    if hs:
        for i in range(len(hs)):
            if len(hs) > 1:
                yield dict(case, hops=hs[:i] + hs[i + 1:])
    if case["pre"]:
        yield dict(case, pre=[])
    for k in ("temp", "clean", "filed", "ext"):
        if case[k]:
            yield dict(case, **{k: False})
    for k in ("name", "base"):
        parts = case[k].split("/")
        for i in range(len(parts)):
            if len(parts) > 1:
                yield dict(case, **{k: "/".join(parts[:i] + parts[i + 1:])})
    if case["owner"]:
        yield dict(case, owner=0)


# ----------------------------------------------------------------------------- Gallina

def _seg(s):
    return "(@nil N)" if not s else "[" + "; ".join(str(ord(c)) for c in s) + "]%N"


def _path(segs):
    return coq_list([_seg(s) for s in segs], "Path.seg")


def _fs(snap):
    kind = {False: "Path.KDir", True: "Path.KFile", "o": "Path.KOther"}
    return coq_list([f"({_path(p)}, {kind[f]})" for p, f in snap], "Path.path * Path.fkind")


def to_coq(case, obs):
    cfg = ("{| Path.c_name := %s; Path.c_base := %s; Path.c_temp := %s; Path.c_clean := %s; Path.c_filed := %s; "
           "Path.c_ext := %s; Path.c_fext := %s; Path.c_head := %s; Path.c_alt := %s; Path.c_tmp := %s |}" % (
               _path(case["name"].split("/")), _path(case["base"].split("/")), coq_bool(case["temp"]),
               coq_bool(case["clean"]), coq_bool(case["filed"]), coq_bool(case["ext"]), _seg(case["fext"]),
               _path(heads(case)[0] if case.get("relhead") is not None else H), _path(A), _path(T)))
    ok = obs["open"][0] == "ok" and not obs.get("hops")
    hops, hobs = [], []
    for hop, o in zip(obs.get("hops_run") or [], obs.get("hops") or []):
        if hop[0] == "chdir":
            hops.append(f"(Path.HChdir {_path(hop[1].split('/'))})")
        elif hop[0] == "close":
            hops.append(f"(Path.H3 (Path.H (Path.HClose {coq_bool(hop[1])})))")
        elif hop[0] == "exit":
            hops.append(f"(Path.H3 (Path.H (Path.HExit {coq_bool(hop[1])})))")
        elif hop[0] == "doerenter":
            hops.append("(Path.H3 (Path.HDoerEnter %s))" % ("None" if hop[1] is None else f"(Some {coq_bool(hop[1])})"))
        elif hop[0] == "doerexit":
            hops.append("(Path.H3 Path.HDoerExit)")
        elif hop[0] == "remake":
            _, nm, bs, temp, clean, filed, ext, fext = hop
            hops.append("(Path.H3 (Path.H (Path.HRemake %s %s %s %s %s %s %s)))" % (
                _path(nm.split("/")), _path(bs.split("/")), coq_bool(temp), coq_bool(clean), coq_bool(filed),
                coq_bool(ext), _seg(fext)))
        else:
            _, temp, fext, clear, reuse, clean = hop
            hops.append("(Path.H3 (Path.H (Path.HReopen %s %s %s %s %s)))" % (
                "None" if temp is None else f"(Some {coq_bool(temp)})",
                "None" if fext is None else f"(Some {_seg(fext)})", coq_bool(clear), coq_bool(reuse), coq_bool(clean)))
        hobs.append("(%s, %s, %s, %s)" % (coq_res(o["res"], lambda _: "tt"),
                                          "None" if o["path"] is None else f"(Some {_path(o['path'])})",
                                          coq_bool(o["temp"]), _fs(o["snap"])))
    rel = "None"
    if case.get("relhead") is not None:
        rel = "(Some ({| Path.rh_segs := %s; Path.rh_home := %s |}, %s))" % (
            _path(case["relhead"].split("/")), _path(["home"]), _path(case["cwd0"].split("/")))
    return ("{| Path.k_cfg := %s; Path.k_pre := %s; Path.k_open := %s; Path.k_mid := %s; Path.k_owner := %s; "
            "Path.k_clear := %s; Path.k_post := %s; Path.k_rel := %s; Path.k_hops := %s; Path.k_hobs := %s |}" % (
                cfg, _fs(obs["pre"]), coq_res(obs["open"], _path), _fs(obs["mid"]), coq_nat(min(case["owner"], 3)),
                coq_res(obs["clear"], lambda _: "tt") if ok else "(Ok tt)", _fs(obs["post"]) if ok else _fs([]), rel,
                coq_list(hops, "Path.hop3"), coq_list(hobs, "res unit * option Path.path * bool * Path.fsys")))


def distribution(cases, obs):
    d = {"rejected": 0, "temp": 0, "alt head": 0, "cleaned": 0, "owner step": 0, "clear raised": 0}
    for c, o in zip(cases, obs):
        if not isinstance(o, dict) or "open" not in o:
            continue
        if o["open"][0] != "ok":
            d["rejected"] += 1
            continue
        d["temp"] += c["temp"]
        d["alt head"] += o["open"][1][:1] == ["alt"]
        d["cleaned"] += bool(set(_paths(o["pre"])) - set(_paths(o["mid"])))
        if o.get("hops"):
            d["context manager"] = d.get("context manager", 0) + bool(c.get("ctx"))
            d["history"] = d.get("history", 0) + 1
            d["history hops"] = d.get("history hops", 0) + len(o["hops"])
            continue
        d["owner step"] += o["owned"] != o["mid"]
        d["clear raised"] += o["clear"][0] != "ok"
    return d
