(* C15 — Server-sent events are delivered exactly regardless of line endings
   and splits.  Statements only; proofs in Proofs/SseProofs.v, SseSpec.v. *)
From Coq Require Import Init.Byte.
From Hio Require Import Base.Prelude Model.HttpLine Model.Chunk Model.Sse
  Proofs.HttpLineProofs Proofs.ChunkProofs Proofs.ChunkRoundtrip Proofs.SseProofs Proofs.SseSpec Proofs.SseTrack.

(* sse_spec (Model/Sse.v) is the WHATWG "interpreting an event stream"
   algorithm run over the WHOLE byte stream: lines end in CR LF, CR or LF (any
   mix); comment, field/value with one leading space removed, event/data/id
   (ignored when it contains NUL)/retry (ASCII digits only) fields, dispatch on
   a blank line unless the data buffer is empty, trailing LF of the data
   removed, last-event-id buffer and retry tracked.  It shares only the field
   name constants and byte helpers with the model of EventSource. *)

(* Main theorem.  For every byte stream and every split of it into reads, if
   the parser did not reject the stream (see C15_only_long_lines_fail), the
   events it delivered, in order, with id, name and data, the last event id and
   the retry value are exactly those of the specification on the concatenation. *)
Theorem C15_events_exact : forall reads s b os,
  feeds sse_stage sse_start reads = (Live s b, os) ->
  (somes os, s_id (snd s), s_retry (snd s)) = sse_spec (concat reads).
Proof. exact sse_matches_spec. Qed.
Print Assumptions C15_events_exact.

(* Full fragmentation independence (also of the unconsumed bytes, the pending
   partial event and the failure). *)
Theorem C15_fragmentation : forall reads,
  feeds sse_stage sse_start reads = feed sse_stage sse_start (concat reads).
Proof. exact sse_feeds_concat. Qed.
Print Assumptions C15_fragmentation.

(* The only way a stream is rejected is LineTooLong (an HTTPException), and
   never for streams of at most MAX_LINE_SIZE + 1 bytes. *)
Theorem C15_only_long_lines_fail :
  (forall reads k os, feeds sse_stage sse_start reads = (Dead k, os) -> k = HTTPExc) /\
  (forall reads, (lenN (concat reads) <= max_line + 1)%N ->
     exists s b os, feeds sse_stage sse_start reads = (Live s b, os)).
Proof. split; [exact sse_fails_only_http|exact sse_short_never_fails]. Qed.
Print Assumptions C15_only_long_lines_fail.

(* Inside chunked transfer coding (Respondent: every data chunk is appended to
   the body and the event parser stepped): for every well-formed chunked
   encoding of a stream -- any chunk boundaries, any size spelling, extensions,
   trailers -- read in any fragmentation, the events are those of the stream. *)
Theorem C15_chunked : forall reads cs zeros lastext trs tail r,
  Forall wf_chunk cs -> zeros_ok zeros -> ext_text_ok lastext ->
  (lenN (zeros ++ lastext) <= max_line)%N ->
  Forall wf_trailer trs -> length trs <= max_headers ->
  concat reads = encode_chunked cs zeros lastext trs ++ tail ->
  sse_over_chunked reads = Some r ->
  r = sse_spec (concat (map e_data cs)).
Proof. exact sse_chunked_encoded. Qed.
Print Assumptions C15_chunked.

(* ... and for any byte stream that the chunk decoder accepts so far. *)
Theorem C15_chunked_any_wire : forall reads cst b os r,
  feeds chunk_stage (Live CSize []) reads = (Live cst b, os) ->
  sse_over_chunked reads = Some r ->
  r = sse_spec (body_of (somes os)).
Proof. exact sse_chunked_matches_spec. Qed.
Print Assumptions C15_chunked_any_wire.

(* Tracking across connections.  A Respondent lives as long as its Client and
   gets a fresh EventSource for every event-stream response; it starts a response
   holding r0 = (.leid, .retry) remembered from before.  After the reads of the
   response (synced after every read) it holds the last id field / last valid
   retry field of this stream if the stream has one, else exactly r0 ... *)
Theorem C15_leid_retry_tracked : forall reads r0 sf bf os,
  feeds sse_stage sse_start reads = (Live sf bf, os) ->
  last (trace_plain sse_start r0 reads) r0 =
  (match snd (fst (sse_spec (concat reads))) with Some i => Some i | None => fst r0 end,
   match snd (sse_spec (concat reads)) with Some n => n | None => snd r0 end).
Proof. exact resp_tracks_spec. Qed.
Print Assumptions C15_leid_retry_tracked.

(* ... in particular comments, retry fields and events without id leave the
   remembered last event id unchanged (every prefix of the reads is itself a
   list of reads, so this holds after every read). *)
Theorem C15_idless_keeps_leid : forall reads r0 sf bf os,
  feeds sse_stage sse_start reads = (Live sf bf, os) ->
  snd (fst (sse_spec (concat reads))) = None ->
  fst (last (trace_plain sse_start r0 reads) r0) = fst r0.
Proof. exact resp_idless_unchanged. Qed.
Print Assumptions C15_idless_keeps_leid.

(* Chunked responses: the value after all reads is the value a close-delimited
   stream whose reads are the data chunks would give (then the two theorems
   above apply to it). *)
Theorem C15_tracked_chunked : forall reads r0,
  last (trace_chunked (Live CSize []) sse_start r0 reads) r0 =
  last (trace_plain sse_start r0 (data_chunks (snd (feeds chunk_stage (Live CSize []) reads)))) r0.
Proof. intros. apply trace_chunked_last. Qed.
Print Assumptions C15_tracked_chunked.

Example C15_tracking_example :
  (* remembered ("4", 1000); resumed stream ": keep-alive LF LF data: x LF LF" in two reads *)
  trace_plain sse_start (Some (of_bytes [x34]), 1000%N)
    [of_bytes [x3a;x20;x6b;x0a;x0a]; of_bytes [x64;x61;x74;x61;x3a;x20;x78;x0a;x0a;x69;x64;x3a;x20;x35;x0a]]
  = [(Some (of_bytes [x34]), 1000%N); (Some (of_bytes [x35]), 1000%N)].
Proof. vm_compute. reflexivity. Qed.

(* Non-vacuity.  The stream
     id: 1 CRLF event: a CRLF data: x CRLF data: y CRLF CRLF
     : c LF data LF LF
     retry: 007 CR id CR data:  two CR CR
     retry: +5 LF event: dropped LF LF data: tail
   read byte by byte: three events -- (1, a, "x\ny"), (1, "", "") [empty data is
   dispatched: D36], ("", "", " two") -- last id "", retry 7 (+5 ignored: D37),
   "event: dropped" block without data not dispatched, unterminated tail pending. *)
Definition ex_stream : bytes := of_bytes
  [x69;x64;x3a;x20;x31;x0d;x0a; x65;x76;x65;x6e;x74;x3a;x20;x61;x0d;x0a;
   x64;x61;x74;x61;x3a;x20;x78;x0d;x0a; x64;x61;x74;x61;x3a;x20;x79;x0d;x0a; x0d;x0a;
   x3a;x20;x63;x0a; x64;x61;x74;x61;x0a; x0a;
   x72;x65;x74;x72;x79;x3a;x20;x30;x30;x37;x0d; x69;x64;x0d; x64;x61;x74;x61;x3a;x20;x20;x74;x77;x6f;x0d; x0d;
   x72;x65;x74;x72;x79;x3a;x20;x2b;x35;x0a; x65;x76;x65;x6e;x74;x3a;x20;x64;x72;x6f;x70;x70;x65;x64;x0a; x0a;
   x64;x61;x74;x61;x3a;x20;x74;x61;x69;x6c].
Example C15_example :
  sse_result (feeds sse_stage sse_start (map (fun x => [x]) ex_stream))
  = Some ([ {| ev_id := Some (of_bytes [x31]); ev_name := of_bytes [x61]; ev_data := of_bytes [x78;x0a;x79] |};
            {| ev_id := Some (of_bytes [x31]); ev_name := []; ev_data := [] |};
            {| ev_id := Some []; ev_name := []; ev_data := of_bytes [x20;x74;x77;x6f] |} ],
          Some [], Some 7%N)
  /\ sse_spec ex_stream = ([ {| ev_id := Some (of_bytes [x31]); ev_name := of_bytes [x61]; ev_data := of_bytes [x78;x0a;x79] |};
            {| ev_id := Some (of_bytes [x31]); ev_name := []; ev_data := [] |};
            {| ev_id := Some []; ev_name := []; ev_data := of_bytes [x20;x74;x77;x6f] |} ],
          Some [], Some 7%N).
Proof. vm_compute. split; reflexivity. Qed.
