#!/usr/bin/env python3
"""Debug aid: list the smallest cases on which Model/Sched.v and the implementation disagree,
printing both traces.  usage: PYTHONPATH=/repo/src:/verif python tools/sched_debug.py C01 [seed] [n]"""
import sys, json, random, re, os
sys.path.insert(0, "/verif")
from harness import core
prop = sys.argv[1]; seed = int(sys.argv[2]) if len(sys.argv) > 2 else 0; n = int(sys.argv[3]) if len(sys.argv) > 3 else 3
drv = core.load_driver(prop)
rng = random.Random(seed * 1000003 + int(prop[1:]))
cases = drv.directed() + drv.generate(rng, "quick")
obs = [core.run_impl_safe(drv, c) for c in cases]
terms = [drv.to_coq(c, o) for c, o in zip(cases, obs)]
failing, hist, errors, raw = core.eval_cases(drv, terms, "dbg", shard=150)
print("failing", len(failing), "errors", errors[:1])
failing.sort(key=lambda i: len(json.dumps(cases[i])))
for i in failing[:n]:
    print("=" * 100)
    print("CASE", json.dumps(cases[i]))
    print("IMPL ", [(k, j, float.fromhex(t)) for k, j, t in obs[i]["trace"]], obs[i]["dones"], obs[i]["scheds"], obs[i]["raised"])
    f, h, e, raw = core.eval_cases(drv, [terms[i]], "dbg1", extra_eval="Eval vm_compute in (SchedCase.model_trace c0).\nEval vm_compute in (let s := SchedCase.run_case c0 in (map (fun '(i, d) => (i, get_done s i)) (SchedCase.c_dones c0), map (fun '(i, l, n) => (i, doers (get_sched s i), length (deeds (get_sched s i)))) (SchedCase.c_scheds c0), oof s, tyme s)).")
    out = raw[0]
    blocks = re.split(r"\n(?=\s*= )", "\n" + out)
    for b in blocks[2:]:
        b = re.sub(r"\s+", " ", b)
        b = b.replace("%N", "").replace("%float", "")
        print("MODEL", b[:3000])
