(* Model of real-time pacing: hio.help.timing.MonoTimer (src/hio/help/timing.py)
   and the real branch of hio.base.doing.Doist.do (src/hio/base/doing.py):

       self.timer.start(...)                 # [start_run], three code variants
       while True:
           self.recur()                      # the doers' work: clock moves by [work]
           if self.real:
               while not self.timer.expired:
                   time.sleep(max(0.0, self.timer.remaining))
               self.timer.restart()

   Generic in a [Time] instance: [ZTime] for the theorems, [FTime] (binary64)
   for the bit-exact correspondence with Python.  No proofs here.

   The environment is the [world]: the system clock [now], the true elapsed
   time [mono] (what a clock that never steps would show; not visible to the
   code), a script of steps applied before each clock read ([reads]: forward
   progress p and backward jump j, so the reading moves by p - j), and the
   overshoot of each sleep call ([overs]).  [log] is a ghost list of the
   readings returned so far, newest first (reset at the start of a run). *)
From Coq Require Import PrimFloat.
From Hio Require Import Base.Prelude Base.Time.

Section RealTime.
Context {T : Type} `{Time T}.

Definition step := (T * T)%type.   (* forward progress p, backward jump j *)

Inductive slp := Over (o : T) | Early (e : T).   (* what one sleep call does beyond/short of its argument *)

Record world := { now : T; mono : T; reads : list step; overs : list slp; log : list T }.

(* the clock moves: work done by doers, time passing between two reads, a step back *)
Definition advance (w : world) (s : step) : world :=
  {| now := tsub (tadd (now w) (fst s)) (snd s); mono := tadd (mono w) (fst s);
     reads := reads w; overs := overs w; log := log w |}.

(* time.time(): the next scripted step (if any) happens, then the clock is read *)
Definition read (w : world) : T * world :=
  let w1 := match reads w with
            | [] => w
            | s :: rs => advance {| now := now w; mono := mono w; reads := rs; overs := overs w; log := log w |} s
            end in
  (now w1, {| now := now w1; mono := mono w1; reads := reads w1; overs := overs w1; log := now w1 :: log w1 |}).

(* time.sleep(d): normally at least d passes, plus the next scripted overshoot;
   [Early e] is a sleep that returns after only e (< d) seconds (a wakeup the
   `while not expired` loop exists for) *)
Definition sleep (w : world) (d : T) : world :=
  match overs w with
  | [] => {| now := tadd (now w) d; mono := tadd (mono w) d; reads := reads w; overs := []; log := log w |}
  | Over o :: os => {| now := tadd (tadd (now w) d) o; mono := tadd (tadd (mono w) d) o;
                       reads := reads w; overs := os; log := log w |}
  | Early e :: os => let el := if tltb e d then e else d in
                     {| now := tadd (now w) el; mono := tadd (mono w) el;
                        reads := reads w; overs := os; log := log w |}
  end.

(* ---- MonoTimer (retro = True) ---- *)
Record timer := { t_start : T; t_stop : T; t_last : T }.

(* MonoTimer(duration=dur): ._start = ._last = time(); then .start(duration) reads the clock again *)
Definition timer_init (dur : T) (w : world) : timer * world :=
  let (r1, w1) := read w in
  let (r2, w2) := read w1 in
  ({| t_start := r2; t_stop := tadd r2 dur; t_last := r1 |}, w2).

(* .latest: delta = time() - ._last; if delta < 0: ._start += delta; ._stop += delta; ._last += delta *)
Definition latest (tm : timer) (w : world) : timer * T * world :=
  let (r, w1) := read w in
  let delta := tsub r (t_last tm) in
  let l := tadd (t_last tm) delta in
  if tltb delta tzero
  then ({| t_start := tadd (t_start tm) delta; t_stop := tadd (t_stop tm) delta; t_last := l |}, l, w1)
  else ({| t_start := t_start tm; t_stop := t_stop tm; t_last := l |}, l, w1).

(* .expired = (self.latest >= self._stop): latest first, then the (shifted) stop *)
Definition expired (tm : timer) (w : world) : timer * bool * world :=
  let '(tm1, l, w1) := latest tm w in (tm1, tleb (t_stop tm1) l, w1).

(* .remaining = (self._stop - self.latest): the stop is fetched BEFORE latest shifts it *)
Definition remaining (tm : timer) (w : world) : timer * T * world :=
  let s := t_stop tm in
  let '(tm1, l, w1) := latest tm w in (tm1, tsub s l, w1).

(* .start(duration=None, start=None) *)
Definition start_now (tm : timer) (dur : option T) (w : world) : timer * world :=
  let d := match dur with Some d => d | None => tsub (t_stop tm) (t_start tm) end in
  let (r, w1) := read w in
  ({| t_start := r; t_stop := tadd r d; t_last := t_last tm |}, w1).

(* .start(duration=d, start=s) *)
Definition start_at (tm : timer) (d s : T) : timer :=
  {| t_start := s; t_stop := tadd s d; t_last := t_last tm |}.

(* .restart() = .start(duration=self.duration, start=self._stop) *)
Definition restart (tm : timer) : timer :=
  start_at tm (tsub (t_stop tm) (t_start tm)) (t_stop tm).

(* ---- Doist.do, real branch ---- *)
(* How do() starts the timer.  [VSync] is the code as it is now; the two older
   forms are kept so that the defects they had are theorems (C07_*_refuted). *)
Inductive variant :=
| VOrig    (* self.timer.start()                                          (D4 + stale ._last) *)
| VTock    (* self.timer.start(duration=self.tock)                        (stale ._last) *)
| VSync.   (* self.timer.start(duration=self.tock, start=self.timer.latest) *)

Definition start_run (v : variant) (tock : T) (tm : timer) (w : world) : timer * world :=
  match v with
  | VOrig => start_now tm None w
  | VTock => start_now tm (Some tock) w
  | VSync => let '(tm1, l, w1) := latest tm w in (start_at tm1 tock l, w1)
  end.

(* max(0.0, x): x when x > 0.0 else 0.0 *)
Definition max0 (x : T) : T := if tltb tzero x then x else tzero.

(* while not self.timer.expired: time.sleep(max(0.0, self.timer.remaining)) *)
Fixpoint wait (fuel : nat) (tm : timer) (w : world) (acc : list T) : option (timer * world * list T) :=
  match fuel with
  | O => None
  | S f =>
    let '(tm1, ex, w1) := expired tm w in
    if ex then Some (tm1, w1, rev acc) else
    let '(tm2, rem, w2) := remaining tm1 w1 in
    let d := max0 rem in
    wait f tm2 (sleep w2 d) (d :: acc)
  end.

(* what is seen of one cycle: the clock, the true time and the timer's deadline
   (._stop, in clock coordinates) when its recur begins, the sleep calls of its
   wait, and (ghost) the readings the timer had taken by then *)
Record cyc := { c_now : T; c_mono : T; c_stop : T; c_sleeps : list T; c_log : list T }.

Fixpoint cycles (fuel : nat) (tm : timer) (w : world) (works : list step)
  : option (list cyc * timer * world) :=
  match works with
  | [] => Some ([], tm, w)
  | wk :: rest =>
    match wait fuel tm (advance w wk) [] with
    | None => None
    | Some (tm1, w1, sl) =>
      match cycles fuel (restart tm1) w1 rest with
      | None => None
      | Some (cs, tmf, wf) =>
        Some ({| c_now := now w; c_mono := mono w; c_stop := t_stop tm; c_sleeps := sl; c_log := log w |} :: cs, tmf, wf)
      end
    end
  end.

(* one Doist(real=True).do(): [works] has one entry per cycle *)
Record run_out := { r_now : T;       (* clock reading the run started from *)
                    r_mono : T;      (* true time then *)
                    r_cycles : list cyc;
                    r_end_now : T; r_end_mono : T }.

Definition clear_log (w : world) : world :=
  {| now := now w; mono := mono w; reads := reads w; overs := overs w; log := firstn 1 (log w) |}.

Definition do_real (v : variant) (fuel : nat) (tock : T) (tm : timer) (w : world) (works : list step)
  : option (run_out * timer * world) :=
  let (tm0, w0) := start_run v tock tm w in
  let w0 := clear_log w0 in
  match cycles fuel tm0 w0 works with
  | None => None
  | Some (cs, tmf, wf) =>
    Some ({| r_now := now w0; r_mono := mono w0; r_cycles := cs; r_end_now := now wf; r_end_mono := mono wf |}, tmf, wf)
  end.

(* A session: Doist(tock=tock0, real=True) is built, then a list of runs, each
   preceded by whatever the clock does in between and an optional `doist.tock = x`
   (the Tymist setter stores float(x): no abs, a negative tock is kept).
   [i_sets] are assignments to doist.tock made by a doer DURING the run (entry k:
   in the recur of cycle k): the pacing of the run under way does not read them
   (restart() re-uses the timer's own duration); they only decide the tock the
   next run starts with. *)
Record run_in := { i_pre : step; i_tock : option T; i_works : list step; i_sets : list (option T) }.

Definition last_set (sets : list (option T)) (t : T) : T :=
  fold_left (fun acc o => match o with Some x => x | None => acc end) sets t.

Fixpoint session (v : variant) (fuel : nat) (tock : T) (tm : timer) (w : world) (runs : list run_in)
  : option (list run_out) :=
  match runs with
  | [] => Some []
  | r :: rest =>
    let tock1 := match i_tock r with Some x => x | None => tock end in
    match do_real v fuel tock1 tm (advance w (i_pre r)) (i_works r) with
    | None => None
    | Some (o, tm1, w1) =>
      match session v fuel (last_set (i_sets r) tock1) tm1 w1 rest with
      | None => None
      | Some os => Some (o :: os)
      end
    end
  end.

Definition play (v : variant) (fuel : nat) (t0 tock0 : T) (rs : list step) (os : list slp) (runs : list run_in)
  : option (list run_out) :=
  let w := {| now := t0; mono := tzero; reads := rs; overs := os; log := [] |} in
  let (tm, w1) := timer_init tock0 w in
  session v fuel tock0 tm w1 runs.

(* ---- Doist.ado, real branch: AsyncTimer over the event loop's clock ----

       atimer = timing.AsyncTimer(duration=self.tock)   # created inside ado(): the tock of call time
       atimer.start()
       while True:
           self.recur()
           if self.real:
               while not atimer.expired:
                   await asyncio.sleep(max(0.0, atimer.remaining))
               atimer.restart()

   AsyncTimer is the plain Timer (no ._last, no retrograde handling) reading
   asyncio.get_event_loop().time().  The same [world] serves as the loop clock:
   [now] is loop.time(), [read] one call of it, [sleep] one awaited
   asyncio.sleep.  (The loop clock is monotonic, so its scripts have j = 0; the
   model does not need that.) *)
Record atimer := { a_start : T; a_stop : T }.

(* AsyncTimer(duration=d): ._start = time.time() is overwritten at once by .start(duration=d):
   ._start = loop.time(); ._stop = ._start + d *)
Definition atimer_init (d : T) (w : world) : atimer * world :=
  let (r, w1) := read w in ({| a_start := r; a_stop := tadd r d |}, w1).

(* .start(): duration = ._stop - ._start; ._start = loop.time(); ._stop = ._start + duration *)
Definition atimer_start (tm : atimer) (w : world) : atimer * world :=
  let d := tsub (a_stop tm) (a_start tm) in
  let (r, w1) := read w in ({| a_start := r; a_stop := tadd r d |}, w1).

(* .restart() = .start(duration=self.duration, start=self._stop) *)
Definition atimer_restart (tm : atimer) : atimer :=
  let d := tsub (a_stop tm) (a_start tm) in
  {| a_start := a_stop tm; a_stop := tadd (a_stop tm) d |}.

(* while not atimer.expired: await asyncio.sleep(max(0.0, atimer.remaining))
   expired = loop.time() >= ._stop; remaining = ._stop - loop.time() *)
Fixpoint await (fuel : nat) (tm : atimer) (w : world) (acc : list T) : option (world * list T) :=
  match fuel with
  | O => None
  | S f =>
    let (r1, w1) := read w in
    if tleb (a_stop tm) r1 then Some (w1, rev acc) else
    let (r2, w2) := read w1 in
    let d := max0 (tsub (a_stop tm) r2) in
    await f tm (sleep w2 d) (d :: acc)
  end.

Fixpoint acycles (fuel : nat) (tm : atimer) (w : world) (works : list step)
  : option (list cyc * atimer * world) :=
  match works with
  | [] => Some ([], tm, w)
  | wk :: rest =>
    match await fuel tm (advance w wk) [] with
    | None => None
    | Some (w1, sl) =>
      match acycles fuel (atimer_restart tm) w1 rest with
      | None => None
      | Some (cs, tmf, wf) =>
        Some ({| c_now := now w; c_mono := mono w; c_stop := a_stop tm; c_sleeps := sl; c_log := log w |} :: cs, tmf, wf)
      end
    end
  end.

(* one asyncio.run(doist.ado()) with real=True; [tock] is doist.tock when ado is called *)
Definition ado_real (fuel : nat) (tock : T) (w : world) (works : list step) : option (run_out * world) :=
  let (tm0, w0) := atimer_init tock w in
  let (tm1, w1) := atimer_start tm0 w0 in
  let w1 := clear_log w1 in
  match acycles fuel tm1 w1 works with
  | None => None
  | Some (cs, tmf, wf) =>
    Some ({| r_now := now w1; r_mono := mono w1; r_cycles := cs; r_end_now := now wf; r_end_mono := mono wf |}, wf)
  end.

(* a session of ado() runs on one Doist: nothing of a run survives into the next but the clock *)
Fixpoint asession (fuel : nat) (tock : T) (w : world) (runs : list run_in) : option (list run_out) :=
  match runs with
  | [] => Some []
  | r :: rest =>
    let tock1 := match i_tock r with Some x => x | None => tock end in
    match ado_real fuel tock1 (advance w (i_pre r)) (i_works r) with
    | None => None
    | Some (o, w1) =>
      match asession fuel (last_set (i_sets r) tock1) w1 rest with
      | None => None
      | Some os => Some (o :: os)
      end
    end
  end.

Definition aplay (fuel : nat) (t0 tock0 : T) (rs : list step) (os : list slp) (runs : list run_in)
  : option (list run_out) :=
  asession fuel tock0 {| now := t0; mono := tzero; reads := rs; overs := os; log := [] |} runs.

End RealTime.

(* ---- spec-level quantities used by the theorems (exact time) ---- *)

(* sum of the retrograde shifts visible in a reading log (newest first): every
   reading lower than the one before it shifts the timer by the difference *)
Fixpoint shifts (l : list Z) : Z :=
  match l with
  | r1 :: ((r0 :: _) as tl) => (Z.min 0 (r1 - r0) + shifts tl)%Z
  | _ => 0%Z
  end.

(* a well-formed environment: time passes forward, clock jumps are backward, a sleep takes no negative time
   (it may overshoot or return early) *)
Definition step_ok (s : Z * Z) : Prop := (0 <= fst s /\ 0 <= snd s)%Z.
Definition slp_ok (o : @slp Z) : Prop := match o with Over o => (0 <= o)%Z | Early e => (0 <= e)%Z end.
Definition world_ok (w : @world Z) : Prop :=
  Forall step_ok (reads w) /\ Forall slp_ok (overs w).

(* the tock in force WHEN each run of a session STARTS: the one given at construction until one is assigned,
   before a run or by a doer during an earlier run *)
Fixpoint eff_tocks {T : Type} (tock : T) (runs : list (@run_in T)) : list T :=
  match runs with
  | [] => []
  | r :: rest => let t := match i_tock r with Some x => x | None => tock end in t :: eff_tocks (last_set (i_sets r) t) rest
  end.

Definition run_ok (r : @run_in Z) : Prop := step_ok (i_pre r) /\ Forall step_ok (i_works r).

(* the two halves of the property for one run *)
Definition not_early_run (tock : Z) (o : @run_out Z) : Prop :=
  (forall k c, nth_error (r_cycles o) k = Some c -> (r_mono o + Z.of_nat k * tock <= c_mono c)%Z) /\
  (r_mono o + Z.of_nat (length (r_cycles o)) * tock <= r_end_mono o)%Z.
Definition lossless_run (tock : Z) (o : @run_out Z) : Prop :=
  forall k c, nth_error (r_cycles o) k = Some c ->
    c_stop c = (r_now o + (Z.of_nat k + 1) * tock + shifts (c_log c))%Z.

(* on-time pacing, as a recurrence: cycle starts (clock) and deadlines when nothing but the doers' work and
   exact sleeps move the clock: the next cycle starts at max(its deadline, end of this cycle's work) *)
Fixpoint ideal (start stop d : Z) (works : list (Z * Z)) : list (Z * Z) :=
  match works with
  | [] => []
  | wk :: rest => (start, stop) :: ideal (Z.max stop (start + fst wk)) (stop + d)%Z d rest
  end.

(* what can keep a wait from ending at once: a backward jump seen by a read, a sleep that returns early *)
Definition bad_reads (rs : list (Z * Z)) : nat := length (filter (fun s => (0 <? snd s)%Z) rs).
Definition bad_overs (os : list (@slp Z)) : nat :=
  length (filter (fun o => match o with Early _ => true | Over _ => false end) os).
Definition bad (w : @world Z) : nat := (bad_reads (reads w) + bad_overs (overs w))%nat.

(* ---- correspondence (binary64) ---- *)
Record fcyc := { f_now : float; f_mono : float; f_stop : float; f_sleeps : list float }.
Record frun := { f_start : float; f_start_mono : float; f_cycles : list fcyc; f_end : float; f_end_mono : float }.

Record case := { k_async : bool;   (* true: asyncio.run(doist.ado()) runs, the world is the loop clock *)
                 k_t0 : float; k_tock0 : float;
                 k_reads : list (float * float); k_overs : list (@slp float);
                 k_runs : list (@run_in float);
                 k_obs : list frun }.

Definition fuel_per_wait : nat := 40.

Definition cyc_same (c : @cyc float) (o : fcyc) : bool :=
  float_same (c_now c) (f_now o) && float_same (c_mono c) (f_mono o) && float_same (c_stop c) (f_stop o) &&
  list_eqb float_same (c_sleeps c) (f_sleeps o).

Fixpoint all2 {A B} (f : A -> B -> bool) (l : list A) (m : list B) : bool :=
  match l, m with
  | [], [] => true
  | a :: l', b :: m' => f a b && all2 f l' m'
  | _, _ => false
  end.

Definition run_same (r : @run_out float) (o : frun) : bool :=
  float_same (r_now r) (f_start o) && float_same (r_mono r) (f_start_mono o) &&
  all2 cyc_same (r_cycles r) (f_cycles o) &&
  float_same (r_end_now r) (f_end o) && float_same (r_end_mono r) (f_end_mono o).

Definition play_case (c : case) : option (list (@run_out float)) :=
  if k_async c then aplay fuel_per_wait (k_t0 c) (k_tock0 c) (k_reads c) (k_overs c) (k_runs c)
  else play VSync fuel_per_wait (k_t0 c) (k_tock0 c) (k_reads c) (k_overs c) (k_runs c).

Definition check_case (c : case) : bool :=
  match play_case c with
  | None => false
  | Some outs => all2 run_same outs (k_obs c)
  end.

(* branch classifier per cycle: 0 no wait (already expired), 1 one sleep, 2 several sleeps,
   3 a retrograde reading was seen during the cycle (deadline shifted), 4 wait asked for a zero sleep *)
Definition n_branches : nat := 9.   (* 5..8: branches 0, 1, 2, 4 for ado() runs (the loop clock has no retrograde) *)
Definition cyc_branches (c : @cyc float) : list nat :=
  (match c_sleeps c with [] => [0%nat] | [_] => [1%nat] | _ => [2%nat] end) ++
  (if existsb (fun d => PrimFloat.eqb d PrimFloat.zero) (c_sleeps c) then [4%nat] else []).
Definition case_branches (c : case) : list nat :=
  match play_case c with
  | None => []
  | Some outs =>
    map (fun b => if k_async c then (if Nat.ltb b 3 then b + 5 else b + 4)%nat else b)
    (concat (map (fun r => concat (map cyc_branches (r_cycles r)) ++
                          (* 3: the log of some cycle shows a reading below its predecessor *)
                          (if existsb (fun c => let l := c_log c in
                                        existsb (fun p => PrimFloat.ltb (fst p) (snd p)) (combine l (tl l))) (r_cycles r)
                           then [3%nat] else [])) outs))
  end.
