(* C29 — Filer: file resources stay inside their head directory and temp
   resources are removed.  Statements only; proofs in Proofs/PathProofs.v.
   The model (Model/Path.v) is the tree after the two D32 repairs; all
   theorems are full strength over the model's domain: any name and base
   (segment lists: dotted, empty, climbing, absolute), any of the 16 flag
   combinations, any extension, any initial file system satisfying [env].

   Vocabulary: [prefix a b] = b is a or below a; [inside a b] = b is strictly
   below a; [w_log] is the list of file-system effects (MkDir, MkFile,
   RmTree, RmFile) in execution order; [env c w] says that the head and alt
   directories and everything above them (and above the directory mkdtemp
   makes) exist and that neither head lies inside the other. *)
From Hio Require Import Base.Prelude Model.Path Proofs.PathProofs.

(* Everything the constructor (Filer.remake) creates or deletes lies strictly
   inside the head directory (or the alt head it falls back to), and, for a
   temp Filer, at or below the directory mkdtemp made; nothing at or above a
   head directory disappears. *)
Theorem C29_inside : forall c w r w',
  env c w -> remake c w = (r, w') ->
  (exists l, w_log w' = w_log w ++ l /\
     Forall (fun e => if c_temp c then prefix (c_tmp c) (eff_path e)
                      else inside (c_head c) (eff_path e) \/ inside (c_alt c) (eff_path e)) l) /\
  (forall q, prefix q (c_head c) \/ prefix q (c_alt c) -> c_temp c = false ->
             exists_ (w_fs w') q = true).
Proof.
  intros c w r w' E H. destruct (remake_effects c w r w' E H) as [L K]. split; [exact L|].
  intros q Hq Ht. apply K.
  - destruct Hq as [Hq|Hq]; [apply (notQ_above c w (c_head c) q) | apply (notQ_above c w (c_alt c) q)]; auto.
  - destruct Hq; [now apply (e_head c w E) | now apply (e_alt c w E)].
Qed.
Print Assumptions C29_inside.

(* The path itself is strictly inside its head directory, below the tail. *)
Theorem C29_path : forall c w p w',
  remake c w = (Ok p, w') ->
  if c_temp c then prefix (c_tmp c ++ tail_of (c_clean c) false) p /\ inside (c_tmp c) p
  else (prefix (c_head c ++ tail_of (c_clean c) false) p /\ inside (c_head c) p) \/
       (prefix (c_alt c ++ tail_of (c_clean c) true) p /\ inside (c_alt c) p).
Proof.
  intros c w p w' H. pose proof (remake_path c w p w' H) as P. destruct (c_temp c).
  - split; auto. eapply tail_inside; eauto.
  - destruct P as [P|P]; [left|right]; (split; auto; eapply tail_inside; eauto).
Qed.
Print Assumptions C29_path.

(* An absolute name or base, or a base/name that climbs out with '..', is
   rejected before anything is touched. *)
Theorem C29_rejected : forall c w,
  let name := if c_filed c || c_ext c then add_ext (c_name c) (c_fext c) else c_name c in
  isabs (c_name c) || isabs (c_base c) || climbs (c_base c ++ name) = true ->
  remake c w = (Exc OtherErr, w).
Proof. exact remake_rejected. Qed.
Print Assumptions C29_rejected.

(* close(clear=True) deletes only at or below its own path (at or below the
   mkdtemp directory when temp), creates nothing, and nothing outside that
   scope disappears. *)
Theorem C29_clear_scope : forall c p w r w',
  (c_temp c = true -> inside (c_tmp c) p) ->
  clear c p w = (r, w') ->
  (exists l, w_log w' = w_log w ++ l /\
     Forall (fun e => (if c_temp c then prefix (c_tmp c) (eff_path e) else prefix p (eff_path e)) /\
                      is_rm e) l) /\
  (forall q, ~ (if c_temp c then prefix (c_tmp c) q else prefix p q) ->
             exists_ (w_fs w) q = true -> exists_ (w_fs w') q = true).
Proof.
  intros c p w r w' Hin H. destruct (clear_effects c p w r w' Hin H) as [(l & Hl & F) K].
  split; [|exact K]. exists l. split; auto.
  destruct (clear_only_removes c p w r w' H) as (l' & Hl' & R).
  rewrite Hl in Hl'. apply app_inv_head in Hl'. subst l'.
  clear Hl. induction l; constructor; inversion F; inversion R; subst; auto.
Qed.
Print Assumptions C29_clear_scope.

(* After a successful close(clear=True) the path is gone; for a temp Filer
   the mkdtemp directory and everything below it is gone. *)
Theorem C29_clear_removes : forall c p w w',
  clear c p w = (Ok tt, w') -> p <> [] ->
  exists_ (w_fs w') p = false /\
  (c_temp c = true -> inside (c_tmp c) p -> isdir (w_fs w) (c_tmp c) = true ->
   forall q, prefix (c_tmp c) q -> q <> [] -> exists_ (w_fs w') q = false).
Proof. exact clear_removes. Qed.
Print Assumptions C29_clear_removes.

(* The end of an extensioned path that exists but is neither a regular file
   nor a directory (FIFO, unix socket, symbolic link to a directory — what a
   uxd Peer leaves there): clearing a persistent Filer removes exactly that
   end; every other path keeps its existence. *)
Theorem C29_clear_special_end : forall c p w,
  c_ext c = true -> c_temp c = false ->
  exists_ (w_fs w) p = true -> isfile (w_fs w) p = false -> isdir (w_fs w) p = false ->
  clear c p w = (Ok tt, do_remove w p) /\
  (forall q, q <> p -> exists_ (w_fs (do_remove w p)) q = exists_ (w_fs w) q).
Proof. exact clear_ext_other. Qed.
Print Assumptions C29_clear_special_end.

(* ---- histories: the constructor followed by any reopen(temp, fext, clear,
   reuse, clean) / close(clear) calls and direct remake(name, base, temp,
   clean, filed, extensioned, fext) calls (any name/base, also different from
   the constructor's) on the same Filer ----
   [good c st]: the object's .path lies where its .temp attribute says (inside
   its own mkdtemp directory, or inside the head or alt head); [scope st] is
   what a clear of the object may touch: at or below .path, or at or below its
   mkdtemp directory when .temp; [env_all]: head, alt and the temp root exist
   and none lies at or below another.

   One call: the close(clear) part only touches the scope of the object AS IT
   WAS BEFORE the call (old .path under the old .temp), the remake part only
   touches the inside of the head / alt head / new mkdtemp directory chosen
   by the new attributes; head, alt and temp root survive; a call that
   returns normally leaves a good object. *)
Theorem C29_reopen_close : forall c st h w r st' w',
  env_all c w -> good c st -> run_hop c st h w = (r, st', w') ->
  exists w0,
    step_ok (scope st) w w0 /\
    step_ok (Qof (hop_cfg c st h)) w0 w' /\
    env_all c w' /\ (r = Ok tt -> good c st').
Proof. exact hop_ok. Qed.
Print Assumptions C29_reopen_close.

(* Every history after a successful constructor, call by call (up to the
   first call that raises): [hist_ok] unfolds to the two scope statements
   above for every call in turn. *)
Theorem C29_history : forall c w p w1 hs,
  env_all c w -> c_tmp c <> [] -> remake c w = (Ok p, w1) -> hist_ok c (born c p) hs w1.
Proof. exact constructor_history_ok. Qed.
Print Assumptions C29_history.

(* Leaving the block of `with openFiler(..., clear=cl) as filer` is the call
   filer.close(clear = filer.temp or cl) with the object's CURRENT .temp.  It
   removes exactly the temp resources: a persistent Filer without clear is
   not touched at all; otherwise only the object's own scope is touched; a
   temp Filer's mkdtemp directory is gone with everything below it; a
   persistent path is gone only when clear was asked for.  (HExit is also one
   of the calls C29_reopen_close and C29_history quantify over.) *)
Theorem C29_exit : forall c st cl w r st' w',
  good c st -> run_hop c st (HExit cl) w = (r, st', w') ->
  st' = st /\
  (f_temp st = false -> cl = false -> w' = w /\ r = Ok tt) /\
  step_ok (scope st) w w' /\
  (f_temp st = true -> r = Ok tt ->
   forall p, f_path st = Some p -> p <> [] -> isdir (w_fs w) (f_tmp st) = true ->
   forall q, prefix (f_tmp st) q -> q <> [] -> exists_ (w_fs w') q = false) /\
  (f_temp st = false -> cl = true -> r = Ok tt ->
   forall p, f_path st = Some p -> p <> [] -> exists_ (w_fs w') p = false).
Proof. exact exit_spec. Qed.
Print Assumptions C29_exit.

(* A FilerDoer around the Filer (run by a Doist): enter(temp) reopens only a
   Filer that is not opened; for an opened Filer it changes nothing at all —
   not the tree, not .path, not .temp.  The doer's exit is the
   context-manager exit without a clear request, so C29_exit applies to it. *)
Theorem C29_doer_enter_opened : forall c st t w,
  run_hop2 c st true (HDoerEnter t) w = (Ok tt, st, true, w).
Proof. exact doer_enter_opened. Qed.
Print Assumptions C29_doer_enter_opened.

Theorem C29_doer_exit : forall c st op w,
  run_hop2 c st op HDoerExit w =
  let '(r, st', w') := run_hop c st (HExit false) w in (r, st', false, w').
Proof. exact doer_exit_is_exit. Qed.
Print Assumptions C29_doer_exit.

(* The doer's exit clears by the Filer's .temp whether or not the Filer is
   still opened (something else may have closed it in between): the result,
   the object and the tree do not depend on .opened. *)
Theorem C29_doer_exit_ignores_opened : forall c st w,
  run_hop2 c st true HDoerExit w = run_hop2 c st false HDoerExit w.
Proof. reflexivity. Qed.
Print Assumptions C29_doer_exit_ignores_opened.

(* Every history of reopen / close / remake / context-manager exit / doer
   enter / doer exit calls after a successful constructor, call by call. *)
Theorem C29_history_doer : forall c w p w1 hs,
  env_all c w -> c_tmp c <> [] -> remake c w = (Ok p, w1) -> hist2_ok c (born c p) true hs w1.
Proof. exact constructor_history2_ok. Qed.
Print Assumptions C29_history_doer.

(* The working directory.  remake resolves a relative headDirPath against the
   working directory of that moment (cfg_at) and stores an absolute .path;
   close(clear) and the context-manager / doer exit do not depend on the
   working directory at all: wherever the process has moved to, they do
   exactly the same to the same absolute paths. *)
Theorem C29_clear_ignores_cwd : forall c rh cwd1 cwd2 st cl w,
  run_hop (cfg_at c rh cwd1) st (HClose cl) w = run_hop (cfg_at c rh cwd2) st (HClose cl) w /\
  run_hop (cfg_at c rh cwd1) st (HExit cl) w = run_hop (cfg_at c rh cwd2) st (HExit cl) w.
Proof. exact close_ignores_cwd. Qed.
Print Assumptions C29_clear_ignores_cwd.

(* Non-vacuity of the history theorems: persistent filed Filer "b/x" with a
   sibling's file next to it; reopen(temp=True, clear=True) removes only its
   own file and moves into tmp/T0; the sibling is still there; a final
   close(clear=True) removes tmp/T0 entirely. *)
Example C29_history_example :
  let s := fun n : N => [n] in
  let c := {| c_name := [s 120]%N; c_base := [s 98]%N; c_temp := false; c_clean := false;
              c_filed := true; c_ext := false; c_fext := s 116%N; c_head := [s 104]%N; c_alt := [s 97]%N;
              c_tmp := [s 116; [84; 48]]%N |} in
  let sib := ([s 104; HIO; s 98; s 115], KFile)%N in
  let w := {| w_fs := [([s 104], KDir); ([s 97], KDir); ([s 116], KDir); ([s 104; HIO], KDir);
                       ([s 104; HIO; s 98], KDir); sib]%N; w_log := [] |} in
  forall p w1, remake c w = (Ok p, w1) ->
  let obs := run_hops c (born c p) true [H (HReopen (Some true) None true false false); HDoerEnter (Some false);
                                         HDoerExit] w1 in
  map (fun o => fst (fst (fst o))) obs = [Ok tt; Ok tt; Ok tt] /\
  map (fun o => snd (fst o)) obs = [true; true; true] /\
  map (fun o => snd (fst (fst o))) obs = [Some [s 116; [84; 48]; HIO; s 98; [120; 46; 116]]%N;
                                    Some [s 116; [84; 48]; HIO; s 98; [120; 46; 116]]%N;
                                    Some [s 116; [84; 48]; HIO; s 98; [120; 46; 116]]%N] /\
  Forall (fun o => existsb (entry_eqb sib) (snd o) = true) obs /\
  (forall o, nth_error obs 2 = Some o -> same_fs (snd o) (w_fs w) = true).
Proof.
  cbv zeta. intros p w1 H. vm_compute in H. inversion H; subst; clear H.
  vm_compute. repeat split; repeat constructor. intros o Ho. inversion Ho; subst. reflexivity.
Qed.

(* Non-vacuity: head "h", alt "a", mkdtemp directory "t/T"; a temp, filed
   Filer with name "a/../x" and base "b" is accepted, name "../../x" is not. *)
Example C29_example :
  let s := fun n : N => [n] in
  let c := {| c_name := [s 97; [46; 46]; s 120]%N; c_base := [s 98]%N; c_temp := true; c_clean := false;
              c_filed := true; c_ext := false; c_fext := s 116%N; c_head := [s 104]%N; c_alt := [s 97]%N;
              c_tmp := [s 116; s 84]%N |} in
  let w := {| w_fs := [([s 104], KDir); ([s 97], KDir); ([s 116], KDir)]%N; w_log := [] |} in
  fst (remake c w) = Ok [s 116; s 84; HIO; s 98; [120; 46; 116]]%N /\
  length (w_log (snd (remake c w))) = 4 /\
  (forall p, fst (remake c w) = Ok p -> w_fs (snd (clear c p (snd (remake c w)))) = w_fs w) /\
  fst (remake {| c_name := [[46; 46]; [46; 46]; s 120]%N; c_base := [[]]; c_temp := false; c_clean := false;
                 c_filed := false; c_ext := false; c_fext := s 116%N; c_head := [s 104]%N; c_alt := [s 97]%N;
                 c_tmp := [s 116; s 84]%N |} w) = Exc OtherErr.
Proof. vm_compute. repeat split. intros p H. inversion H; subst. reflexivity. Qed.
