(* C04 over histories, one level of grouping: the grouped programs of
   Proofs/SchedFlatDefs.v are the regrouping trees of depth one, so the history
   theorems of Proofs/SchedTreeHist.v apply to them. *)
From Hio Require Import Base.Prelude Base.AMap Base.Time Model.Sched
  Proofs.SchedFlatDefs Proofs.SchedFlatRun Proofs.SchedFlatTop
  Proofs.SchedTreeDefs Proofs.SchedTreeRun Proofs.SchedTreeTop Proofs.SchedTreeHistRun Proofs.SchedTreeHist
  Proofs.SchedHist.

Section FlatHist.
Context {T : Type} `{Time T}.

Definition embed (g : gitem T) : gtree T :=
  match g with GLeaf l => TLeaf l | GGroup n kids => TGroup n (map TLeaf kids) end.

Lemma embed_flatten (gs : list (gitem T)) : gflatten (map embed gs) = flatten gs.
Proof.
  induction gs as [|g gs IH]; [reflexivity|]. cbn [map]. unfold flatten. cbn [flat_map]. fold (flatten gs).
  destruct g as [l|n kids]; cbn [embed g_leaves].
  - now rewrite gflatten_leaf', IH.
  - now rewrite gflatten_group', gflatten_tleaves, IH.
Qed.
Lemma embed_nests (gs : list (gitem T)) : gnest_ids (map embed gs) = nest_ids gs.
Proof.
  induction gs as [|g gs IH]; [reflexivity|]. cbn [map]. unfold nest_ids. cbn [flat_map]. fold (nest_ids gs).
  destruct g as [l|n kids]; cbn [embed g_nests].
  - now rewrite gnest_leaf, IH.
  - now rewrite gnest_group, gnest_tleaves, IH.
Qed.
Lemma embed_defs (z0 : T) (gs : list (gitem T)) : tnest_defs z0 (map embed gs) = flat_map (g_nestdef z0) gs.
Proof.
  unfold tnest_defs. induction gs as [|g gs IH]; [reflexivity|]. cbn [map flat_map].
  destruct g as [l|n kids]; cbn [embed g_nestdef].
  - now rewrite gtabt_leaf, IH.
  - rewrite gtabt_group. fold (tnest_defs z0 (map TLeaf kids)). rewrite tnest_defs_tleaves, map_map, IH. reflexivity.
Qed.
Lemma embed_tops (gs : list (gitem T)) : map gt_top (map embed gs) = map g_top gs.
Proof. rewrite map_map. apply map_ext. now intros [l|n kids]. Qed.
Lemma embed_grouped (gs : list (gitem T)) : tgrouped_leaves (map embed gs) = grouped_leaves gs.
Proof.
  unfold tgrouped_leaves, grouped_leaves. induction gs as [|g gs IH]; [reflexivity|]. cbn [map flat_map].
  rewrite IH. destruct g as [l|n kids]; cbn [embed]; [reflexivity|]. now rewrite gflatten_tleaves.
Qed.

Lemma embed_prog (tk : T) (limit : option T) (t0 z0 : T) (gs : list (gitem T)) :
  nest_prog tk limit t0 z0 gs = tnest_prog tk limit t0 z0 (map embed gs).
Proof. unfold nest_prog, tnest_prog. now rewrite embed_tops, embed_flatten, embed_defs. Qed.

Lemma embed_wf (gs : list (gitem T)) : wf_group gs -> wf_tree (map embed gs).
Proof. intros [ND P]. split; now rewrite embed_flatten, ?embed_nests. Qed.

(* histories of a one-level grouped program: a fresh Doist gets a selection of top-level items *)
Inductive grerun : Type :=
| GAgain (limit tyme' : option T)
| GFresh (limit : option T) (tyme0 : T) (sel : list (gitem T)).

Definition g_trerun (r : grerun) : trerun :=
  match r with GAgain l t => TAgain l t | GFresh l t sel => TFresh l t (map embed sel) end.
Definition gnest_rerun (r : grerun) : rerun (T:=T) := nest_rerun (g_trerun r).
Definition gflat_rerun (r : grerun) : rerun (T:=T) := flat_rerun (g_trerun r).

Definition wf_grerun (gs : list (gitem T)) (r : grerun) : Prop :=
  match r with
  | GAgain _ _ => True
  | GFresh _ _ sel => (forall g, In g sel -> In g gs) /\ NoDup (gts_ids (map embed sel))
  end.

Lemma wf_g_trerun (gs : list (gitem T)) (h : list grerun) :
  Forall (wf_grerun gs) h -> Forall (wf_rerun (map embed gs)) (map g_trerun h).
Proof.
  intro Wh. rewrite Forall_forall in *. intros r Hr. apply in_map_iff in Hr as (r0 & <- & Hr0).
  specialize (Wh r0 Hr0). destruct r0 as [l t|l t sel]; cbn [g_trerun wf_rerun wf_grerun] in *; [exact I|].
  destruct Wh as [Hs ND]. split; [|exact ND].
  intros g Hg. apply in_map_iff in Hg as (g0 & <- & Hg0). apply in_map. now apply Hs.
Qed.

Theorem flatten_hist_onelevel (tk z0 : T) (gs : list (gitem T)) (limit : option T) (t0 : T)
        (h : list grerun) c1 f1 a1 c2 f2 a2 :
  flat_laws tk z0 -> wf_group gs -> Forall (wf_grerun gs) h ->
  forallb no_asap_then_positive (grouped_leaves gs) = true ->
  oof (run_hist c1 f1 a1 (nest_prog tk limit t0 z0 gs) (map gnest_rerun h)) = false ->
  oof (run_hist c2 f2 a2 (flat_prog tk limit t0 (flatten gs)) (map gflat_rerun h)) = false ->
  leaf_view (map lf_id (flatten gs)) (run_hist c1 f1 a1 (nest_prog tk limit t0 z0 gs) (map gnest_rerun h)) =
  leaf_view (map lf_id (flatten gs)) (run_hist c2 f2 a2 (flat_prog tk limit t0 (flatten gs)) (map gflat_rerun h)).
Proof.
  intros LAWS WF Wh Hy O1 O2.
  rewrite embed_prog in *. rewrite <- embed_flatten in *. rewrite <- embed_grouped in Hy.
  unfold gnest_rerun, gflat_rerun in *. rewrite <- !(map_map g_trerun) in *.
  exact (flatten_hist tk z0 LAWS (map embed gs) limit t0 (map g_trerun h) c1 f1 a1 c2 f2 a2
           (embed_wf gs WF) (wf_g_trerun gs h Wh) Hy O1 O2).
Qed.

End FlatHist.
