(* Lifecycle well-formedness for Model/Sched.v (property C01).
   Part 1: a doer that is executing (GRun) is never touched by nested calls.
   Part 2: the per-doer lifecycle automaton is respected by every function. *)
From Hio Require Import Base.Prelude Base.AMap Base.Time Model.Sched Proofs.SchedEqs Proofs.SchedFrame.

Section Life.
Context {T : Type} `{Time T}.
Implicit Types s a b : st T.

Definition is_life (k : ekind) : bool :=
  match k with Enter | Recur | Clean | Cease | Abort | Exit => true | _ => false end.

(* lifecycle event kinds of doer j, newest first *)
Definition evs (j : id) (s : st T) : list ekind :=
  map e_kind (filter (fun e => N.eqb (e_id e) j && is_life (e_kind e)) (trace s)).

Lemma evs_emit_same j s k : is_life k = true -> evs j (emit s k j) = k :: evs j s.
Proof. intro L. unfold evs, emit; cbn [trace filter e_id e_kind]. now rewrite N.eqb_refl, L. Qed.
Lemma evs_emit_other j s k i : i <> j -> evs j (emit s k i) = evs j s.
Proof.
  intro Hne. unfold evs, emit; cbn [trace filter e_id e_kind].
  destruct (N.eqb i j) eqn:E; [apply N.eqb_eq in E; contradiction|reflexivity].
Qed.
Lemma evs_emit_nonlife j s k i : is_life k = false -> evs j (emit s k i) = evs j s.
Proof. intro L. unfold evs, emit; cbn [trace filter e_id e_kind]. now rewrite L, andb_false_r. Qed.
Lemma evs_set_gen j s i g : evs j (set_gen s i g) = evs j s. Proof. reflexivity. Qed.
Lemma evs_set_done j s i d : evs j (set_done s i d) = evs j s. Proof. reflexivity. Qed.
Lemma evs_set_sched j s i c : evs j (set_sched s i c) = evs j s. Proof. reflexivity. Qed.
Lemma evs_oof j s : evs j (out_of_fuel s) = evs j s. Proof. reflexivity. Qed.

Lemma gen_emit s k i j : get_gen (emit s k i) j = get_gen s j. Proof. reflexivity. Qed.
Lemma gen_set_done s i d j : get_gen (set_done s i d) j = get_gen s j. Proof. reflexivity. Qed.
Lemma gen_set_sched s i c j : get_gen (set_sched s i c) j = get_gen s j. Proof. reflexivity. Qed.
Lemma gen_oof s j : get_gen (out_of_fuel s) j = get_gen s j. Proof. reflexivity. Qed.
Lemma gen_set_gen_same s i g : get_gen (set_gen s i g) i = g.
Proof. unfold get_gen, set_gen; cbn [gens]. now rewrite get_set_same. Qed.
Lemma gen_set_gen_other s i g j : j <> i -> get_gen (set_gen s i g) j = get_gen s j.
Proof. intro Hne. unfold get_gen, set_gen; cbn [gens]. now rewrite get_set_other. Qed.

(* ---------- Part 1: nested calls never touch a running doer ---------- *)

Definition noj (j : id) (a b : st T) : Prop :=
  get_gen b j = get_gen a j /\ evs j b = evs j a.

Lemma noj_refl j a : noj j a a. Proof. split; reflexivity. Qed.
Lemma kj_emit_other j a s k i : i <> j -> noj j a s -> noj j a (emit s k i).
Proof. intros Hne [G E]. split; [now rewrite gen_emit|now rewrite evs_emit_other]. Qed.
Lemma kj_emit_nonlife j a s k i : is_life k = false -> noj j a s -> noj j a (emit s k i).
Proof. intros L [G E]. split; [now rewrite gen_emit|now rewrite evs_emit_nonlife]. Qed.
Lemma kj_gen_other j a s i g : i <> j -> noj j a s -> noj j a (set_gen s i g).
Proof. intros Hne [G E]. split; [rewrite gen_set_gen_other; auto|now rewrite evs_set_gen]. Qed.
Lemma kj_done j a s i d : noj j a s -> noj j a (set_done s i d).
Proof. intros [G E]. split; assumption. Qed.
Lemma kj_sched j a s i c : noj j a s -> noj j a (set_sched s i c).
Proof. intros [G E]. split; assumption. Qed.
Lemma kj_deeds j a s i d : noj j a s -> noj j a (set_deeds s i d).
Proof. intros. unfold set_deeds. now apply kj_sched. Qed.
Lemma kj_oof j a s : noj j a s -> noj j a (out_of_fuel s).
Proof. intros [G E]. split; assumption. Qed.
Lemma kj_if j a (b : bool) s1 s2 : noj j a s1 -> noj j a s2 -> noj j a (if b then s1 else s2).
Proof. destruct b; auto. Qed.

Variable tk : T.

Definition running (s : st T) (j : id) : Prop := exists pc, get_gen s j = GRun pc.

Lemma running_noj j a s : running a j -> noj j a s -> running s j.
Proof. intros [pc R] [G _]. exists pc. congruence. Qed.

Lemma startable_ne s i j : running s j -> startable s i = true -> i <> j.
Proof. intros [pc R] S Heq. subst. unfold startable in S. rewrite R in S. discriminate. Qed.
Lemma susp_ne s i j pc : running s j -> get_gen s i = GSusp pc -> i <> j.
Proof. intros [pc' R] S Heq. subst. congruence. Qed.

Definition framej_at (j : id) (f : nat) : Prop :=
  (forall a s i s' r, running a j -> noj j a s -> gen_start tk f s i = (s', r) -> noj j a s') /\
  (forall a s i k sc pc s' r, running a j -> noj j a s -> i <> j -> run_step tk f s i k sc pc = (s', r) -> noj j a s') /\
  (forall a s i s' r, running a j -> noj j a s -> gen_send tk f s i = (s', r) -> noj j a s') /\
  (forall a s i, running a j -> noj j a s -> noj j a (gen_close tk f s i)) /\
  (forall a s i, running a j -> noj j a s -> noj j a (close_own tk f s i)) /\
  (forall a s ds, running a j -> noj j a s -> noj j a (close_list tk f s ds)) /\
  (forall a s sid ids s' r, running a j -> noj j a s -> enter_own tk f s sid ids = (s', r) -> noj j a s') /\
  (forall a s ids acc s' r acc', running a j -> noj j a s -> enter_local tk f s ids acc = (s', r, acc') -> noj j a s') /\
  (forall a s c es s' r, running a j -> noj j a s -> run_effects tk f s c es = (s', r) -> noj j a s') /\
  (forall a s sid s' r, running a j -> noj j a s -> recur_pass tk f s sid = (s', r) -> noj j a s') /\
  (forall a s sid s' r, running a j -> noj j a s -> recur_loop tk f s sid = (s', r) -> noj j a s').

Ltac brk :=
  cbv zeta in *;
  repeat (match goal with
  | H : context [match ?x with _ => _ end] |- _ => destruct x eqn:?
  | |- context [match ?x with _ => _ end] => destruct x eqn:?
  end; cbv zeta in *).

Ltac fin :=
  repeat match goal with
  | H : (_, _) = (_, _) |- _ => inversion H; subst; clear H
  | H : (_, _, _) = (_, _, _) |- _ => inversion H; subst; clear H
  end.

Lemma framej_all j : forall f, framej_at j f.
Proof.
  induction f as [|f IH].
  - unfold framej_at. repeat match goal with |- _ /\ _ => split end; intros.
    all: try match goal with
         | E : _ = (_, _) |- _ => cbn in E; inversion E; subst; clear E
         end; cbn; try assumption; try (apply kj_oof; assumption).
    all: repeat match goal with Hn : noj _ _ _ |- _ => destruct Hn end; assumption.
  - destruct IH as (Ist & Irs & Isd & Icl & Ico & Ili & Ieo & Iel & Ief & Irp & Irl).
    Ltac goj Ist Irs Isd Icl Ico Ili Ieo Iel Ief Irp Irl :=
      let rec loop :=
        match goal with
        | H : noj ?j ?a ?s |- noj ?j ?a ?s => exact H
        | |- _ <> _ => assumption
        | |- running _ _ => assumption
        | |- is_life _ = false => reflexivity
        | |- noj _ _ (emit _ ExtRet _) => apply kj_emit_nonlife; loop
        | |- noj _ _ (emit _ RemRet _) => apply kj_emit_nonlife; loop
        | |- noj _ _ (emit _ _ _) => apply kj_emit_other; loop
        | |- noj _ _ (set_gen _ _ _) => apply kj_gen_other; loop
        | |- noj _ _ (set_done _ _ _) => apply kj_done; loop
        | |- noj _ _ (set_deeds _ _ _) => apply kj_deeds; loop
        | |- noj _ _ (set_sched _ _ _) => apply kj_sched; loop
        | |- noj _ _ (out_of_fuel _) => apply kj_oof; loop
        | |- noj _ _ (if _ then _ else _) => apply kj_if; loop
        | |- noj _ _ (gen_close _ _ _ _) => apply Icl; loop
        | |- noj _ _ (close_own _ _ _ _) => apply Ico; loop
        | |- noj _ _ (close_list _ _ _ _) => apply Ili; loop
        | E : gen_start _ _ _ _ = (?s1, _) |- noj _ _ ?s1 => eapply Ist; [| |exact E]; loop
        | E : run_step _ _ _ _ _ _ _ = (?s1, _) |- noj _ _ ?s1 => eapply Irs; [| | |exact E]; loop
        | E : gen_send _ _ _ _ = (?s1, _) |- noj _ _ ?s1 => eapply Isd; [| |exact E]; loop
        | E : enter_own _ _ _ _ _ = (?s1, _) |- noj _ _ ?s1 => eapply Ieo; [| |exact E]; loop
        | E : enter_local _ _ _ _ _ = (?s1, _, _) |- noj _ _ ?s1 => eapply Iel; [| |exact E]; loop
        | E : run_effects _ _ _ _ _ = (?s1, _) |- noj _ _ ?s1 => eapply Ief; [| |exact E]; loop
        | E : recur_pass _ _ _ _ = (?s1, _) |- noj _ _ ?s1 => eapply Irp; [| |exact E]; loop
        | E : recur_loop _ _ _ _ = (?s1, _) |- noj _ _ ?s1 => eapply Irl; [| |exact E]; loop
        end in loop.
    unfold framej_at. repeat match goal with |- _ /\ _ => split end; intros.
    + (* gen_start *)
      rewrite gen_start_S in *.
      destruct (startable s i) eqn:St; cbn [negb] in *; [|fin; assumption].
      assert (Hne : i <> j) by (eapply startable_ne; [eapply running_noj; eassumption|exact St]).
      brk; fin; goj Ist Irs Isd Icl Ico Ili Ieo Iel Ief Irp Irl.
    + rewrite run_step_S in *. brk; fin; goj Ist Irs Isd Icl Ico Ili Ieo Iel Ief Irp Irl.
    + (* gen_send *)
      rewrite gen_send_S in *.
      destruct (get_gen s i) eqn:G; try (fin; assumption).
      assert (Hne : i <> j) by (eapply susp_ne; [eapply running_noj; eassumption|exact G]).
      brk; fin; goj Ist Irs Isd Icl Ico Ili Ieo Iel Ief Irp Irl.
    + rewrite gen_close_S.
      destruct (get_gen s i) eqn:G; try assumption.
      assert (Hne : i <> j) by (eapply susp_ne; [eapply running_noj; eassumption|exact G]).
      brk; goj Ist Irs Isd Icl Ico Ili Ieo Iel Ief Irp Irl.
    + rewrite close_own_S. cbv zeta. goj Ist Irs Isd Icl Ico Ili Ieo Iel Ief Irp Irl.
    + rewrite close_list_S. brk; goj Ist Irs Isd Icl Ico Ili Ieo Iel Ief Irp Irl.
    + rewrite enter_own_S in *. brk; fin; goj Ist Irs Isd Icl Ico Ili Ieo Iel Ief Irp Irl.
    + rewrite enter_local_S in *. brk; fin; goj Ist Irs Isd Icl Ico Ili Ieo Iel Ief Irp Irl.
    + rewrite run_effects_S in *. brk; fin; goj Ist Irs Isd Icl Ico Ili Ieo Iel Ief Irp Irl.
    + rewrite recur_pass_S in *. cbv zeta in *. goj Ist Irs Isd Icl Ico Ili Ieo Iel Ief Irp Irl.
    + rewrite recur_loop_S in *. brk; fin; goj Ist Irs Isd Icl Ico Ili Ieo Iel Ief Irp Irl.
Qed.

(* ---------- Part 2: the lifecycle automaton ---------- *)

Inductive lst := LIdle | LOpen | LEnding | LBad.

(* Enter Recur* (Clean|Cease|Abort)? Exit, repeated; the optional terminal
   kind is absent only when a KeyboardInterrupt (BaseException) passes through
   the doer (finding D40-kbd). *)
Definition lstep (q : lst) (k : ekind) : lst :=
  match q, k with
  | LIdle, Enter => LOpen
  | LOpen, Recur => LOpen
  | LOpen, Clean | LOpen, Cease | LOpen, Abort => LEnding
  | LOpen, Exit => LIdle
  | LEnding, Exit => LIdle
  | _, _ => LBad
  end.

(* state after a newest-first event list *)
Fixpoint lstate (l : list ekind) : lst :=
  match l with [] => LIdle | k :: older => lstep (lstate older) k end.

Definition okg (g : gstate) (q : lst) : Prop :=
  match g, q with
  | GNew, LIdle | GDone, LIdle => True
  | GSusp _, LOpen => True
  | GRun _, LOpen | GRun _, LEnding => True
  | _, _ => False
  end.

Definition okj s (j : id) : Prop := okg (get_gen s j) (lstate (evs j s)).
Definition LInv s : Prop := forall j, okj s j.

(* s' differs from s, as far as lifecycles go, only for doer i *)
Definition only (i : id) s s' : Prop :=
  forall j, j <> i -> get_gen s' j = get_gen s j /\ evs j s' = evs j s.

Lemma only_refl i s : only i s s. Proof. intros j _. split; reflexivity. Qed.
Lemma only_trans i a b c : only i a b -> only i b c -> only i a c.
Proof. intros H1 H2 j Hj. destruct (H1 j Hj), (H2 j Hj). split; congruence. Qed.
Lemma only_emit i s k : only i s (emit s k i).
Proof. intros j Hj. split; [apply gen_emit|apply evs_emit_other; congruence]. Qed.
Lemma only_gen i s g : only i s (set_gen s i g).
Proof. intros j Hj. split; [now apply gen_set_gen_other|apply evs_set_gen]. Qed.

Lemma linv_only i s s' : LInv s -> only i s s' -> okj s' i -> LInv s'.
Proof.
  intros L O Ki j. destruct (N.eq_dec j i) as [->|Hne]; [exact Ki|].
  destruct (O j Hne) as [G E]. unfold okj. rewrite G, E. apply L.
Qed.

(* updates that do not concern lifecycles at all *)
Definition samelife s s' : Prop := forall j, get_gen s' j = get_gen s j /\ evs j s' = evs j s.
Lemma linv_same s s' : LInv s -> samelife s s' -> LInv s'.
Proof. intros L S j. destruct (S j) as [G E]. unfold okj. rewrite G, E. apply L. Qed.
Lemma same_done s i d : samelife s (set_done s i d). Proof. intro j. split; reflexivity. Qed.
Lemma same_sched s i c : samelife s (set_sched s i c). Proof. intro j. split; reflexivity. Qed.
Lemma same_deeds s i d : samelife s (set_deeds s i d). Proof. intro j. split; reflexivity. Qed.
Lemma same_oof s : samelife s (out_of_fuel s). Proof. intro j. split; reflexivity. Qed.
Lemma same_nonlife s k i : is_life k = false -> samelife s (emit s k i).
Proof. intros L j. split; [apply gen_emit|now apply evs_emit_nonlife]. Qed.

Lemma linv_done s i d : LInv s -> LInv (set_done s i d). Proof. intro L. eapply linv_same; [exact L|apply same_done]. Qed.
Lemma linv_deeds s i d : LInv s -> LInv (set_deeds s i d). Proof. intro L. eapply linv_same; [exact L|apply same_deeds]. Qed.
Lemma linv_sched s i c : LInv s -> LInv (set_sched s i c). Proof. intro L. eapply linv_same; [exact L|apply same_sched]. Qed.
Lemma linv_oof s : LInv s -> LInv (out_of_fuel s). Proof. intro L. eapply linv_same; [exact L|apply same_oof]. Qed.
Lemma linv_ext s i : LInv s -> LInv (emit s ExtRet i). Proof. intro L. eapply linv_same; [exact L|now apply same_nonlife]. Qed.
Lemma linv_rem s i : LInv s -> LInv (emit s RemRet i). Proof. intro L. eapply linv_same; [exact L|now apply same_nonlife]. Qed.

(* the situation of the doer a function is working for *)
Definition at_i s (i : id) (pc : nat) (q : lst) : Prop :=
  get_gen s i = GRun pc /\ lstate (evs i s) = q.

(* transitions of doer i *)
Lemma t_start s i : LInv s -> startable s i = true ->
  LInv (emit (set_gen s i (GRun 0)) Enter i) /\ at_i (emit (set_gen s i (GRun 0)) Enter i) i 0 LOpen.
Proof.
  intros L St.
  assert (Q : lstate (evs i s) = LIdle).
  { specialize (L i). unfold okj, startable in *. destruct (get_gen s i), (lstate (evs i s)); try discriminate; try contradiction; reflexivity. }
  assert (A : at_i (emit (set_gen s i (GRun 0)) Enter i) i 0 LOpen).
  { split; [rewrite gen_emit; apply gen_set_gen_same|].
    rewrite evs_emit_same by reflexivity. cbn [lstate]. rewrite evs_set_gen, Q. reflexivity. }
  split; [|exact A].
  eapply linv_only; [exact L| |].
  - eapply only_trans; [apply only_gen|apply only_emit].
  - destruct A as [G E]. unfold okj. rewrite G, E. exact I.
Qed.

Lemma t_resume s i pc k : LInv s -> get_gen s i = GSusp pc -> (k = Recur \/ k = Cease) ->
  LInv (emit (set_gen s i (GRun pc)) k i) /\
  at_i (emit (set_gen s i (GRun pc)) k i) i pc (match k with Recur => LOpen | _ => LEnding end).
Proof.
  intros L G Hk.
  assert (Q : lstate (evs i s) = LOpen).
  { specialize (L i). unfold okj in L. rewrite G in L. destruct (lstate (evs i s)); try contradiction; reflexivity. }
  assert (A : at_i (emit (set_gen s i (GRun pc)) k i) i pc (match k with Recur => LOpen | _ => LEnding end)).
  { split; [rewrite gen_emit; apply gen_set_gen_same|].
    rewrite evs_emit_same by (destruct Hk; subst; reflexivity).
    cbn [lstate]. rewrite evs_set_gen, Q. destruct Hk; subst; reflexivity. }
  split; [|exact A].
  eapply linv_only; [exact L| |].
  - eapply only_trans; [apply only_gen|apply only_emit].
  - destruct A as [G' E]. unfold okj. rewrite G', E. destruct Hk; subst; exact I.
Qed.

Lemma t_suspend s i pc pc' : LInv s -> at_i s i pc LOpen -> LInv (set_gen s i (GSusp pc')).
Proof.
  intros L [G Q]. eapply linv_only; [exact L|apply only_gen|].
  unfold okj. rewrite gen_set_gen_same, evs_set_gen, Q. exact I.
Qed.

Lemma t_ending s i pc k : LInv s -> at_i s i pc LOpen -> (k = Clean \/ k = Abort) ->
  LInv (emit s k i) /\ at_i (emit s k i) i pc LEnding.
Proof.
  intros L [G Q] Hk.
  assert (A : at_i (emit s k i) i pc LEnding).
  { split; [now rewrite gen_emit|].
    rewrite evs_emit_same by (destruct Hk; subst; reflexivity). cbn [lstate]. rewrite Q.
    destruct Hk; subst; reflexivity. }
  split; [|exact A].
  eapply linv_only; [exact L|apply only_emit|].
  destruct A as [G' E]. unfold okj. rewrite G', E. exact I.
Qed.

Lemma t_finish s i pc q : LInv s -> at_i s i pc q -> (q = LOpen \/ q = LEnding) ->
  LInv (set_gen (emit s Exit i) i GDone).
Proof.
  intros L [G Q] Hq. eapply linv_only; [exact L| |].
  - eapply only_trans; [apply only_emit|apply only_gen].
  - unfold okj. rewrite gen_set_gen_same, evs_set_gen, evs_emit_same by reflexivity.
    cbn [lstate]. destruct Hq as [Hq|Hq]; rewrite Hq in Q; rewrite Q; exact I.
Qed.

(* a nested call leaves the working doer as it was *)
Lemma at_noj s s' i pc q : at_i s i pc q -> noj i s s' -> at_i s' i pc q.
Proof. intros [G Q] [G' E]. split; congruence. Qed.
Lemma at_running s i pc q : at_i s i pc q -> running s i.
Proof. intros [G _]. now exists pc. Qed.
Lemma at_same s s' i pc q : at_i s i pc q -> samelife s s' -> at_i s' i pc q.
Proof. intros [G Q] S. destruct (S i) as [G' E]. split; congruence. Qed.

(* ---------- the invariant is preserved by every function ---------- *)

Definition linv_at (f : nat) : Prop :=
  (forall s i s' r, LInv s -> gen_start tk f s i = (s', r) -> LInv s') /\
  (forall s i k sc pc pc0 s' r, LInv s -> at_i s i pc0 LOpen -> run_step tk f s i k sc pc = (s', r) -> LInv s') /\
  (forall s i s' r, LInv s -> gen_send tk f s i = (s', r) -> LInv s') /\
  (forall s i, LInv s -> LInv (gen_close tk f s i)) /\
  (forall s i, LInv s -> LInv (close_own tk f s i)) /\
  (forall s ds, LInv s -> LInv (close_list tk f s ds)) /\
  (forall s sid ids s' r, LInv s -> enter_own tk f s sid ids = (s', r) -> LInv s') /\
  (forall s ids acc s' r acc', LInv s -> enter_local tk f s ids acc = (s', r, acc') -> LInv s') /\
  (forall s c es s' r, LInv s -> run_effects tk f s c es = (s', r) -> LInv s') /\
  (forall s sid s' r, LInv s -> recur_pass tk f s sid = (s', r) -> LInv s') /\
  (forall s sid s' r, LInv s -> recur_loop tk f s sid = (s', r) -> LInv s').

(* the ending of a DoDoer's generator, shared by three paths:
   [Abort]? ; close own deeds ; Exit ; GDone *)
Lemma nest_end f s i pc q (kbd : bool) :
  (forall s i, LInv s -> LInv (close_own tk f s i)) ->
  LInv s -> at_i s i pc q -> (q = LOpen \/ (q = LEnding /\ kbd = true)) ->
  LInv (set_gen (emit (close_own tk f (if kbd then s else emit s Abort i) i) Exit i) i GDone).
Proof.
  intros Ico L A Hq.
  destruct (framej_all i f) as (_ & _ & _ & _ & Fco & _).
  set (s3 := if kbd then s else emit s Abort i).
  assert (Q3 : LInv s3 /\ exists q3, at_i s3 i pc q3 /\ (q3 = LOpen \/ q3 = LEnding)).
  { unfold s3. destruct kbd.
    - split; [exact L|]. exists q. split; [exact A|]. destruct Hq as [->|[-> _]]; auto.
    - destruct Hq as [->|[_ Hk]]; [|discriminate].
      destruct (t_ending s i pc Abort L A (or_intror eq_refl)) as [L3 A3].
      split; [exact L3|]. exists LEnding. split; [exact A3|auto]. }
  destruct Q3 as (L3 & q3 & A3 & Hq3).
  assert (L4 : LInv (close_own tk f s3 i)) by (apply Ico; exact L3).
  assert (A4 : at_i (close_own tk f s3 i) i pc q3).
  { eapply at_noj; [exact A3|]. apply Fco; [eapply at_running; exact A3|apply noj_refl]. }
  eapply t_finish; eassumption.
Qed.

(* the two ways a DoDoer's recur step ends without an exception *)
Lemma nest_tail f s i pc (e : bool) :
  (forall s i, LInv s -> LInv (close_own tk f s i)) ->
  LInv s -> at_i s i pc LOpen ->
  LInv (set_gen (emit (close_own tk f (emit (set_done s i (Some e)) Clean i) i) Exit i) i GDone) /\
  LInv (set_gen (set_done s i (Some e)) i (GSusp pc)).
Proof.
  intros Ico L A.
  assert (L3 : LInv (set_done s i (Some e))) by (apply linv_done; exact L).
  assert (A3 : at_i (set_done s i (Some e)) i pc LOpen) by (eapply at_same; [exact A|apply same_done]).
  split.
  - destruct (t_ending _ i pc Clean L3 A3 (or_introl eq_refl)) as [L4 A4].
    assert (L5 : LInv (close_own tk f (emit (set_done s i (Some e)) Clean i) i)) by (apply Ico; exact L4).
    assert (A5 : at_i (close_own tk f (emit (set_done s i (Some e)) Clean i) i) i pc LEnding).
    { destruct (framej_all i f) as (_ & _ & _ & _ & Fco & _).
      eapply at_noj; [exact A4|]. apply Fco; [eapply at_running; exact A4|apply noj_refl]. }
    eapply t_finish; [exact L5|exact A5|auto].
  - eapply t_suspend; eassumption.
Qed.

Ltac goL Ist Isd Icl Ico Ili Ieo Iel Ief Irp Irl :=
  let rec loop :=
    match goal with
    | H : LInv ?s |- LInv ?s => exact H
    | |- LInv (set_done _ _ _) => apply linv_done; loop
    | |- LInv (set_deeds _ _ _) => apply linv_deeds; loop
    | |- LInv (set_sched _ _ _) => apply linv_sched; loop
    | |- LInv (out_of_fuel _) => apply linv_oof; loop
    | |- LInv (emit _ ExtRet _) => apply linv_ext; loop
    | |- LInv (emit _ RemRet _) => apply linv_rem; loop
    | |- LInv (gen_close _ _ _ _) => apply Icl; loop
    | |- LInv (close_own _ _ _ _) => apply Ico; loop
    | |- LInv (close_list _ _ _ _) => apply Ili; loop
    | E : gen_start _ _ _ _ = (?s1, _) |- LInv ?s1 => eapply Ist; [|exact E]; loop
    | E : gen_send _ _ _ _ = (?s1, _) |- LInv ?s1 => eapply Isd; [|exact E]; loop
    | E : enter_own _ _ _ _ _ = (?s1, _) |- LInv ?s1 => eapply Ieo; [|exact E]; loop
    | E : enter_local _ _ _ _ _ = (?s1, _, _) |- LInv ?s1 => eapply Iel; [|exact E]; loop
    | E : run_effects _ _ _ _ _ = (?s1, _) |- LInv ?s1 => eapply Ief; [|exact E]; loop
    | E : recur_pass _ _ _ _ = (?s1, _) |- LInv ?s1 => eapply Irp; [|exact E]; loop
    | E : recur_loop _ _ _ _ = (?s1, _) |- LInv ?s1 => eapply Irl; [|exact E]; loop
    end in loop.

Lemma linv_all : forall f, linv_at f.
Proof.
  induction f as [|f IH].
  - unfold linv_at. repeat match goal with |- _ /\ _ => split end; intros.
    all: try match goal with
         | E : _ = (_, _) |- _ => cbn in E; inversion E; subst; clear E
         end; cbn; try assumption; try (apply linv_oof; assumption).
  - destruct IH as (Ist & Irs & Isd & Icl & Ico & Ili & Ieo & Iel & Ief & Irp & Irl).
    unfold linv_at. repeat match goal with |- _ /\ _ => split end; intros.
    + (* gen_start *)
      rename H0 into L, H1 into E. rewrite gen_start_S in E.
      destruct (startable s i) eqn:St; cbn [negb] in E; [|fin; assumption].
      destruct (t_start s i L St) as [L1 A1].
      destruct (get (defs s) i) as [[k script|t0 always kids]|]; [| |fin; assumption].
      * eapply Irs; [exact L1|exact A1|exact E].
      * cbv zeta in E.
        destruct (enter_own tk f _ i _) as [s2 r0] eqn:Ee.
        assert (L2 : LInv s2) by (eapply Ieo; [exact L1|exact Ee]).
        assert (A2 : at_i s2 i 0 LOpen).
        { destruct (framej_all i f) as (_ & _ & _ & _ & _ & _ & Feo & _).
          eapply at_noj; [exact A1|]. eapply Feo; [eapply at_running; exact A1|apply noj_refl|exact Ee]. }
        destruct r0; fin.
        -- eapply t_suspend; eassumption.
        -- eapply t_suspend; eassumption.
        -- eapply nest_end; [exact Ico|exact L2|exact A2|auto].
        -- assumption.
    + (* run_step *)
      rename H0 into L, H1 into A, H2 into E. rewrite run_step_S in E. cbv zeta in E.
      destruct (run_effects tk f s i _) as [s1 r0] eqn:Ee.
      assert (L1 : LInv s1) by (eapply Ief; [exact L|exact Ee]).
      assert (A1 : at_i s1 i pc0 LOpen).
      { destruct (framej_all i f) as (_ & _ & _ & _ & _ & _ & _ & _ & Fef & _).
        eapply at_noj; [exact A|]. eapply Fef; [eapply at_running; exact A|apply noj_refl|exact Ee]. }
      assert (Fin : forall kk, (kk = Clean \/ kk = Abort) -> LInv (set_gen (emit (emit s1 kk i) Exit i) i GDone)).
      { intros kk Hk. destruct (t_ending s1 i pc0 kk L1 A1 Hk) as [L2 A2].
        eapply t_finish; [exact L2|exact A2|auto]. }
      assert (FinK : LInv (set_gen (emit s1 Exit i) i GDone)) by (eapply t_finish; [exact L1|exact A1|auto]).
      destruct r0; [| |destruct kbd|]; cbv beta iota zeta in E.
      * destruct (f_out _); fin; auto using linv_done. eapply t_suspend; eassumption.
      * destruct (f_out _); fin; auto using linv_done. eapply t_suspend; eassumption.
      * fin. exact FinK.
      * fin. apply Fin. auto.
      * fin. exact L1.
    + (* gen_send *)
      rename H0 into L, H1 into E. rewrite gen_send_S in E.
      destruct (get_gen s i) eqn:G; try (fin; assumption).
      destruct (get (defs s) i) as [[k script|t0 always kids]|]; [| |fin; assumption].
      * destruct (t_resume s i pc Recur L G (or_introl eq_refl)) as [L1 A1].
        eapply Irs; [exact L1|exact A1|exact E].
      * cbv zeta in E.
        destruct (t_resume s i pc Recur L G (or_introl eq_refl)) as [L1 A1].
        destruct (recur_pass tk f _ i) as [s2 r0] eqn:Ee.
        assert (L2 : LInv s2) by (eapply Irp; [exact L1|exact Ee]).
        assert (A2 : at_i s2 i pc LOpen).
        { destruct (framej_all i f) as (_ & _ & _ & _ & _ & _ & _ & _ & _ & Frp & _).
          eapply at_noj; [exact A1|]. eapply Frp; [eapply at_running; exact A1|apply noj_refl|exact Ee]. }
        destruct r0; cbv beta iota zeta in E.
        -- match type of E with (if ?c then _ else _) = _ => destruct c end; fin;
             eapply nest_tail; eassumption.
        -- match type of E with (if ?c then _ else _) = _ => destruct c end; fin;
             eapply nest_tail; eassumption.
        -- fin. eapply nest_end; [exact Ico|exact L2|exact A2|auto].
        -- fin. assumption.
    + (* gen_close *)
      rename H0 into L. rewrite gen_close_S.
      destruct (get_gen s i) eqn:G; try assumption.
      destruct (get (defs s) i) as [[k script|t0 always kids]|]; [| |assumption].
      * destruct (t_resume s i pc Cease L G (or_intror eq_refl)) as [L1 A1].
        eapply t_finish; [exact L1|exact A1|auto].
      * cbv zeta.
        destruct (t_resume s i pc Cease L G (or_intror eq_refl)) as [L1 A1].
        assert (L2 : LInv (close_own tk f (emit (set_gen s i (GRun pc)) Cease i) i)) by (apply Ico; exact L1).
        assert (A2 : at_i (close_own tk f (emit (set_gen s i (GRun pc)) Cease i) i) i pc LEnding).
        { destruct (framej_all i f) as (_ & _ & _ & _ & Fco & _).
          eapply at_noj; [exact A1|]. apply Fco; [eapply at_running; exact A1|apply noj_refl]. }
        eapply t_finish; [exact L2|exact A2|auto].
    + rewrite close_own_S. cbv zeta. goL Ist Isd Icl Ico Ili Ieo Iel Ief Irp Irl.
    + rewrite close_list_S. brk; goL Ist Isd Icl Ico Ili Ieo Iel Ief Irp Irl.
    + rewrite enter_own_S in *. brk; fin; goL Ist Isd Icl Ico Ili Ieo Iel Ief Irp Irl.
    + rewrite enter_local_S in *. brk; fin; goL Ist Isd Icl Ico Ili Ieo Iel Ief Irp Irl.
    + rewrite run_effects_S in *. brk; fin; goL Ist Isd Icl Ico Ili Ieo Iel Ief Irp Irl.
    + rewrite recur_pass_S in *. cbv zeta in *. goL Ist Isd Icl Ico Ili Ieo Iel Ief Irp Irl.
    + rewrite recur_loop_S in *. brk; fin; goL Ist Isd Icl Ico Ili Ieo Iel Ief Irp Irl.
Qed.

End Life.
