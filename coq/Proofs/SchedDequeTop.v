(* Completeness half of C01 / "before return" part of C02: when do_run ends
   without running out of budget, no doer is left suspended or executing, and
   the newest event is DoReturn or DoRaise — for programs of the static class
   [W] ([Wb] is its executable form).  [do_run_complete_refuted]: outside the
   class the statement is false of the model and of hio (finding D43). *)
From Hio Require Import Base.Prelude Base.AMap Base.Time Model.Sched Proofs.SchedEqs Proofs.SchedFrame Proofs.SchedLife
  Proofs.SchedTop Proofs.SchedDeque Proofs.SchedDequeHold Proofs.SchedDequeFam Proofs.SchedDequeAll.

Section Top.
Context {T : Type} `{Time T}.
Implicit Types s : st T.

(* ---------- executable form of the static class ---------- *)

Definition eff_okb (d : amap (fdef T)) (e : effect) : bool :=
  match e with EExtend t _ => N.eqb t 0 || isnest d t | ERemove _ _ => true end.
Definition Wb (d : amap (fdef T)) : bool :=
  match get d 0%N with None => true | Some _ => false end &&
  forallb (fun '(i, fd) => match fd with
                           | FLeaf k sc => forallb (fun stp => forallb (eff_okb d) (f_es stp)) sc &&
                                           forallb (fun e => negb (is_remove e)) (f_es (nth 0 sc default_step))
                           | FNest _ _ _ => true
                           end) d.

Lemma get_in {V} (m : amap V) k v : get m k = Some v -> In (k, v) m.
Proof.
  induction m as [|[k' v'] m IH]; cbn; [discriminate|].
  destruct (N.eqb k k') eqn:E.
  - intro Hv. inversion Hv. apply N.eqb_eq in E. subst. now left.
  - intro Hv. right. now apply IH.
Qed.

Lemma Wb_W d : Wb d = true -> W d.
Proof.
  unfold Wb. intro Hb. apply andb_true_iff in Hb. destruct Hb as [H0 Hall].
  rewrite forallb_forall in Hall.
  split.
  - destruct (get d 0%N); [discriminate|reflexivity].
  - intros i k sc pc D. specialize (Hall _ (get_in _ _ _ D)). cbn in Hall.
    apply andb_true_iff in Hall. destruct Hall as [He _]. rewrite forallb_forall in He.
    destruct (nth_in_or_default pc sc default_step) as [Hin|Hd]; [|rewrite Hd; constructor].
    specialize (He _ Hin). rewrite forallb_forall in He. apply Forall_forall. intros e Hein.
    specialize (He e Hein). destruct e as [t news|t who]; cbn in *; [|exact Logic.I].
    apply orb_true_iff in He. destruct He as [He|He]; [left; now apply N.eqb_eq|now right].
  - intros i k sc D. specialize (Hall _ (get_in _ _ _ D)). cbn in Hall.
    apply andb_true_iff in Hall. destruct Hall as [_ Hr]. rewrite forallb_forall in Hr.
    apply Forall_forall. intros e Hein. specialize (Hr e Hein). now apply negb_true_iff in Hr.
Qed.

(* ---------- the initial state ---------- *)

Lemma init_deeds (p : prog T) sid : deeds (get_sched (init_st p) sid) = [].
Proof.
  unfold get_sched, init_st; cbn [scheds]. unfold init_scheds. cbn [get].
  destruct (N.eqb sid 0); [reflexivity|].
  induction (p_defs p) as [|[i fd] l IH]; cbn [flat_map get]; [reflexivity|].
  destruct fd as [k sc|t0 al kids]; cbn [app]; [exact IH|].
  cbn [get]. destruct (N.eqb sid i); [reflexivity|exact IH].
Qed.

Lemma hold_init (p : prog T) : W (p_defs p) -> Hold (init_st p) [].
Proof.
  intro Hw. split.
  - exact Hw.
  - intros i L. cbn in L. discriminate.
  - intros i pc G. cbn in G. discriminate.
  - intros sid _ Q. exfalso. apply Q. apply init_deeds.
Qed.

Lemma nr_init (p : prog T) : NR (init_st p) [].
Proof. intros j [pc R]. cbn in R. discriminate. Qed.

(* ---------- the end of a run ---------- *)

Definition ended s : Prop :=
  (forall j, get_gen s j = GNew \/ get_gen s j = GDone) /\
  exists k t rest, trace s = {| e_kind := k; e_id := 0%N; e_tyme := t |} :: rest /\ (k = DoReturn \/ k = DoRaise).

Lemma end_quiet s : Hold s [] -> NR s [] -> dq s 0%N = [] -> forall j, get_gen s j = GNew \/ get_gen s j = GDone.
Proof.
  intros Hh Hn Q j.
  assert (NoA : forall x, anc s [] x -> False).
  { intros x A. unfold anc in A. induction A as [x Hx|x Hx|x y pc R Hx|x y A IH Hx].
    - exact Hx.
    - unfold qids in Hx. rewrite Q in Hx. exact Hx.
    - apply (Hn y). now exists pc.
    - exact IH. }
  destruct (get_gen s j) eqn:G; [now left| | |now right].
  - exfalso. apply (NoA j). eapply (h_anc _ _ _ _ Hh). exact G.
  - exfalso. apply (Hn j). now exists pc.
Qed.

Lemma close_end tk fuel s k :
  (k = DoReturn \/ k = DoRaise) -> I s [] -> J s [] ->
  oof (emit (close_own tk fuel s 0%N) k 0%N) = false -> ended (emit (close_own tk fuel s 0%N) k 0%N).
Proof.
  intros Hk HI HJ O. change (oof (close_own tk fuel s 0%N) = false) in O.
  destruct (hold_all tk fuel) as (_ & _ & _ & _ & Ico & _).
  destruct (norun_all tk fuel) as (_ & _ & _ & _ & Jco & _).
  destruct (Ico _ _ 0%N HI) as [O'|Hh]; [congruence|].
  destruct (Jco _ _ 0%N HJ) as [O'|Hn]; [congruence|].
  split.
  - apply (end_quiet (emit (close_own tk fuel s 0%N) k 0%N)); [exact Hh|exact Hn|].
    exact (close_own_empty tk fuel s 0%N O).
  - eexists k, _, _. split; [reflexivity|exact Hk].
Qed.

Lemma cycle_complete tk cycles : forall fuel s limit stop,
  I s [] -> J s [] ->
  oof (cycle_loop tk cycles fuel s limit stop) = false -> ended (cycle_loop tk cycles fuel s limit stop).
Proof.
  induction cycles as [|c IH]; intros fuel s limit stop HI HJ; cbn [cycle_loop].
  - cbn. discriminate.
  - destruct (recur_pass tk fuel s 0%N) as [s1 r] eqn:E.
    destruct (hold_all tk fuel) as (_ & _ & _ & _ & _ & _ & _ & _ & _ & Irp & _).
    destruct (norun_all tk fuel) as (_ & _ & _ & _ & _ & _ & _ & _ & _ & Jrp & _).
    assert (I1 : I s1 []) by (eapply Irp; [exact HI|now left|exact E]).
    assert (J1 : J s1 []) by (eapply Jrp; [exact HJ|exact E]).
    assert (Tick : oof (match deeds (get_sched (set_tyme s1 (tadd (tyme s1) tk)) 0%N) with
           | [] => emit (close_own tk fuel (set_done (set_tyme s1 (tadd (tyme s1) tk)) 0%N (Some true)) 0%N) DoReturn 0%N
           | _ :: _ =>
               if match limit with Some l => negb (tfalsy l) | None => false end && tleb stop (tyme (set_tyme s1 (tadd (tyme s1) tk)))
               then emit (close_own tk fuel (set_tyme s1 (tadd (tyme s1) tk)) 0%N) DoReturn 0%N
               else cycle_loop tk c fuel (set_tyme s1 (tadd (tyme s1) tk)) limit stop
           end) = false ->
           ended (match deeds (get_sched (set_tyme s1 (tadd (tyme s1) tk)) 0%N) with
           | [] => emit (close_own tk fuel (set_done (set_tyme s1 (tadd (tyme s1) tk)) 0%N (Some true)) 0%N) DoReturn 0%N
           | _ :: _ =>
               if match limit with Some l => negb (tfalsy l) | None => false end && tleb stop (tyme (set_tyme s1 (tadd (tyme s1) tk)))
               then emit (close_own tk fuel (set_tyme s1 (tadd (tyme s1) tk)) 0%N) DoReturn 0%N
               else cycle_loop tk c fuel (set_tyme s1 (tadd (tyme s1) tk)) limit stop
           end)).
    { destruct (deeds (get_sched (set_tyme s1 (tadd (tyme s1) tk)) 0%N)).
      - apply close_end; [now left|exact I1|exact J1].
      - destruct (_ && _).
        + apply close_end; [now left|exact I1|exact J1].
        + apply IH; [exact I1|exact J1]. }
    destruct r as [t| |[|]|].
    + exact Tick.
    + exact Tick.
    + apply close_end; [now left|exact I1|exact J1].
    + apply close_end; [now right|exact I1|exact J1].
    + intro O. destruct (fuel_all tk fuel) as (_ & _ & _ & _ & _ & _ & K & _). rewrite (K _ _ _ E) in O. discriminate.
Qed.

Theorem do_run_ended cycles fuel (p : prog T) :
  W (p_defs p) -> oof (do_run cycles fuel p) = false -> ended (do_run cycles fuel p).
Proof.
  intros Hw. unfold do_run.
  destruct (enter_own (p_tock p) fuel (init_st p) 0%N (p_doers p)) as [s1 r] eqn:E.
  destruct (hold_all (p_tock p) fuel) as (_ & _ & _ & _ & _ & _ & Ieo & _).
  destruct (norun_all (p_tock p) fuel) as (_ & _ & _ & _ & _ & _ & Jeo & _).
  assert (I1 : I s1 []) by (eapply Ieo; [right; apply hold_init; exact Hw|now left|exact E]).
  assert (J1 : J s1 []) by (eapply Jeo; [right; apply nr_init|exact E]).
  destruct r as [t| |kbd|].
  - apply cycle_complete; [exact I1|exact J1].
  - apply cycle_complete; [exact I1|exact J1].
  - apply close_end; [now right|exact I1|exact J1].
  - intro O. destruct (fuel_all (p_tock p) fuel) as (_ & _ & _ & K & _). rewrite (K _ _ _ _ E) in O. discriminate.
Qed.

(* C01 completeness: no doer is left suspended or executing *)
Theorem do_run_complete cycles fuel (p : prog T) :
  W (p_defs p) -> oof (do_run cycles fuel p) = false ->
  forall j, get_gen (do_run cycles fuel p) j = GNew \/ get_gen (do_run cycles fuel p) j = GDone.
Proof. intros Hw O. exact (proj1 (do_run_ended cycles fuel p Hw O)). Qed.

(* ... hence every doer's events are complete lifecycles: every Enter has its
   Exit, and all of them precede the final DoReturn/DoRaise *)
Theorem do_run_all_exited cycles fuel (p : prog T) :
  W (p_defs p) -> oof (do_run cycles fuel p) = false ->
  (forall j, lives (events j (do_run cycles fuel p))) /\
  exists k t rest, trace (do_run cycles fuel p) = {| e_kind := k; e_id := 0%N; e_tyme := t |} :: rest /\
                   (k = DoReturn \/ k = DoRaise).
Proof.
  intros Hw O. destruct (do_run_ended cycles fuel p Hw O) as [Q Last]. split; [|exact Last].
  intro j. pose proof (do_run_lifecycles cycles fuel p j) as L.
  destruct (Q j) as [G|G]; rewrite G in L; exact L.
Qed.

End Top.

(* ---------- outside the class the statement is false (finding D43) ---------- *)

Definition d43_prog : prog Z :=
  let Y := {| f_es := []; f_out := OYield None |} in
  {| p_tock := 1%Z; p_limit := Some 3%Z; p_tyme := 0%Z; p_doers := [1; 2]%N;
     p_defs := [(1, FLeaf KFunc [Y; {| f_es := [EExtend 2 [4]]; f_out := OYield None |}; Y; Y; Y; Y]);
                (2, FNest 0%Z true [3]);
                (3, FLeaf KDoer [Y; Y; Y; Y; Y; Y]);
                (4, FLeaf KFunc [{| f_es := [ERemove 0 [2]]; f_out := OYield None |}; Y; Y; Y; Y])]%N |}.

Theorem do_run_complete_refuted :
  exists (p : prog Z) cycles fuel j pc,
    oof (do_run cycles fuel p) = false /\ get_gen (do_run cycles fuel p) j = GSusp pc /\
    events j (do_run cycles fuel p) = [Enter].
Proof. exists d43_prog, 10%nat, 100%nat, 4%N, 1%nat. vm_compute. repeat split. Qed.

(* the class is inhabited by non-trivial programs: nested DoDoers, extend and
   remove at run time (also of a suspended DoDoer), a raise in mid pass *)
Definition w_prog : prog Z :=
  let Y := {| f_es := []; f_out := OYield None |} in
  let X := {| f_es := []; f_out := ORaise |} in
  {| p_tock := 1%Z; p_limit := None; p_tyme := 0%Z; p_doers := [1; 2; 5]%N;
     p_defs := [(1, FLeaf KFunc [Y; {| f_es := [EExtend 2 [6]; ERemove 0 [5]]; f_out := OYield None |}; Y; Y; Y]);
                (2, FNest 0%Z true [3; 4]);
                (3, FLeaf KDoer [Y; Y; Y; Y; Y]); (4, FLeaf KDoerGen [Y; Y; Y; X]);
                (5, FLeaf KFunc [Y; Y; Y; Y]);
                (6, FLeaf KFunc [{| f_es := [EExtend 0 [7]]; f_out := OYield None |}; Y; Y; Y; Y]);
                (7, FLeaf KDoer [Y; Y; Y; Y; Y; Y])]%N |}.
Example w_prog_ok :
  Wb (p_defs w_prog) = true /\ oof (do_run 10 100 w_prog) = false /\
  events 6%N (do_run 10 100 w_prog) = [Enter; Recur; Recur; Cease; Exit] /\
  events 7%N (do_run 10 100 w_prog) = [Enter; Recur; Recur; Cease; Exit].
Proof. vm_compute. repeat split. Qed.
