(* C04, arbitrary depth — the specification of a regrouping TREE and of the flat
   program agree as long as no grouped leaf (at any depth) yields an asap tock and
   later a positive one.  The per-leaf relation [lrel] and its step lemma are those
   of Proofs/SchedFlatSim.v; here the simulation relation follows the tree. *)
From Hio Require Import Base.Prelude Base.AMap Base.Time Model.Sched
  Proofs.SchedFlatDefs Proofs.SchedFlatSim Proofs.SchedTreeDefs Proofs.SchedTreeRun.

Section TSim.
Context {T : Type} `{Time T}.
Variables tk zb : T.

Hypothesis L_refl : forall a : T, tleb a a = true.
Hypothesis L_fwd : forall a b : T, tleb a b = true -> tleb a (tadd b tk) = true.
Hypothesis L_zero : forall a : T, tadd a zb = a.

(* own tock of the scheduler holding a list of items: the root, or a group *)
Definition base (inner : bool) : T := if inner then zb else tk.

(* the flat list of live leaves against a forest of items; [inner]: the forest is the
   deque of a group (its leaves are related by lrel), else of the root (leaves identical);
   strict: every group, at every depth, is non-empty *)
Inductive simt (strict : bool) (t : T) : bool -> list (lv T) -> list (titem T) -> Prop :=
| st_nil inner : simt strict t inner [] []
| st_leaf_root v fl its :
    simt strict t false fl its -> simt strict t false (v :: fl) (ILeaf v :: its)
| st_leaf_in vf vn fl its :
    lrel t vf vn -> simt strict t true fl its -> simt strict t true (vf :: fl) (ILeaf vn :: its)
| st_group inner n npc re kf kids fl its :
    simt strict t true kf kids -> tleb re t = true -> (strict = true -> kids <> []) ->
    simt strict t inner fl its -> simt strict t inner (kf ++ fl) (IGroup n npc re kids :: its).

Lemma simt_nil_r strict t inner fl : simt strict t inner fl [] -> fl = [].
Proof. intro S. inversion S. reflexivity. Qed.

Lemma simt_pass strict t inner fl its : simt strict t inner fl its -> forall o,
  exists fl' its' o', lvs_pass tk t fl o = (fl', o') /\ tpass zb (base inner) t its o = (its', o') /\
    simt true (tadd t tk) inner fl' its'.
Proof.
  induction 1 as [inner|v fl its S IH|vf vn fl its R S IH|inner n npc re kf kids fl its Sk IHk Due NE S IH]; intro o.
  - exists [], [], o. repeat split; constructor.
  - rewrite tpass_cons, tpass1_leaf. cbn [lvs_pass base] in IH |- *.
    destruct (tleb (v_re v) t).
    + destruct (lv_step tk t v o) as [ov o1]. destruct (IH o1) as (fl' & its' & o' & -> & -> & S').
      destruct ov; cbn [option_map]; eexists _, _, _; (split; [reflexivity|]); (split; [reflexivity|]);
        [now constructor|exact S'].
    + destruct (IH o) as (fl' & its' & o' & -> & -> & S').
      eexists _, _, _. split; [reflexivity|]. split; [reflexivity|]. now constructor.
  - rewrite tpass_cons, tpass1_leaf. cbn [lvs_pass base] in IH |- *.
    destruct (lv_step_rel tk zb L_refl L_fwd L_zero t vf vn o R) as [Eq St]. rewrite Eq.
    destruct (tleb (v_re vn) t) eqn:Due.
    + specialize (St eq_refl).
      destruct (lv_step tk t vf o) as [[vf'|] o1], (lv_step zb t vn o) as [[vn'|] o2]; try contradiction.
      * destruct St as [<- R']. destruct (IH o1) as (fl' & its' & o' & -> & -> & S').
        eexists _, _, _. split; [reflexivity|]. split; [reflexivity|]. now constructor.
      * subst o2. destruct (IH o1) as (fl' & its' & o' & -> & -> & S').
        eexists _, _, _. split; [reflexivity|]. split; [reflexivity|]. exact S'.
    + destruct (IH o) as (fl' & its' & o' & -> & -> & S').
      eexists _, _, _. split; [reflexivity|]. split; [reflexivity|].
      constructor; [now apply (lrel_shift tk L_fwd)|exact S'].
  - rewrite lvs_pass_app, tpass_cons, tpass1_group, Due.
    destruct (IHk o) as (kf' & kids' & o1 & -> & Hk & Sk'). cbn [base] in Hk. rewrite Hk.
    destruct (IH o1) as (fl' & its' & o' & -> & -> & S').
    destruct kids' as [|k kids''].
    + apply simt_nil_r in Sk'. subst kf'.
      eexists _, _, _. split; [reflexivity|]. split; [reflexivity|]. exact S'.
    + eexists _, _, _. split; [reflexivity|]. split; [reflexivity|].
      apply st_group; [exact Sk'| |discriminate|exact S'].
      destruct (tfalsy zb).
      * destruct inner; cbn [base]; [rewrite L_zero; apply L_fwd, L_refl|apply L_refl].
      * rewrite L_zero. now apply L_fwd.
Qed.

Lemma simt_nil_l t inner fl its : simt true t inner fl its -> fl = [] -> its = [].
Proof.
  induction 1 as [inner|v fl its S IH|vf vn fl its R S IH|inner n npc re kf kids fl its Sk IHk Due NE S IH];
    intro E; try discriminate; [reflexivity|].
  apply app_eq_nil in E as [E1 E2]. exfalso. apply (NE eq_refl). now apply IHk.
Qed.

Lemma simt_empty t inner fl its : simt true t inner fl its -> (its = [] <-> fl = []).
Proof.
  intro S. split; intro E; [subst; eapply simt_nil_r; exact S|eapply simt_nil_l; eassumption].
Qed.

Lemma tflatten_leaf (v : lv T) r : tflatten (ILeaf v :: r) = v :: tflatten r.
Proof. reflexivity. Qed.
Lemma tflatten_group n npc (re : T) kids r : tflatten (IGroup n npc re kids :: r) = tflatten kids ++ tflatten r.
Proof. reflexivity. Qed.

Lemma simt_ids strict t inner fl its : simt strict t inner fl its -> map lv_id fl = map lv_id (tflatten its).
Proof.
  induction 1 as [inner|v fl its S IH|vf vn fl its R S IH|inner n npc re kf kids fl its Sk IHk Due NE S IH].
  - reflexivity.
  - rewrite tflatten_leaf. cbn [map]. now rewrite IH.
  - rewrite tflatten_leaf. cbn [map]. destruct R as (L & _). unfold lv_id at 1 3. now rewrite L, IH.
  - rewrite tflatten_group, !map_app, IHk, IH. reflexivity.
Qed.

Lemma tflatten_flat (fl : list (lv T)) : tflatten (map ILeaf fl) = fl.
Proof. induction fl as [|v fl IH]; [reflexivity|]. cbn [map]. now rewrite tflatten_leaf, IH. Qed.

Lemma simt_close strict t t' inner fl its o : simt strict t inner fl its ->
  tclose t' its o = tclose t' (map ILeaf fl) o.
Proof.
  intro S. unfold tclose. rewrite tflatten_flat. apply lvs_close_ids.
  rewrite !map_rev. f_equal. symmetry. eapply simt_ids; exact S.
Qed.

Lemma flat_tpass t : forall (fl : list (lv T)) o,
  tpass zb tk t (map ILeaf fl) o = let '(fl', o') := lvs_pass tk t fl o in (map ILeaf fl', o').
Proof.
  induction fl as [|v fl IH]; intro o; [reflexivity|].
  cbn [map]. rewrite tpass_cons, tpass1_leaf. cbn [lvs_pass].
  destruct (tleb (v_re v) t).
  - destruct (lv_step tk t v o) as [ov o1]. rewrite IH. destruct (lvs_pass tk t fl o1) as [fl' o2].
    destruct ov; reflexivity.
  - rewrite IH. destruct (lvs_pass tk t fl o) as [fl' o2]. reflexivity.
Qed.

Lemma tspec_cycles_sim limit stop : forall c1 c2 b t fl its o r1 r2,
  simt b t false fl its ->
  tspec_cycles tk zb c1 t its o limit stop = Some r1 ->
  tspec_cycles tk zb c2 t (map ILeaf fl) o limit stop = Some r2 ->
  r1 = r2.
Proof.
  induction c1 as [|c1 IH]; intros c2 b t fl its o r1 r2 S E1 E2; [discriminate|].
  destruct c2 as [|c2]; [discriminate|].
  cbn [tspec_cycles] in E1, E2. rewrite flat_tpass in E2.
  destruct (simt_pass b t false fl its S o) as (fl' & its' & o' & Hf & Hn & S'). cbn [base] in Hn.
  rewrite Hf in E2. rewrite Hn in E1.
  pose proof (simt_empty _ _ _ _ S') as Emp.
  destruct its' as [|it its'].
  - rewrite (proj1 Emp eq_refl) in E2. cbn [map] in E2. congruence.
  - destruct fl' as [|v fl']; [discriminate (proj2 Emp eq_refl)|].
    cbn [map] in E2.
    destruct (limited limit && tleb stop (tadd t tk)).
    + rewrite (simt_close _ _ _ _ _ _ _ S') in E1. cbn [map] in E1. congruence.
    + eapply IH; [exact S'|exact E1|exact E2].
Qed.

(* ---------- enter ---------- *)

Lemma tenter_flat t : forall (ls : list (leaf T)) o,
  tenter t (map TLeaf ls) o = let '(vs, o') := lfs_enter t ls o in (map ILeaf vs, o').
Proof.
  induction ls as [|l ls IH]; intro o; [reflexivity|].
  cbn [map]. rewrite tenter_cons. cbn [tenter1 lfs_enter].
  destruct (lf_enter t l o) as [ov o1]. rewrite IH. destruct (lfs_enter t ls o1) as [vs o2].
  destruct ov; reflexivity.
Qed.

Lemma gflatten_leaf (l : leaf T) r : gflatten (TLeaf l :: r) = l :: gflatten r.
Proof. reflexivity. Qed.
Lemma gflatten_group n (kids r : list (gtree T)) : gflatten (TGroup n kids :: r) = gflatten kids ++ gflatten r.
Proof. reflexivity. Qed.
Lemma tgrouped_leaf (l : leaf T) r : tgrouped_leaves (TLeaf l :: r) = tgrouped_leaves r.
Proof. reflexivity. Qed.
Lemma tgrouped_group n (kids r : list (gtree T)) :
  tgrouped_leaves (TGroup n kids :: r) = gflatten kids ++ tgrouped_leaves r.
Proof. reflexivity. Qed.

(* the leaves constrained by the hypothesis: all of them inside a group, the grouped ones at the root *)
Definition constrained (inner : bool) (gs : list (gtree T)) : list (leaf T) :=
  if inner then gflatten gs else tgrouped_leaves gs.

Lemma enter_simt t : forall (gs : list (gtree T)) inner o,
  forallb no_asap_then_positive (constrained inner gs) = true ->
  exists fl its o', lfs_enter t (gflatten gs) o = (fl, o') /\ tenter t gs o = (its, o') /\
    simt false t inner fl its.
Proof.
  induction gs as [|l gs IH|n kids gs IHk IH] using gtrees_ind; intros inner o Hy.
  - exists [], [], o. repeat split; constructor.
  - rewrite gflatten_leaf, tenter_cons. cbn [tenter1 lfs_enter].
    destruct (lf_enter t l o) as [ov o1] eqn:El.
    assert (Hy' : forallb no_asap_then_positive (constrained inner gs) = true).
    { destruct inner; cbn [constrained] in *; [rewrite gflatten_leaf in Hy; cbn [forallb] in Hy;
        now apply andb_true_iff in Hy as [_ Hy]|now rewrite tgrouped_leaf in Hy]. }
    destruct (IH inner o1 Hy') as (fl & its & o' & -> & -> & S).
    destruct ov as [v|]; cbn [option_map]; eexists _, _, _; (split; [reflexivity|]); (split; [reflexivity|]);
      [|exact S].
    destruct inner; [|now constructor].
    constructor; [|exact S].
    cbn [constrained] in Hy. rewrite gflatten_leaf in Hy. cbn [forallb] in Hy. apply andb_true_iff in Hy as [Hl _].
    unfold lf_enter in El. destruct (f_out _); inversion El; subst.
    unfold lrel, script_of; cbn [v_leaf v_pc v_re]. split; [reflexivity|]. split; [reflexivity|].
    left. split; [reflexivity|]. unfold no_asap_then_positive in Hl. destruct (lf_script l); exact Hl.
  - rewrite gflatten_group, lfs_enter_app, tenter_cons, tenter1_group.
    assert (Hy2 : forallb no_asap_then_positive (constrained true kids) = true /\
                  forallb no_asap_then_positive (constrained inner gs) = true).
    { destruct inner; cbn [constrained] in *; [rewrite gflatten_group in Hy|rewrite tgrouped_group in Hy];
        rewrite forallb_app in Hy; now apply andb_true_iff in Hy. }
    destruct Hy2 as [Hk Hr].
    destruct (IHk true o Hk) as (kf & kids' & o1 & -> & -> & Sk).
    destruct (IH inner o1 Hr) as (fl & its & o' & -> & -> & S).
    eexists _, _, _. split; [reflexivity|]. split; [reflexivity|].
    apply st_group; [exact Sk|apply L_refl|intro X; discriminate X|exact S].
Qed.

Theorem tspec_run_sim c1 c2 limit t0 (gs : list (gtree T)) r1 r2 :
  forallb no_asap_then_positive (tgrouped_leaves gs) = true ->
  tspec_run tk zb c1 limit t0 gs = Some r1 ->
  tspec_run tk zb c2 limit t0 (map TLeaf (gflatten gs)) = Some r2 ->
  r1 = r2.
Proof.
  intros Hy E1 E2. unfold tspec_run in *. rewrite tenter_flat in E2.
  destruct (enter_simt t0 gs false out0 Hy) as (fl & its & o' & Hf & Hn & S).
  rewrite Hf in E2. rewrite Hn in E1.
  eapply tspec_cycles_sim; eassumption.
Qed.

End TSim.
