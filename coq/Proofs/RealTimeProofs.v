(* Proofs for C07 over exact time (Z): the real branch of Doist.do never starts
   a cycle early and its deadlines are lossless.  Model: Model/RealTime.v. *)
From Coq Require Import ZifyBool.
From Hio Require Import Base.Prelude Base.Time Model.RealTime.
Local Open Scope Z_scope.

Notation zworld := (@world Z).
Notation ztimer := (@timer Z).
Notation zcyc := (@cyc Z).

Ltac rsplit := repeat match goal with |- _ /\ _ => split end.
Ltac tz := cbn [tadd tsub tleb tltb tzero tabs teqb tfalsy ZTime] in *.

(* ------------------------------------------------------------------ the environment *)

Lemma advance_facts : forall (w : zworld) s,
  step_ok s ->
  mono w <= mono (advance w s) /\
  now (advance w s) - mono (advance w s) <= now w - mono w /\
  reads (advance w s) = reads w /\ overs (advance w s) = overs w /\ log (advance w s) = log w.
Proof.
  intros w [p j] [Hp Hj]. unfold advance. cbn [now mono reads overs log fst snd] in *. tz. rsplit; try reflexivity; lia.
Qed.

Lemma advance_ok : forall (w : zworld) s, world_ok w -> world_ok (advance w s).
Proof. intros w s [H1 H2]. split; assumption. Qed.

Lemma read_log : forall (w w' : zworld) r, read w = (r, w') -> r = now w' /\ log w' = r :: log w.
Proof.
  intros w w' r E. unfold read in E. destruct (reads w); inversion E; subst; cbn; split; reflexivity.
Qed.

Lemma read_facts : forall (w w' : zworld) r,
  world_ok w -> read w = (r, w') ->
  world_ok w' /\ mono w <= mono w' /\ now w' - mono w' <= now w - mono w.
Proof.
  intros w w' r [Hr Ho] E. unfold read in E. destruct (reads w) as [|[p j] rs] eqn:R.
  - inversion E; subst. cbn [now mono]. split; [|lia].
    unfold world_ok. cbn [reads overs]. rewrite R. split; [constructor|assumption].
  - inversion Hr as [|? ? [Hp Hj] Hrs]; subst. inversion E; subst. unfold advance.
    cbn [now mono reads overs log fst snd] in *. tz. split; [|lia].
    unfold world_ok. cbn [reads overs]. split; assumption.
Qed.

Lemma max0_nonneg : forall x : Z, 0 <= max0 x.
Proof. intros x. unfold max0. tz. destruct (0 <? x) eqn:E; lia. Qed.

Lemma sleep_facts : forall (w : zworld) d,
  world_ok w -> 0 <= d ->
  world_ok (sleep w d) /\ mono w <= mono (sleep w d) /\
  now (sleep w d) - mono (sleep w d) = now w - mono w /\ log (sleep w d) = log w.
Proof.
  intros w d [Hr Ho] Hd. unfold sleep. destruct (overs w) as [|[o|e] os] eqn:O.
  - cbn [now mono log]. tz. rsplit; try reflexivity; try lia. split; cbn [reads overs]; [assumption|constructor].
  - inversion Ho as [|? ? Hoo Hos]; subst. cbn in Hoo. cbn [now mono log]. tz. rsplit; try reflexivity; try lia.
    split; cbn [reads overs]; assumption.
  - inversion Ho as [|? ? Hoo Hos]; subst. cbn in Hoo. cbn [now mono log]. tz.
    destruct (e <? d) eqn:E; rsplit; try reflexivity; try lia; split; cbn [reads overs]; assumption.
Qed.

Lemma sleep_log : forall (w : zworld) d, log (sleep w d) = log w.
Proof. intros w d. unfold sleep. destruct (overs w) as [|[o|e] os]; reflexivity. Qed.

(* ------------------------------------------------------------------ MonoTimer.latest *)

Lemma latest_spec : forall (tm tm' : ztimer) (w w' : zworld) l,
  latest tm w = (tm', l, w') ->
  exists r, read w = (r, w') /\ l = r /\ t_last tm' = r /\
    t_stop tm' = t_stop tm + Z.min 0 (r - t_last tm) /\
    t_start tm' = t_start tm + Z.min 0 (r - t_last tm).
Proof.
  intros tm tm' w w' l E. unfold latest in E. destruct (read w) as [r w1] eqn:R. tz.
  exists r. destruct (r - t_last tm <? 0) eqn:D; inversion E; subst; cbn; rsplit; try reflexivity; lia.
Qed.

(* ------------------------------------------------------------------ never early *)

(* [M] (true time) is a lower bound of the true time at which the timer can
   expire: with [ol] an upper bound of the clock's offset to true time now and a
   witness that the last reading was taken in the past. *)
Definition ne_inv (tm : ztimer) (w : zworld) (M : Z) : Prop :=
  exists ol, now w - mono w <= ol /\ t_last tm - ol <= mono w /\ M <= t_stop tm - ol.

Lemma ne_advance : forall tm w M s, step_ok s -> ne_inv tm w M -> ne_inv tm (advance w s) M.
Proof.
  intros tm w M s Hs [ol [A [B C]]]. destruct (advance_facts w s Hs) as [F1 [F2 _]].
  exists ol. rsplit; lia.
Qed.

Lemma ne_sleep : forall tm w M d, world_ok w -> 0 <= d -> ne_inv tm w M -> ne_inv tm (sleep w d) M.
Proof.
  intros tm w M d Hw Hd [ol [A [B C]]]. destruct (sleep_facts w d Hw Hd) as [_ [F1 [F2 _]]].
  exists ol. rsplit; lia.
Qed.

(* after a reading the invariant holds with the current offset *)
Lemma ne_latest : forall tm tm' w w' l M,
  world_ok w -> ne_inv tm w M -> latest tm w = (tm', l, w') ->
  world_ok w' /\ mono w <= mono w' /\ l = now w' /\ t_last tm' = now w' /\
  M <= t_stop tm' - now w' + mono w' /\
  t_stop tm' - t_start tm' = t_stop tm - t_start tm.
Proof.
  intros tm tm' w w' l M Hw [ol [A [B C]]] E.
  destruct (latest_spec _ _ _ _ _ E) as [r [R [L1 [L2 [L3 L4]]]]].
  destruct (read_log _ _ _ R) as [Rn _]. destruct (read_facts _ _ _ Hw R) as [Hw' [Mm Off]].
  subst l. rsplit; try assumption; try lia.
Qed.

Lemma ne_of_synced : forall (tm : ztimer) (w : zworld) M,
  t_last tm = now w -> M <= t_stop tm - now w + mono w -> ne_inv tm w M.
Proof. intros tm w M A B. exists (now w - mono w). rsplit; lia. Qed.

Lemma ne_wait : forall fuel tm w acc M tm' w' sl,
  world_ok w -> ne_inv tm w M -> wait fuel tm w acc = Some (tm', w', sl) ->
  world_ok w' /\ ne_inv tm' w' M /\ M <= mono w' /\ mono w <= mono w' /\
  t_stop tm' - t_start tm' = t_stop tm - t_start tm.
Proof.
  induction fuel as [|f IH]; intros tm w acc M tm' w' sl Hw Hi E; [discriminate|].
  cbn [wait] in E. unfold expired in E.
  destruct (latest tm w) as [[tm1 l1] w1] eqn:L1.
  destruct (ne_latest _ _ _ _ _ _ Hw Hi L1) as [Hw1 [Mo1 [Ll1 [La1 [B1 D1]]]]].
  tz. destruct (t_stop tm1 <=? l1) eqn:X.
  - inversion E; subst. rsplit; try assumption; try lia. apply ne_of_synced; assumption.
  - unfold remaining in E. destruct (latest tm1 w1) as [[tm2 l2] w2] eqn:L2.
    assert (Hi1 : ne_inv tm1 w1 M) by (apply ne_of_synced; assumption).
    destruct (ne_latest _ _ _ _ _ _ Hw1 Hi1 L2) as [Hw2 [Mo2 [Ll2 [La2 [B2 D2]]]]].
    assert (Hi2 : ne_inv tm2 w2 M) by (apply ne_of_synced; assumption).
    pose proof (max0_nonneg (t_stop tm1 - l2)) as Hd.
    destruct (sleep_facts w2 _ Hw2 Hd) as [Hw3 [Mo3 _]].
    apply (ne_sleep _ _ _ _ Hw2 Hd) in Hi2.
    destruct (IH _ _ _ _ _ _ _ Hw3 Hi2 E) as [R1 [R2 [R3 [R4 R5]]]].
    rsplit; try assumption; lia.
Qed.

Lemma ne_restart : forall tm w M, ne_inv tm w M -> ne_inv (restart tm) w (M + (t_stop tm - t_start tm)).
Proof.
  intros tm w M [ol [A [B C]]]. exists ol. unfold restart, start_at. cbn. tz. rsplit; lia.
Qed.

Lemma restart_duration : forall tm : ztimer,
  t_stop (restart tm) - t_start (restart tm) = t_stop tm - t_start tm.
Proof. intros tm. unfold restart, start_at. cbn. tz. lia. Qed.

(* the k-th cycle of a run of [cycles] entered with bound M for the NEXT start
   and the current start not before M - d *)
Lemma ne_cycles : forall works fuel tm w M d cs tmf wf,
  world_ok w -> Forall step_ok works -> ne_inv tm w M ->
  t_stop tm - t_start tm = d -> M - d <= mono w ->
  cycles fuel tm w works = Some (cs, tmf, wf) ->
  world_ok wf /\
  (forall k c, nth_error cs k = Some c -> M - d + Z.of_nat k * d <= c_mono c) /\
  M - d + Z.of_nat (length works) * d <= mono wf /\ length cs = length works.
Proof.
  induction works as [|wk rest IH]; intros fuel tm w M d cs tmf wf Hw Hs Hi Hd Hm E.
  - cbn in E. inversion E; subst. rsplit; try assumption; try (cbn; lia).
    intros k c Hk. destruct k; discriminate.
  - cbn [cycles] in E. inversion Hs as [|? ? Hwk Hrest]; subst.
    destruct (wait fuel tm (advance w wk) []) as [[[tm1 w1] sl]|] eqn:W; [|discriminate].
    destruct (cycles fuel (restart tm1) w1 rest) as [[[cs' tmf'] wf']|] eqn:C; [|discriminate].
    inversion E; subst. clear E.
    pose proof (advance_ok w wk Hw) as Hwa.
    pose proof (ne_advance _ _ _ _ Hwk Hi) as Hia.
    destruct (advance_facts w wk Hwk) as [Ma _].
    destruct (ne_wait _ _ _ _ _ _ _ _ Hwa Hia W) as [Hw1 [Hi1 [HM [Mo Du]]]].
    pose proof (ne_restart _ _ _ Hi1) as Hir. rewrite Du in Hir.
    assert (Hdr : t_stop (restart tm1) - t_start (restart tm1) = t_stop tm - t_start tm)
      by (rewrite restart_duration; exact Du).
    destruct (IH fuel (restart tm1) w1 (M + (t_stop tm - t_start tm)) (t_stop tm - t_start tm) cs' tmf wf
                 Hw1 Hrest Hir Hdr ltac:(lia) C) as [Hwf [Hk [He Hl]]].
    rsplit; try assumption.
    + intros k c Hkc. destruct k as [|k].
      * cbn in Hkc. inversion Hkc; subst. cbn. lia.
      * cbn in Hkc. specialize (Hk k c Hkc). lia.
    + cbn [length]. lia.
    + cbn [length]. lia.
Qed.

(* the run start of the current code: latest, then start(duration=tock, start=latest) *)
Lemma start_sync_spec : forall tock (tm tm0 : ztimer) (w w0 : zworld),
  start_run VSync tock tm w = (tm0, w0) ->
  exists r, read w = (r, w0) /\ t_last tm0 = r /\ t_start tm0 = r /\ t_stop tm0 = r + tock.
Proof.
  intros tock tm tm0 w w0 E. unfold start_run in E.
  destruct (latest tm w) as [[tm1 l] w1] eqn:L. inversion E; subst. clear E.
  destruct (latest_spec _ _ _ _ _ L) as [r [R [L1 [L2 _]]]]. subst l.
  exists r. unfold start_at. cbn. tz. rsplit; try assumption; lia.
Qed.

Lemma clear_log_fields : forall w : zworld,
  now (clear_log w) = now w /\ mono (clear_log w) = mono w /\
  reads (clear_log w) = reads w /\ overs (clear_log w) = overs w.
Proof. intros w. unfold clear_log. cbn. rsplit; reflexivity. Qed.

Lemma clear_log_ok : forall w : zworld, world_ok w -> world_ok (clear_log w).
Proof. intros w [A B]. split; assumption. Qed.

Theorem do_real_not_early : forall fuel tock (tm : ztimer) (w : zworld) works out tmf wf,
  world_ok w -> Forall step_ok works ->
  do_real VSync fuel tock tm w works = Some (out, tmf, wf) ->
  world_ok wf /\
  (forall k c, nth_error (r_cycles out) k = Some c -> r_mono out + Z.of_nat k * tock <= c_mono c) /\
  r_mono out + Z.of_nat (length works) * tock <= r_end_mono out /\
  length (r_cycles out) = length works.
Proof.
  intros fuel tock tm w works out tmf wf Hw Hs E. unfold do_real in E.
  destruct (start_run VSync tock tm w) as [tm0 w0] eqn:S.
  destruct (start_sync_spec _ _ _ _ _ S) as [r [R [A [B C]]]].
  destruct (read_log _ _ _ R) as [Rn _]. destruct (read_facts _ _ _ Hw R) as [Hw0 _].
  destruct (cycles fuel tm0 (clear_log w0) works) as [[[cs tmf'] wf']|] eqn:Cy; [|discriminate].
  inversion E; subst. clear E. cbn [r_cycles r_mono r_end_mono].
  destruct (clear_log_fields w0) as [F1 [F2 _]].
  assert (Hi : ne_inv tm0 (clear_log w0) (mono w0 + tock)).
  { apply ne_of_synced; rewrite ?F1, ?F2; lia. }
  destruct (ne_cycles works fuel tm0 (clear_log w0) (mono w0 + tock) tock cs tmf wf
              (clear_log_ok _ Hw0) Hs Hi ltac:(lia) ltac:(rewrite F2; lia) Cy) as [Hwf [Hk [He Hl]]].
  rsplit; try assumption.
  - intros k c Hkc. specialize (Hk k c Hkc). lia.
  - lia.
Qed.

(* ------------------------------------------------------------------ lossless deadlines *)

(* the timer's stop is [base] plus the retrograde shifts visible in the reading log *)
Definition ll_inv (tm : ztimer) (w : zworld) (base : Z) : Prop :=
  exists r rest, log w = r :: rest /\ t_last tm = r /\ t_stop tm = base + shifts (log w).

Lemma ll_advance : forall tm w base s, ll_inv tm w base -> ll_inv tm (advance w s) base.
Proof. intros tm w base s H. exact H. Qed.

Lemma ll_sleep : forall tm w base d, ll_inv tm w base -> ll_inv tm (sleep w d) base.
Proof. intros tm w base d [r [rest [A [B C]]]]. exists r, rest. rewrite sleep_log. rsplit; assumption. Qed.

Lemma ll_latest : forall tm tm' w w' l base,
  ll_inv tm w base -> latest tm w = (tm', l, w') ->
  ll_inv tm' w' base /\ t_stop tm' - t_start tm' = t_stop tm - t_start tm.
Proof.
  intros tm tm' w w' l base [r [rest [A [B C]]]] E.
  destruct (latest_spec _ _ _ _ _ E) as [r' [R [L1 [L2 [L3 L4]]]]].
  destruct (read_log _ _ _ R) as [_ Lg]. split; [|lia].
  exists r', (log w). rewrite Lg. rsplit; try assumption; try reflexivity.
  rewrite L3, C, A, B. cbn [shifts]. lia.
Qed.

Lemma ll_wait : forall fuel tm w acc base tm' w' sl,
  ll_inv tm w base -> wait fuel tm w acc = Some (tm', w', sl) ->
  ll_inv tm' w' base /\ t_stop tm' - t_start tm' = t_stop tm - t_start tm.
Proof.
  induction fuel as [|f IH]; intros tm w acc base tm' w' sl Hi E; [discriminate|].
  cbn [wait] in E. unfold expired in E.
  destruct (latest tm w) as [[tm1 l1] w1] eqn:L1.
  destruct (ll_latest _ _ _ _ _ _ Hi L1) as [Hi1 D1].
  destruct (tleb (t_stop tm1) l1).
  - inversion E; subst. split; assumption.
  - unfold remaining in E. destruct (latest tm1 w1) as [[tm2 l2] w2] eqn:L2.
    destruct (ll_latest _ _ _ _ _ _ Hi1 L2) as [Hi2 D2].
    apply (ll_sleep _ _ _ (max0 (tsub (t_stop tm1) l2))) in Hi2.
    destruct (IH _ _ _ _ _ _ _ Hi2 E) as [R1 R2]. split; [assumption|lia].
Qed.

Lemma ll_restart : forall tm w base, ll_inv tm w base -> ll_inv (restart tm) w (base + (t_stop tm - t_start tm)).
Proof.
  intros tm w base [r [rest [A [B C]]]]. exists r, rest. unfold restart, start_at. cbn. tz.
  rsplit; try assumption. lia.
Qed.

Lemma ll_cycles : forall works fuel tm w base d cs tmf wf,
  ll_inv tm w base -> t_stop tm - t_start tm = d ->
  cycles fuel tm w works = Some (cs, tmf, wf) ->
  forall k c, nth_error cs k = Some c -> c_stop c = base + Z.of_nat k * d + shifts (c_log c).
Proof.
  induction works as [|wk rest IH]; intros fuel tm w base d cs tmf wf Hi Hd E k c Hk.
  - cbn in E. inversion E; subst. destruct k; discriminate.
  - cbn [cycles] in E.
    destruct (wait fuel tm (advance w wk) []) as [[[tm1 w1] sl]|] eqn:W; [|discriminate].
    destruct (cycles fuel (restart tm1) w1 rest) as [[[cs' tmf'] wf']|] eqn:C; [|discriminate].
    inversion E; subst. clear E.
    destruct (ll_wait _ _ _ _ _ _ _ _ (ll_advance _ _ _ wk Hi) W) as [Hi1 Du].
    pose proof (ll_restart _ _ _ Hi1) as Hir. rewrite Du in Hir.
    destruct k as [|k].
    + cbn in Hk. inversion Hk; subst. cbn. destruct Hi as [r [rs [A [B C']]]]. lia.
    + cbn in Hk.
      assert (Hdr : t_stop (restart tm1) - t_start (restart tm1) = t_stop tm - t_start tm)
        by (rewrite restart_duration; exact Du).
      rewrite (IH fuel (restart tm1) w1 _ _ cs' tmf wf Hir Hdr C k c Hk). lia.
Qed.

Theorem do_real_lossless : forall fuel tock (tm : ztimer) (w : zworld) works out tmf wf,
  do_real VSync fuel tock tm w works = Some (out, tmf, wf) ->
  forall k c, nth_error (r_cycles out) k = Some c ->
    c_stop c = r_now out + (Z.of_nat k + 1) * tock + shifts (c_log c).
Proof.
  intros fuel tock tm w works out tmf wf E k c Hk. unfold do_real in E.
  destruct (start_run VSync tock tm w) as [tm0 w0] eqn:S.
  destruct (start_sync_spec _ _ _ _ _ S) as [r [R [A [B C]]]].
  destruct (read_log _ _ _ R) as [Rn Lg].
  destruct (cycles fuel tm0 (clear_log w0) works) as [[[cs tmf'] wf']|] eqn:Cy; [|discriminate].
  inversion E; subst out tmf' wf'. clear E. cbn [r_cycles r_now] in *.
  assert (Hi : ll_inv tm0 (clear_log w0) (now w0 + tock)).
  { exists (now w0), []. unfold clear_log. cbn [log]. rewrite Lg. cbn. rewrite <- Rn. rsplit; try reflexivity; lia. }
  rewrite (ll_cycles works fuel tm0 (clear_log w0) _ tock cs tmf wf Hi ltac:(lia) Cy k c Hk).
  lia.
Qed.
