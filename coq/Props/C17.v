(* C17 — Chunked transfer coding decodes exactly and rejects invalid chunk
   sizes.  Statements only; proofs in Proofs/ChunkProofs.v, ChunkRoundtrip.v. *)
From Coq Require Import Init.Byte.
From Hio Require Import Base.Prelude Model.HttpLine Model.Chunk
  Proofs.HttpLineProofs Proofs.ChunkProofs.

(* Strictness.  A chunk-size line whose size field (the text before the first
   ';', blanks and tabs around it removed) is not 1*HEXDIG makes parseChunk
   raise InvalidChunk, an HTTPException, whatever follows; no chunk is
   delivered for it (Fail carries no output) ... *)
Theorem C17_strict : forall line rest,
  ~ In CRb line -> (lenN line <= max_line)%N ->
  plain_hex (size_field line) = false ->
  chunk_stage CSize (line ++ CRLFb ++ rest) = Fail HTTPExc.
Proof. exact chunk_strict. Qed.
Print Assumptions C17_strict.

(* ... and a size line is never read as any size other than the positional
   value of its hex digits: whenever the size stage accepts, the field was
   plain hex and the decoder waits for exactly that many bytes (or, for 0,
   goes on to the trailer). *)
Theorem C17_never_reinterpreted : forall b s' r o,
  chunk_stage CSize b = Step s' r o ->
  exists line p, line_stage ECrlf false b = Step false r line /\
    plain_hex (size_field line) = true /\ o = None /\
    let n := hex_value (strip ws_sptab (size_field line)) in
    (n = 0%N /\ s' = CTrail p [] \/ n <> 0%N /\ s' = CData n p).
Proof. exact chunk_size_exact. Qed.
Print Assumptions C17_never_reinterpreted.

(* The decoder's result (body, extension parameters, trailers, error, bytes
   left over) does not depend on how the encoded bytes are split into reads. *)
Theorem C17_fragmentation : forall reads, decode_reads reads = decode (concat reads).
Proof. exact decode_reads_concat. Qed.
Print Assumptions C17_fragmentation.

(* Non-vacuity: the sizes the unfixed code accepted (D16) are rejected, plain
   ones are read exactly. *)
Example C17_strict_examples :
  map (fun f => plain_hex (of_bytes f))
      [[x2b;x35]; [x2d;x35]; [x30;x78;x35]; [x31;x5f;x30]; [x35;x20;x35]; []; [x20;x35;x09]; [x30;x41;x66]]
  = [false; false; false; false; false; false; true; true].
Proof. vm_compute. reflexivity. Qed.
