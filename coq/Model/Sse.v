(* Server-sent events.
   1. sse_stage: hio.core.http.httping.EventSource.parseEvents over
      parseLine(eols=(CRLF, LF, CR)) as it is after the fixes (D14, D36, D37,
      NUL ids, digit limit), as a stage machine.
   2. sse_spec: an independent, non-incremental specification written from
      the WHATWG "interpreting an event stream" algorithm over the whole byte
      stream.
   3. The composition used by clienting.Respondent: event stream inside
      chunked transfer coding.
   Text is modelled as its UTF-8 bytes (streams are assumed to be valid UTF-8;
   ':' LF CR SPACE NUL and digits are single bytes that never occur inside a
   multi-byte sequence).  No proofs here. *)
From Hio Require Import Base.Prelude Model.HttpLine Model.Chunk.
From Coq Require Import Init.Byte.

Record event := { ev_id : option bytes; ev_name : bytes; ev_data : bytes }.

Definition f_event : bytes := of_bytes [x65;x76;x65;x6e;x74].
Definition f_data : bytes := of_bytes [x64;x61;x74;x61].
Definition f_id : bytes := of_bytes [x69;x64].
Definition f_retry : bytes := of_bytes [x72;x65;x74;x72;x79].

Definition is_dec (x : N) : bool := N.leb 48 x && N.leb x 57.
Definition dec_value (l : bytes) : N := fold_left (fun a x => 10 * a + (x - 48))%N l 0%N.
(* int(str) refuses more than sys.get_int_max_str_digits() = 4300 digits *)
Definition max_int_digits : nat := 4300.

Definition drop_space (v : bytes) : bytes :=
  match v with x :: v' => if N.eqb x 32 then v' else v | [] => [] end.

(* "\n".join(parts) *)
Fixpoint join_lf (parts : list bytes) : bytes :=
  match parts with
  | [] => []
  | [p] => p
  | p :: ps => p ++ LFb :: join_lf ps
  end.

(* ------------------------------------------------------- the implementation *)
Record est := {
  s_id : option bytes;       (* eid / .leid *)
  s_name : bytes;            (* ename *)
  s_parts : list bytes;      (* parts, most recent first *)
  s_retry : option N         (* .retry *)
}.
(* parseLine's skip flag and the event state *)
Definition sst : Type := bool * est.

Definition est_init : est := {| s_id := None; s_name := []; s_parts := []; s_retry := None |}.
Definition sse_init : sst := (false, est_init).

(* one line of parseEvents (not closed) *)
Definition sse_line (s : est) (line : bytes) : est * option event :=
  if is_nil line then
    let s' := {| s_id := s_id s; s_name := []; s_parts := []; s_retry := s_retry s |} in
    if is_nil (s_parts s) then (s', None)
    else (s', Some {| ev_id := s_id s; ev_name := s_name s; ev_data := join_lf (rev (s_parts s)) |})
  else
    let '(field, sep, value) := partition1 58 line in
    if sep && is_nil field then (s, None) else     (* comment *)
    let value := drop_space value in
    if bytes_eqb field f_event then
      ({| s_id := s_id s; s_name := value; s_parts := s_parts s; s_retry := s_retry s |}, None)
    else if bytes_eqb field f_data then
      ({| s_id := s_id s; s_name := s_name s; s_parts := value :: s_parts s; s_retry := s_retry s |}, None)
    else if bytes_eqb field f_id then
      if existsb (N.eqb 0) value then (s, None)
      else ({| s_id := Some value; s_name := s_name s; s_parts := s_parts s; s_retry := s_retry s |}, None)
    else if bytes_eqb field f_retry then
      if negb (is_nil value) && forallb is_dec value && Nat.leb (length value) max_int_digits then
        ({| s_id := s_id s; s_name := s_name s; s_parts := s_parts s; s_retry := Some (dec_value value) |}, None)
      else (s, None)
    else (s, None).

Definition sse_stage (s : sst) (b : bytes) : sres sst (option event) :=
  match line_stage ESse (fst s) b with
  | Need => Need
  | Fail k => Fail k
  | Step k r l => let (e', o) := sse_line (snd s) l in Step (k, e') r o
  end.

Definition sse_start : pstate sst := Live sse_init [].

(* events, last event id, retry after feeding the reads *)
Definition sse_result (x : pstate sst * list (option event)) : option (list event * option bytes * option N) :=
  match x with
  | (Live s _, os) => Some (somes os, s_id (snd s), s_retry (snd s))
  | (Dead _, _) => None
  end.

(* ------------------------------------------------------- the specification *)
(* Lines of the stream: end-of-line = CR LF / CR / LF; an unterminated tail is
   not a line yet. *)
Fixpoint spec_lines (b : bytes) (cur : bytes) (after_cr : bool) : list bytes :=
  match b with
  | [] => []
  | x :: b' =>
    if N.eqb x LFb then
      (if after_cr then spec_lines b' [] false else rev cur :: spec_lines b' [] false)
    else if N.eqb x CRb then rev cur :: spec_lines b' [] true
    else spec_lines b' (x :: cur) false
  end.

Record wbuf := {
  w_data : bytes;             (* data buffer *)
  w_type : bytes;             (* event type buffer *)
  w_lastid : option bytes;    (* last event ID buffer (None: never set) *)
  w_retry : option N          (* reconnection time, if a retry field set it *)
}.
Definition w_init : wbuf := {| w_data := []; w_type := []; w_lastid := None; w_retry := None |}.

Definition w_field (w : wbuf) (field value : bytes) : wbuf :=
  if bytes_eqb field f_event then
    {| w_data := w_data w; w_type := value; w_lastid := w_lastid w; w_retry := w_retry w |}
  else if bytes_eqb field f_data then
    {| w_data := w_data w ++ value ++ [LFb]; w_type := w_type w; w_lastid := w_lastid w; w_retry := w_retry w |}
  else if bytes_eqb field f_id then
    if existsb (N.eqb 0) value then w
    else {| w_data := w_data w; w_type := w_type w; w_lastid := Some value; w_retry := w_retry w |}
  else if bytes_eqb field f_retry then
    (* "if the field value consists of only ASCII digits, interpret it as an integer in base ten";
       an empty value is ignored; values beyond the implementation's integer-text limit are ignored *)
    if negb (is_nil value) && forallb is_dec value && Nat.leb (length value) max_int_digits
    then {| w_data := w_data w; w_type := w_type w; w_lastid := w_lastid w; w_retry := Some (dec_value value) |}
    else w
  else w.

(* "dispatch the event" *)
Definition w_dispatch (w : wbuf) : wbuf * option event :=
  let w' := {| w_data := []; w_type := []; w_lastid := w_lastid w; w_retry := w_retry w |} in
  if is_nil (w_data w) then (w', None)
  else (w', Some {| ev_id := w_lastid w; ev_name := w_type w; ev_data := removelast (w_data w) |}).
  (* the data buffer, when not empty, always ends with the LF appended by the last data field *)

Definition w_line (w : wbuf) (line : bytes) : wbuf * option event :=
  match line with
  | [] => w_dispatch w
  | x :: rest =>
    if N.eqb x 58 then (w, None)                       (* starts with ':' : comment *)
    else let '(field, sep, value) := partition1 58 line in
         (w_field w field (if sep then drop_space value else []), None)
  end.

Fixpoint w_run (w : wbuf) (lines : list bytes) : wbuf * list event :=
  match lines with
  | [] => (w, [])
  | l :: ls => let (w', o) := w_line w l in
               let (w'', es) := w_run w' ls in
               (w'', match o with Some e => e :: es | None => es end)
  end.

Definition sse_spec (stream : bytes) : list event * option bytes * option N :=
  let (w, es) := w_run w_init (spec_lines stream [] false) in (es, w_lastid w, w_retry w).

(* -------------------------------------------- event stream inside chunked *)
(* Respondent.parseBody: body.extend(chunk); eventSource.parse() per data chunk *)
Definition sse_over_chunked (reads : list bytes) : option (list event * option bytes * option N) :=
  match feeds chunk_stage (Live CSize []) reads with
  | (Dead _, _) => None
  | (Live _ _, os) => sse_result (feeds sse_stage sse_start (map k_data (somes os)))
  end.

(* ------------------------------ Respondent.leid / .retry across connections *)
(* Respondent keeps .leid and .retry for its whole life; every event-stream
   response gets a fresh EventSource.  After each eventSource.parse() it copies
   the source's values when they are not None. *)
Definition rtrack : Type := option bytes * N.
Definition sync (r : rtrack) (e : est) : rtrack :=
  (match s_id e with Some i => Some i | None => fst r end,
   match s_retry e with Some n => n | None => snd r end).
Definition sync_p (r : rtrack) (p : pstate sst) : rtrack :=
  match p with Live s _ => sync r (snd s) | Dead _ => r end.

(* close-delimited body: every read is appended to the body, the event parser
   stepped, the values synced; the trace is (.leid, .retry) after every read *)
Fixpoint trace_plain (p : pstate sst) (r : rtrack) (reads : list bytes) : list rtrack :=
  match reads with
  | [] => []
  | c :: cs => let p' := fst (feed sse_stage p c) in
               let r' := sync_p r p' in r' :: trace_plain p' r' cs
  end.

(* chunked body: the same after every data chunk *)
Fixpoint sse_chunks (p : pstate sst) (r : rtrack) (datas : list bytes) : pstate sst * rtrack :=
  match datas with
  | [] => (p, r)
  | d :: ds => let p' := fst (feed sse_stage p d) in sse_chunks p' (sync_p r p') ds
  end.
Definition data_chunks (os : list (option chunk)) : list bytes :=
  map k_data (filter (fun ch => negb (N.eqb (k_size ch) 0)) (somes os)).
Fixpoint trace_chunked (cp : pstate cstate) (p : pstate sst) (r : rtrack) (reads : list bytes) : list rtrack :=
  match reads with
  | [] => []
  | c :: cs => let (cp', os) := feed chunk_stage cp c in
               let (p', r') := sse_chunks p r (data_chunks os) in
               r' :: trace_chunked cp' p' r' cs
  end.

(* ---------------------------------------------------------- correspondence *)
Inductive mode := MPlain | MChunked.
Record conn := {
  c_mode : mode;
  c_reads : list bytes;
  c_events : list event;
  c_leid : option bytes;   (* EventSource.leid afterwards *)
  c_retry : option N;
  c_err : bool;            (* an HTTPException (LineTooLong, InvalidChunk) ended the parse *)
  c_left : bytes;          (* EventSource.raw afterwards (compared when no error) *)
  c_init : option rtrack;  (* through a Respondent: its (.leid, .retry) when the response starts *)
  c_trace : list rtrack    (* ... and after every read *)
}.
(* a case is a history of event-stream responses on one Respondent *)
Definition case : Type := list conn.

Definition event_eqb (a b : event) : bool :=
  option_eqb bytes_eqb (ev_id a) (ev_id b) && bytes_eqb (ev_name a) (ev_name b)
  && bytes_eqb (ev_data a) (ev_data b).
Definition rtrack_eqb (a b : rtrack) : bool :=
  option_eqb bytes_eqb (fst a) (fst b) && N.eqb (snd a) (snd b).

Definition check_result (x : pstate sst * list (option event)) (c : conn) : bool :=
  match x with
  | (Dead _, os) => c_err c && list_eqb event_eqb (somes os) (c_events c)
  | (Live s b, os) =>
    negb (c_err c) && list_eqb event_eqb (somes os) (c_events c)
    && option_eqb bytes_eqb (s_id (snd s)) (c_leid c) && option_eqb N.eqb (s_retry (snd s)) (c_retry c)
    && bytes_eqb (raw_of (fst s) b) (c_left c)
  end.

Definition check_trace (c : conn) : bool :=
  match c_init c with
  | None => true
  | Some r0 =>
    list_eqb rtrack_eqb
      (match c_mode c with
       | MPlain => trace_plain sse_start r0 (c_reads c)
       | MChunked => trace_chunked (Live CSize []) sse_start r0 (c_reads c)
       end) (c_trace c)
  end.

Definition check_conn (c : conn) : bool :=
  check_trace c &&
  match c_mode c with
  | MPlain => check_result (feeds sse_stage sse_start (c_reads c)) c
  | MChunked =>
    match feeds chunk_stage (Live CSize []) (c_reads c) with
    | (Dead _, os) =>
      (* events of the chunks delivered before the framing error *)
      let x := feeds sse_stage sse_start (map k_data (somes os)) in
      c_err c && list_eqb event_eqb (somes (snd x)) (c_events c)
    | (Live _ _, os) => check_result (feeds sse_stage sse_start (map k_data (somes os))) c
    end
  end.
Definition check_case (c : case) : bool := forallb check_conn c.

(* branch ids: 0 need 1 too long 2 dispatch 3 blank without data 4 comment
   5 event 6 data 7 id 8 id with NUL 9 retry ok 10 retry ignored 11 other field *)
Definition n_branches : nat := 12.
Definition line_branch (s : est) (line : bytes) : nat :=
  if is_nil line then (if is_nil (s_parts s) then 3 else 2) else
  let '(field, sep, value) := partition1 58 line in
  if sep && is_nil field then 4 else
  let value := drop_space value in
  if bytes_eqb field f_event then 5 else if bytes_eqb field f_data then 6
  else if bytes_eqb field f_id then (if existsb (N.eqb 0) value then 8 else 7)
  else if bytes_eqb field f_retry then
    (if negb (is_nil value) && forallb is_dec value && Nat.leb (length value) max_int_digits then 9 else 10)
  else 11.
Fixpoint branches_run (fuel : nat) (s : sst) (b : bytes) : list nat * pstate sst :=
  match fuel with
  | 0 => ([], Live s b)
  | S f => match line_stage ESse (fst s) b with
           | Need => ([0], Live s b)
           | Fail k => ([1], Dead k)
           | Step k r l => let (e', _) := sse_line (snd s) l in
                           let (bs, p) := branches_run f (k, e') r in (line_branch (snd s) l :: bs, p)
           end
  end.
Fixpoint branches_reads (p : pstate sst) (reads : list bytes) : list nat :=
  match reads, p with
  | [], _ => []
  | _, Dead _ => []
  | c :: cs, Live s b =>
    let (l, p') := branches_run (S (length (b ++ c))) s (b ++ c) in l ++ branches_reads p' cs
  end.
Definition conn_branches (c : conn) : list nat :=
  match c_mode c with
  | MPlain => branches_reads sse_start (c_reads c)
  | MChunked => branches_reads sse_start (map k_data (somes (snd (feeds chunk_stage (Live CSize []) (c_reads c)))))
  end.
Definition case_branches (c : case) : list nat := flat_map conn_branches c.
