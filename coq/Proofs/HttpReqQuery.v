(* C14, general theorem, layer 3: the query string / form body built from a
   dict is parsed back by parse_qsl to the same pairs. *)
From Hio Require Import Base.Prelude Model.HttpReqUrl Model.HttpTotal Model.HttpReq Proofs.HttpReqProofs Proofs.HttpReqCodec.
From Coq Require Import String ZifyBool.
Local Open Scope N_scope.

(* characters of quote_plus [] s *)
Definition pchar (c : N) : bool := always_safe c || N.eqb c 37 || N.eqb c 43.

Lemma quote_plus_chars s : text_ok s = true -> forallb pchar (quote_plus [] s) = true.
Proof.
  intros H. unfold quote_plus. destruct (mem_n 32 s).
  - pose proof (quote_chars [32] s H) as Hq. rewrite forallb_forall in *.
    intros c Hc. apply in_map_iff in Hc. destruct Hc as [x [<- Hx]]. specialize (Hq x Hx).
    unfold qchar, mem_n in Hq. cbn [existsb] in Hq. unfold pchar.
    destruct (N.eqb x 32) eqn:E; [reflexivity|].
    rewrite ?E in Hq. rewrite orb_false_r in Hq. apply orb_true_iff in Hq. destruct Hq as [Hq|Hq]; rewrite Hq; cbn; now rewrite ?orb_true_r.
  - pose proof (quote_chars [] s H) as Hq. rewrite forallb_forall in *.
    intros c Hc. specialize (Hq c Hc). unfold qchar, mem_n in Hq. cbn [existsb] in Hq. unfold pchar.
    rewrite orb_false_r in Hq. apply orb_true_iff in Hq. destruct Hq as [Hq|Hq]; rewrite Hq; cbn; now rewrite ?orb_true_r.
Qed.

Lemma quote_plus_notin s c : text_ok s = true -> pchar c = false -> mem_n c (quote_plus [] s) = false.
Proof.
  intros H Hc. pose proof (quote_plus_chars s H) as Hq.
  destruct (mem_n c (quote_plus [] s)) eqn:E; [|reflexivity].
  apply mem_n_in in E. rewrite forallb_forall in Hq. specialize (Hq c E). congruence.
Qed.

Lemma mem_n_app c a b : mem_n c (a ++ b) = mem_n c a || mem_n c b.
Proof. unfold mem_n. apply existsb_app. Qed.

(* ---------- splitting ---------- *)
Lemma split_on_last c : forall x cur, mem_n c x = false -> split_on c x cur = [rev cur ++ x].
Proof.
  induction x as [|y x IH]; intros cur H.
  - cbn [split_on]. now rewrite frev_rev, app_nil_r.
  - unfold mem_n in H. cbn [existsb] in H. apply orb_false_iff in H. destruct H as [Hy Hx].
    cbn [split_on]. rewrite N.eqb_sym in Hy. rewrite Hy, IH by exact Hx. cbn [rev]. now rewrite <- app_assoc.
Qed.

Lemma split_on_sep c : forall x cur r, mem_n c x = false ->
  split_on c (x ++ c :: r) cur = (rev cur ++ x) :: split_on c r [].
Proof.
  induction x as [|y x IH]; intros cur r H.
  - cbn [app split_on]. now rewrite N.eqb_refl, frev_rev, app_nil_r.
  - unfold mem_n in H. cbn [existsb] in H. apply orb_false_iff in H. destruct H as [Hy Hx].
    cbn [app split_on]. rewrite N.eqb_sym in Hy. rewrite Hy, IH by exact Hx. cbn [rev]. now rewrite <- app_assoc.
Qed.

Lemma split_on_join c : forall ps, ps <> [] -> Forall (fun p => mem_n c p = false) ps ->
  split_on c (join [c] ps) [] = ps.
Proof.
  induction ps as [|p ps IH]; intros Hne H; [congruence|].
  inversion H as [|? ? Hp Hps]; subst.
  destruct ps as [|q ps'].
  - cbn [join]. now rewrite split_on_last.
  - change (join [c] (p :: q :: ps')) with (p ++ [c] ++ join [c] (q :: ps')).
    cbn [app]. rewrite split_on_sep by exact Hp. cbn [rev app]. f_equal. apply IH; [discriminate|exact Hps].
Qed.

Lemma partition1_sep c : forall a b, mem_n c a = false -> partition1 c (a ++ c :: b) = (a, true, b).
Proof.
  induction a as [|x a IH]; intros b H.
  - cbn [app partition1]. now rewrite N.eqb_refl.
  - unfold mem_n in H. cbn [existsb] in H. apply orb_false_iff in H. destruct H as [Hx Ha].
    cbn [app partition1]. rewrite N.eqb_sym in Hx. rewrite Hx, IH by exact Ha. reflexivity.
Qed.

Definition pair_ok (kv : ustr * ustr) : bool := text_ok (fst kv) && text_ok (snd kv).
Definition piece (kv : ustr * ustr) : ustr := quote_plus [] (fst kv) ++ 61 :: quote_plus [] (snd kv).

Lemma piece_no_amp kv : pair_ok kv = true -> mem_n 38 (piece kv) = false.
Proof.
  unfold pair_ok, piece. intros H. apply andb_true_iff in H. destruct H as [Hk Hv].
  rewrite mem_n_app. rewrite (quote_plus_notin _ 38 Hk) by reflexivity.
  unfold mem_n at 1. cbn [existsb]. change (existsb (N.eqb 38) (quote_plus [] (snd kv))) with (mem_n 38 (quote_plus [] (snd kv))).
  now rewrite (quote_plus_notin _ 38 Hv) by reflexivity.
Qed.

Lemma parse_piece kv : pair_ok kv = true ->
  (match piece kv with
   | [] => []
   | _ => let '(k, _, v) := partition1 61 (piece kv) in [(unquote_plus k, unquote_plus v)]
   end) = [kv].
Proof.
  unfold pair_ok. intros H. apply andb_true_iff in H. destruct H as [Hk Hv].
  assert (Hp : partition1 61 (piece kv) = (quote_plus [] (fst kv), true, quote_plus [] (snd kv))).
  { unfold piece. apply partition1_sep. apply quote_plus_notin; [exact Hk|reflexivity]. }
  destruct (piece kv) as [|x y] eqn:E.
  - exfalso. unfold piece in E. destruct (quote_plus [] (fst kv)); discriminate.
  - rewrite Hp. rewrite !unquote_plus_quote_plus by assumption. now destruct kv.
Qed.

(* the general query-args / form round trip *)
Theorem parse_qsl_enc_pairs l : forallb pair_ok l = true -> parse_qsl (enc_pairs l) = l.
Proof.
  intros H. unfold parse_qsl, enc_pairs. fold piece.
  change (map (fun kv => quote_plus [] (fst kv) ++ 61 :: quote_plus [] (snd kv)) l) with (map piece l).
  destruct l as [|kv0 l0] eqn:El; [reflexivity|]. rewrite <- El in *.
  rewrite split_on_join.
  - clear El. induction l as [|kv l IH]; [reflexivity|].
    cbn [forallb] in H. apply andb_true_iff in H. destruct H as [Hkv Hl].
    cbn [map flat_map]. rewrite parse_piece by exact Hkv. cbn [app]. f_equal. apply IH. exact Hl.
  - subst l. discriminate.
  - rewrite Forall_map, Forall_forall. rewrite forallb_forall in H. intros kv Hin. apply piece_no_amp. now apply H.
Qed.
