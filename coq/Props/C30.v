From Hio Require Import Base.Prelude Model.Sched.
Theorem C30_placeholder : True. Proof. exact I. Qed.
Print Assumptions C30_placeholder.
