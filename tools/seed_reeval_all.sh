#!/bin/bash
# tools/seed_reeval_all.sh [parallelism] [glob]: re-evaluate every kept seeded change against the CURRENT /repo tree and
# checks (tools/seed_eval.sh in place; history is kept in each meta.json).  One summary line per change.
cd "$(dirname "$0")/.."
P="${1:-5}"; G="${2:-*}"
LOG=/var/tmp/seed_reeval.log; : > "$LOG"
ls -d seeded/$G/ | sed 's#/$##' | xargs -P "$P" -I{} bash -c '
  d={}; b=$(basename $d); prop=${b%%-*}; name=${b#*-}
  out=$(timeout 3000 tools/seed_eval.sh $prop $d $name 2>/dev/null)
  q=$(python3 -c "import json;m=json.load(open(\"$d/meta.json\"));print(m[\"demo_rc_unchanged\"],m[\"demo_rc_changed\"],m[\"check_quick_rc\"],m[\"check_thorough_rc\"])" 2>/dev/null)
  if echo "$out" | grep -q "PATCH DOES NOT APPLY"; then q="PATCH-DOES-NOT-APPLY"; fi
  echo "$b $q" >> '"$LOG"'
'
sort "$LOG"
