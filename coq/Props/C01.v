(* C01 — every doer runs a well-formed lifecycle on every exit path.
   Model: Model/Sched.v (Doist/Doer/DoDoer of src/hio/base/doing.py as a fuelled
   interpreter over doer programs).  Proofs: Proofs/SchedFrame.v, SchedLife.v, SchedTop.v. *)
From Hio Require Import Base.Prelude Base.AMap Base.Time Model.Sched Proofs.SchedLife Proofs.SchedTop
  Proofs.SchedDequeHold Proofs.SchedDequeTop Proofs.SchedHist Model.SchedCase Proofs.SchedHistCase.

(* For every time type, every program (any forest of leaf doers of the three
   kinds and DoDoers, any scripts of yields / returns / raises / KeyboardInterrupts,
   any runtime extend/remove effects, any limit), and any budgets: the lifecycle
   events of every doer j, oldest first, are a sequence of complete lifecycles
       Enter Recur* (Clean | Cease | Abort) Exit
   (the terminal kind is missing only in the KeyboardInterrupt form, finding
   D40-kbd), followed — exactly when its generator is still suspended or
   executing — by one lifecycle in progress; nothing ever follows an Exit except
   a new Enter. *)
Theorem C01_lifecycles :
  forall (T : Type) (TT : Time T) (cycles fuel : nat) (p : prog T) (j : id),
    life_ok (get_gen (do_run cycles fuel p) j) (events j (do_run cycles fuel p)).
Proof. intros. apply do_run_lifecycles. Qed.
Print Assumptions C01_lifecycles.

(* The same for every HISTORY of runs of the same doer objects: a first do() or ado(), then any number
   of further runs on the same Doist (with or without a new limit / tyme) or under new Doists (their own
   limit, tyme and doer list).  Lifecycles never straddle runs wrongly: the events of every doer over the
   whole history are complete lifecycles, plus one in progress exactly when its generator is alive. *)
Theorem C01_lifecycles_histories :
  forall (T : Type) (TT : Time T) (cycles fuel : nat) (asyn : bool) (p : prog T) (h : list rerun) (j : id),
    life_ok (get_gen (run_hist cycles fuel asyn p h) j) (events j (run_hist cycles fuel asyn p h)).
Proof. intros. apply run_hist_lifecycles. Qed.
Print Assumptions C01_lifecycles_histories.

(* ... and the state the correspondence check evaluates and compares with the implementation is such a
   history (binary64 time), so the theorem covers every compared run. *)
Theorem C01_correspondence_runs_are_histories :
  forall c : case, c_manual c = None ->
    run_case c = run_hist cycles_budget fuel_budget (c_async c) (c_prog c) (case_hist c).
Proof. exact run_case_hist. Qed.
Print Assumptions C01_correspondence_runs_are_histories.

(* The manual API — doist.enter(), any number of doist.recur() calls, doist.exit(), with the application's
   try/finally exit when one of them raises — keeps the same invariant ... *)
Theorem C01_lifecycles_manual :
  forall (T : Type) (TT : Time T) (n fuel : nat) (p : prog T) (j : id),
    life_ok (get_gen (manual_run n fuel p) j) (events j (manual_run n fuel p)).
Proof. intros. apply manual_run_lifecycles. Qed.
Print Assumptions C01_lifecycles_manual.

(* ... and the cases the correspondence drives by hand are such runs. *)
Theorem C01_correspondence_manual_runs :
  forall (c : case) (n : nat), c_manual c = Some n ->
    run_case c = fold_left (rerun_step cycles_budget fuel_budget (p_tock (c_prog c)) (c_async c))
                           (map (fun '(l, t) => RFresh l t (p_doers (c_prog c))) (c_fresh c))
                           (manual_run n fuel_budget (c_prog c)).
Proof. exact run_case_manual. Qed.
Print Assumptions C01_correspondence_manual_runs.

(* The same invariant holds after every single scheduler operation, from any
   state satisfying it (not only at the end of a run): one-step form for the
   three generator operations. *)
Theorem C01_preserved_by_operations :
  forall (T : Type) (TT : Time T) (tk : T) (fuel : nat) (s : st T) (i : id),
    LInv s ->
    LInv (fst (gen_start tk fuel s i)) /\ LInv (fst (gen_send tk fuel s i)) /\ LInv (gen_close tk fuel s i).
Proof.
  intros T TT tk fuel s i L.
  destruct (linv_all tk fuel) as (Ist & _ & Isd & Icl & _).
  repeat split.
  - destruct (gen_start tk fuel s i) as [s' r] eqn:E. eapply Ist; eassumption.
  - destruct (gen_send tk fuel s i) as [s' r] eqn:E. eapply Isd; eassumption.
  - now apply Icl.
Qed.
Print Assumptions C01_preserved_by_operations.

(* Completeness: when do() returns or raises, every doer that was started has
   exited — for every program of the static class W (id 0 is only the root;
   extend() targets are the root or DoDoers; no remove() among the effects of a
   doer's enter step) and every run that did not exhaust its budget: no generator
   is left suspended or executing, every doer's events are complete lifecycles,
   and the last event of the trace is DoReturn/DoRaise.
   FULL STATEMENT (without W) is false of the code: finding D43, refuted below. *)
Theorem C01_complete_partial :
  forall (T : Type) (TT : Time T) (cycles fuel : nat) (p : prog T),
    W (p_defs p) -> oof (do_run cycles fuel p) = false ->
    (forall j, get_gen (do_run cycles fuel p) j = GNew \/ get_gen (do_run cycles fuel p) j = GDone) /\
    (forall j, lives (events j (do_run cycles fuel p))) /\
    exists k t rest, trace (do_run cycles fuel p) = {| e_kind := k; e_id := 0%N; e_tyme := t |} :: rest /\
                     (k = DoReturn \/ k = DoRaise).
Proof.
  intros T TT cycles fuel p Hw O. split.
  - now apply do_run_complete.
  - now apply do_run_all_exited.
Qed.
Print Assumptions C01_complete_partial.

(* D43: a doer extended into a DoDoer whose enter step removes that DoDoer
   stays suspended for good: entered, never exited. *)
Theorem C01_complete_refuted :
  exists (p : prog Z) cycles fuel j pc,
    oof (do_run cycles fuel p) = false /\ get_gen (do_run cycles fuel p) j = GSusp pc /\
    events j (do_run cycles fuel p) = [Enter].
Proof. exact do_run_complete_refuted. Qed.
Print Assumptions C01_complete_refuted.

(* Non-vacuity: a forest with a nested DoDoer, a raise in the middle of a pass
   and doers alive on both sides of it. *)
Definition ex_prog : prog Z :=
  let Y := {| f_es := []; f_out := OYield None |} in
  let X := {| f_es := []; f_out := ORaise |} in
  {| p_tock := 1%Z; p_limit := None; p_tyme := 0%Z; p_doers := [1; 2; 5]%N;
     p_defs := [(1, FLeaf KFunc [Y; Y; Y; Y]); (2, FNest 0%Z false [3; 4]);
                (3, FLeaf KDoer [Y; Y; Y; Y]); (4, FLeaf KDoerGen [Y; Y; X]);
                (5, FLeaf KFunc [Y; Y; Y; Y])]%N |}.
Example C01_example :
  let s := do_run 10 100 ex_prog in
  oof s = false /\
  events 4%N s = [Enter; Recur; Recur; Abort; Exit] /\
  events 3%N s = [Enter; Recur; Recur; Cease; Exit] /\
  events 2%N s = [Enter; Recur; Recur; Abort; Exit] /\
  events 5%N s = [Enter; Recur; Cease; Exit] /\
  events 1%N s = [Enter; Recur; Recur; Cease; Exit].
Proof. vm_compute. repeat split. Qed.

(* ---------- histories of runs ---------- *)
From Hio Require Import Proofs.SchedHist Proofs.SchedDequeHold Proofs.SchedDequeTop Proofs.SchedDequeTop3 Proofs.SchedDequeHist.

(* Completeness over histories (a first do()/ado(), then any reruns on the same
   Doist or under new Doists), class W, no extra hypothesis on the reruns (any
   limits, tymes, root doers): after every history that stays within the budget
   every generator is finished, every doer's events are complete lifecycles, and
   the newest event is the DoReturn/DoRaise of the root. *)
Theorem C01_complete_histories_partial :
  forall (T : Type) (TT : Time T) (cycles fuel : nat) (asyn : bool) (p : prog T) (h : list rerun),
    W (p_defs p) -> oof (run_hist cycles fuel asyn p h) = false ->
    (forall j, get_gen (run_hist cycles fuel asyn p h) j = GNew \/ get_gen (run_hist cycles fuel asyn p h) j = GDone) /\
    (forall j, lives (events j (run_hist cycles fuel asyn p h))) /\
    exists k t rest, trace (run_hist cycles fuel asyn p h) = {| e_kind := k; e_id := 0%N; e_tyme := t |} :: rest /\
                     (k = DoReturn \/ k = DoRaise).
Proof. intros. now apply run_hist_complete. Qed.
Print Assumptions C01_complete_histories_partial.

Example C01_complete_histories_example :
  Wb (p_defs x_prog) = true /\ oof (run_hist 10 100 false x_prog x_hist) = false /\
  oof (run_hist 10 100 true x_prog x_hist) = false.
Proof. vm_compute. repeat split. Qed.

(* outside W (D43) the leaked doer is carried into later runs *)
Theorem C01_complete_histories_refuted :
  exists (p : prog Z) (h : list rerun),
    oof (run_hist 10 100 false p h) = false /\
    events 4%N (run_hist 10 100 false p h) = [Enter; Recur; Recur; Cease; Exit] /\
    In {| e_kind := Enter; e_id := 4%N; e_tyme := 0%Z |} (trace (run_hist 10 100 false p h)) /\
    In {| e_kind := Recur; e_id := 4%N; e_tyme := 10%Z |} (trace (run_hist 10 100 false p h)).
Proof. exact run_hist_complete_refuted. Qed.
Print Assumptions C01_complete_histories_refuted.
