(* C05, part 2: done flags.  An invariant of all eleven interpreter functions
   (in the style of linv_all of Proofs/SchedLife.v), for every program:

     a leaf doer's done flag is Some true only if its most recent lifecycle
     ended by its own return (Enter Recur^n Clean Exit) and step n of its
     script is `return True`;
     a number that names no doer never gets done = Some true from the scheduler.

   Plus the local facts: enter sets Some false; a self-return r writes
   done_after kind r old; forced close never touches a done flag. *)
From Hio Require Import Base.Prelude Base.AMap Base.Time Model.Sched Proofs.SchedEqs Proofs.SchedFrame Proofs.SchedLife
  Proofs.SchedCycleTick Proofs.SchedCycleDue Proofs.SchedCycleStop.

Section Done.
Context {T : Type} `{Time T}.
Implicit Types s a b : st T.
Variable tk : T.
Variable D : amap (fdef T).
(* rootx = true exempts the number 0 (the root Doist, whose flag do() itself sets) *)
Variable rootx : bool.

Definition returned_true s (i : id) (sc : list (fstep T)) : Prop :=
  exists n older, evs i s = Exit :: Clean :: repeat Recur n ++ Enter :: older /\
                  f_out (nth n sc default_step) = OReturn RTrue.

Definition dj s (i : id) : Prop :=
  match get D i with
  | Some (FLeaf k sc) =>
    (forall pc, get_gen s i = GSusp pc -> exists n older, pc = S n /\ evs i s = repeat Recur n ++ Enter :: older) /\
    (get_done s i = Some true -> returned_true s i sc)
  | Some (FNest _ _ _) => True
  | None => (rootx = false \/ i <> 0%N) -> get_done s i <> Some true
  end.

Definition DInv s : Prop := defs s = D /\ forall i, dj s i.

Definition same_at (j : id) s s' : Prop :=
  get_gen s' j = get_gen s j /\ evs j s' = evs j s /\ get_done s' j = get_done s j.

Lemma dj_same s s' j : same_at j s s' -> dj s j -> dj s' j.
Proof. intros (G & E & Dn) Hd. unfold dj, returned_true in *. rewrite G, E, Dn. exact Hd. Qed.

Lemma dinv_only i s s' :
  DInv s -> defs s' = defs s -> (forall j, j <> i -> same_at j s s') -> dj s' i -> DInv s'.
Proof.
  intros (Df & A) E O Ki. split; [congruence|]. intro j.
  destruct (N.eq_dec j i) as [->|Hne]; [exact Ki|]. eapply dj_same; [apply O; exact Hne|apply A].
Qed.

Lemma dinv_all s s' : DInv s -> defs s' = defs s -> (forall j, same_at j s s') -> DInv s'.
Proof. intros (Df & A) E O. split; [congruence|]. intro j. eapply dj_same; [apply O|apply A]. Qed.

Lemma same_refl j s : same_at j s s. Proof. repeat split. Qed.

Lemma dinv_deeds s i d : DInv s -> DInv (set_deeds s i d).
Proof. intro L. eapply dinv_all; [exact L|reflexivity|]. intro j. repeat split. Qed.
Lemma dinv_sched s i c : DInv s -> DInv (set_sched s i c).
Proof. intro L. eapply dinv_all; [exact L|reflexivity|]. intro j. repeat split. Qed.
Lemma dinv_oof s : DInv s -> DInv (out_of_fuel s).
Proof. intro L. eapply dinv_all; [exact L|reflexivity|]. intro j. repeat split. Qed.
Lemma dinv_ext s i : DInv s -> DInv (emit s ExtRet i).
Proof. intro L. eapply dinv_all; [exact L|reflexivity|]. intro j. split; [reflexivity|]. split; [now apply evs_emit_nonlife|reflexivity]. Qed.
Lemma dinv_rem s i : DInv s -> DInv (emit s RemRet i).
Proof. intro L. eapply dinv_all; [exact L|reflexivity|]. intro j. split; [reflexivity|]. split; [now apply evs_emit_nonlife|reflexivity]. Qed.
Lemma dinv_tyme s t : DInv s -> DInv (set_tyme s t).
Proof. intro L. eapply dinv_all; [exact L|reflexivity|]. intro j. repeat split. Qed.
Lemma dinv_rlive s v : DInv s -> DInv (set_rlive s v).
Proof. intro L. eapply dinv_all; [exact L|reflexivity|]. intro j. repeat split. Qed.

(* same_at for the primitive updates of doer i, seen from j <> i *)
Lemma sa_emit j s s0 k i : i <> j -> same_at j s s0 -> same_at j s (emit s0 k i).
Proof. intros Hne (G & E & Dn). split; [exact G|]. split; [now rewrite evs_emit_other|exact Dn]. Qed.
Lemma sa_gen j s s0 i g : j <> i -> same_at j s s0 -> same_at j s (set_gen s0 i g).
Proof. intros Hne (G & E & Dn). split; [now rewrite gen_set_gen_other|]. split; [exact E|exact Dn]. Qed.
Lemma sa_done j s s0 i d : j <> i -> same_at j s s0 -> same_at j s (set_done s0 i d).
Proof. intros Hne (G & E & Dn). split; [exact G|]. split; [exact E|]. now rewrite get_done_other. Qed.

Ltac sa :=
  let j := fresh "j" in let Hj := fresh "Hj" in
  intros j Hj;
  repeat first [apply sa_emit; [congruence|] | apply sa_gen; [exact Hj|] | apply sa_done; [exact Hj|] | apply same_refl].

(* enter: done := False *)
Lemma dinv_done_false s i : DInv s -> DInv (set_done s i (Some false)).
Proof.
  intro L. eapply dinv_only; [exact L|reflexivity|sa|].
  destruct L as (_ & A). specialize (A i). unfold dj in *.
  destruct (get D i) as [[k sc|t a kids]|].
  - destruct A as (A1 & _). split; [exact A1|]. rewrite get_done_same. discriminate.
  - exact I.
  - intros _. rewrite get_done_same. discriminate.
Qed.

(* a DoDoer's own bookkeeping never matters *)
Lemma dn_only i s s' t al kids :
  get D i = Some (FNest t al kids) -> DInv s -> defs s' = defs s -> (forall j, j <> i -> same_at j s s') -> DInv s'.
Proof. intros N L E O. eapply dinv_only; [exact L|exact E|exact O|]. unfold dj. now rewrite N. Qed.
Lemma dn_emit i s k t al kids : get D i = Some (FNest t al kids) -> DInv s -> DInv (emit s k i).
Proof. intros N L. eapply dn_only; [exact N|exact L|reflexivity|sa]. Qed.
Lemma dn_gen i s g t al kids : get D i = Some (FNest t al kids) -> DInv s -> DInv (set_gen s i g).
Proof. intros N L. eapply dn_only; [exact N|exact L|reflexivity|sa]. Qed.
Lemma dn_done i s d t al kids : get D i = Some (FNest t al kids) -> DInv s -> DInv (set_done s i d).
Proof. intros N L. eapply dn_only; [exact N|exact L|reflexivity|sa]. Qed.
Lemma dn_if i s (b : bool) k t al kids : get D i = Some (FNest t al kids) -> DInv s -> DInv (if b then s else emit s k i).
Proof. intros N L. destruct b; [exact L|]. eapply dn_emit; eassumption. Qed.

(* a leaf that is neither suspended nor flagged True satisfies its clause *)
Lemma dl_quiet i s s' k sc :
  get D i = Some (FLeaf k sc) -> DInv s -> defs s' = defs s -> (forall j, j <> i -> same_at j s s') ->
  get_done s' i <> Some true -> (forall pc, get_gen s' i <> GSusp pc) -> DInv s'.
Proof.
  intros Lf L E O Nd Ns. eapply dinv_only; [exact L|exact E|exact O|]. unfold dj. rewrite Lf. split.
  - intros pc G. destruct (Ns pc G).
  - intro X. contradiction.
Qed.

Lemma shape_clash n older n' older' : repeat Recur n ++ Enter :: older <> Exit :: Clean :: repeat Recur n' ++ Enter :: older'.
Proof. destruct n; cbn; discriminate. Qed.

Lemma run_not_true s i k sc pc older :
  DInv s -> get D i = Some (FLeaf k sc) -> evs i s = repeat Recur pc ++ Enter :: older -> get_done s i <> Some true.
Proof.
  intros (_ & A) Lf Ev X. specialize (A i). unfold dj in A. rewrite Lf in A. destruct A as (_ & A2).
  destruct (A2 X) as (n & older' & E & _). rewrite Ev in E. exact (shape_clash _ _ _ _ E).
Qed.

Lemma susp_shape s i k sc pc :
  DInv s -> get D i = Some (FLeaf k sc) -> get_gen s i = GSusp pc ->
  exists n older, pc = S n /\ evs i s = repeat Recur n ++ Enter :: older.
Proof. intros (_ & A) Lf G. specialize (A i). unfold dj in A. rewrite Lf in A. destruct A as (A1 & _). exact (A1 pc G). Qed.

(* ---------- the invariant is preserved by every function ---------- *)

Definition dinv_at (f : nat) : Prop :=
  (forall s i s' r, DInv s -> get_done s i <> Some true -> gen_start tk f s i = (s', r) -> DInv s') /\
  (forall s i k sc pc older s' r, DInv s -> get D i = Some (FLeaf k sc) -> get_gen s i = GRun pc ->
      evs i s = repeat Recur pc ++ Enter :: older -> run_step tk f s i k sc pc = (s', r) -> DInv s') /\
  (forall s i s' r, DInv s -> gen_send tk f s i = (s', r) -> DInv s') /\
  (forall s i, DInv s -> DInv (gen_close tk f s i)) /\
  (forall s i, DInv s -> DInv (close_own tk f s i)) /\
  (forall s ds, DInv s -> DInv (close_list tk f s ds)) /\
  (forall s sid ids s' r, DInv s -> enter_own tk f s sid ids = (s', r) -> DInv s') /\
  (forall s ids acc s' r acc', DInv s -> enter_local tk f s ids acc = (s', r, acc') -> DInv s') /\
  (forall s c es s' r, DInv s -> run_effects tk f s c es = (s', r) -> DInv s') /\
  (forall s sid s' r, DInv s -> recur_pass tk f s sid = (s', r) -> DInv s') /\
  (forall s sid s' r, DInv s -> recur_loop tk f s sid = (s', r) -> DInv s').

Ltac brk :=
  cbv zeta in *;
  repeat (match goal with
  | H : context [match ?x with _ => _ end] |- _ => destruct x eqn:?
  | |- context [match ?x with _ => _ end] => destruct x eqn:?
  end; cbv zeta in *).

Ltac fin :=
  repeat match goal with
  | H : (_, _) = (_, _) |- _ => inversion H; subst; clear H
  | H : (_, _, _) = (_, _, _) |- _ => inversion H; subst; clear H
  end.

Ltac goD Ist Isd Icl Ico Ili Ieo Iel Ief Irp Irl :=
  let rec loop :=
    match goal with
    | H : DInv ?s |- DInv ?s => exact H
    | |- get_done (set_done _ ?i (Some false)) ?i <> Some true => rewrite get_done_same; discriminate
    | |- DInv (set_done _ _ (Some false)) => apply dinv_done_false; loop
    | |- DInv (set_deeds _ _ _) => apply dinv_deeds; loop
    | |- DInv (set_sched _ _ _) => apply dinv_sched; loop
    | |- DInv (out_of_fuel _) => apply dinv_oof; loop
    | |- DInv (emit _ ExtRet _) => apply dinv_ext; loop
    | |- DInv (emit _ RemRet _) => apply dinv_rem; loop
    | |- DInv (emit _ _ _) => eapply dn_emit; [eassumption|]; loop
    | |- DInv (set_gen _ _ _) => eapply dn_gen; [eassumption|]; loop
    | |- DInv (set_done _ _ _) => eapply dn_done; [eassumption|]; loop
    | |- DInv (if _ then _ else emit _ _ _) => eapply dn_if; [eassumption|]; loop
    | |- DInv (gen_close _ _ _ _) => apply Icl; loop
    | |- DInv (close_own _ _ _ _) => apply Ico; loop
    | |- DInv (close_list _ _ _ _) => apply Ili; loop
    | E : gen_start _ _ _ _ = (?s1, _) |- DInv ?s1 => eapply Ist; [| |exact E]; loop
    | E : gen_send _ _ _ _ = (?s1, _) |- DInv ?s1 => eapply Isd; [|exact E]; loop
    | E : enter_own _ _ _ _ _ = (?s1, _) |- DInv ?s1 => eapply Ieo; [|exact E]; loop
    | E : enter_local _ _ _ _ _ = (?s1, _, _) |- DInv ?s1 => eapply Iel; [|exact E]; loop
    | E : run_effects _ _ _ _ _ = (?s1, _) |- DInv ?s1 => eapply Ief; [|exact E]; loop
    | E : recur_pass _ _ _ _ = (?s1, _) |- DInv ?s1 => eapply Irp; [|exact E]; loop
    | E : recur_loop _ _ _ _ = (?s1, _) |- DInv ?s1 => eapply Irl; [|exact E]; loop
    end in loop.

Lemma dinv_allf : forall f, dinv_at f.
Proof.
  induction f as [|f IH].
  - unfold dinv_at. repeat match goal with |- _ /\ _ => split end; intros.
    all: try match goal with
         | E : _ = (_, _) |- _ => cbn in E; inversion E; subst; clear E
         end; cbn; try assumption; try (apply dinv_oof; assumption).
  - destruct IH as (Ist & Irs & Isd & Icl & Ico & Ili & Ieo & Iel & Ief & Irp & Irl).
    unfold dinv_at. repeat match goal with |- _ /\ _ => split end; intros.
    + (* gen_start *)
      rename H0 into L, H1 into Nd, H2 into E. rewrite gen_start_S in E.
      destruct (startable s i) eqn:St; cbn [negb] in E; [|fin; assumption].
      assert (Df : defs s = D) by apply L. rewrite Df in E.
      destruct (get D i) as [[k script|t0 always kids]|] eqn:Gi; [| |fin; assumption].
      * (* leaf *)
        assert (L0 : DInv (emit (set_gen s i (GRun 0)) Enter i)).
        { eapply dl_quiet; [exact Gi|exact L|reflexivity|sa|exact Nd|].
          intros pc. rewrite gen_emit, gen_set_gen_same. discriminate. }
        eapply (Irs _ i k script 0%nat (evs i s)); [exact L0|exact Gi| | |exact E].
        -- rewrite gen_emit. apply gen_set_gen_same.
        -- rewrite evs_emit_same by reflexivity. reflexivity.
      * (* DoDoer *)
        cbv zeta in E.
        destruct (enter_own tk f _ i _) as [s2 r0] eqn:Ee.
        destruct r0; fin; goD Ist Isd Icl Ico Ili Ieo Iel Ief Irp Irl.
    + (* run_step *)
      rename H0 into L, H1 into Lf, H2 into Rn, H3 into Ev, H4 into E. rewrite run_step_S in E. cbv zeta in E.
      destruct (run_effects tk f s i _) as [s1 r0] eqn:Ee.
      assert (L1 : DInv s1) by (eapply Ief; [exact L|exact Ee]).
      assert (N1 : noj i s s1).
      { destruct (framej_all tk i f) as (_ & _ & _ & _ & _ & _ & _ & _ & Fef & _).
        eapply Fef; [exists pc; exact Rn|apply noj_refl|exact Ee]. }
      destruct N1 as (G1 & E1). rewrite <- E1 in Ev.
      pose proof (run_not_true s1 i k sc pc older L1 Lf Ev) as Nd1.
      (* every ending that is not a self-return: the flag stays, the generator is done *)
      assert (Die : forall sx, defs sx = defs s1 -> (forall j, j <> i -> same_at j s1 sx) ->
                 get_done sx i = get_done s1 i -> get_gen sx i = GDone -> DInv sx).
      { intros sx Ed O Dn Gd. eapply dl_quiet; [exact Lf|exact L1|exact Ed|exact O|congruence|].
        intro pc'. rewrite Gd. discriminate. }
      destruct r0 as [t0| |kbd|]; cbv beta iota zeta in E.
      4: (fin; exact L1).
      3: (destruct kbd; fin; (apply Die; [reflexivity|sa|reflexivity|apply gen_set_gen_same])).
      all: destruct (f_out (nth pc sc default_step)) as [t|rv| |] eqn:Eo; fin.
      all: try (apply Die; [reflexivity|sa|reflexivity|apply gen_set_gen_same]).
      * (* yield *)
        eapply dinv_only; [exact L1|reflexivity|sa|]. unfold dj. rewrite Lf. split.
        -- intros pc' G'. rewrite gen_set_gen_same in G'. inversion G'; subst pc'.
           exists pc, older. split; [reflexivity|]. rewrite evs_set_gen. exact Ev.
        -- intro X. change (get_done (set_gen s1 i (GSusp (S pc))) i) with (get_done s1 i) in X. contradiction.
      * (* return rv *)
        eapply dinv_only; [exact L1|reflexivity|sa|]. unfold dj. rewrite Lf. split.
        -- intros pc' G'. rewrite gen_set_done, gen_set_gen_same in G'. discriminate.
        -- rewrite get_done_same. intro X.
           change (get_done (emit (emit s1 Clean i) Exit i) i) with (get_done s1 i) in X.
           assert (rv = RTrue).
           { destruct k, rv; cbn in X; try discriminate; try reflexivity; contradiction. }
           subst rv. exists pc, older. split; [|exact Eo].
           rewrite evs_set_done, evs_set_gen, evs_emit_same by reflexivity.
           rewrite evs_emit_same by reflexivity. now rewrite Ev.
      * (* yield *)
        eapply dinv_only; [exact L1|reflexivity|sa|]. unfold dj. rewrite Lf. split.
        -- intros pc' G'. rewrite gen_set_gen_same in G'. inversion G'; subst pc'.
           exists pc, older. split; [reflexivity|]. rewrite evs_set_gen. exact Ev.
        -- intro X. change (get_done (set_gen s1 i (GSusp (S pc))) i) with (get_done s1 i) in X. contradiction.
      * (* return rv *)
        eapply dinv_only; [exact L1|reflexivity|sa|]. unfold dj. rewrite Lf. split.
        -- intros pc' G'. rewrite gen_set_done, gen_set_gen_same in G'. discriminate.
        -- rewrite get_done_same. intro X.
           change (get_done (emit (emit s1 Clean i) Exit i) i) with (get_done s1 i) in X.
           assert (rv = RTrue).
           { destruct k, rv; cbn in X; try discriminate; try reflexivity; contradiction. }
           subst rv. exists pc, older. split; [|exact Eo].
           rewrite evs_set_done, evs_set_gen, evs_emit_same by reflexivity.
           rewrite evs_emit_same by reflexivity. now rewrite Ev.
    + (* gen_send *)
      rename H0 into L, H1 into E. rewrite gen_send_S in E.
      destruct (get_gen s i) eqn:G; try (fin; assumption).
      assert (Df : defs s = D) by apply L. rewrite Df in E.
      destruct (get D i) as [[k script|t0 always kids]|] eqn:Gi; [| |fin; assumption].
      * destruct (susp_shape s i k script pc L Gi G) as (n & older & -> & Ev).
        assert (Nd : get_done s i <> Some true) by (eapply run_not_true; eassumption).
        assert (L0 : DInv (emit (set_gen s i (GRun (S n))) Recur i)).
        { eapply dl_quiet; [exact Gi|exact L|reflexivity|sa|exact Nd|].
          intros pc. rewrite gen_emit, gen_set_gen_same. discriminate. }
        eapply (Irs _ i k script (S n) older); [exact L0|exact Gi| | |exact E].
        -- rewrite gen_emit. apply gen_set_gen_same.
        -- rewrite evs_emit_same by reflexivity. rewrite evs_set_gen, Ev. reflexivity.
      * cbv zeta in E.
        destruct (recur_pass tk f _ i) as [s2 r0] eqn:Ee.
        destruct r0; cbv beta iota zeta in E;
          try (match type of E with (if ?c then _ else _) = _ => destruct c end); fin;
          goD Ist Isd Icl Ico Ili Ieo Iel Ief Irp Irl.
    + (* gen_close *)
      rename H0 into L. rewrite gen_close_S.
      destruct (get_gen s i) eqn:G; try assumption.
      assert (Df : defs s = D) by apply L. rewrite Df.
      destruct (get D i) as [[k script|t0 always kids]|] eqn:Gi; [| |assumption].
      * destruct (susp_shape s i k script pc L Gi G) as (n & older & -> & Ev).
        assert (Nd : get_done s i <> Some true) by (eapply run_not_true; eassumption).
        eapply dl_quiet; [exact Gi|exact L|reflexivity|sa|exact Nd|].
        intro pc. rewrite gen_set_gen_same. discriminate.
      * cbv zeta. goD Ist Isd Icl Ico Ili Ieo Iel Ief Irp Irl.
    + rewrite close_own_S. cbv zeta. goD Ist Isd Icl Ico Ili Ieo Iel Ief Irp Irl.
    + rewrite close_list_S. brk; goD Ist Isd Icl Ico Ili Ieo Iel Ief Irp Irl.
    + rewrite enter_own_S in *. brk; fin; goD Ist Isd Icl Ico Ili Ieo Iel Ief Irp Irl.
    + rewrite enter_local_S in *. brk; fin; goD Ist Isd Icl Ico Ili Ieo Iel Ief Irp Irl.
    + rewrite run_effects_S in *. brk; fin; goD Ist Isd Icl Ico Ili Ieo Iel Ief Irp Irl.
    + rewrite recur_pass_S in *. cbv zeta in *. goD Ist Isd Icl Ico Ili Ieo Iel Ief Irp Irl.
    + rewrite recur_loop_S in *. brk; fin; goD Ist Isd Icl Ico Ili Ieo Iel Ief Irp Irl.
Qed.

End Done.

(* ---------- local facts about done flags ---------- *)
Section DoneLocal.
Context {T : Type} `{Time T}.
Implicit Types s : st T.
Variable tk : T.

(* enter (of the root, of a DoDoer, of extend): done := False before the doer is started *)
Lemma enter_own_sets_false f s sid i rest :
  enter_own tk (S f) s sid (i :: rest) =
  let '(s1, r) := gen_start tk f (set_done s i (Some false)) i in
  match r with
  | GYield _ => enter_own tk f (set_deeds s1 sid (deeds (get_sched s1 sid) ++ [DDeed i (tyme s1)])) sid rest
  | GReturn => enter_own tk f s1 sid rest
  | GRaise kbd => (s1, GRaise kbd)
  | GFuel => (s1, GFuel)
  end.
Proof. rewrite enter_own_S. reflexivity. Qed.

Lemma enter_local_sets_false f s i rest acc :
  enter_local tk (S f) s (i :: rest) acc =
  let '(s1, r) := gen_start tk f (set_done s i (Some false)) i in
  match r with
  | GYield _ => enter_local tk f s1 rest (acc ++ [DDeed i (tyme s1)])
  | GReturn => enter_local tk f s1 rest acc
  | GRaise kbd => (close_list tk f s1 (rev acc), GRaise kbd, [])
  | GFuel => (s1, GFuel, acc)
  end.
Proof. rewrite enter_local_S. reflexivity. Qed.

(* one resumption of a leaf: the flag is written exactly when the step returns by itself,
   and then it is done_after kind r old; every other outcome leaves all flags alone *)
Lemma run_step_done f s i k sc pc s' r :
  run_step tk (S f) s i k sc pc = (s', r) ->
  let s1 := fst (run_effects tk f s i (f_es (nth pc sc default_step))) in
  match snd (run_effects tk f s i (f_es (nth pc sc default_step))), f_out (nth pc sc default_step) with
  | GFuel, _ | GRaise _, _ => dones s' = dones s1
  | _, OReturn rv => get_done s' i = done_after k rv (get_done s1 i) /\
                     (forall j, j <> i -> get_done s' j = get_done s1 j) /\ r = GReturn
  | _, _ => dones s' = dones s1
  end.
Proof.
  rewrite run_step_S. cbv zeta.
  destruct (run_effects tk f s i _) as [s1 r0]. cbn [fst snd].
  destruct r0 as [t0| |kbd|]; intro E.
  - destruct (f_out _); inversion E; subst; try reflexivity.
    split; [apply get_done_same|]. split; [|reflexivity]. intros j Hj. now rewrite get_done_other.
  - destruct (f_out _); inversion E; subst; try reflexivity.
    split; [apply get_done_same|]. split; [|reflexivity]. intros j Hj. now rewrite get_done_other.
  - inversion E; subst. destruct kbd; reflexivity.
  - inversion E; subst. reflexivity.
Qed.

(* forced close (dog.close() of a doer, exit() of a scheduler) never touches a done flag *)
Lemma close_keeps_dones f s :
  (forall i, dones (gen_close tk f s i) = dones s) /\
  (forall sid, dones (close_own tk f s sid) = dones s) /\
  (forall ds, dones (close_list tk f s ds) = dones s).
Proof.
  split; [|split]; intros.
  - apply (gen_close_closes tk f s i).
  - apply (close_own_closes tk f s sid).
  - apply (close_list_closes tk f s ds).
Qed.

(* one recur of a DoDoer whose pass does not raise: its flag becomes "my deque is empty";
   it returns (Clean, exit of nothing, Exit) exactly when the deque is empty and it is not `always` *)
Lemma gen_send_nest_done f s i pc t0 al kids s' r :
  get_gen s i = GSusp pc -> get (defs s) i = Some (FNest t0 al kids) ->
  gen_send tk (S f) s i = (s', r) ->
  let s2 := fst (recur_pass tk f (emit (set_gen s i (GRun pc)) Recur i) i) in
  let empty := match deeds (get_sched s2 i) with [] => true | _ => false end in
  pass_ok (snd (recur_pass tk f (emit (set_gen s i (GRun pc)) Recur i) i)) = true ->
  get_done s' i = Some empty /\ (r = GReturn <-> (empty = true /\ al = false)).
Proof.
  intros G Df E. rewrite gen_send_S, G, Df in E. cbv zeta in *.
  destruct (recur_pass tk f _ i) as [s2 r0]. cbn [fst snd]. intro Ok.
  assert (Fin : forall sx e, get_done (set_gen (emit (close_own tk f (emit (set_done sx i (Some e)) Clean i) i) Exit i) i GDone) i = Some e).
  { intros sx e. change (get_done (set_gen (emit ?a _ _) _ _) ?j) with (get_done a j).
    rewrite (closes_done _ _ i (close_own_closes tk f _ i)). apply get_done_same. }
  destruct r0 as [t1| |kb|]; try discriminate; cbv beta iota zeta in E.
  - destruct (deeds (get_sched s2 i)) eqn:Ed; destruct al; cbn [andb negb] in E; inversion E; subst;
      (split; [first [apply Fin|apply get_done_same]|]); split; intro X; try discriminate; try reflexivity;
      try (split; reflexivity); destruct X; discriminate.
  - destruct (deeds (get_sched s2 i)) eqn:Ed; destruct al; cbn [andb negb] in E; inversion E; subst;
      (split; [first [apply Fin|apply get_done_same]|]); split; intro X; try discriminate; try reflexivity;
      try (split; reflexivity); destruct X; discriminate.
Qed.

End DoneLocal.

(* ---------- whole runs ---------- *)
Section DoneRun.
Context {T : Type} `{Time T}.
Implicit Types s : st T.

Lemma dinv_init (p : prog T) rootx : DInv (p_defs p) rootx (init_st p).
Proof.
  split; [reflexivity|]. intro i. unfold dj.
  assert (Nd : get_done (init_st p) i <> Some true).
  { unfold get_done, init_st; cbn [dones get]. destruct (N.eqb i 0); discriminate. }
  destruct (get (p_defs p) i) as [[k sc|t al kids]|]; [|exact I|intros _; exact Nd].
  split; [|intro X; contradiction].
  intros pc G. unfold get_gen, init_st in G; cbn [gens get] in G. discriminate.
Qed.

Lemma dinv_weaken D s : DInv D false s -> DInv D true s.
Proof.
  intros (Df & A). split; [exact Df|]. intro i. specialize (A i). unfold dj in *.
  destruct (get D i) as [[k sc|t al kids]|]; try exact A.
  intros [X|X]; [discriminate|]. apply A. now right.
Qed.

(* do() writing the root's own flag *)
Lemma dinv_root_done D s d : get D 0%N = None -> DInv D true s -> DInv D true (set_done s 0%N d).
Proof.
  intros R L. eapply (dinv_only D true 0%N); [exact L|reflexivity| |].
  - intros j Hj. split; [reflexivity|]. split; [reflexivity|]. now apply get_done_other.
  - unfold dj. rewrite R. intros [X|X]; [discriminate|congruence].
Qed.

Lemma dinv_top D rootx s k : is_life k = false -> DInv D rootx s -> DInv D rootx (emit s k 0%N).
Proof.
  intros K L. eapply dinv_all; [exact L|reflexivity|]. intro j.
  split; [reflexivity|]. split; [now apply evs_emit_nonlife|reflexivity].
Qed.

Lemma dinv_recur_pass tk D rootx fuel s sid s' r :
  DInv D rootx s -> recur_pass tk fuel s sid = (s', r) -> DInv D rootx s'.
Proof. intros L E. destruct (dinv_allf tk D rootx fuel) as (_ & _ & _ & _ & _ & _ & _ & _ & _ & Irp & _). eapply Irp; eassumption. Qed.
Lemma dinv_close_own tk D rootx fuel s sid : DInv D rootx s -> DInv D rootx (close_own tk fuel s sid).
Proof. intros L. destruct (dinv_allf tk D rootx fuel) as (_ & _ & _ & _ & Ico & _). now apply Ico. Qed.
Lemma dinv_enter_own tk D rootx fuel s sid ids s' r :
  DInv D rootx s -> enter_own tk fuel s sid ids = (s', r) -> DInv D rootx s'.
Proof. intros L E. destruct (dinv_allf tk D rootx fuel) as (_ & _ & _ & _ & _ & _ & Ieo & _). eapply Ieo; eassumption. Qed.

Lemma cycle_loop_dinv tk D cycles : forall fuel s limit stop,
  get D 0%N = None -> DInv D true s -> DInv D true (cycle_loop tk cycles fuel s limit stop).
Proof.
  induction cycles as [|c IH]; intros fuel s limit stop R L; cbn [cycle_loop]; [now apply dinv_oof|].
  destruct (recur_pass tk fuel s 0%N) as [s1 r] eqn:E.
  assert (L1 : DInv D true s1) by (eapply dinv_recur_pass; eassumption).
  assert (End : forall s k, is_life k = false -> DInv D true s -> DInv D true (emit (close_own tk fuel s 0%N) k 0%N)).
  { intros s0 k K L0. apply dinv_top; [exact K|]. now apply dinv_close_own. }
  assert (Tick : DInv D true
      (let s2 := set_tyme s1 (tadd (tyme s1) tk) in
       match deeds (get_sched s2 0%N) with
       | [] => emit (close_own tk fuel (set_done s2 0%N (Some true)) 0%N) DoReturn 0%N
       | _ => if (match limit with Some l => negb (tfalsy l) | None => false end) && tleb stop (tyme s2)
              then emit (close_own tk fuel s2 0%N) DoReturn 0%N
              else cycle_loop tk c fuel s2 limit stop
       end)).
  { cbv zeta. assert (L2 : DInv D true (set_tyme s1 (tadd (tyme s1) tk))) by now apply dinv_tyme.
    destruct (deeds _).
    - apply End; [reflexivity|]. now apply dinv_root_done.
    - destruct (_ && _); [now apply End|now apply IH]. }
  destruct r as [t| |[|]|]; try exact Tick; try (apply End; [reflexivity|exact L1]). exact L1.
Qed.

(* the done-flag invariant holds in the final state of every run of a program in which
   no doer is numbered 0 *)
Theorem do_run_dinv cycles fuel (p : prog T) :
  get (p_defs p) 0%N = None -> DInv (p_defs p) true (do_run cycles fuel p).
Proof.
  intro R. unfold do_run.
  destruct (enter_own (p_tock p) fuel (init_st p) 0%N (p_doers p)) as [s1 r] eqn:E.
  assert (L1 : DInv (p_defs p) true s1) by (eapply dinv_enter_own; [apply dinv_init|exact E]).
  destruct r as [t| |k|]; try exact L1.
  - apply cycle_loop_dinv; [exact R|now apply dinv_rlive].
  - apply cycle_loop_dinv; [exact R|now apply dinv_rlive].
  - apply dinv_top; [reflexivity|]. now apply dinv_close_own.
Qed.

End DoneRun.

(* ---------- the root flag at the cycle boundaries ---------- *)
Section RootFlag.
Context {T : Type} `{Time T}.

Lemma after_dinv tk D rootx fuel : forall k (s : st T), DInv D rootx s -> DInv D rootx (after tk fuel s k).
Proof.
  induction k as [|k IH]; intros s L; [exact L|]. cbn [after]. apply IH. unfold cycle_end.
  destruct (recur_pass tk fuel s 0%N) as [s1 r] eqn:E. cbn [fst]. apply dinv_tyme.
  eapply dinv_recur_pass; eassumption.
Qed.

Lemma entered_dinv fuel (p : prog T) rootx : DInv (p_defs p) rootx (entered fuel p).
Proof.
  unfold entered. destruct (enter_own (p_tock p) fuel (init_st p) 0%N (p_doers p)) as [s1 r] eqn:E. cbn [fst].
  apply dinv_rlive. eapply dinv_enter_own; [apply dinv_init|exact E].
Qed.

(* no doer is numbered 0  =>  before do() itself sets it, the root flag is never True *)
Theorem root_flag_not_true fuel (p : prog T) k :
  get (p_defs p) 0%N = None -> get_done (after (p_tock p) fuel (entered fuel p) k) 0%N <> Some true.
Proof.
  intro R. destruct (after_dinv (p_tock p) (p_defs p) false fuel k _ (entered_dinv fuel p false)) as (_ & A).
  specialize (A 0%N). unfold dj in A. rewrite R in A. apply A. now left.
Qed.

End RootFlag.
