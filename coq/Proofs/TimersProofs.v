(* Proofs about Model/Timers.v.
   Part 1: structural facts for every [Time] instance (hence also binary64).
   Part 2: facts under [TimeLaws] (lossless restart, no drift).
   Part 3: exact time (Z): closed forms, MonoTimer monotonicity for any clock. *)
From Coq Require Import ZifyBool.
From Hio Require Import Base.Prelude Base.Time Model.Timers.

(* ================================================================== Part 1 *)
Section Generic.
Context {T : Type} `{Time T}.

(* what a read of property k reports at tyme n for start st, stop sp *)
Definition report (k : rd) (st sp n : T) : val T :=
  match k with
  | RDuration => VT (tsub sp st)
  | RElapsed => VT (tsub n st)
  | RRemaining => VT (tsub sp n)
  | RExpired => VB (tleb sp n)
  end.

Lemma y_read_spec : forall (s : tymer T) st n k,
  y_start s = Some st ->
  y_read s (Some n) k = Ok (report k st (y_stop s) n).
Proof.
  intros s st n k Hs. unfold y_read, y_duration, osub. rewrite Hs. destruct k; reflexivity.
Qed.

Definition wound (ops : list (option T * yop T)) : Prop :=
  Forall (fun p => fst p <> None) ops.

Definition dur_or (dur : option T) (d : T) : T := match dur with Some x => x | None => d end.

Lemma y_begin_spec : forall (s : tymer T) st now dur start at_,
  y_start s = Some st ->
  match start with Some x => Some x | None => now end = Some at_ ->
  y_begin s now dur start =
    ({| y_start := Some at_; y_stop := tadd at_ (dur_or dur (tsub (y_stop s) st)) |}, Ok (VT at_)).
Proof.
  intros s st now dur start at_ Hs Hat. unfold y_begin, y_duration, osub. rewrite Hs, Hat.
  destruct dur; reflexivity.
Qed.

(* restart: next period begins at the previous stop, whatever the tyme (even unwound) *)
Lemma y_restart_spec : forall (s : tymer T) st now dur,
  y_start s = Some st ->
  y_step s now (YRestart dur) =
    ({| y_start := Some (y_stop s);
        y_stop := tadd (y_stop s) (dur_or dur (tsub (y_stop s) st)) |}, Ok (VT (y_stop s))).
Proof.
  intros. cbn [y_step]. unfold y_restart. erewrite y_begin_spec; eauto.
Qed.

Lemma y_init_spec : forall now dur start,
  let st := match start with Some x => x | None => match now with Some n => n | None => tzero end end in
  y_init now dur start = {| y_start := Some st; y_stop := tadd st (dur_or dur tzero) |}.
Proof. intros. unfold y_init, y_begin. destruct dur; reflexivity. Qed.

Lemma y_step_wound : forall (s : tymer T) n o st,
  y_start s = Some st ->
  (exists st', y_start (fst (y_step s (Some n) o)) = Some st') /\
  (exists v, snd (y_step s (Some n) o) = Ok v).
Proof.
  intros s n o st Hs. destruct o as [dur start | dur | | k].
  - cbn [y_step].
    erewrite (y_begin_spec s st (Some n) dur start (match start with Some x => x | None => n end)); eauto.
    + cbn. eauto.
    + destruct start; reflexivity.
  - rewrite (y_restart_spec s st); auto. cbn. eauto.
  - cbn [y_step]. erewrite (y_begin_spec s st (Some n) None None n); eauto. cbn. eauto.
  - cbn [y_step fst snd]. rewrite (y_read_spec s st); eauto.
Qed.

Lemma y_final_wound : forall ops (s : tymer T) st,
  y_start s = Some st -> wound ops -> exists st', y_start (y_final s ops) = Some st'.
Proof.
  induction ops as [|[now o] r IH]; intros s st Hs Hw; cbn [y_final].
  - eauto.
  - inversion Hw as [|? ? Hn Hr]; subst. cbn in Hn. destruct now as [n|]; [|congruence].
    destruct (y_step_wound s n o st Hs) as [[st' Hs'] _]. eapply IH; eauto.
Qed.

Lemma y_run_wound_ok : forall ops (s : tymer T) st,
  y_start s = Some st -> wound ops -> Forall (fun p => exists v, fst p = Ok v) (y_run s ops).
Proof.
  induction ops as [|[now o] r IH]; intros s st Hs Hw; cbn [y_run].
  - constructor.
  - inversion Hw as [|? ? Hn Hr]; subst. cbn in Hn. destruct now as [n|]; [|congruence].
    destruct (y_step_wound s n o st Hs) as [[st' Hs'] [v Hv]].
    destruct (y_step s (Some n) o) as [s' v'] eqn:E. cbn in *. constructor; eauto.
Qed.

(* After any constructor and any sequence of ops of a wound Tymer, a read at any
   tyme n reports the formula over the current _start/_stop and changes nothing. *)
Lemma y_reads_after_any_history : forall now0 dur0 start0 ops n k,
  wound ops ->
  let s := y_final (y_init now0 dur0 start0) ops in
  exists st, y_start s = Some st /\
    y_step s (Some n) (YRead k) = (s, Ok (report k st (y_stop s) n)).
Proof.
  intros now0 dur0 start0 ops n k Hw s.
  destruct (y_final_wound ops (y_init now0 dur0 start0) _ (f_equal y_start (y_init_spec now0 dur0 start0)) Hw)
    as [st Hst].
  exists st. split; [exact Hst|]. cbn [y_step]. fold s. rewrite (y_read_spec s st); auto.
Qed.

(* and a restart there begins at the previous stop *)
Lemma y_restart_after_any_history : forall now0 dur0 start0 ops now dur,
  wound ops ->
  let s := y_final (y_init now0 dur0 start0) ops in
  exists st, y_start s = Some st /\
    y_step s now (YRestart dur) =
      ({| y_start := Some (y_stop s);
          y_stop := tadd (y_stop s) (dur_or dur (tsub (y_stop s) st)) |}, Ok (VT (y_stop s))).
Proof.
  intros now0 dur0 start0 ops now dur Hw s.
  destruct (y_final_wound ops (y_init now0 dur0 start0) _ (f_equal y_start (y_init_spec now0 dur0 start0)) Hw)
    as [st Hst].
  exists st. split; [exact Hst|]. apply y_restart_spec. exact Hst.
Qed.

(* ---- Timer: the same over clock readings; which calls consume a reading ---- *)

Lemma w_read_spec : forall (s : timer T) r c k,
  w_step s (r :: c) (WRead k) =
    (s, match k with RDuration => r :: c | _ => c end, Ok (report k (w_start s) (w_stop s) r)).
Proof. intros. destruct k; reflexivity. Qed.

Lemma w_restart_spec : forall (s : timer T) c dur,
  w_step s c (WRestart dur) =
    ({| w_start := w_stop s;
        w_stop := tadd (w_stop s) (dur_or dur (tsub (w_stop s) (w_start s))) |}, c, Ok (VT (w_stop s))).
Proof. intros. destruct dur; reflexivity. Qed.

Lemma w_start_spec : forall (s : timer T) r c dur start,
  w_step s (r :: c) (WStart dur start) =
    let at_ := match start with Some x => x | None => r end in
    ({| w_start := at_; w_stop := tadd at_ (dur_or dur (tsub (w_stop s) (w_start s))) |},
     match start with Some _ => r :: c | None => c end, Ok (VT at_)).
Proof. intros. destruct dur, start; reflexivity. Qed.

(* the constructor reads the clock twice when no start is given and keeps the second reading *)
Lemma w_init_spec : forall r1 r2 c dur,
  w_init (r1 :: r2 :: c) dur None = ({| w_start := r2; w_stop := tadd r2 dur |}, c).
Proof. reflexivity. Qed.
Lemma w_init_spec_start : forall c dur st,
  w_init c dur (Some st) = ({| w_start := st; w_stop := tadd st dur |}, c).
Proof. reflexivity. Qed.

(* AsyncTimer: the constructed period is [start, start + dur] on the timer's own
   (event-loop) clock; the wall-clock reading of the constructor never enters *)
Lemma a_init_spec : forall wall r c dur,
  a_init wall (r :: c) dur None = ({| w_start := r; w_stop := tadd r dur |}, c).
Proof. reflexivity. Qed.
Lemma a_init_spec_start : forall wall c dur st,
  a_init wall c dur (Some st) = ({| w_start := st; w_stop := tadd st dur |}, c).
Proof. reflexivity. Qed.

(* ---- MonoTimer: start/restart are Timer's and leave _last alone ---- *)
Lemma m_restart_spec : forall (s : mono T) c dur,
  m_step s c (MRestart dur) =
    ({| m_start := m_stop s;
        m_stop := tadd (m_stop s) (dur_or dur (tsub (m_stop s) (m_start s)));
        m_last := m_last s; m_retro := m_retro s |}, c, Ok (VT (m_stop s))).
Proof. intros. destruct dur; reflexivity. Qed.

Lemma m_init_spec : forall r1 r2 c dur retro,
  m_init (r1 :: r2 :: c) dur None retro =
    ({| m_start := r2; m_stop := tadd r2 dur; m_last := r1; m_retro := retro |}, c).
Proof. reflexivity. Qed.

(* observations of a run *)
Definition m_obs (s : mono T) (c : clock T) (ops : list (mop T)) : list (res (val T)) :=
  map fst (fst (m_run s c ops)).

Lemma m_obs_cons : forall s c o r,
  m_obs s c (o :: r) = snd (m_step s c o) :: m_obs (fst (fst (m_step s c o))) (snd (fst (m_step s c o))) r.
Proof.
  intros. unfold m_obs. cbn [m_run]. destruct (m_step s c o) as [[s' c'] v]. cbn [fst snd].
  destruct (m_run s' c' r). reflexivity.
Qed.

End Generic.

(* ================================================================== Part 2 *)
Section Laws.
Context {T : Type} `{TimeLaws T}.

Lemma tsub_tadd_l : forall a d : T, tsub (tadd a d) a = d.
Proof. intros. rewrite tadd_comm. apply tsub_add. Qed.

(* a + d + ... + d  (k times) *)
Fixpoint tnth (k : nat) (a d : T) : T :=
  match k with O => a | S k => tadd (tnth k a d) d end.

Lemma tnth_shift : forall k a d, tnth k (tadd a d) d = tnth (S k) a d.
Proof. induction k; intros; cbn [tnth]; [reflexivity|]. rewrite IHk. reflexivity. Qed.

(* restart without a duration keeps the duration exactly *)
Lemma y_restart_lossless : forall (s : tymer T) a d now,
  y_start s = Some a -> y_stop s = tadd a d ->
  fst (y_step s now (YRestart None)) = {| y_start := Some (tadd a d); y_stop := tadd (tadd a d) d |}.
Proof.
  intros s a d now Ha Hb. rewrite (y_restart_spec s a); auto. cbn [fst dur_or].
  rewrite Hb, tsub_tadd_l. reflexivity.
Qed.

Definition y_lossless_op (p : option T * yop T) : bool :=
  match snd p with YRestart None | YRead _ => true | _ => false end.
Definition y_is_restart (p : option T * yop T) : bool :=
  match snd p with YRestart _ => true | _ => false end.

(* k default restarts, at whatever tymes and interleaved with whatever reads: no drift *)
Lemma y_no_drift : forall ops (s : tymer T) a d,
  y_start s = Some a -> y_stop s = tadd a d ->
  forallb y_lossless_op ops = true ->
  let k := length (filter y_is_restart ops) in
  y_final s ops = {| y_start := Some (tnth k a d); y_stop := tadd (tnth k a d) d |}.
Proof.
  induction ops as [|[now o] r IH]; intros s a d Ha Hb Hall.
  - cbn. destruct s as [st sp]. cbn in *. subst. reflexivity.
  - cbn [forallb] in Hall. apply andb_true_iff in Hall. destruct Hall as [Ho Hr].
    cbn [y_final]. destruct o as [? ?|[?|]| |k0]; try discriminate Ho.
    + (* restart *)
      rewrite (y_restart_lossless s a d now Ha Hb).
      cbn [filter y_is_restart snd length].
      rewrite (IH {| y_start := Some (tadd a d); y_stop := tadd (tadd a d) d |} (tadd a d) d eq_refl eq_refl Hr).
      cbv zeta. rewrite tnth_shift. reflexivity.
    + (* read *)
      cbn [y_step fst filter y_is_restart snd]. apply IH; auto.
Qed.

Definition w_lossless_op (o : wop T) : bool :=
  match o with WRestart None | WRead _ => true | _ => false end.
Definition w_is_restart (o : wop T) : bool :=
  match o with WRestart _ => true | _ => false end.

Fixpoint w_final (s : timer T) (c : clock T) (ops : list (wop T)) : timer T :=
  match ops with
  | [] => s
  | o :: r => let '(s', c', _) := w_step s c o in w_final s' c' r
  end.

Lemma w_no_drift : forall ops (s : timer T) c a d,
  w_start s = a -> w_stop s = tadd a d ->
  forallb w_lossless_op ops = true ->
  let k := length (filter w_is_restart ops) in
  w_final s c ops = {| w_start := tnth k a d; w_stop := tadd (tnth k a d) d |}.
Proof.
  induction ops as [|o r IH]; intros s c a d Ha Hb Hall.
  - cbn. destruct s as [st sp]. cbn in *. subst. reflexivity.
  - cbn [forallb] in Hall. apply andb_true_iff in Hall. destruct Hall as [Ho Hr].
    cbn [w_final]. destruct o as [? ?|[?|]|k0]; try discriminate Ho.
    + rewrite w_restart_spec. cbn [dur_or filter w_is_restart length].
      rewrite Ha, Hb, tsub_tadd_l.
      rewrite (IH {| w_start := tadd a d; w_stop := tadd (tadd a d) d |} c (tadd a d) d eq_refl eq_refl Hr).
      cbv zeta. rewrite tnth_shift. reflexivity.
    + cbn [w_step]. destruct (w_read s c k0) as [c' v]. cbn [filter w_is_restart]. apply IH; auto.
Qed.

End Laws.

(* ================================================================== Part 3 *)

Lemma tnth_Z : forall k a d, @tnth Z ZTime k a d = (a + Z.of_nat k * d)%Z.
Proof.
  induction k; intros; cbn [tnth].
  - cbn. lia.
  - rewrite IHk. cbn [tadd ZTime]. lia.
Qed.

(* over exact time every state has stop = start + (stop - start) *)
Lemma y_no_drift_Z : forall ops (s : tymer Z) a,
  y_start s = Some a ->
  forallb y_lossless_op ops = true ->
  let d := (y_stop s - a)%Z in
  let k := Z.of_nat (length (filter y_is_restart ops)) in
  y_final s ops = {| y_start := Some (a + k * d)%Z; y_stop := (a + (k + 1) * d)%Z |}.
Proof.
  intros ops s a Ha Hall d k.
  rewrite (y_no_drift ops s a d Ha); auto.
  - rewrite tnth_Z. cbn [tadd ZTime]. f_equal. subst k. lia.
  - cbn [tadd ZTime]. subst d. lia.
Qed.

Lemma w_no_drift_Z : forall ops (s : timer Z) c,
  forallb w_lossless_op ops = true ->
  let a := w_start s in
  let d := (w_stop s - a)%Z in
  let k := Z.of_nat (length (filter w_is_restart ops)) in
  w_final s c ops = {| w_start := (a + k * d)%Z; w_stop := (a + (k + 1) * d)%Z |}.
Proof.
  intros ops s c Hall a d k.
  rewrite (w_no_drift ops s c a d eq_refl); auto.
  - rewrite tnth_Z. cbn [tadd ZTime]. f_equal. subst k. lia.
  - cbn [tadd ZTime]. subst d a. lia.
Qed.

(* expired exactly when now >= stop; elapsed + remaining = duration *)
Lemma report_Z : forall st sp n : Z,
  report RElapsed st sp n = VT (n - st)%Z /\
  report RRemaining st sp n = VT (sp - n)%Z /\
  (report RExpired st sp n = VB true <-> (n >= sp)%Z) /\
  (report RExpired st sp n = VB false <-> (n < sp)%Z) /\
  ((n - st) + (sp - n) = sp - st)%Z.
Proof.
  intros. cbn [report tsub tleb ZTime]. repeat split; try lia; intros.
  - injection H as H. lia.
  - f_equal. lia.
  - injection H as H. lia.
  - f_equal. lia.
Qed.

(* ---------------------------------------------------------------- MonoTimer over Z *)
Local Open Scope Z_scope.

Definition el (s : mono Z) : Z := m_last s - m_start s.     (* what elapsed would report now *)
Definition du (s : mono Z) : Z := m_stop s - m_start s.

(* one `latest`, for ANY reading: the duration is untouched, the elapsed tyme
   advances by exactly the forward movement of the clock and never goes back *)
Lemma m_latest_Z : forall (s : mono Z) c,
  let now := fst (tick c) in
  let '(s', c', r) := m_latest s c in
  c' = snd (tick c) /\ m_retro s' = m_retro s /\ du s' = du s /\
  match r with
  | Ok l => l = now /\ m_last s' = now /\ el s' = el s + Z.max 0 (now - m_last s) /\
            (m_retro s = false -> m_last s <= now)
  | Exc k => k = OtherErr /\ s' = s /\ m_retro s = false /\ now < m_last s
  end.
Proof.
  intros s c now. unfold m_latest. subst now. destruct (tick c) as [now c1]. cbn [fst snd].
  cbn [tsub tadd tltb tzero ZTime].
  destruct (Z.ltb_spec (now - m_last s) 0).
  - destruct (m_retro s) eqn:R.
    + unfold el, du. cbn. repeat split; try lia; try congruence.
    + repeat split; auto; lia.
  - unfold el, du. cbn. repeat split; try lia.
Qed.

Lemma el_mono_latest : forall (s : mono Z) c, el s <= el (fst (fst (m_latest s c))).
Proof.
  intros. pose proof (m_latest_Z s c) as L. destruct (m_latest s c) as [[s' c'] r]. cbn [fst].
  destruct L as (_ & _ & _ & L). destruct r.
  - destruct L as (_ & _ & E & _). lia.
  - destruct L as (_ & -> & _). lia.
Qed.

(* effect of every op that goes through `latest` *)
Lemma m_read_Z : forall (s : mono Z) c k,
  k <> RDuration ->
  let '(s', c', v) := m_step s c (MRead k) in
  du s' = du s /\ el s <= el s' /\ m_retro s' = m_retro s /\
  match v with
  | Exc _ => s' = s
  | Ok x =>
    match k with
    | RElapsed => x = VT (el s')
    | RExpired => x = VB (du s' <=? el s')
    | _ => True
    end
  end.
Proof.
  intros s c k Hk. cbn [m_step]. unfold m_read.
  pose proof (m_latest_Z s c) as L. pose proof (el_mono_latest s c) as M.
  destruct (m_latest s c) as [[s' c'] r]. cbn [fst] in M.
  destruct L as (_ & R & D & L).
  destruct k; try congruence; destruct r as [l|e]; cbn [bind]; repeat split; auto; try tauto.
  - destruct L as (-> & Hl & _). unfold el. cbn [tsub ZTime]. rewrite Hl. reflexivity.
  - destruct L as (-> & Hl & _). unfold el, du. cbn [tleb ZTime]. f_equal.
    rewrite <- Hl. apply Bool.eq_true_iff_eq. rewrite !Z.leb_le. lia.
Qed.

Lemma m_latest_op_Z : forall (s : mono Z) c,
  let '(s', c', v) := m_step s c MLatest in
  du s' = du s /\ el s <= el s' /\ m_retro s' = m_retro s.
Proof.
  intros s c. cbn [m_step].
  pose proof (m_latest_Z s c) as L. pose proof (el_mono_latest s c) as M.
  destruct (m_latest s c) as [[s' c'] r]. cbn [fst] in M. cbv zeta in L. cbv beta iota. tauto.
Qed.

(* The property on what a user observes.  Within a period (start()/restart()
   begin a new one) the elapsed values reported are non-decreasing and expired,
   once True, stays True — whatever the clock does.  A RetroTimerError
   (retro=False) reports nothing and changes nothing. *)
Fixpoint mono_ok (lo : option Z) (ex : bool) (tr : list (mop Z * res (val Z))) : Prop :=
  match tr with
  | [] => True
  | (o, v) :: r =>
    match o, v with
    | MStart _ _, _ | MRestart _, _ => mono_ok None false r
    | MRead RElapsed, Ok (VT e) =>
        match lo with Some e0 => e0 <= e | None => True end /\ mono_ok (Some e) ex r
    | MRead RExpired, Ok (VB b) => (ex = true -> b = true) /\ mono_ok lo (ex || b) r
    | _, _ => mono_ok lo ex r
    end
  end.

Lemma m_mono_gen : forall ops (s : mono Z) c lo ex d,
  match lo with Some e0 => e0 <= el s | None => True end ->
  (ex = true -> d <= el s /\ du s = d) ->
  mono_ok lo ex (combine ops (m_obs s c ops)).
Proof.
  induction ops as [|o r IH]; intros s c lo ex d Hlo Hex; [exact I|].
  rewrite m_obs_cons. cbn [combine mono_ok].
  destruct o as [dur start|dur|k|].
  - apply (IH _ _ None false 0); [exact I|discriminate].
  - apply (IH _ _ None false 0); [exact I|discriminate].
  - destruct k.
    + (* duration: no clock, no change *)
      cbn [m_step m_read fst snd]. apply (IH _ _ lo ex d); auto.
    + pose proof (m_read_Z s c RElapsed ltac:(discriminate)) as L.
      destruct (m_step s c (MRead RElapsed)) as [[s' c'] v]. cbn [fst snd].
      destruct L as (D & M & _ & L). destruct v as [x|e].
      * subst x. split; [destruct lo; lia|].
        apply (IH _ _ (Some (el s')) ex d); [lia|]. intros E. destruct (Hex E). split; lia.
      * subst s'. apply (IH _ _ lo ex d); auto.
    + pose proof (m_read_Z s c RRemaining ltac:(discriminate)) as L.
      destruct (m_step s c (MRead RRemaining)) as [[s' c'] v]. cbn [fst snd].
      destruct L as (D & M & _ & L).
      assert (G : mono_ok lo ex (combine r (m_obs s' c' r))).
      { apply (IH _ _ lo ex d); [destruct lo; lia|]. intros E. destruct (Hex E). split; lia. }
      destruct v as [[t|b]|e]; exact G.
    + pose proof (m_read_Z s c RExpired ltac:(discriminate)) as L.
      destruct (m_step s c (MRead RExpired)) as [[s' c'] v]. cbn [fst snd].
      destruct L as (D & M & _ & L). destruct v as [x|e].
      * subst x. split.
        { intros E. destruct (Hex E). f_equal. apply Z.leb_le. lia. }
        apply (IH _ _ lo _ (du s')); [destruct lo; lia|].
        intros E. apply orb_true_iff in E. destruct E as [E|E].
        { destruct (Hex E). split; lia. }
        { apply Z.leb_le in E. split; lia. }
      * subst s'. apply (IH _ _ lo ex d); auto.
  - pose proof (m_latest_op_Z s c) as L.
    destruct (m_step s c MLatest) as [[s' c'] v]. cbn [fst snd].
    destruct L as (D & M & _).
    assert (G : mono_ok lo ex (combine r (m_obs s' c' r))).
    { apply (IH _ _ lo ex d); [destruct lo; lia|]. intros E. destruct (Hex E). split; lia. }
    destruct v as [[t|b]|e]; exact G.
Qed.

(* ---------------------------------------------------------------- forward-only clock: MonoTimer = Timer *)

(* while the clock does not go back, MonoTimer reads exactly like Timer:
   elapsed = now - start, remaining = stop - now, expired = (stop <= now) *)
Lemma m_forward_exact : forall (s : mono Z) r c k,
  m_last s <= r -> k <> RDuration ->
  m_step s (r :: c) (MRead k) =
    ({| m_start := m_start s; m_stop := m_stop s; m_last := r; m_retro := m_retro s |}, c,
     Ok (report k (m_start s) (m_stop s) r)).
Proof.
  intros s r c k Hr Hk. cbn [m_step]. unfold m_read, m_latest. cbn [tick].
  cbn [tsub tadd tltb tzero ZTime].
  destruct (Z.ltb_spec (r - m_last s) 0); [lia|].
  replace (m_last s + (r - m_last s)) with r by lia.
  destruct k; try congruence; reflexivity.
Qed.

(* total forward movement of a reading sequence that starts from [last] *)
Fixpoint fwd (last : Z) (rs : list Z) : Z :=
  match rs with
  | [] => 0
  | r :: rs' => Z.max 0 (r - last) + fwd r rs'
  end.

Lemma last_cons_default : forall (rs : list Z) r d, last (r :: rs) d = last rs r.
Proof.
  induction rs as [|z rs IH]; intros r d; [reflexivity|].
  change (last (r :: z :: rs) d) with (last (z :: rs) d). rewrite (IH z d), (IH z r). reflexivity.
Qed.

Fixpoint m_final {T} `{Time T} (s : mono T) (c : clock T) (ops : list (mop T)) : mono T :=
  match ops with
  | [] => s
  | o :: r => let '(s', c', _) := m_step s c o in m_final s' c' r
  end.

(* retro=True: after `latest` has consumed the readings rs (any order of values),
   elapsed has grown by exactly the forward movement, the duration is unchanged *)
Lemma m_elapsed_closed_form : forall rs (s : mono Z),
  m_retro s = true ->
  let s' := m_final s rs (repeat MLatest (length rs)) in
  el s' = el s + fwd (m_last s) rs /\ du s' = du s /\ m_last s' = last rs (m_last s) /\ m_retro s' = true.
Proof.
  induction rs as [|r rs IH]; intros s R.
  - cbn. repeat split; auto; lia.
  - cbn [length repeat m_final m_step].
    pose proof (m_latest_Z s (r :: rs)) as L.
    destruct (m_latest s (r :: rs)) as [[s1 c1] v]. cbn [tick fst snd] in L.
    destruct L as (-> & R1 & D & L). destruct v as [l|e].
    + destruct L as (_ & Hl & E & _). cbn [bind].
      destruct (IH s1) as (E2 & D2 & L2 & R2); [congruence|]. cbv zeta in *.
      cbn [fwd]. rewrite E2, D2, L2, Hl, E. split; [lia|]. split; [lia|]. split; [|exact R2].
      symmetry. apply last_cons_default.
    + destruct L as (_ & _ & Rf & _). congruence.
Qed.

(* ================================================================== Part 4 *)
(* expired never reverts to False needs no exactness, only that addition is
   monotone — which rounding to nearest preserves (binary64 without nan/inf
   satisfies these three laws; Z does, below). *)
Class AddMono (T : Type) `{Time T} := {
  am_trans : forall a b c, tleb a b = true -> tleb b c = true -> tleb a c = true;
  am_add : forall a b c, tleb a b = true -> tleb (tadd a c) (tadd b c) = true;
  am_fwd : forall a d, tltb d tzero = false -> tleb a (tadd a d) = true;
}.

#[export] Instance ZAddMono : AddMono Z.
Proof. constructor; cbn [tleb tltb tadd tzero ZTime]; intros; lia. Qed.

Section Latch.
Context {T : Type} `{AddMono T}.

Definition expd (s : mono T) : bool := tleb (m_stop s) (m_last s).   (* what expired would report *)

Lemma m_latest_returns_last : forall (s : mono T) c,
  let '(s', c', r) := m_latest s c in
  match r with Ok l => l = m_last s' | Exc _ => s' = s end.
Proof.
  intros. unfold m_latest. destruct (tick c) as [now c1].
  destruct (tltb _ _); [destruct (m_retro s)|]; reflexivity.
Qed.

Lemma m_latest_latch : forall (s : mono T) c,
  expd s = true -> expd (fst (fst (m_latest s c))) = true.
Proof.
  intros s c E. unfold m_latest. destruct (tick c) as [now c1].
  destruct (tltb (tsub now (m_last s)) tzero) eqn:D.
  - destruct (m_retro s); cbn [fst]; [|exact E]. unfold expd in *. cbn. apply am_add. exact E.
  - cbn [fst]. unfold expd in *. cbn. eapply am_trans; [exact E|]. apply am_fwd. exact D.
Qed.

Definition m_is_begin (o : mop T) : bool :=
  match o with MStart _ _ | MRestart _ => true | _ => false end.

Lemma m_step_latch : forall (s : mono T) c o,
  m_is_begin o = false -> expd s = true -> expd (fst (fst (m_step s c o))) = true.
Proof.
  intros s c o Hb E. destruct o as [? ?|?|k|]; try discriminate Hb; cbn [m_step].
  - unfold m_read. pose proof (m_latest_latch s c E) as L.
    destruct k; [exact E| | |]; destruct (m_latest s c) as [[s' c'] r]; exact L.
  - pose proof (m_latest_latch s c E) as L. destruct (m_latest s c) as [[s' c'] r]. exact L.
Qed.

Lemma m_expired_value : forall (s : mono T) c,
  let '(s', c', v) := m_step s c (MRead RExpired) in
  match v with Ok x => x = VB (expd s') | Exc _ => s' = s end.
Proof.
  intros. cbn [m_step]. unfold m_read. pose proof (m_latest_returns_last s c) as L.
  destruct (m_latest s c) as [[s' c'] r]. destruct r; cbn [bind]; [subst; reflexivity|exact L].
Qed.

Fixpoint latch_ok (ex : bool) (tr : list (mop T * res (val T))) : Prop :=
  match tr with
  | [] => True
  | (o, v) :: r =>
    match o, v with
    | MStart _ _, _ | MRestart _, _ => latch_ok false r
    | MRead RExpired, Ok (VB b) => (ex = true -> b = true) /\ latch_ok (ex || b) r
    | _, _ => latch_ok ex r
    end
  end.

Lemma m_latch_gen : forall ops (s : mono T) c ex,
  (ex = true -> expd s = true) ->
  latch_ok ex (combine ops (m_obs s c ops)).
Proof.
  induction ops as [|o r IH]; intros s c ex Hex; [exact I|].
  rewrite m_obs_cons. cbn [combine latch_ok].
  destruct (m_is_begin o) eqn:B.
  - destruct o; try discriminate B; apply IH; discriminate.
  - pose proof (m_step_latch s c o B) as L.
    assert (G : latch_ok ex (combine r (m_obs (fst (fst (m_step s c o))) (snd (fst (m_step s c o))) r))).
    { apply IH. intros E. apply L, Hex, E. }
    destruct o as [? ?|?|k|]; try discriminate B.
    + destruct k; try exact G.
      pose proof (m_expired_value s c) as V.
      destruct (m_step s c (MRead RExpired)) as [[s' c'] v]. cbn [fst snd] in *.
      destruct v as [x|e]; [|exact G]. subst x. cbv beta iota. split.
      * intros E. apply L, Hex, E.
      * apply IH. intros E. apply orb_true_iff in E. destruct E as [E|E]; [apply L, Hex, E|exact E].
    + destruct (snd (m_step s c MLatest)) as [[?|?]|?]; exact G.
Qed.

End Latch.
