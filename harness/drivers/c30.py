"""C30 — running under asyncio gives the same schedule as the plain loop."""
import copy
from harness.drivers import sched_common as sc
from harness.drivers import c03, c05, c01
from harness.drivers.sched_common import (COQ_REQUIRES, COQ_CASE_TYPE, COQ_HEADER, MODELLED, shrink)

PROP = "C30"
COQ_CHECK = "SchedCase.check_pair"
COQ_CASE_TYPE = "SchedCase.case * SchedCase.case"
COQ_BRANCHES = None
SHARD = 80
RULE = ("every program of the C03 and C05 generators plus faulting and dynamic (extend/remove) programs, each run twice on "
        "the real Doist: do() and asyncio.run(ado()); both observations must equal the one model run and each other; "
        "non-trivial as in C03/C05 (positive tock different from the scheduler tock, limit not a multiple of tock, forced exits)")


def directed():
    return c03.directed() + c05.directed() + c01.directed()[:6]


def generate(rng, tier):
    n = 1 if tier == "quick" else 10
    out = c03.generate(rng, "quick")[:250 * n] if tier == "quick" else c03.generate(rng, tier)[:250 * n]
    out += c05.generate(rng, "quick")[:200] if tier == "quick" else c05.generate(rng, tier)[:200 * n]
    out += [sc.gen_static(rng, nest_depth=2, faults=True) for _ in range(80 * n)]
    for _ in range(80 * n):
        p = sc.gen_dynamic(rng, faults=(rng.random() < 0.3))
        if rng.random() < 0.4:
            p["doers_as"] = "tuple"      # any iterable of doers is accepted, by do() and by ado()
        out.append(p)
    # histories of runs on one Doist, limits that expire exactly in the completing cycle
    for _ in range(80 * n):
        p = sc.gen_static(rng, n_leaves=rng.randint(1, 3), nest_depth=0, faults=False, tocks="dyadic", limit_p=1.0)
        k = max((len(d["script"]) for d in p["defs"].values() if d["kind"] != "nest"), default=2)
        p["limit"] = p["tock"] * rng.choice([k - 2, k - 1, k, k - 1, k - 1]) or p["tock"]
        out.append(sc.add_reruns(rng, p) if rng.random() < 0.5 else p)
    # outside the Coq model (decided by the do()/ado() comparison alone): extend()/remove() issued from a doer's
    # enter context while the Doist is still entering its doers, and doers whose own exit contexts raise
    out += sc.gen_enter_effects(rng, 40 * n)
    out += sc.gen_hookraise(rng, 30 * n)
    out += sc.gen_sysexit(rng, 40 * n)      # a doer calling sys.exit(): the same forced exits and the same SystemExit
    # a Doist that already holds deeds (a hand-driven enter() and some recur()s, never exited) is then given the
    # doers again with do(doers=...) / ado(doers=...): both start from scratch
    out += sc.gen_manual(rng, 40 * n, thens=("do",))
    # the temp setting: the Doist's own and the one given to the run reach every doer's enter context alike
    for p in out:
        if not p.get("manual") and rng.random() < 0.2:
            p["temp"] = [rng.choice([None, True, False]), rng.choice([None, True, False])]
    return out


def run_impl(case):
    a = copy.deepcopy(case); a["mode"] = "do"
    b = copy.deepcopy(case); b["mode"] = "ado"
    return {"do": sc.run_prog(a), "ado": sc.run_prog(b)}


def oracle(case, obs):
    d, a = obs["do"], obs["ado"]
    for o in (d, a):
        why = sc.clock_oracle(o)
        if why:
            return ("ado(): " if o is a else "do(): ") + why
    for key in ("trace", "dones", "tyme", "scheds", "raised", "temps"):
        if d[key] != a[key]:
            if key == "trace":
                for n, (x, y) in enumerate(zip(d["trace"], a["trace"])):
                    if x != y:
                        return f"do() and ado() traces differ at event {n}: {x} vs {y}"
                return f"do() and ado() traces differ in length: {len(d['trace'])} vs {len(a['trace'])}"
            return f"do() and ado() differ in {key}: {d[key]} vs {a[key]}"
    if d["raised"].startswith("escape"):
        return f"unexpected exception escaped: {d['raised']}"
    return None


def to_coq(case, obs):
    if sc.outside_model(case):
        return None
    a = copy.deepcopy(case); a["mode"] = "do"
    b = copy.deepcopy(case); b["mode"] = "ado"
    return f"({sc.to_coq(a, obs['do'])}, {sc.to_coq(b, obs['ado'])})"


def classify(case, obs, why):
    return None


def nontrivial(case, obs):
    return c03.nontrivial(case, obs["do"]) or c05.nontrivial(case, obs["do"])


def distribution(cases, obs):
    return sc.distribution(cases, [o["do"] if isinstance(o, dict) and "do" in o else o for o in obs])
