(* Lemmas about Model/Box.v *)
From Hio Require Import Base.Prelude Model.Box.

(* ---- exen_split: the cut is the maximal common prefix that stops at far ---- *)
Definition is_split (far : nat) (nears fars c no fo : list nat) : Prop :=
  nears = c ++ no /\ fars = c ++ fo /\ ~ In far c /\
  exists n ns f fs, no = n :: ns /\ fo = f :: fs /\ (far = n \/ f <> n).

Lemma exen_split_sound : forall far nears fars c no fo,
  exen_split far nears fars = Some (c, no, fo) -> is_split far nears fars c no fo.
Proof.
  intros far nears; induction nears as [|n ns IH]; intros fars c no fo H; simpl in H.
  - discriminate.
  - destruct fars as [|f fs]; [discriminate|].
    destruct (Nat.eqb far n || negb (Nat.eqb f n)) eqn:Ec.
    + inversion H; subst; clear H. repeat split; auto.
      exists n, ns, f, fs. repeat split; auto.
      apply orb_true_iff in Ec. destruct Ec as [Ec|Ec].
      * left. now apply Nat.eqb_eq.
      * right. apply negb_true_iff, Nat.eqb_neq in Ec. exact Ec.
    + apply orb_false_iff in Ec. destruct Ec as [E1 E2].
      apply Nat.eqb_neq in E1. apply negb_false_iff, Nat.eqb_eq in E2. subst f.
      destruct (exen_split far ns fs) as [[[c' no'] fo']|] eqn:Er; [|discriminate].
      inversion H; subst; clear H.
      destruct (IH _ _ _ _ Er) as (H1 & H2 & H3 & H4).
      repeat split.
      * simpl. now f_equal.
      * simpl. now f_equal.
      * simpl. intros [Hx|Hx]; [congruence|auto].
      * exact H4.
Qed.

Lemma exen_split_complete : forall far c nears fars no fo,
  is_split far nears fars c no fo -> exen_split far nears fars = Some (c, no, fo).
Proof.
  intros far c; induction c as [|x c IH]; intros nears fars no fo (H1 & H2 & H3 & n & ns & f & fs & Hn & Hf & Hd).
  - simpl in *. subst. simpl.
    replace (Nat.eqb far n || negb (Nat.eqb f n)) with true; [reflexivity|].
    symmetry. apply orb_true_iff. destruct Hd as [Hd|Hd].
    + left. now apply Nat.eqb_eq.
    + right. apply negb_true_iff. now apply Nat.eqb_neq.
  - subst nears fars. simpl.
    assert (Hx : far <> x) by (intro; apply H3; left; congruence).
    replace (Nat.eqb far x) with false by (symmetry; now apply Nat.eqb_neq).
    rewrite Nat.eqb_refl. simpl.
    rewrite (IH (c ++ no) (c ++ fo) no fo); [reflexivity|].
    repeat split; auto.
    + intro Hc. apply H3. now right.
    + exists n, ns, f, fs. auto.
Qed.

(* ---- structural events of the pieces of a trace ---- *)
Lemma structural_app : forall a b, structural (a ++ b) = structural a ++ structural b.
Proof. intros. unfold structural. apply filter_app. Qed.

Lemma structural_acts_non : forall F k b, is_struct k = false -> structural (acts F k b) = [].
Proof.
  intros F k b H. unfold acts, structural. induction (seq 0 (cnt F k b)) as [|i l IH]; simpl; auto.
  rewrite H. exact IH.
Qed.

Lemma structural_acts_struct : forall F k b, is_struct k = true -> structural (acts F k b) = acts F k b.
Proof.
  intros F k b H. unfold acts, structural. induction (seq 0 (cnt F k b)) as [|i l IH]; simpl; auto.
  rewrite H. now f_equal.
Qed.

Lemma structural_flat_id : forall (f : nat -> list ev) l,
  (forall b, structural (f b) = f b) -> structural (flat_map f l) = flat_map f l.
Proof. intros f l H. induction l as [|b l IH]; simpl; auto. rewrite structural_app, H, IH. reflexivity. Qed.

Lemma structural_flat_nil : forall (f : nat -> list ev) l,
  (forall b, structural (f b) = []) -> structural (flat_map f l) = [].
Proof. intros f l H. induction l as [|b l IH]; simpl; auto. rewrite structural_app, H, IH. reflexivity. Qed.

Lemma structural_exdo : forall F l, structural (exdo F l) = exdo F l.
Proof. intros. apply structural_flat_id. intro. now apply structural_acts_struct. Qed.
Lemma structural_rexdo : forall F l, structural (rexdo F l) = rexdo F l.
Proof. intros. apply structural_flat_id. intro. now apply structural_acts_struct. Qed.
Lemma structural_rendo : forall F l, structural (rendo F l) = rendo F l.
Proof.
  intros. apply structural_flat_id. intro. unfold box_rendo.
  rewrite structural_app, !structural_acts_struct; auto.
Qed.
Lemma structural_endo : forall F l, structural (endo F l) = endo F l.
Proof.
  intros. apply structural_flat_id. intro. unfold box_endo.
  rewrite structural_app, !structural_acts_struct; auto.
Qed.
Lemma structural_redo : forall F l, structural (redo F l) = [].
Proof. intros. apply structural_flat_nil. intro. now apply structural_acts_non. Qed.

Lemma structural_box_predo_from : forall fs b is, structural (fst (box_predo_from fs b is)) = [].
Proof.
  intros fs b is. induction is as [|i is IH]; simpl; auto.
  destruct (fails fs b i); simpl; auto.
  destruct (box_predo_from fs b is) as [t r]. simpl in *. exact IH.
Qed.

Lemma structural_predo : forall F fs l, structural (fst (predo F fs l)) = [].
Proof.
  intros F fs l. induction l as [|b l IH]; simpl; auto.
  pose proof (structural_box_predo_from fs b (seq 0 (cnt F KPre b))) as Hb.
  unfold box_predo. destruct (box_predo_from fs b (seq 0 (cnt F KPre b))) as [t ok]. simpl in Hb.
  destruct ok; simpl; auto.
  destruct (predo F fs l) as [t' ok']. simpl in *. rewrite structural_app, Hb, IH. reflexivity.
Qed.

(* ---- the specification of a pass: the goacts are tried top-down, in
   declaration order; the first destination whose arrival boxes pass their
   preconditions is taken ---- *)
Definition fired (gos : goset) (b k : nat) : list nat :=
  match go_dest gos b k with Some d => [d] | None => [] end.
Definition box_candidates (F : forest) (gos : goset) (b : nat) : list nat :=
  flat_map (fired gos b) (seq 0 (cnt F KGo b)).
Definition candidates (F : forest) (gos : goset) (near : nat) : list nat :=
  flat_map (box_candidates F gos) (pile F near).
Definition admissible (F : forest) (fs : failset) (near d : nat) : bool :=
  match exen_split d (pile F near) (pile F d) with
  | Some (_, _, fo) => snd (predo F fs fo)
  | None => false
  end.
Definition chosen (F : forest) (fs : failset) (gos : goset) (near : nat) : option nat :=
  find (admissible F fs near) (candidates F gos near).

Lemma find_app : forall {A} (f : A -> bool) l1 l2,
  find f (l1 ++ l2) = match find f l1 with Some x => Some x | None => find f l2 end.
Proof. intros A f l1 l2. induction l1 as [|a l1 IH]; simpl; auto. destruct (f a); auto. Qed.

(* the loop state before any transition was accepted *)
Definition quiet (near : nat) (s : pst) : Prop :=
  p_endos s = [] /\ p_rendos s = [] /\ p_box s = near /\ p_transit s = false /\ p_err s = false.

(* what a loop did, relative to the candidate list it walked *)
Definition loop_post (F : forest) (fs : failset) (near : nat) (cands : list nat) (s s' : pst) : Prop :=
  (p_err s' = true /\ exists d, In d cands /\ exen_split d (pile F near) (pile F d) = None) \/
  match find (admissible F fs near) cands with
  | Some far =>
    exists c no fo scan,
      exen_split far (pile F near) (pile F far) = Some (c, no, fo) /\
      p_transit s' = true /\ p_err s' = false /\ p_box s' = far /\
      p_endos s' = fo /\ p_rendos s' = c /\ structural scan = [] /\
      p_tr s' = p_tr s ++ scan ++ exdo F (rev no) ++ rexdo F (rev c)
  | None =>
    quiet near s' /\ exists scan, structural scan = [] /\ p_tr s' = p_tr s ++ scan
  end.

Ltac tr_fin :=
  repeat split; auto;
  try (rewrite ?structural_app; repeat match goal with H : structural _ = [] |- _ => rewrite H end; reflexivity);
  try (repeat match goal with H : p_tr _ = _ |- _ => rewrite H end; cbn [emit p_tr]; rewrite <- ?app_assoc; reflexivity).

Lemma go_loop_post : forall F fs gos near b ks s,
  quiet near s ->
  loop_post F fs near (flat_map (fired gos b) ks) s (go_loop F fs gos b ks s).
Proof.
  intros F fs gos near b ks. induction ks as [|k ks IH]; intros s Hq.
  - simpl. right. split; auto. exists []. rewrite app_nil_r. auto.
  - cbn [go_loop flat_map]. unfold fired at 1. destruct (go_dest gos b k) as [dest|] eqn:Eg.
    + (* the goact returned a box *)
      destruct Hq as (Q1 & Q2 & Q3 & Q4 & Q5).
      cbn [emit p_box p_tr p_endos p_rendos p_transit p_err].
      unfold exen. rewrite Q3.
      unfold loop_post. simpl app. cbn [find].
      unfold admissible at 1.
      destruct (exen_split dest (pile F near) (pile F dest)) as [[[c no] fo]|] eqn:Es.
      * cbn [endos exdos rexdos rendos].
        pose proof (structural_predo F fs fo) as Hp.
        destruct (predo F fs fo) as [t ok]. cbn [fst snd] in *.
        destruct ok.
        -- right. exists c, no, fo, ([Ev KGo b k] ++ t).
           cbn [p_transit p_err p_box p_endos p_rendos p_tr]. tr_fin.
        -- match goal with |- context [go_loop _ _ _ _ _ ?s1] =>
             assert (Hq1 : quiet near s1) by (repeat split; auto);
             pose proof (IH s1 Hq1) as IH1 end.
           unfold loop_post in IH1. destruct IH1 as [(IE & d & Hd & Hx)|IH1];
             [left; split; auto; exists d; split; auto; now right|].
           right. cbn [p_tr] in IH1.
           destruct (find (admissible F fs near) (flat_map (fired gos b) ks)) as [far|].
           ++ destruct IH1 as (c' & no' & fo' & scan & H1 & H2 & H3 & H4 & H5 & H6 & H7 & H8).
              exists c', no', fo', ([Ev KGo b k] ++ t ++ scan). tr_fin.
           ++ destruct IH1 as (Hq' & scan & H7 & H8). split; auto.
              exists ([Ev KGo b k] ++ t ++ scan). tr_fin.
      * left. split; [reflexivity|]. exists dest. split; [now left|exact Es].
    + (* the goact returned None *)
      simpl app.
      assert (Hq1 : quiet near (emit s [Ev KGo b k])).
      { destruct Hq as (Q1 & Q2 & Q3 & Q4 & Q5). repeat split; auto. }
      pose proof (IH _ Hq1) as IH1.
      unfold loop_post in *. destruct IH1 as [IH1|IH1]; [now left|].
      right. cbn [emit p_tr] in IH1.
      destruct (find (admissible F fs near) (flat_map (fired gos b) ks)) as [far|].
      * destruct IH1 as (c' & no' & fo' & scan & H1 & H2 & H3 & H4 & H5 & H6 & H7 & H8).
        exists c', no', fo', ([Ev KGo b k] ++ scan). tr_fin.
      * destruct IH1 as (Hq' & scan & H7 & H8). split; auto.
        exists ([Ev KGo b k] ++ scan). tr_fin.
Qed.

Lemma structural_afdo : forall F b, structural (box_afdo F b) = [].
Proof. intros. now apply structural_acts_non. Qed.

Lemma box_loop_post : forall F fs gos near bs s,
  quiet near s ->
  loop_post F fs near (flat_map (box_candidates F gos) bs) s (box_loop F fs gos bs s).
Proof.
  intros F fs gos near bs. induction bs as [|b bs IH]; intros s Hq.
  - simpl. right. split; auto. exists []. rewrite app_nil_r. auto.
  - cbn [box_loop flat_map].
    assert (Hq0 : quiet near (emit s (box_afdo F b))).
    { destruct Hq as (Q1 & Q2 & Q3 & Q4 & Q5). repeat split; auto. }
    pose proof (go_loop_post F fs gos near b (seq 0 (cnt F KGo b)) _ Hq0) as G.
    pose proof (structural_afdo F b) as Haf.
    fold (box_candidates F gos b) in G.
    set (s1 := go_loop F fs gos b (seq 0 (cnt F KGo b)) (emit s (box_afdo F b))) in *.
    unfold loop_post in *. rewrite find_app.
    destruct G as [(G & d & Hd & Hx)|G].
    + rewrite G, orb_true_r. left. split; auto. exists d. split; auto. apply in_or_app. now left.
    + destruct (find (admissible F fs near) (box_candidates F gos b)) as [far|].
      * destruct G as (c & no & fo & scan & H1 & H2 & H3 & H4 & H5 & H6 & H7 & H8).
        rewrite H2. cbn [orb]. right.
        exists c, no, fo, (box_afdo F b ++ scan). cbn [emit p_tr] in H8. tr_fin.
      * destruct G as (Hq1 & scan & H7 & H8).
        assert (Hc : p_transit s1 || p_err s1 = false).
        { destruct Hq1 as (_ & _ & _ & Q4 & Q5). now rewrite Q4, Q5. }
        rewrite Hc. cbn [emit p_tr] in H8.
        destruct (IH s1 Hq1) as [(IE & d & Hd & Hx)|IH1];
          [left; split; auto; exists d; split; auto; apply in_or_app; now right|]. right.
        destruct (find (admissible F fs near) (flat_map (box_candidates F gos) bs)) as [far|].
        -- destruct IH1 as (c & no & fo & scan' & H1 & H2 & H3 & H4 & H5 & H6 & H7' & H8').
           exists c, no, fo, (box_afdo F b ++ scan ++ scan'). tr_fin.
        -- destruct IH1 as (Hq2 & scan' & H7' & H8'). split; auto.
           exists (box_afdo F b ++ scan ++ scan'). tr_fin.
Qed.

(* ---- the pass as a whole ---- *)
Theorem pass_spec : forall F fs gos near st t,
  pass F fs gos near = (st, t) ->
  (st = Crashed /\ exists d, In d (candidates F gos near) /\ exen_split d (pile F near) (pile F d) = None) \/
  match chosen F fs gos near with
  | Some far =>
    exists c no fo scan,
      exen_split far (pile F near) (pile F far) = Some (c, no, fo) /\
      st = Active far /\ structural scan = [] /\
      t = scan ++ exdo F (rev no) ++ rexdo F (rev c) ++ rendo F c ++ endo F fo ++ redo F (pile F far)
  | None =>
    st = Active near /\ exists scan, structural scan = [] /\ t = scan ++ redo F (pile F near)
  end.
Proof.
  intros F fs gos near st t Hp. unfold pass in Hp.
  set (s0 := {| p_tr := []; p_endos := []; p_rendos := []; p_box := near; p_transit := false; p_err := false |}) in *.
  assert (Hq : quiet near s0) by (repeat split; auto).
  pose proof (box_loop_post F fs gos near (pile F near) s0 Hq) as L.
  fold (candidates F gos near) in L.
  set (s := box_loop F fs gos (pile F near) s0) in *.
  unfold loop_post in L. unfold chosen.
  destruct L as [(L & Hd)|L].
  - rewrite L in Hp. inversion Hp; subst. left. split; auto.
  - right. destruct (find (admissible F fs near) (candidates F gos near)) as [far|].
    + destruct L as (c & no & fo & scan & H1 & H2 & H3 & H4 & H5 & H6 & H7 & H8).
      rewrite H3 in Hp. inversion Hp; subst st t; clear Hp.
      exists c, no, fo, scan. rewrite H4, H5, H6, H8. cbn [s0 p_tr app].
      repeat split; auto. rewrite <- !app_assoc. reflexivity.
    + destruct L as ((Q1 & Q2 & Q3 & Q4 & Q5) & scan & H7 & H8).
      rewrite Q5 in Hp. inversion Hp; subst st t; clear Hp.
      rewrite Q1, Q2, Q3, H8. split; auto. exists scan. split; auto.
Qed.

(* the exit / re-exit / re-enter / enter actions of a pass are exactly those
   of the transition taken (none when none is taken) *)
Definition nested_order (F : forest) (c no fo : list nat) : list ev :=
  exdo F (rev no) ++ rexdo F (rev c) ++ rendo F c ++ endo F fo.

Lemma structural_nested : forall F c no fo, structural (nested_order F c no fo) = nested_order F c no fo.
Proof.
  intros. unfold nested_order.
  rewrite !structural_app, structural_exdo, structural_rexdo, structural_rendo, structural_endo. reflexivity.
Qed.

Theorem pass_structural : forall F fs gos near st t,
  pass F fs gos near = (st, t) -> st <> Crashed ->
  match chosen F fs gos near with
  | Some far => exists c no fo,
      exen_split far (pile F near) (pile F far) = Some (c, no, fo) /\
      st = Active far /\ structural t = nested_order F c no fo
  | None => st = Active near /\ structural t = []
  end.
Proof.
  intros F fs gos near st t Hp Hn. destruct (pass_spec _ _ _ _ _ _ Hp) as [(Hc & _)|H]; [congruence|].
  destruct (chosen F fs gos near) as [far|].
  - destruct H as (c & no & fo & scan & H1 & H2 & H3 & H4). exists c, no, fo. repeat split; auto.
    subst t. rewrite !app_assoc. rewrite structural_app, structural_redo, app_nil_r.
    rewrite <- !app_assoc. rewrite structural_app, H3. simpl. apply structural_nested.
  - destruct H as (H1 & scan & H3 & H4). split; auto. subst t.
    rewrite structural_app, H3, structural_redo. reflexivity.
Qed.

Lemma no_crash : forall F fs gos near,
  (forall d, In d (candidates F gos near) -> exen_split d (pile F near) (pile F d) <> None) ->
  fst (pass F fs gos near) <> Crashed.
Proof.
  intros F fs gos near H Hc. destruct (pass F fs gos near) as [st t] eqn:Hp. simpl in Hc. subst st.
  destruct (pass_spec _ _ _ _ _ _ Hp) as [(_ & d & Hd & Hx)|Hs].
  - exact (H d Hd Hx).
  - destruct (chosen F fs gos near).
    + destruct Hs as (? & ? & ? & ? & _ & Hs & _). discriminate.
    + destruct Hs as (Hs & _). discriminate.
Qed.

(* start and end *)
Lemma start_spec : forall F fs first,
  let (t0, ok) := predo F fs (pile F first) in
  start F fs first =
    if ok then (Active first, t0 ++ endo F (pile F first) ++ redo F (pile F first)) else (Done false, t0).
Proof. intros. unfold start. destruct (predo F fs (pile F first)) as [t ok]. destruct ok; reflexivity. Qed.

Lemma start_structural : forall F fs first,
  structural (snd (start F fs first)) =
    if snd (predo F fs (pile F first)) then endo F (pile F first) else [].
Proof.
  intros. unfold start. pose proof (structural_predo F fs (pile F first)) as Hp.
  destruct (predo F fs (pile F first)) as [t ok]. simpl in *. destruct ok; simpl; auto.
  rewrite !structural_app, Hp, structural_endo, structural_redo, app_nil_r. reflexivity.
Qed.

(* every act list runs in declaration order *)
Lemma acts_length : forall F k b, length (acts F k b) = cnt F k b.
Proof. intros. unfold acts. now rewrite map_length, seq_length. Qed.

Lemma acts_nth : forall F k b i d, i < cnt F k b -> nth i (acts F k b) d = Ev k b i.
Proof.
  intros F k b i d H. rewrite (nth_indep _ d (Ev k b 0)) by (now rewrite acts_length).
  unfold acts. rewrite (map_nth (Ev k b) (seq 0 (cnt F k b)) 0 i). now rewrite seq_nth.
Qed.

(* ---- box trees: checked exhaustively for every forest of <= 6 boxes ---- *)
Fixpoint nodupb (l : list nat) : bool :=
  match l with [] => true | x :: l' => negb (existsb (Nat.eqb x) l') && nodupb l' end.
Lemma nodupb_NoDup : forall l, nodupb l = true -> NoDup l.
Proof.
  induction l as [|x l IH]; simpl; intros H; constructor.
  - apply andb_true_iff in H. destruct H as [H _]. apply negb_true_iff in H.
    intro Hin. assert (existsb (Nat.eqb x) l = true) by (apply existsb_exists; exists x; split; auto; apply Nat.eqb_refl).
    congruence.
  - apply IH. apply andb_true_iff in H. tauto.
Qed.
Definition memb (x : nat) (l : list nat) : bool := existsb (Nat.eqb x) l.
Definition disjointb (a b : list nat) : bool := forallb (fun x => negb (memb x b)) a.

(* (near, far) in forest F: piles duplicate-free, exen finds a cut, retained
   boxes are in neither of the other two parts, and either far is in the
   active pile and both the exit part and the entry part start at far
   (forced re-entry) or no box is both exited and entered *)
Definition pair_ok (F : forest) (near far : nat) : bool :=
  nodupb (pile F near) &&
  match exen_split far (pile F near) (pile F far) with
  | Some (c, no, fo) =>
    disjointb c no && disjointb c fo &&
    (if memb far (pile F near)
     then match no, fo with n :: _, f :: _ => Nat.eqb n far && Nat.eqb f far | _, _ => false end
     else disjointb no fo)
  | None => false
  end.
Definition forest_ok (ov : list (option nat)) : bool :=
  let F := forest_of ov [] in
  forallb (fun near => forallb (pair_ok F near) (seq 0 (length ov))) (seq 0 (length ov)).
Definition forests_le (n : nat) : list (list (option nat)) := flat_map all_overs (seq 0 (S n)).

Lemma forests_le6_ok : forallb forest_ok (forests_le 6) = true.
Proof. vm_compute. reflexivity. Qed.

(* pile and exen do not look at the act lists *)
Lemma ups_counts : forall ov un c1 c2 fuel b acc,
  ups {| overs := ov; unders := un; counts := c1 |} fuel b acc =
  ups {| overs := ov; unders := un; counts := c2 |} fuel b acc.
Proof. induction fuel; intros; simpl; auto. unfold over; simpl. destruct (nth b ov None); auto. Qed.
Lemma downs_counts : forall ov un c1 c2 fuel b,
  downs {| overs := ov; unders := un; counts := c1 |} fuel b =
  downs {| overs := ov; unders := un; counts := c2 |} fuel b.
Proof. induction fuel; intros; simpl; auto. unfold under0; simpl. destruct (nth b un []); auto. now f_equal. Qed.
Lemma pile_counts : forall ov un c1 c2 b,
  pile {| overs := ov; unders := un; counts := c1 |} b = pile {| overs := ov; unders := un; counts := c2 |} b.
Proof. intros. unfold pile, size; simpl. now rewrite (ups_counts ov un c1 c2), (downs_counts ov un c1 c2). Qed.

Lemma forests_le6_pairs : forall ov cs near far,
  In ov (forests_le 6) -> near < length ov -> far < length ov ->
  pair_ok (forest_of ov cs) near far = true.
Proof.
  intros ov cs near far Hin Hn Hf.
  pose proof forests_le6_ok as H. rewrite forallb_forall in H. specialize (H ov Hin).
  unfold forest_ok in H. rewrite forallb_forall in H.
  specialize (H near). rewrite in_seq in H. specialize (H ltac:(lia)).
  rewrite forallb_forall in H. specialize (H far). rewrite in_seq in H. specialize (H ltac:(lia)).
  unfold pair_ok in *. unfold forest_of in *.
  rewrite (pile_counts ov (unders_of ov) _ (map (fun _ => []) ov) near).
  rewrite (pile_counts ov (unders_of ov) _ (map (fun _ => []) ov) far).
  exact H.
Qed.

Lemma memb_In : forall x l, memb x l = true <-> In x l.
Proof.
  intros. unfold memb. rewrite existsb_exists. split.
  - intros (y & Hy & He). apply Nat.eqb_eq in He. now subst.
  - intros H. exists x. split; auto. apply Nat.eqb_refl.
Qed.
Lemma disjointb_spec : forall a b, disjointb a b = true -> forall x, In x a -> ~ In x b.
Proof.
  intros a b H x Hx Hb. unfold disjointb in H. rewrite forallb_forall in H.
  specialize (H x Hx). apply negb_true_iff in H. apply memb_In in Hb. congruence.
Qed.

Lemma pair_ok_spec : forall F near far, pair_ok F near far = true ->
  NoDup (pile F near) /\
  exists c no fo, exen_split far (pile F near) (pile F far) = Some (c, no, fo) /\
    (forall x, In x c -> ~ In x no /\ ~ In x fo) /\
    ((In far (pile F near) /\ hd_error no = Some far /\ hd_error fo = Some far) \/
     (~ In far (pile F near) /\ forall x, In x no -> ~ In x fo)).
Proof.
  intros F near far H. unfold pair_ok in H. apply andb_true_iff in H. destruct H as [Hn H].
  split; [now apply nodupb_NoDup|].
  destruct (exen_split far (pile F near) (pile F far)) as [[[c no] fo]|]; [|discriminate].
  exists c, no, fo. split; auto.
  apply andb_true_iff in H. destruct H as [H H3]. apply andb_true_iff in H. destruct H as [H1 H2].
  split.
  - intros x Hx. split; [eapply disjointb_spec; eauto | eapply disjointb_spec; eauto].
  - destruct (memb far (pile F near)) eqn:Em.
    + left. split; [now apply memb_In|].
      destruct no as [|n ?]; [discriminate|]. destruct fo as [|f ?]; [discriminate|].
      apply andb_true_iff in H3. destruct H3 as [A B]. apply Nat.eqb_eq in A, B. subst. auto.
    + right. split.
      * intro Hin. apply memb_In in Hin. congruence.
      * now apply disjointb_spec.
Qed.

Lemma finish_once : forall F b x,
  NoDup (pile F b) -> In x (pile F b) -> count_occ Nat.eq_dec (rev (pile F b)) x = 1.
Proof.
  intros F b x Hn Hx. apply NoDup_count_occ'.
  - now apply NoDup_rev.
  - now apply in_rev in Hx.
Qed.

Lemma chosen_none : forall F fs gos near,
  chosen F fs gos near = None <->
  forall d, In d (candidates F gos near) -> admissible F fs near d = false.
Proof.
  intros. unfold chosen. split.
  - intros H d Hd. eapply find_none; eauto.
  - intros H. destruct (find (admissible F fs near) (candidates F gos near)) as [d|] eqn:Ef; auto.
    apply find_some in Ef. destruct Ef as [Hd Ha]. rewrite (H d Hd) in Ha. discriminate.
Qed.

(* ---- piles of arbitrary well-founded forests have no duplicates ---- *)
(* every over lies strictly higher (some rank decreases towards the top) and
   the primary under of a box names that box as its over *)
Definition wf_forest (F : forest) : Prop :=
  exists rank : nat -> nat,
    (forall b o, over F b = Some o -> rank o < rank b) /\
    (forall b u, under0 F b = Some u -> over F u = Some b).

Inductive chain (F : forest) : list nat -> Prop :=
| chain_nil : chain F []
| chain_one : forall x, chain F [x]
| chain_cons : forall x y l, over F y = Some x -> chain F (y :: l) -> chain F (x :: y :: l).

Lemma chain_app : forall F l1 b l2, chain F (l1 ++ [b]) -> chain F (b :: l2) -> chain F (l1 ++ b :: l2).
Proof.
  intros F l1 b l2 H1 H2. induction l1 as [|x l1 IH]; simpl in *; auto.
  destruct l1 as [|y l1]; simpl in *.
  - inversion H1; subst. constructor; auto.
  - inversion H1; subst. constructor; auto.
Qed.

Lemma chain_snoc : forall F l o b, chain F (l ++ [o]) -> over F b = Some o -> chain F ((l ++ [o]) ++ [b]).
Proof.
  intros F l o b H Ho. rewrite <- app_assoc. simpl. apply chain_app; auto.
  constructor; auto. constructor.
Qed.

Lemma ups_acc : forall F fuel b acc, ups F fuel b acc = ups F fuel b [] ++ acc.
Proof.
  intros F fuel. induction fuel as [|f IH]; intros b acc; simpl; auto.
  destruct (over F b) as [o|]; auto.
  rewrite (IH o (o :: acc)), (IH o [o]). rewrite <- app_assoc. reflexivity.
Qed.

Lemma ups_chain : forall F fuel b, chain F (ups F fuel b [] ++ [b]).
Proof.
  intros F fuel. induction fuel as [|f IH]; intros b; simpl; [constructor|].
  destruct (over F b) as [o|] eqn:Eo; [|constructor].
  rewrite ups_acc. apply chain_snoc; auto.
Qed.

Lemma downs_chain : forall F fuel b,
  (forall b u, under0 F b = Some u -> over F u = Some b) -> chain F (b :: downs F fuel b).
Proof.
  intros F fuel. induction fuel as [|f IH]; intros b H; simpl; [constructor|].
  destruct (under0 F b) as [u|] eqn:Eu; [|constructor].
  constructor; auto.
Qed.

Lemma chain_rank : forall F rank l x y,
  (forall b o, over F b = Some o -> rank o < rank b) ->
  chain F (x :: l) -> In y l -> rank x < rank y.
Proof.
  intros F rank l. induction l as [|z l IH]; intros x y Hr Hc Hin; [contradiction|].
  inversion Hc; subst. destruct Hin as [->|Hin].
  - now apply Hr.
  - pose proof (Hr _ _ H1). pose proof (IH z y Hr H3 Hin). lia.
Qed.

Lemma chain_nodup : forall F rank l,
  (forall b o, over F b = Some o -> rank o < rank b) -> chain F l -> NoDup l.
Proof.
  intros F rank l Hr. induction l as [|x l IH]; intros Hc; constructor.
  - intro Hin. pose proof (chain_rank F rank l x x Hr Hc Hin). lia.
  - apply IH. inversion Hc; subst; auto. constructor.
Qed.

Theorem pile_nodup : forall F b, wf_forest F -> NoDup (pile F b).
Proof.
  intros F b (rank & Hr & Hu). apply (chain_nodup F rank); auto.
  unfold pile. apply chain_app; [apply ups_chain | now apply downs_chain].
Qed.

(* ---- a box's preconditions are met exactly when every preact returns a truthy value ---- *)
Lemma box_predo_truthy : forall fs b is,
  snd (box_predo_from fs b is) = forallb (fun i => truthy (preact_value fs b i)) is.
Proof.
  intros fs b is. induction is as [|i is IH]; simpl; auto.
  unfold fails. destruct (truthy (preact_value fs b i)); simpl; auto.
  destruct (box_predo_from fs b is) as [t r]. simpl in *. exact IH.
Qed.

(* ---- bx: the three ways of giving `over` build the declared tree ---- *)
(* [ds] spells every over out (explicit box or None); [ds'] leaves some of them to the default, at places where
   the current level already is the intended over *)
Inductive relaxes : option nat -> list (nat * omode) -> list (nat * omode) -> Prop :=
| rx_nil : forall l, relaxes l [] []
| rx_same : forall l b m ds ds',
    m <> MDefault -> relaxes (resolve_over l m) ds ds' -> relaxes l ((b, m) :: ds) ((b, m) :: ds')
| rx_default : forall l b m ds ds',
    m <> MDefault -> resolve_over l m = l -> relaxes l ds ds' -> relaxes l ((b, m) :: ds) ((b, MDefault) :: ds').

Lemma relaxes_build : forall l ds ds', relaxes l ds ds' -> build_from l ds' = build_from l ds.
Proof.
  intros l ds ds' H. induction H; simpl; auto.
  - now rewrite IHrelaxes.
  - rewrite H0. now rewrite IHrelaxes.
Qed.

Definition intended (m : omode) : option nat := resolve_over None m.

Lemma spelled_build : forall ds l,
  Forall (fun d => snd d <> MDefault) ds -> build_from l ds = map (fun d => (fst d, intended (snd d))) ds.
Proof.
  induction ds as [|[b m] ds IH]; intros l H; simpl; auto.
  inversion H; subst. simpl in H2. rewrite IH by auto.
  destruct m; simpl; auto. contradiction.
Qed.

Theorem bx_builds_declared : forall ds ds',
  Forall (fun d => snd d <> MDefault) ds -> relaxes None ds ds' ->
  build ds' = map (fun d => (fst d, intended (snd d))) ds.
Proof. intros ds ds' F R. unfold build. rewrite (relaxes_build _ _ _ R). now apply spelled_build. Qed.

(* a box declared with over=None resets the level: the next default box is a top-level box *)
Lemma none_resets_level : forall l ds a b,
  exists pre, build_from l (ds ++ [(a, MNone); (b, MDefault)]) = pre ++ [(a, None); (b, None)].
Proof.
  intros l ds. revert l. induction ds as [|[x m] ds IH]; intros l a b; simpl.
  - exists []. reflexivity.
  - destruct (IH (resolve_over l m) a b) as [pre Hp]. rewrite Hp. eexists ((x, resolve_over l m) :: pre). reflexivity.
Qed.

(* ---- the context rule of do / be ---- *)
Lemma verb_ctx_rule : forall explicit at_ctx dflt,
  verb_ctx explicit at_ctx dflt =
    match explicit with
    | Some e => if Nat.eqb e NATIVE then dflt else e          (* explicit nabe= wins, also nabe="endo" *)
    | None => if Nat.eqb at_ctx NATIVE then dflt else at_ctx  (* else the at() context; native = the class default *)
    end.
Proof. intros [e|] a d; reflexivity. Qed.

(* an explicit context other than native is taken whatever the act class's own default is *)
Lemma verb_ctx_explicit : forall e at_ctx dflt, e <> NATIVE -> verb_ctx (Some e) at_ctx dflt = e.
Proof.
  intros e a d H. unfold verb_ctx. destruct (Nat.eqb e NATIVE) eqn:E; auto. apply Nat.eqb_eq in E. contradiction.
Qed.
Lemma verb_ctx_at : forall at_ctx dflt, at_ctx <> NATIVE -> verb_ctx None at_ctx dflt = at_ctx.
Proof.
  intros a d H. unfold verb_ctx. destruct (Nat.eqb a NATIVE) eqn:E; auto. apply Nat.eqb_eq in E. contradiction.
Qed.

(* a statement files its act under the act's own context [S k] when nabe= says so, or when it is left out and the
   current at() context is that context (or native, when the class default is that context) *)
Definition well_declared (at_ctx : nat) (s : stmt) : Prop :=
  match s with
  | SAt _ => True
  | SAct (Some e) _ k _ => e = S k
  | SAct None d k _ => at_ctx = S k \/ (at_ctx = NATIVE /\ d = S k)
  end.

Fixpoint all_well_declared (at_ctx : nat) (ss : list stmt) : Prop :=
  match ss with
  | [] => True
  | SAt c :: ss' => all_well_declared c ss'
  | SAct e d k j :: ss' => well_declared at_ctx (SAct e d k j) /\ all_well_declared at_ctx ss'
  end.

Theorem filed_as_declared : forall ss at_ctx,
  all_well_declared at_ctx ss ->
  Forall (fun f => fst f = S (fst (snd f))) (file_from at_ctx ss).
Proof.
  induction ss as [|[c|e d k j] ss IH]; intros a H; simpl in *; auto.
  destruct H as [Hw H]. constructor; auto. simpl.
  destruct e as [e|]; simpl in Hw.
  - subst e. reflexivity.
  - destruct Hw as [->|[-> Hk]]; [reflexivity|]. unfold verb_ctx. simpl. exact Hk.
Qed.
