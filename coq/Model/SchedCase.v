(* Correspondence cases for Model/Sched.v, instantiated at binary64 time. *)
From Coq Require Import PrimFloat.
From Hio Require Import Base.Prelude Base.AMap Base.Time Model.Sched.

Definition ekind_eqb (a b : ekind) : bool :=
  match a, b with
  | Enter, Enter | Recur, Recur | Clean, Clean | Cease, Cease | Abort, Abort | Exit, Exit
  | ExtRet, ExtRet | RemRet, RemRet | DoReturn, DoReturn | DoRaise, DoRaise => true
  | _, _ => false
  end.

Record case := {
  c_prog : prog float;
  c_trace : list (ekind * N * float);          (* oldest first *)
  c_dones : list (N * option bool);
  c_tyme : float;
  c_scheds : list (N * list N * nat);          (* scheduler id, doers list, number of deeds left *)
  c_escape : bool;                             (* an exception other than the scripted ones escaped *)
  c_again : list (option float * option float); (* further runs on the same Doist: (effective limit, tyme reset) *)
  c_async : bool;                              (* the observation was made with asyncio.run(doist.ado(...)) *)
  c_fresh : list (option float * float);       (* after those, runs of the same doers under NEW Doists: (limit, tyme) *)
  c_manual : option nat;                       (* Some n: driven by hand instead: enter(), n recur()s, exit() *)
}.

Definition cycles_budget : nat := 400.
Definition fuel_budget : nat := 3000.

Definition run_case0 (c : case) : st float :=
  match c_manual c with Some n => manual_run n fuel_budget (c_prog c) | None =>
  if c_async c then
    fold_left (fun s '(l, t) => ado_again cycles_budget fuel_budget (p_tock (c_prog c)) l t s)
              (c_again c) (ado_run cycles_budget fuel_budget (c_prog c))
  else
    fold_left (fun s '(l, t) => do_again cycles_budget fuel_budget (p_tock (c_prog c)) l t s)
              (c_again c) (do_run cycles_budget fuel_budget (c_prog c))
  end.

Definition run_case (c : case) : st float :=
  fold_left (fun s '(l, t) => do_fresh cycles_budget fuel_budget (p_tock (c_prog c)) l t (p_doers (c_prog c)) s)
            (c_fresh c) (run_case0 c).

Definition ev_eqb (e : ev float) (o : ekind * N * float) : bool :=
  let '(k, i, t) := o in ekind_eqb (e_kind e) k && N.eqb (e_id e) i && float_same (e_tyme e) t.

Fixpoint trace_eqb (m : list (ev float)) (o : list (ekind * N * float)) : bool :=
  match m, o with
  | [], [] => true
  | e :: m', x :: o' => ev_eqb e x && trace_eqb m' o'
  | _, _ => false
  end.

Definition check_case (c : case) : bool :=
  let s := run_case c in
  negb (oof s) && negb (c_escape c) &&
  trace_eqb (rev (trace s)) (c_trace c) &&
  forallb (fun '(i, d) => option_eqb Bool.eqb (get_done s i) d) (c_dones c) &&
  float_same (tyme s) (c_tyme c) &&
  forallb (fun '(i, l, n) => list_eqb N.eqb (doers (get_sched s i)) l &&
                             Nat.eqb (length (deeds (get_sched s i))) n) (c_scheds c).

(* what the model computes, for replay diagnostics *)
Definition model_trace (c : case) : list (ekind * N * float) :=
  map (fun e => (e_kind e, e_id e, e_tyme e)) (rev (trace (run_case c))).

(* coverage classes of a case: which mechanisms the run exercised *)
Definition has_kind (k : ekind) (s : st float) : bool :=
  existsb (fun e => ekind_eqb (e_kind e) k) (trace s).
Definition case_branches (c : case) : list nat :=
  let s := run_case c in
  (if has_kind Clean s then [0] else []) ++ (if has_kind Cease s then [1] else []) ++
  (if has_kind Abort s then [2] else []) ++ (if has_kind ExtRet s then [3] else []) ++
  (if has_kind RemRet s then [4] else []) ++ (if has_kind DoRaise s then [5] else [6]) ++
  (if existsb (fun '(_, d) => match d with FNest _ _ _ => true | _ => false end) (p_defs (c_prog c)) then [7] else []) ++
  (match p_limit (c_prog c) with Some _ => [8] | None => [] end) ++
  (if oof s then [9] else []).
Definition n_branches : nat := 10.

(* two observations of the same program (do / ado, or flat / nested) both checked against the model *)
Definition check_pair (cc : case * case) : bool := check_case (fst cc) && check_case (snd cc).
