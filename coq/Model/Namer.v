(* Model of hio.help.naming.Namer (src/hio/help/naming.py).
   Names and addresses are N; 0 stands for a falsy argument (None or "").
   The two dicts are association lists. *)
From Hio Require Import Base.Prelude Base.AMap.

Record namer := { abn : amap N;   (* _addrByName *)
                  nba : amap N }. (* _nameByAddr *)

Definition init : namer := {| abn := []; nba := [] |}.

Inductive op :=
| Add (name addr : N)
| Rem (name addr : N)
| ChgAddr (name addr : N)
| ChgName (addr name : N)
| Clear.

Definition falsy (x : N) : bool := N.eqb x 0.

(* Every function returns the new state and the result; a raise leaves the
   state it had reached (here always the old state: all raises come first). *)
Definition add (s : namer) (name addr : N) : namer * res bool :=
  if falsy name || falsy addr then (s, Exc NamerErr) else
  match get (abn s) name with
  | Some a => if N.eqb addr a then (s, Ok false) else (s, Exc NamerErr)
  | None =>
    match get (nba s) addr with
    | Some n => if N.eqb name n then (s, Ok false) else (s, Exc NamerErr)
    | None => ({| abn := set (abn s) name addr; nba := set (nba s) addr name |}, Ok true)
    end
  end.

Definition rem (s : namer) (name addr : N) : namer * res bool :=
  if negb (falsy name) then
    match get (abn s) name with
    | None => (s, Ok false)
    | Some a =>
      let addr' := if falsy addr then a else addr in
      if negb (N.eqb addr' a) then (s, Ok false)
      else ({| abn := del (abn s) name; nba := del (nba s) addr' |}, Ok true)
    end
  else if negb (falsy addr) then
    match get (nba s) addr with
    | None => (s, Ok false)
    | Some n =>
      (* name is falsy here, so it is looked up and the mismatch test is vacuous *)
      ({| abn := del (abn s) n; nba := del (nba s) addr |}, Ok true)
    end
  else (s, Ok false).

Definition chg_addr (s : namer) (name addr : N) : namer * res bool :=
  if falsy name || falsy addr then (s, Exc NamerErr) else
  match get (abn s) name with
  | None => (s, Ok false)
  | Some old =>
    if N.eqb addr old then (s, Ok false)
    else if mem (nba s) addr then (s, Exc NamerErr)
    else ({| abn := set (abn s) name addr;
             nba := set (del (nba s) old) addr name |}, Ok true)
  end.

Definition chg_name (s : namer) (addr name : N) : namer * res bool :=
  if falsy name || falsy addr then (s, Exc NamerErr) else
  match get (nba s) addr with
  | None => (s, Ok false)
  | Some old =>
    if N.eqb name old then (s, Ok false)
    else if mem (abn s) name then (s, Exc NamerErr)
    else ({| abn := set (del (abn s) old) name addr;
             nba := set (nba s) addr name |}, Ok true)
  end.

Definition step (s : namer) (o : op) : namer * res bool :=
  match o with
  | Add n a => add s n a
  | Rem n a => rem s n a
  | ChgAddr n a => chg_addr s n a
  | ChgName a n => chg_name s a n
  | Clear => (init, Ok false)   (* returns None; reported as false *)
  end.

Fixpoint run (s : namer) (ops : list op) : namer * list (res bool) :=
  match ops with
  | [] => (s, [])
  | o :: ops' => let (s', r) := step s o in
                 let (s'', rs) := run s' ops' in (s'', r :: rs)
  end.

Definition final (ops : list op) : namer := fst (run init ops).

(* --- correspondence: a case is an op list plus what the implementation
   returned for every op and both final dicts (as key-sorted pair lists). --- *)
Record case := { c_ops : list op;
                 c_results : list (res bool);
                 c_abn : list (N * N);
                 c_nba : list (N * N) }.

Definition same_map (m : amap N) (obs : list (N * N)) : bool :=
  Nat.eqb (length m) (length obs) &&
  forallb (fun kv => option_eqb N.eqb (get m (fst kv)) (Some (snd kv))) obs.

Definition check_case (c : case) : bool :=
  let (s, rs) := run init (c_ops c) in
  list_eqb (res_eqb Bool.eqb) rs (c_results c) &&
  same_map (abn s) (c_abn c) && same_map (nba s) (c_nba c).

(* branch classifier of the last op, for generator-coverage reporting *)
Definition branch_of (s : namer) (o : op) : nat :=
  match o, snd (step s o) with
  | Add _ _, Ok true => 0 | Add _ _, Ok false => 1 | Add _ _, Exc _ => 2
  | Rem _ _, Ok true => 3 | Rem _ _, _ => 4
  | ChgAddr _ _, Ok true => 5 | ChgAddr _ _, Ok false => 6 | ChgAddr _ _, Exc _ => 7
  | ChgName _ _, Ok true => 8 | ChgName _ _, Ok false => 9 | ChgName _ _, Exc _ => 10
  | Clear, _ => 11
  end.
Fixpoint branches (s : namer) (ops : list op) : list nat :=
  match ops with
  | [] => []
  | o :: ops' => branch_of s o :: branches (fst (step s o)) ops'
  end.
Definition n_branches : nat := 12.
Definition case_branches (c : case) : list nat := branches init (c_ops c).

(* --- the constructor Namer(entries=[(name, addr); ...]): bulk load through addNameAddr; the first
   rejected entry raises out of the constructor (no object exists then). --- *)
Fixpoint construct (s : namer) (entries : list (N * N)) : res namer :=
  match entries with
  | [] => Ok s
  | (n, a) :: rest =>
    match add s n a with
    | (s', Ok _) => construct s' rest
    | (_, Exc k) => Exc k
    end
  end.

(* a case that starts with a constructor call: what it raised (if it did), else the op results and the
   final dicts as before *)
Record ccase := { cc_entries : list (N * N);
                  cc_raised : option exn;
                  cc_case : case }.

Definition check_ccase (c : ccase) : bool :=
  match construct init (cc_entries c), cc_raised c with
  | Exc k, Some k' => exn_eqb k k'
  | Ok s0, None =>
    let (s, rs) := run s0 (c_ops (cc_case c)) in
    list_eqb (res_eqb Bool.eqb) rs (c_results (cc_case c)) &&
    same_map (abn s) (c_abn (cc_case c)) && same_map (nba s) (c_nba (cc_case c))
  | _, _ => false
  end.

Definition ccase_branches (c : ccase) : list nat :=
  match construct init (cc_entries c) with
  | Ok s0 => branches s0 (c_ops (cc_case c))
  | Exc _ => [2%nat]
  end.
