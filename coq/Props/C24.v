(* C24 — Keyed durable stores match a dictionary model for all keys.
   Statements only; proofs are in Proofs/IoSub*.v, PlainProofs.v, LmdbProofs.v.

   Vocabulary (Model/Lmdb.v, Model/IoSub.v): [run kind [] ops] runs an op history through the model
   of Suber (Plain) / IoSuber (Io) / IoSetSuber (IoSet) over an initially empty LMDB sub-db and
   returns the final db and every result; [spec_run_plain] / [spec_run_io] run the same history on
   a dictionary  key -> value  /  key -> list of values  /  key -> insertion-ordered set  (a
   function from keys, updated pointwise); [tokey] joins a tuple key with '_'; [abs_io d k] is what
   the db holds under user key k.  [weights ops] counts the values ever added: the 32-hex-digit
   ordinal overflows after 2^128 - 1 of them, which every theorem excludes.

   FULL STATEMENT (false, see the three _refuted theorems):
     forall kind ops, results of [run kind [] ops] = results of the dictionary keyed by the tuple keys.
   PROVED: the same under the weakest uniform hypotheses that exclude the defective classes —
     Io/IoSet: no key, followed by the ion separator '.', starts another key ([indep2]; keys that are
               prefixes of each other such as "a"/"ab", and keys containing '.' such as "a.b"/"a.c",
               are covered);
     tuple keys: parts free of the tuple separator '_'. *)
From Hio Require Import Base.Prelude Model.Lmdb Model.IoSub
  Proofs.IoSubBlock Proofs.IoSubProofs Proofs.PlainProofs Proofs.IoSubTop Proofs.IoSubEnv.
Local Open Scope N_scope.

(* ---- plain store: full for str/bytes keys (LMDB's key domain: 1..511 bytes) ---- *)
Theorem C24_plain_dictionary : forall ops,
  Forall (fun o => plain_op o /\ badkey (tokey (op_key o)) = false) ops ->
  snd (run Plain [] ops) = spec_run_plain bytes_eqb (fun o => tokey (op_key o)) (fun _ => None) ops.
Proof. exact plain_bytes. Qed.
Print Assumptions C24_plain_dictionary.

(* ... and keyed by the tuples themselves when their parts are free of '_' *)
Theorem C24_plain_tuple_partial : forall ops,
  Forall (fun o => plain_op o /\ badkey (tokey (op_key o)) = false /\ clean_key1 (op_key o)) ops ->
  snd (run Plain [] ops) = spec_run_plain (list_eqb bytes_eqb) op_key (fun _ => None) ops.
Proof. exact plain_tuple. Qed.
Print Assumptions C24_plain_tuple_partial.

(* ---- Io / IoSet stores: one step.  abs (op d) = spec_op (abs d) with equal results, for every
   op and every db reachable ([Rel U B d s]: sorted, written by suffix() for keys of U with
   ordinals below B, and abstracting to s) ---- *)
Theorem C24_io_step_partial : forall (U : bytes -> Prop) set B d s o,
  (forall k k', U k -> U k' -> k <> k' -> indep2 k k') ->
  Rel U B d s -> U (tokey (op_key o)) -> B + weight o <= maxsuffix ->
  snd (step_io set d o) = snd (spec_io bytes_eqb set s o (tokey (op_key o))) /\
  Rel U (B + weight o) (fst (step_io set d o)) (fst (spec_io bytes_eqb set s o (tokey (op_key o)))).
Proof. intros U set B d s o HU. now apply step_io_refines. Qed.
Print Assumptions C24_io_step_partial.

(* ---- whole histories, dictionary keyed by the joined key ---- *)
Theorem C24_io_dictionary_partial : forall (U : bytes -> Prop) set ops,
  (forall k k', U k -> U k' -> k <> k' -> indep2 k k') ->
  Forall (fun o => U (tokey (op_key o))) ops -> weights ops <= maxsuffix ->
  snd (run (kind_of set) [] ops) =
    spec_run_io bytes_eqb set (fun o => tokey (op_key o)) (fun _ => []) ops.
Proof. exact io_bytes. Qed.
Print Assumptions C24_io_dictionary_partial.

(* ---- whole histories, dictionary keyed by the tuple keys: parts free of '_' and '.'
   (keys that are prefixes of each other are covered) ---- *)
Theorem C24_io_tuple_partial : forall set ops,
  Forall (fun o => clean_key (op_key o)) ops -> weights ops <= maxsuffix ->
  snd (run (kind_of set) [] ops) =
    spec_run_io (list_eqb bytes_eqb) set op_key (fun _ => []) ops.
Proof. exact io_tuple. Qed.
Print Assumptions C24_io_tuple_partial.

(* ---- operations on one key never change what another key returns ---- *)
Theorem C24_noninterference_partial : forall (U : bytes -> Prop) set B d s o k',
  (forall k k', U k -> U k' -> k <> k' -> indep2 k k') ->
  Rel U B d s -> U (tokey (op_key o)) -> U k' -> k' <> tokey (op_key o) ->
  B + weight o <= maxsuffix ->
  abs_io (fst (step_io set d o)) k' = abs_io d k' /\
  getIoVals (fst (step_io set d o)) k' = getIoVals d k'.
Proof. exact io_noninterference. Qed.
Print Assumptions C24_noninterference_partial.

(* ---- several stores in one environment (Subery: cans / drqs / dsqs are the named sub-dbs
   "cans." / "drqs." / "dsqs.").  An op on one store leaves every other named sub-db untouched,
   and inside any mixed history every store returns, and ends with, exactly what it returns and
   ends with when its own ops are run alone: the theorems above apply store by store, also when
   all stores use the same keys. ---- *)
Theorem C24_subdbs_independent : forall E k o k',
  k' <> k -> fst (estep E (k, o)) (subdb_name k') = E (subdb_name k').
Proof. exact estep_other. Qed.
Print Assumptions C24_subdbs_independent.

Theorem C24_mixed_history_projects : forall k ops E,
  proj_res k ops (snd (erun E ops)) = snd (run k (E (subdb_name k)) (proj_ops k ops)) /\
  fst (erun E ops) (subdb_name k) = fst (run k (E (subdb_name k)) (proj_ops k ops)).
Proof. exact erun_project. Qed.
Print Assumptions C24_mixed_history_projects.

Example C24_mixed_example :
  let k := [[107]] in
  snd (erun env0 [(Io, OAdd k [49]); (IoSet, OAdd k [49]); (IoSet, OAdd k [49]); (Plain, OPut k [[50]]);
                  (Io, OAdd k [49]); (IoSet, ORem k); (Io, OGet k); (IoSet, OGet k); (Plain, OGet k)]) =
  [Ok (RBool true); Ok (RBool true); Ok (RBool false); Ok (RBool true); Ok (RBool true); Ok (RBool true);
   Ok (RList [[49]; [49]]); Ok (RList []); Ok (ROpt (Some [50]))].
Proof. vm_compute. reflexivity. Qed.

(* ---- lazy value arguments.  Suber / IoSuber / IoSetSuber turn the caller's iterable of values
   into the list of serialised values BEFORE they call into Duror, i.e. the argument is evaluated
   before the operation has any effect: an argument that raises while it is consumed ([ORaise])
   leaves every store as it is, and an argument computed from the store's own content (a
   generator over get/getIter of the same or another key) is the value it had BEFORE the call, so
   such a call is the plain op with that value and the theorems above apply (the harness
   resolves it that way for the model). ---- *)
Theorem C24_raising_argument_no_effect : forall kd d k e, step kd d (ORaise k e) = (d, Exc e).
Proof. intros [] d k e; reflexivity. Qed.
Print Assumptions C24_raising_argument_no_effect.

(* ---- the full statement is false (D27) ---- *)
Definition kk : bytes := [107].                                   (* "k" *)
Definition kk0 : bytes := 107 :: 46 :: repeat 48 32.              (* "k." ++ "0"*32 *)
Definition ka : bytes := [97].                                    (* "a" *)
Definition kab : bytes := [97; 46; 98].                           (* "a.b" *)

(* a key k.<32 hex digits> sorts between the entries of k and ends k's cursor scan early *)
Theorem C24_io_hexkey_refuted : exists set ops,
  weights ops <= maxsuffix /\
  snd (run (kind_of set) [] ops) <>
    spec_run_io bytes_eqb set (fun o => tokey (op_key o)) (fun _ => []) ops.
Proof.
  exists false, [OAdd [kk] [118; 48]; OAdd [kk] [118; 49]; OAdd [kk0] [119]; OGet [kk]].
  split; [vm_compute; discriminate|]. vm_compute. discriminate.
Qed.
Print Assumptions C24_io_hexkey_refuted.

(* a key a.b sorts between the entries of a and a.<MaxSuffix>: getLast(a) finds nothing *)
Theorem C24_io_getlast_refuted : exists set ops,
  weights ops <= maxsuffix /\
  snd (run (kind_of set) [] ops) <>
    spec_run_io bytes_eqb set (fun o => tokey (op_key o)) (fun _ => []) ops.
Proof.
  exists true, [OAdd [ka] [49]; OAdd [kab] [50]; OGetLast [ka]].
  split; [vm_compute; discriminate|]. vm_compute. discriminate.
Qed.
Print Assumptions C24_io_getlast_refuted.

(* tuple keys joined by '_' collide: ("a_b","c") and ("a","b_c") *)
Theorem C24_tuplekey_refuted : exists ops,
  Forall (fun o => plain_op o /\ badkey (tokey (op_key o)) = false) ops /\
  snd (run Plain [] ops) <> spec_run_plain (list_eqb bytes_eqb) op_key (fun _ => None) ops.
Proof.
  exists [OPut [[97; 95; 98]; [99]] [[120]]; OPut [[97]; [98; 95; 99]] [[121]]; OGet [[97]; [98; 95; 99]]].
  split.
  - repeat constructor.
  - vm_compute. discriminate.
Qed.
Print Assumptions C24_tuplekey_refuted.

(* ---- non-vacuity ---- *)
(* prefix-related keys and keys containing '.' and '_' satisfy the independence hypothesis *)
Example C24_indep_example :
  indep2 [97] [97; 98] /\ indep2 [97; 98] [97; 98; 99] /\ indep2 [97; 46; 98] [97; 46; 99] /\
  indep2 [] [97] /\ indep2 [97; 95; 98] [97] /\ ~ indep2 ka kab /\ ~ indep2 kk kk0.
Proof. unfold indep2. vm_compute. repeat split; try reflexivity; intros [H1 H2]; discriminate. Qed.

(* a history over "a", "ab", "b.c" with duplicates on both stores behaves as the dictionary says *)
Example C24_history_example :
  let a := [[97]] in let ab := [[97; 98]] in let adb := [[98; 46; 99]] in
  let ops := [OAdd a [49]; OAdd ab [50]; OAdd a [49]; OPut adb [[51]; [51]; [52]]; OGet a; OGetLast a;
              OPop a; OGet ab; OGetLast adb; OPin ab [[53]; [53]]; OCnt ab; ORem a; OGet a; OGet adb] in
  snd (run Io [] ops) =
    [Ok (RBool true); Ok (RBool true); Ok (RBool true); Ok (RBool true); Ok (RList [[49]; [49]]);
     Ok (ROpt (Some [49])); Ok (ROpt (Some [49])); Ok (RList [[50]]); Ok (ROpt (Some [52]));
     Ok (RBool true); Ok (RNat 2); Ok (RBool true); Ok (RList []); Ok (RList [[51]; [51]; [52]])] /\
  snd (run IoSet [] ops) =
    [Ok (RBool true); Ok (RBool true); Ok (RBool false); Ok (RBool true); Ok (RList [[49]]);
     Ok (ROpt (Some [49])); Ok (ROpt (Some [49])); Ok (RList [[50]]); Ok (ROpt (Some [52]));
     Ok (RBool true); Ok (RNat 1); Ok (RBool false); Ok (RList []); Ok (RList [[51]; [52]])] /\
  snd (run Io [] ops) = spec_run_io bytes_eqb false (fun o => tokey (op_key o)) (fun _ => []) ops.
Proof. vm_compute. repeat split. Qed.
