"""C02 — forced exits are nested: reverse enter order, children before parent."""
from harness.drivers import sched_common as sc
from harness.drivers import c01
from harness.drivers.sched_common import (COQ_REQUIRES, COQ_CHECK, COQ_CASE_TYPE, COQ_BRANCHES, COQ_HEADER, SHARD, CASE_TIMEOUT, MODELLED,
                                          run_impl, to_coq, shrink, distribution)

PROP = "C02"
RULE = ("doer forests stopped with doers alive: limit expiry, an exception in a doer's enter or recur at every (doer, step) "
        "position of fault-free bases (so that doers on both sides of the failing one are alive), runtime remove/extend, "
        "DoDoers closed by their parent; non-trivial = at least 2 doers force-closed (Cease) in one run")


def directed():
    return c01.directed()


def generate(rng, tier):
    n = 1 if tier == "quick" else 12
    out = []
    for _ in range(200 * n):
        p = sc.gen_static(rng, n_leaves=rng.randint(2, 6), nest_depth=3, faults=True, tocks="dyadic", limit_p=0.7)
        out.append(p)
    out += c01.fault_sweep(rng, 14 * n)
    out += [sc.gen_dynamic(rng, faults=(rng.random() < 0.5)) for _ in range(250 * n)]
    out += sc.gen_broad(rng, 150 * n)
    out += sc.gen_hookraise(rng, 80 * n)
    # manual driving ending in doist.exit(); (a do() over doers whose manual run was never exited abandons the old
    # generators to the garbage collector: the scheduler did not stop them, so their order is not this property's)
    out += sc.gen_manual(rng, 60 * n, thens=("exit",))
    out += sc.gen_hook_effects(rng, 40 * n)
    sc.add_falsy(rng, out)
    return out


def _violations(case, obs):
    tr = obs["trace"]
    kinds = [k for k, _, _ in tr]
    out = []
    # membership: which scheduler each doer was entered under = scheduler running when Enter happened;
    # reconstruct from effect log is unnecessary: siblings are doers whose final scheds list contains both,
    # or that were initial siblings
    par = sc.parents(case)
    for sid, lst, _ in obs["scheds"]:
        for i in lst:
            par.setdefault(i, sid)
    # doers named in an extend belong to its target even when the extend failed half way
    for d in case["defs"].values():
        if d["kind"] != "nest":
            for st in d["script"]:
                for e in st["es"]:
                    if e[0] == "ext":
                        for i in e[2]:
                            par.setdefault(i, e[1])
    last_enter = {}
    cease_pos = {}
    exit_pos = {}
    for pos, (k, i, _) in enumerate(tr):
        if k == "Enter":
            last_enter[i] = pos
        elif k == "Cease":
            cease_pos.setdefault(i, []).append((pos, last_enter.get(i, -1)))
        elif k == "Exit":
            exit_pos.setdefault(i, []).append(pos)
    breakers = [pos for pos, k in enumerate(kinds) if k in ("Recur", "Enter", "ExtRet", "RemRet")]
    import bisect
    ids = sorted(cease_pos)
    for a in ids:
        for b in ids:
            if a >= b or par.get(a) != par.get(b) or par.get(a) is None:
                continue
            for pa, ea in cease_pos[a]:
                for pb, eb in cease_pos[b]:
                    lo, hi = min(pa, pb), max(pa, pb)
                    j = bisect.bisect_right(breakers, lo)
                    if j < len(breakers) and breakers[j] < hi:
                        continue          # different sweeps
                    # same sweep: the one entered later must be closed first
                    first, second = (a, b) if pa < pb else (b, a)
                    e_first, e_second = (ea, eb) if pa < pb else (eb, ea)
                    if e_first < e_second:
                        out.append((first, second, e_first, e_second))
    # children exit before their DoDoer
    for n in sc.nest_ids(case):
        for pos_exit in exit_pos.get(n, []):
            start = max([p for p in [last_enter.get(n, -1)]] + [-1])
            ent = max([p for p, (k, i, _) in enumerate(tr) if k == "Enter" and i == n and p < pos_exit] or [-1])
            for kid, lst in exit_pos.items():
                if par.get(kid) != n:
                    continue
                kid_enters = [p for p, (k, i, _) in enumerate(tr) if k == "Enter" and i == kid and ent < p < pos_exit]
                for ke in kid_enters:
                    if not any(ke < pe < pos_exit for pe in lst):
                        out.append(("kid-after-parent", kid, n, pos_exit))
    return out


def oracle(case, obs):
    if obs["raised"].startswith("escape"):
        return f"unexpected exception escaped do(): {obs['raised']}"
    why = sc.clock_oracle(obs)
    if why:
        return why
    tr = obs["trace"]
    if not tr or tr[-1][0] not in ("DoReturn", "DoRaise"):
        return "lifecycle events after do() ended (a still-alive doer was not exited before the run returned)"
    # every doer alive at stop exited before return: each Enter has a later Exit
    opened = {}
    for k, i, _ in tr:
        if k == "Enter":
            opened[i] = opened.get(i, 0) + 1
        elif k == "Exit":
            opened[i] = opened.get(i, 0) - 1
    bad = [i for i, n in opened.items() if n != 0]
    if bad:
        return f"doers {bad} were entered but not exited before do() ended"
    v = _violations(case, obs)
    if v:
        return f"forced exits out of reverse enter order / child after parent: {v[:3]}"
    return None


def classify(case, obs, why):
    # D43 (see C01): a doer extended into a DoDoer that its own enter step removes is never exited
    if "entered but not exited" in why or "after do() ended" in why:
        return c01.classify(case, obs, "life: " + why)
    # D3: a doer added by extend() while not-yet-run deeds remain in the current pass is placed before
    # them in all later passes, so run order and forced-exit order differ from enter order
    if "reverse enter order" not in why:
        return None
    tr = obs["trace"]
    first_recur = next((p for p, (k, _, _) in enumerate(tr) if k == "Recur"), len(tr))
    v = _violations(case, obs)
    for item in v:
        if item[0] == "kid-after-parent":
            return None
        a, b, ea, eb = item
        # one of the two was entered by a runtime extend (its Enter is after the first Recur)
        if not (ea > first_recur or eb > first_recur):
            return None
    return "D3"


def nontrivial(case, obs):
    return sum(1 for k, _, _ in obs["trace"] if k == "Cease") >= 2
