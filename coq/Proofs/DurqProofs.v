(* Proofs about the Durq / Dusq model: refinement of the FIFO / ordered-set
   reference, durable copy = memory, frame on other queues. *)
From Hio Require Import Base.Prelude Base.ListFacts Model.Lmdb Model.IoSub Model.Durq.

Lemma upd_same {A} (s : N -> A) q a : upd N.eqb s q a q = a.
Proof. unfold upd. now rewrite N.eqb_refl. Qed.
Lemma upd_other {A} (s : N -> A) q a q' : q' <> q -> upd N.eqb s q a q' = s q'.
Proof. unfold upd. intros H. destruct (N.eqb q' q) eqn:E; [apply N.eqb_eq in E; contradiction|reflexivity]. Qed.

Lemma nonempty_app_false {A} (l : list A) x : nonempty (l ++ [x]) = true.
Proof. destruct l; reflexivity. Qed.

(* ---- lists as ordered sets (byte equality) ---- *)
Lemma beq_sym a b : bytes_eqb a b = bytes_eqb b a.
Proof.
  destruct (bytes_eqb a b) eqn:E1, (bytes_eqb b a) eqn:E2; auto.
  - apply bytes_eqb_eq in E1. subst. rewrite (proj2 (bytes_eqb_eq b b) eq_refl) in E2. discriminate.
  - apply bytes_eqb_eq in E2. subst. rewrite (proj2 (bytes_eqb_eq a a) eq_refl) in E1. discriminate.
Qed.

Lemma mem_in v (m : list bytes) : existsb (bytes_eqb v) m = true <-> In v m.
Proof.
  rewrite existsb_exists. split.
  - intros [x [Hx E]]. apply bytes_eqb_eq in E. now subst.
  - intros Hx. exists v. split; auto. now apply bytes_eqb_eq.
Qed.
Lemma mem_notin v (m : list bytes) : existsb (bytes_eqb v) m = false <-> ~ In v m.
Proof.
  rewrite <- mem_in. destruct (existsb (bytes_eqb v) m); split; intros; congruence.
Qed.

Lemma dedupe_acc_notseen seen vs x : In x (dedupe_acc seen vs) -> ~ In x seen.
Proof.
  revert seen. induction vs as [|v vs IH]; intros seen; simpl; [tauto|].
  destruct (existsb (bytes_eqb v) seen) eqn:E.
  - apply IH.
  - intros [->|Hx].
    + now apply mem_notin.
    + intros Hs. apply (IH (v :: seen) Hx). now right.
Qed.

Lemma dedupe_acc_in seen vs x : In x (dedupe_acc seen vs) -> In x vs.
Proof.
  revert seen. induction vs as [|v vs IH]; intros seen; simpl; [tauto|].
  destruct (existsb (bytes_eqb v) seen); [intros H; right; eauto|].
  intros [->|H]; [now left|right; eauto].
Qed.

Lemma dedupe_acc_nodup seen vs : NoDup (dedupe_acc seen vs).
Proof.
  revert seen. induction vs as [|v vs IH]; intros seen; simpl; [constructor|].
  destruct (existsb (bytes_eqb v) seen); [apply IH|].
  constructor; [|apply IH]. intros Hin. apply dedupe_acc_notseen in Hin. apply Hin. now left.
Qed.

Lemma dedupe_acc_id seen l : NoDup l -> (forall x, In x l -> ~ In x seen) -> dedupe_acc seen l = l.
Proof.
  revert seen. induction l as [|v l IH]; intros seen ND Hs; simpl; [reflexivity|].
  inversion ND as [|? ? Hv ND']; subst.
  assert (E : existsb (bytes_eqb v) seen = false) by (apply mem_notin; apply Hs; now left).
  rewrite E. f_equal. apply IH; auto.
  intros x Hx [->|Hin]; [contradiction|]. apply (Hs x); [now right|assumption].
Qed.

Lemma dedupe_id l : NoDup l -> dedupe l = l.
Proof. intros. apply dedupe_acc_id; auto. Qed.
Lemma dedupe_nodup l : NoDup (dedupe l).
Proof. apply dedupe_acc_nodup. Qed.

Lemma minus_in vs m x : In x (minus vs m) <-> In x vs /\ ~ In x m.
Proof.
  unfold minus. rewrite filter_In. rewrite negb_true_iff, mem_notin. tauto.
Qed.
Lemma minus_nodup vs m : NoDup vs -> NoDup (minus vs m).
Proof. intros. unfold minus. now apply NoDup_filter. Qed.

Lemma nodup_app (l1 l2 : list bytes) :
  NoDup l1 -> NoDup l2 -> (forall x, In x l1 -> ~ In x l2) -> NoDup (l1 ++ l2).
Proof.
  induction l1 as [|b l1 IH]; intros H1 H2 D; simpl; auto.
  inversion H1; subst. constructor.
  - rewrite in_app_iff. intros [?|?]; [contradiction|]. apply (D b); [now left|assumption].
  - apply IH; auto. intros x Hx. apply D. now right.
Qed.

Lemma nodup_app_minus m vs : NoDup m -> NoDup vs -> NoDup (m ++ minus vs m).
Proof.
  intros Hm Hv. apply nodup_app; auto. now apply minus_nodup.
  intros x Hx. rewrite minus_in. tauto.
Qed.

Lemma remove1_nodup v (l : list bytes) : NoDup l -> NoDup (remove1 v l).
Proof.
  induction l as [|x l IH]; simpl; intros ND; [constructor|].
  inversion ND; subst. destruct (bytes_eqb v x); auto.
  constructor; auto. intros Hin. apply H1.
  clear -Hin. induction l as [|y l IH]; simpl in *; [tauto|].
  destruct (bytes_eqb v y); [now right|]. destruct Hin as [->|H]; [now left|right; auto].
Qed.

Section P.
  Variable pyeq : val -> val -> bool.

  Definition step_ok (set : bool) (q : N) (s : store) (st : queue) (o : qop) : Prop :=
    let '(s', st', r) := qstep pyeq set q s st o in
    s' q = mem st' /\ (forall q', q' <> q -> s' q' = s q') /\
    mem st' = fst (ref_step pyeq set (mem st) o) /\
    (res_specified o = true -> r = snd (ref_step pyeq set (mem st) o)).

  Ltac fin I :=
    cbn; rewrite ?upd_same, ?I; cbn; rewrite ?app_nil_r;
    repeat split; auto; try discriminate; try (intros; now apply upd_other).

  Lemma durq_step q s st o : s q = mem st -> step_ok false q s st o.
  Proof.
    intros I. unfold step_ok. destruct o; unfold qstep; cbn [gstep ref_step res_specified andb]; unfold spec_view, spec_sstep; cbn [spec_io andb].
    - fin I.
    - fin I.
    - destruct vs as [|v vs]; fin I.
    - rewrite I. destruct (mem st) as [|v m] eqn:M; [destruct emptive|]; fin I.
    - rewrite I. destruct (mem st) as [|v m] eqn:M; fin I.
    - fin I.
    - fin I.
    - unfold gsync; unfold spec_view, spec_sstep. destruct (stale st || force); [rewrite I; destruct (mem st) as [|v m] eqn:M|]; fin I.
    - unfold gsync, fresh; unfold spec_view, spec_sstep; cbn. rewrite I. destruct (mem st) as [|v m] eqn:M; fin I.
    - destruct e as [| | |[|]| | |[|]|]; cbn [hold_enter walk it_src it_used it_items];
      unfold gsync, fresh; unfold spec_view, spec_sstep; cbn; rewrite I; destruct (mem st) as [|v m] eqn:M; fin I.
    - fin I.
    - fin I.
    - fin I.
    - fin I.
    - fin I.
    - fin I.
    - fin I.
  Qed.

  (* ---- whole histories over several queues ---- *)
  Lemma ref_run_ext set ops : forall ls1 ls2, (forall q, ls1 q = ls2 q) ->
    ref_run pyeq set ls1 ops = ref_run pyeq set ls2 ops.
  Proof.
    induction ops as [|[q o] ops IH]; intros ls1 ls2 E; simpl; [reflexivity|].
    rewrite (E q). destruct (ref_step pyeq set (ls2 q) o) as [l' r]. f_equal.
    apply IH. intros q'. destruct (N.eqb q' q); auto.
  Qed.

  Lemma run_generic set (P : queue -> Prop) (W : qop -> Prop) :
    (forall q s st o, s q = mem st -> P st -> W o ->
       step_ok set q s st o /\ P (snd (fst (qstep pyeq set q s st o)))) ->
    forall ops s qs,
      (forall q, s q = mem (qs q) /\ P (qs q)) ->
      Forall (fun qo => W (snd qo)) ops ->
      run_ok ops (qrun pyeq set s qs ops) (ref_run pyeq set (fun q => mem (qs q)) ops).
  Proof.
    intros Hstep. unfold step_ok in *. unfold qrun, qstep in *.
    induction ops as [|[q o] ops IH]; intros s qs Inv Wf; simpl; [exact I|].
    inversion Wf as [|? ? Wo Wf']; subst. simpl in Wo.
    destruct (Inv q) as [Iq Pq].
    destruct (Hstep q s (qs q) o Iq Pq Wo) as [Hok HP].
    destruct (gstep pyeq store spec_sstep spec_view set q s (qs q) o) as [[s' st'] r] eqn:Q. simpl in HP. cbv beta iota in Hok.
    destruct Hok as [Hs [Hfr [Hm Hr]]].
    destruct (ref_step pyeq set (mem (qs q)) o) as [l' r'] eqn:R. simpl in Hm, Hr.
    simpl. unfold spec_view at 1. repeat split; auto; try congruence.
    rewrite (ref_run_ext set ops _ (fun q' => mem (qupd qs q st' q'))).
    - apply IH; auto. intros q'. unfold qupd. destruct (N.eqb q' q) eqn:E.
      + apply N.eqb_eq in E. subst. auto.
      + assert (q' <> q) by (intros ->; rewrite N.eqb_refl in E; discriminate).
        rewrite Hfr by assumption. apply Inv.
    - intros q'. unfold qupd. destruct (N.eqb q' q); congruence.
  Qed.

  Lemma durq_run ops s qs :
    (forall q, s q = mem (qs q)) ->
    run_ok ops (qrun pyeq false s qs ops) (ref_run pyeq false (fun q => mem (qs q)) ops).
  Proof.
    intros Inv. apply (run_generic false (fun _ => True) (fun _ => True)).
    - intros. split; [now apply durq_step|exact I].
    - intros q. split; [apply Inv|exact I].
    - apply Forall_forall. intros; exact I.
  Qed.

  (* ---- Dusq, when Python equality coincides with equality of serialisations ---- *)
  Hypothesis pyeq_ser : forall a b, pyeq a b = true <-> a = b.

  Lemma pyeq_beq a b : pyeq a b = bytes_eqb a b.
  Proof.
    destruct (pyeq a b) eqn:E1, (bytes_eqb a b) eqn:E2; auto.
    - apply pyeq_ser in E1. apply bytes_eqb_eq in E1. congruence.
    - apply bytes_eqb_eq in E2. apply pyeq_ser in E2. congruence.
  Qed.
  Lemma pymem v m : existsb (pyeq v) m = existsb (bytes_eqb v) m.
  Proof. induction m as [|x m IH]; simpl; [reflexivity|]. now rewrite pyeq_beq, IH. Qed.

  Lemma oset_update_spec seen m vs :
    (forall x, In x seen -> In x m) ->
    oset_update pyeq m vs = m ++ minus (dedupe_acc seen vs) m.
  Proof.
    unfold oset_update. revert seen m. induction vs as [|v vs IH]; intros seen m Hs; simpl.
    - now rewrite app_nil_r.
    - change (oset_add pyeq m v) with (if existsb (pyeq v) m then m else m ++ [v]).
      rewrite pymem. destruct (existsb (bytes_eqb v) m) eqn:Em.
      + destruct (existsb (bytes_eqb v) seen) eqn:Es.
        * now apply IH.
        * simpl. rewrite Em. simpl. apply IH. intros x [->|Hx]; [now apply mem_in|auto].
      + assert (Es : existsb (bytes_eqb v) seen = false).
        { apply mem_notin. intros Hin. apply Hs in Hin. apply mem_notin in Em. contradiction. }
        rewrite Es. simpl. rewrite Em. simpl.
        rewrite (IH (v :: seen) (m ++ [v])).
        2:{ intros x [->|Hx]; rewrite in_app_iff; [right; now left|left; auto]. }
        rewrite <- app_assoc. simpl. f_equal. f_equal.
        unfold minus. apply filter_ext_in. intros x Hx. f_equal.
        rewrite existsb_app. simpl. rewrite orb_false_r.
        assert (bytes_eqb x v = false).
        { destruct (bytes_eqb x v) eqn:E; auto. apply bytes_eqb_eq in E. subst x.
          apply dedupe_acc_notseen in Hx. exfalso. apply Hx. now left. }
        rewrite H. now rewrite orb_false_r.
  Qed.

  Lemma oset_update_minus m vs : oset_update pyeq m vs = m ++ minus (dedupe vs) m.
  Proof. apply oset_update_spec. intros x []. Qed.

  Lemma minus_nil l : minus l [] = l.
  Proof. unfold minus. induction l as [|a l IH]; simpl in *; [reflexivity|]. now rewrite IH. Qed.
  Lemma oset_load l : NoDup l -> oset_update pyeq [] l = l.
  Proof. intros ND. rewrite oset_update_minus. simpl. now rewrite minus_nil, dedupe_id. Qed.
  Lemma oset_pre pre : oset_update pyeq [] pre = dedupe pre.
  Proof. rewrite oset_update_minus. simpl. apply minus_nil. Qed.

  Lemma oset_remove_spec m v :
    oset_remove pyeq m v = if existsb (bytes_eqb v) m then Some (remove1 v m) else None.
  Proof.
    induction m as [|x m IH]; simpl; [reflexivity|].
    rewrite pyeq_beq. destruct (bytes_eqb v x); simpl; [reflexivity|].
    rewrite IH. now destruct (existsb (bytes_eqb v) m).
  Qed.

  Lemma length_app_lt {A} (l n : list A) : Nat.ltb (length l) (length (l ++ n)) = nonempty n.
  Proof.
    rewrite app_length. destruct n; simpl.
    - rewrite Nat.add_0_r. apply Nat.ltb_irrefl.
    - apply Nat.ltb_lt. lia.
  Qed.

  Definition wf_op (o : qop) : Prop := match o with Remove v => v <> [] | _ => True end.

  Lemma dusq_step q s st o :
    s q = mem st -> NoDup (mem st) -> wf_op o ->
    step_ok true q s st o /\ NoDup (mem (snd (fst (qstep pyeq true q s st o)))).
  Proof.
    intros I ND W. unfold step_ok.
    destruct o; unfold qstep; cbn [gstep ref_step res_specified andb]; unfold spec_view, spec_sstep; cbn [spec_io andb].
    - (* Push *) unfold oset_add. rewrite pymem, I.
      destruct (existsb (bytes_eqb v) (mem st)) eqn:E.
      + rewrite Nat.ltb_irrefl. cbn. split; [fin I|auto].
      + rewrite length_app_lt. cbn. split; [fin I|].
        apply nodup_app; auto. { repeat constructor. intros []. }
        intros x Hx [<-|[]]. apply mem_notin in E. contradiction.
    - fin I.
    - (* Extend / update *) rewrite oset_update_minus, length_app_lt, I.
      destruct (minus (dedupe vs) (mem st)) eqn:E; cbn.
      + rewrite app_nil_r. fin I.
      + split; [fin I|]. rewrite <- E. apply nodup_app_minus; auto. apply dedupe_nodup.
    - (* Pull *) rewrite I. destruct (mem st) as [|v m] eqn:M; [destruct emptive|]; cbn;
        (split; [fin I|]); auto; try (now constructor); try (now inversion ND); try (rewrite M; constructor).
    - (* Clear *) rewrite I. destruct (mem st) as [|v m] eqn:M; cbn; (split; [fin I|]); auto; try (now constructor); try (rewrite M; constructor).
    - fin I.
    - (* Remove *) rewrite oset_remove_spec, I.
      destruct (existsb (bytes_eqb v) (mem st)) eqn:E; cbn.
      + destruct v as [|b v]; [now elim W|]. cbn.
        split; [fin I|]. now apply remove1_nodup.
      + assert (R : remove1 v (mem st) = mem st); [|rewrite R; split; [fin I|auto]].
        apply mem_notin in E. revert E. generalize (mem st) as l. clear. intros l E.
        induction l as [|x l IH]; simpl in *; auto.
        destruct (bytes_eqb v x) eqn:B; [apply bytes_eqb_eq in B; subst; exfalso; apply E; now left|].
        f_equal. apply IH. tauto.
    - (* Sync *) unfold gsync; unfold spec_view, spec_sstep. destruct (stale st || force); [rewrite I; destruct (mem st) as [|v m] eqn:M|]; cbn -[oset_update].
      + split; [fin I|]. rewrite ?M. constructor.
      + rewrite oset_load by assumption. split; [fin I|]; auto.
      + split; [fin I|auto].
    - (* Reopen *) unfold gsync, fresh; unfold spec_view, spec_sstep; cbn -[oset_update]. rewrite I. destruct (mem st) as [|v m] eqn:M; cbn -[oset_update].
      + rewrite oset_pre. change (dedupe_acc [] (dedupe pre)) with (dedupe (dedupe pre)).
        rewrite (dedupe_id (dedupe pre)) by apply dedupe_nodup.
        split; [fin I|]. apply dedupe_nodup.
      + rewrite oset_load by assumption. split; [fin I|auto].
    - (* Enter: every entry point hands the queue to inject *)
      destruct e as [| | |[|]| | |[|]|]; cbn [hold_enter walk it_src it_used it_items];
      (unfold gsync, fresh; unfold spec_view, spec_sstep; cbn -[oset_update]; rewrite I;
       destruct (mem st) as [|v m] eqn:M; cbn -[oset_update];
       [ rewrite oset_pre; change (dedupe_acc [] (dedupe pre)) with (dedupe (dedupe pre));
         rewrite (dedupe_id (dedupe pre)) by apply dedupe_nodup;
         split; [fin I|]; apply dedupe_nodup
       | rewrite oset_load by assumption; split; [fin I|auto] ]).
    - fin I.
    - fin I.
    - fin I.
    - fin I.
    - fin I.
    - fin I.
    - cbn. split; [fin I|constructor].
  Qed.

  Lemma dusq_run ops s qs :
    (forall q, s q = mem (qs q) /\ NoDup (mem (qs q))) ->
    Forall (fun qo => wf_op (snd qo)) ops ->
    run_ok ops (qrun pyeq true s qs ops) (ref_run pyeq true (fun q => mem (qs q)) ops).
  Proof.
    intros Inv Wf. apply (run_generic true (fun st => NoDup (mem st)) wf_op); auto.
    intros. now apply dusq_step.
  Qed.
End P.

(* reopening the store and resyncing a NEW queue object restores exactly the content *)
Lemma reopen_restores pyeq set q s st :
  s q = mem st -> (set = true -> NoDup (mem st) /\ forall a b, pyeq a b = true <-> a = b) ->
  let '(s', st', r) := qstep pyeq set q s st (Reopen []) in
  mem st' = mem st /\ s' q = mem st /\ r = Ok (RBool true).
Proof.
  intros I H. destruct set.
  - destruct (H eq_refl) as [ND E].
    destruct (dusq_step pyeq E q s st (Reopen []) I ND Logic.I) as [Hok _]. unfold step_ok in Hok.
    destruct (qstep pyeq true q s st (Reopen [])) as [[s' st'] r].
    destruct Hok as [Hs [_ [Hm Hr]]]. cbn in Hm, Hr.
    assert (mem st' = mem st) by (rewrite Hm; destruct (mem st); reflexivity).
    repeat split; try congruence. rewrite Hr by reflexivity. now destruct (mem st).
  - pose proof (durq_step pyeq q s st (Reopen []) I) as Hok. unfold step_ok in Hok.
    destruct (qstep pyeq false q s st (Reopen [])) as [[s' st'] r].
    destruct Hok as [Hs [_ [Hm Hr]]]. cbn in Hm, Hr.
    assert (mem st' = mem st) by (rewrite Hm; destruct (mem st); reflexivity).
    repeat split; try congruence. rewrite Hr by reflexivity. now destruct (mem st).
Qed.

(* a rejected operation (an argument that is not a RegDom) is the identity on the cached content
   and on the durable store, whatever the state and whatever the store machine *)
Lemma rejected_identity pyeq (S : Type) sstep sview set q (s : S) st o :
  rejected o = true ->
  let '(s', st', r) := gstep pyeq S sstep sview set q s st o in
  s' = s /\ mem st' = mem st /\ (exists k, r = Exc k).
Proof.
  destruct o; try discriminate; intros _; cbn [gstep]; try destruct set; repeat split; eauto.
Qed.

(* every way a queue can enter a Hold is the one abstract step [Reopen pre] (= enter_hold):
   the item reaches Hold.inject exactly once, whatever the entry point and whether or not the
   iterable handed to update()/Hold() can be walked a second time *)
Lemma hold_enter_all {A} (e : entry) (items : list A) : hold_enter e items = items.
Proof. destruct e as [| | |[|]| | |[|]|]; reflexivity. Qed.

Lemma enter_is_reopen pyeq (S : Type) sstep sview set q (s : S) st e pre :
  gstep pyeq S sstep sview set q s st (Enter e pre) = gstep pyeq S sstep sview set q s st (Reopen pre).
Proof. cbn [gstep]. now rewrite hold_enter_all. Qed.

(* the caller changing a value object it handed in (or got out) is not an operation on the container *)
Lemma caller_mutation_identity pyeq (S : Type) sstep sview set q (s : S) st :
  gstep pyeq S sstep sview set q s st CallerMutates = (s, st, Ok (ROpt None)).
Proof. reflexivity. Qed.
