(* C22 — Memo receivers survive arbitrary datagrams and accept only authentic memos.
   Statements only; proofs are in Proofs/MemoRxProofs.v.  Models: Model/MemoGram.v
   (pick, both encodings, every raising site) and Model/MemoRx.v (receive
   servicing, fuse, delivery), of the code as repaired by the five D25 fix
   commits.  Memoer.verify is a parameter; what is assumed of it is stated as a
   premise of each theorem (never an axiom):
     verify_contract : it returns True or raises MemoerError (MemoerVerifyError);
     verify_no_vid   : an empty signer id never verifies. *)
From Hio Require Import Base.Prelude Model.B64 Model.MemoGram Model.MemoRx Proofs.MemoRxProofs
  Proofs.MemoRxEscapeProofs Proofs.MemoVerifyProofs.

Definition verify_contract (verify : bytes -> bytes -> bytes -> res unit) : Prop :=
  forall v s m, verify v s m = Ok tt \/ verify v s m = Exc MemoErr.
Definition verify_no_vid (verify : bytes -> bytes -> bytes -> res unit) : Prop :=
  forall s m, verify [] s m <> Ok tt.

(* For ALL datagram bytes, any receiver state and either setting of authic,
   parsing a gram yields a gram or MemoerError (which _serviceOneReceived
   catches): no KeyError, UnicodeDecodeError, ValueError, UnboundLocalError. *)
Theorem C22_pick_total : forall verify, verify_contract verify ->
  forall authic vids gram, gram <> [] ->
  (exists p, pick verify authic vids gram = Ok p) \/ pick verify authic vids gram = Exc MemoErr.
Proof. intros verify Hv. exact (pick_total verify Hv). Qed.
Print Assumptions C22_pick_total.

(* For ALL sequences of arriving datagrams (any bytes) and service calls, from
   any state: no servicing call of the receive side raises. *)
Theorem C22_total : forall verify, verify_contract verify ->
  forall authic ops s, Forall (fun x => x = None) (snd (run verify authic s ops)).
Proof. intros verify Hv. exact (run_quiet verify Hv). Qed.
Print Assumptions C22_total.

(* The same without any assumption on verify: for EVERY function verify, every
   datagram sequence and every service pattern, an exception that escapes a
   servicing call is never MemoerError and is one that verify itself raised on
   some input.  (So the only way the receive side can raise is Memoer.verify
   raising something other than MemoerError; the harness records every verify
   outcome of every run and fails on such an outcome.) *)
Theorem C22_escapes_only_from_verify : forall verify authic ops s k,
  In (Some k) (snd (run verify authic s ops)) ->
  k <> MemoErr /\ exists v sg m, verify v sg m = Exc k.
Proof. exact run_escape. Qed.
Print Assumptions C22_escapes_only_from_verify.

(* An invalid gram is dropped: the receive state is exactly what it was. *)
Theorem C22_invalid_dropped : forall verify authic es g src,
  pick verify authic (vids_of es) g = Exc MemoErr ->
  receive_one verify authic es g src = (es, None).
Proof. exact invalid_dropped. Qed.
Print Assumptions C22_invalid_dropped.

(* When signed grams are required (authic), every memo ever delivered (rxms or
   inbox) carries a signer id v, and its text is the concatenation of gram
   bodies each of which arrived in a datagram d as part of a signed portion
   ser = head ++ body with verify v sig ser = True for that same v: a body
   whose signature does not verify for the claimed signer is never delivered. *)
Theorem C22_auth : forall verify, verify_no_vid verify ->
  forall ops text src ov,
  let s := fst (run verify true init ops) in
  In (text, src, ov) (rxms s ++ inbox s) ->
  exists v bodies, ov = Some v /\ v <> [] /\ text = concat bodies /\
    Forall (fun b => exists d, In d (dgrams ops) /\ signed_ok verify v b d) bodies.
Proof.
  intros verify Hv ops text src ov s Hin.
  pose proof (run_inv verify Hv (dgrams ops) ops init (incl_refl _) (inv_init _ _)) as (_ & _ & Im & Ii).
  fold s in Im, Ii.
  assert (A : authentic verify (dgrams ops) (text, src, ov)).
  { apply in_app_or in Hin. destruct Hin as [Hin|Hin].
    - eapply Forall_forall in Im; eauto.
    - eapply Forall_forall in Ii; eauto. }
  destruct A as (v & bodies & A1 & A2 & A3 & A4 & _). exists v, bodies. auto.
Qed.
Print Assumptions C22_auth.

(* ---- Memoer.verify modelled as MemoGram.mverify over libsodium proper
   [rawverify rawkey rawsig ser]: canonical decoding and key choice ----
   The text -> raw decoders (_decodeVID/_decodeQVK: decode_key, _decodeSGN:
   decode_sgn) are total and accept canonical text only: right length, Base64
   characters, zero midpad bits, so the text is determined by the raw value. *)
Theorem C22_decode_canonical_only : forall t raw, decode_sgn t = Some raw -> encode_sgn raw = t.
Proof. exact decode_sgn_canonical. Qed.
Print Assumptions C22_decode_canonical_only.

Theorem C22_decode_key_canonical_only : forall t c raw, decode_key t = Some (c, raw) -> encode_key c raw = t.
Proof. exact decode_key_canonical. Qed.
Print Assumptions C22_decode_key_canonical_only.

(* A non-transferable id (code 'B') is its own verkey.  A transferable ('D') or
   digest ('E') id is only a label: its current verkey is the qvk in the
   receiver's .keep, and without a keep entry nothing verifies for it.
   Acceptance fixes the signature text: it is the canonical encoding of the raw
   signature that libsodium accepted. *)
Theorem C22_verify_key : forall rawverify keep vid sg ser,
  mverify rawverify keep vid sg ser = Ok tt ->
  exists key rs, key_raw keep vid = Some key /\ decode_sgn sg = Some rs /\ encode_sgn rs = sg /\
                 rawverify key rs ser = Ok tt.
Proof. exact mverify_ok. Qed.
Print Assumptions C22_verify_key.

Theorem C22_transferable_needs_keep : forall rawverify keep vid sg ser,
  hd 0%N vid <> 66%N -> keep vid = None -> mverify rawverify keep vid sg ser <> Ok tt.
Proof. exact no_keep_no_verify. Qed.
Print Assumptions C22_transferable_needs_keep.

(* Non-vacuity: with a crypto that accepts everything, a 'D' id verifies exactly
   when keep has an entry for it, a 'B' id always; a signature text with
   non-zero pad bits (third character 'E' instead of 'A') or a key text with
   non-zero pad bits (second character 'Q') is rejected although it decodes
   to the same raw bytes under a lenient decoder. *)
Example C22_keep_example :
  let anyok := fun (_ _ _ : bytes) => Ok tt in
  let dvid := 68%N :: repeat 65%N 43 in let bvid := 66%N :: repeat 65%N 43 in
  let sg := 48%N :: 66%N :: repeat 65%N 86 in
  mverify anyok (fun _ => None) dvid sg [2%N] = Exc MemoErr /\
  mverify anyok (fun v => if bytes_eqb v dvid then Some bvid else None) dvid sg [2%N] = Ok tt /\
  mverify anyok (fun _ => None) bvid sg [2%N] = Ok tt /\
  mverify anyok (fun _ => None) bvid (48%N :: 66%N :: 69%N :: repeat 65%N 85) [2%N] = Exc MemoErr /\
  mverify anyok (fun _ => None) (66%N :: 81%N :: repeat 65%N 42) sg [2%N] = Exc MemoErr /\
  decode_sgn sg = Some (repeat 0%N 64).
Proof. vm_compute. repeat split. Qed.

(* Hence, with authic, for ANY crypto and ANY keep: every delivered memo names a
   signer id v for which this receiver has a raw key (decoded from v itself if
   'B', else from keep's qvk: in particular v IS in keep), and every body of it
   arrived in a signed part whose canonically encoded signature libsodium
   accepted under exactly that key.  No premise is left. *)
Theorem C22_auth_keep : forall rawverify keep ops text src ov,
  let s := fst (run (mverify rawverify keep) true init ops) in
  In (text, src, ov) (rxms s ++ inbox s) ->
  exists v key bodies, ov = Some v /\ key_raw keep v = Some key /\ text = concat bodies /\
    Forall (fun b => exists d ser sg rs head raw, In d (dgrams ops) /\
              decode_sgn sg = Some rs /\ encode_sgn rs = sg /\ rawverify key rs ser = Ok tt /\
              ser = head ++ b /\ d = ser ++ raw /\ (sg = raw \/ sg = enc raw)) bodies.
Proof.
  intros rawverify keep ops text src ov s Hin.
  pose proof (run_inv (mverify rawverify keep) (mverify_no_vid rawverify keep) (dgrams ops) ops init
                      (incl_refl _) (inv_init _ _)) as (_ & _ & Im & Ii).
  fold s in Im, Ii.
  assert (A : authentic (mverify rawverify keep) (dgrams ops) (text, src, ov)).
  { apply in_app_or in Hin. destruct Hin as [Hin|Hin].
    - eapply Forall_forall in Im; eauto.
    - eapply Forall_forall in Ii; eauto. }
  destruct A as (v & bodies & A1 & _ & A3 & A4 & (b0 & d0 & _ & (ser0 & sg0 & head0 & raw0 & V0 & _))).
  cbn [fst snd] in A1, A3.
  destruct (mverify_ok _ _ _ _ _ V0) as (key & rs0 & K & _).
  exists v, key, bodies. split; [exact A1|]. split; [exact K|]. split; [exact A3|].
  eapply Forall_impl; [|exact A4]. cbn. intros b (d' & Hd' & ser' & sg' & head' & raw' & V' & A & B & C).
  destruct (mverify_ok _ _ _ _ _ V') as (key' & rs' & K' & D' & E' & S'). rewrite K in K'. inversion K'; subst key'.
  exists d', ser', sg', rs', head', raw'. repeat split; auto.
Qed.
Print Assumptions C22_auth_keep.

(* With authic an accepted gram always carries a signature that verified for
   the signer it is filed under (its own vid for a zeroth gram, the vid of the
   memo's zeroth gram otherwise); unsigned codes are rejected. *)
Theorem C22_accepted_gram_verified : forall verify, verify_no_vid verify ->
  forall vids gram p, pick verify true vids gram = Ok p ->
  exists v, v <> [] /\ p_vid p = Some v /\ signed_ok verify v (p_body p) gram /\
            ((p_gc p <> None /\ p_gn p = 0%N) \/ (p_gc p = None /\ v = vids (p_mid p))).
Proof. intros verify Hv. exact (pick_auth verify Hv). Qed.
Print Assumptions C22_accepted_gram_verified.

(* Non-vacuity.  A toy signature scheme satisfying both premises: the signature
   text must be 88 'A's, the signer id non-empty, and the signed part must not
   end in '!'.  A signed b64 memo of two grams is delivered; a tampered copy of
   its second gram (body ends in '!'), a gram with an unknown code, an ack, a
   gram with non-Base64 neck and random bytes are dropped without exception. *)
Definition toy_verify (v s m : bytes) : res unit :=
  match v with
  | [] => Exc MemoErr
  | _ => if bytes_eqb s (repeat 65%N 88) && negb (N.eqb (last m 0%N) 33) then Ok tt else Exc MemoErr
  end.

Lemma toy_contract : verify_contract toy_verify.
Proof.
  intros v s m. unfold toy_verify. destruct v; [right; reflexivity|].
  destruct (_ && _); [left|right]; reflexivity.
Qed.
Lemma toy_no_vid : verify_no_vid toy_verify.
Proof. intros s m. discriminate. Qed.

Definition ex_mid : bytes := repeat 77%N 24.
Definition ex_vid : bytes := 66%N :: repeat 120%N 43.
Definition ex_sig : bytes := repeat 65%N 88.
Definition ex_g0 : bytes := [98;65;65;67; 65;65;65;67]%N ++ ex_mid ++ ex_vid ++ [104;105]%N ++ ex_sig.
Definition ex_g1 (body : bytes) : bytes := [98;65;65;68; 65;65;65;66]%N ++ ex_mid ++ body ++ ex_sig.

Example C22_example :
  let ops := [Dgram ex_g0 1%N; Dgram (ex_g1 [33;33]%N) 2%N;
              Dgram ([98;65;65;90]%N ++ repeat 65%N 40) 2%N;
              Dgram ([98;65;65;73]%N ++ repeat 65%N 40) 2%N;
              Dgram ([98;65;65;65; 65;33;65;66]%N ++ ex_mid ++ [120]%N) 2%N;
              Dgram [108;255;3;7]%N 2%N; Dgram [0;1;2]%N 2%N;
              Dgram (ex_g1 [32;121;111]%N) 1%N; SvcAllRx] in
  let (s, xs) := run toy_verify true init ops in
  inbox s = [([104;105;32;121;111]%N, 1%N, Some ex_vid)] /\ rxgs s = [] /\
  Forall (fun x => x = None) xs.
Proof. vm_compute. repeat split; repeat constructor. Qed.
