(* C03/C05 over HISTORIES of runs: a first do()/ado() followed by further runs of the
   same doer objects on the same Doist (do_again) or under a new Doist (do_fresh),
   Proofs/SchedHist.v.  Every run of a history is  enter ; cycle_loop  from some start
   state (run_tail), so the stop rule, the grid and the flag invariants of a single
   run carry over: start = the rerun's start tyme, limit = the rerun's limit. *)
From Hio Require Import Base.Prelude Base.AMap Base.Time Model.Sched Proofs.SchedEqs Proofs.SchedFrame Proofs.SchedLife
  Proofs.SchedTop Proofs.SchedAdo Proofs.SchedHist
  Proofs.SchedCycleTick Proofs.SchedCycleDue Proofs.SchedCycleStop Proofs.SchedCycleDone Proofs.SchedCycleFlag.

Section Hist.
Context {T : Type} `{Time T}.
Implicit Types s : st T.

(* ---------- every run is a tail: enter of the root over ds, then the cycle loop ---------- *)

Definition run_tail (tk : T) (cycles fuel : nat) s0 (ds : list id) (limit : option T) : st T :=
  let '(s1, r) := enter_own tk fuel s0 0%N ds in
  match r with
  | GRaise _ => emit (close_own tk fuel s1 0%N) DoRaise 0%N
  | GFuel => s1
  | _ =>
    let lim := option_map tabs limit in
    let stop := tadd (tyme s1) (match lim with Some l => l | None => tzero end) in
    cycle_loop tk cycles fuel (set_rlive s1 true) lim stop
  end.

(* the state in which the rerun's enter starts: tyme (re)set, root flag False, and for
   a new Doist a fresh root scheduler *)
Definition rr_start s (r : @rerun T) : st T :=
  match r with
  | RAgain _ t' => set_done (set_rlive (match t' with Some t => set_tyme s t | None => s end) false) 0%N (Some false)
  | RFresh _ t0 ds => set_done (set_rlive (set_sched (set_tyme s t0) 0%N {| doers := ds; deeds := [] |}) false) 0%N (Some false)
  end.
Definition rr_doers s (r : @rerun T) : list id :=
  match r with RAgain _ _ => doers (get_sched s 0%N) | RFresh _ _ ds => ds end.
Definition rr_limit (r : @rerun T) : option T := match r with RAgain l _ => l | RFresh l _ _ => l end.
(* the rerun's start tyme: the new one, or the one kept *)
Definition rr_tyme s (r : @rerun T) : T :=
  match r with RAgain _ (Some t) => t | RAgain _ None => tyme s | RFresh _ t0 _ => t0 end.

Lemma rr_start_tyme s r : tyme (rr_start s r) = rr_tyme s r.
Proof. destruct r as [l [t|]|l t0 ds]; reflexivity. Qed.

Lemma rerun_step_tail cycles fuel tk asyn s r :
  rerun_step cycles fuel tk asyn s r = run_tail tk cycles fuel (rr_start s r) (rr_doers s r) (rr_limit r).
Proof.
  destruct r as [l t'|l t0 ds]; cbn [rerun_step]; [|reflexivity].
  destruct asyn; [rewrite ado_again_eq|]; unfold do_again, run_tail, rr_start, rr_doers, rr_limit; destruct t'; reflexivity.
Qed.

Lemma do_run_tail cycles fuel (p : prog T) :
  do_run cycles fuel p = run_tail (p_tock p) cycles fuel (init_st p) (p_doers p) (p_limit p).
Proof. reflexivity. Qed.

Lemma run_hist_first cycles fuel asyn (p : prog T) :
  run_hist cycles fuel asyn p [] = do_run cycles fuel p.
Proof. unfold run_hist. cbn [fold_left]. destruct asyn; [apply ado_run_eq|reflexivity]. Qed.

Lemma run_hist_snoc cycles fuel asyn (p : prog T) h r :
  run_hist cycles fuel asyn p (h ++ [r]) = rerun_step cycles fuel (p_tock p) asyn (run_hist cycles fuel asyn p h) r.
Proof. unfold run_hist. now rewrite fold_left_app. Qed.

(* ---------- the stop rule for a tail ---------- *)

Variable tk : T.
Variable fuel : nat.

Definition entered_from s0 (ds : list id) : st T := set_rlive (fst (enter_own tk fuel s0 0%N ds)) true.
Definition enter_ok_from s0 (ds : list id) : bool := pass_ok (snd (enter_own tk fuel s0 0%N ds)).
Definition lim_of (limit : option T) : option T := option_map tabs limit.
Definition stop_of (start : T) (limit : option T) : T :=
  tadd start (match lim_of limit with Some l => l | None => tzero end).

Lemma entered_from_tyme s0 ds : tyme (entered_from s0 ds) = tyme s0.
Proof.
  unfold entered_from. destruct (enter_own tk fuel s0 0%N ds) as [s1 r] eqn:E. cbn [fst].
  exact (steps_tyme _ _ (enter_own_steps _ _ _ _ _ _ _ E)).
Qed.

Lemma tail_loop cycles s0 ds limit : enter_ok_from s0 ds = true ->
  run_tail tk cycles fuel s0 ds limit =
  cycle_loop tk cycles fuel (entered_from s0 ds) (lim_of limit) (stop_of (tyme s0) limit).
Proof.
  unfold enter_ok_from, run_tail, entered_from, stop_of, lim_of.
  destruct (enter_own tk fuel s0 0%N ds) as [s1 r] eqn:E. cbn [fst snd].
  assert (Ty : tyme s1 = tyme s0) by exact (steps_tyme _ _ (enter_own_steps _ _ _ _ _ _ _ E)).
  intro Ok. destruct r; try discriminate; rewrite Ty; reflexivity.
Qed.

Theorem tail_stop cycles s0 ds limit n :
  let e := entered_from s0 ds in
  enter_ok_from s0 ds = true -> (n < cycles)%nat ->
  (forall j, (j <= n)%nat -> cycle_ok tk fuel (after tk fuel e j) = true) ->
  (forall j, (j < n)%nat -> stops (lim_of limit) (stop_of (tyme s0) limit) (after tk fuel e (S j)) = false) ->
  stops (lim_of limit) (stop_of (tyme s0) limit) (after tk fuel e (S n)) = true ->
  let s2 := after tk fuel e (S n) in
  run_tail tk cycles fuel s0 ds limit = finish tk fuel s2 /\
  tyme (run_tail tk cycles fuel s0 ds limit) = grid (tyme s0) tk (S n) /\
  get_done (run_tail tk cycles fuel s0 ds limit) 0%N =
    match deeds (get_sched s2 0%N) with [] => Some true | _ => get_done s2 0%N end.
Proof.
  cbv zeta. intros Ok Hc Oks Ns St.
  rewrite (tail_loop cycles s0 ds limit Ok).
  rewrite (stop_rule tk fuel _ _ n cycles _ Hc Oks Ns St).
  split; [reflexivity|]. split.
  - rewrite finish_tyme, after_tyme, entered_from_tyme. reflexivity.
  - apply finish_done.
Qed.

Theorem tail_cases cycles s0 ds limit :
  let e := entered_from s0 ds in let lim := lim_of limit in let stop := stop_of (tyme s0) limit in
  oof (run_tail tk cycles fuel s0 ds limit) = true \/
  (exists s1 kbd, enter_own tk fuel s0 0%N ds = (s1, GRaise kbd) /\
      run_tail tk cycles fuel s0 ds limit = emit (close_own tk fuel s1 0%N) DoRaise 0%N) \/
  (exists n, (n < cycles)%nat /\
     (forall j, (j <= n)%nat -> cycle_ok tk fuel (after tk fuel e j) = true) /\
     (forall j, (j < n)%nat -> stops lim stop (after tk fuel e (S j)) = false) /\
     stops lim stop (after tk fuel e (S n)) = true /\
     run_tail tk cycles fuel s0 ds limit = finish tk fuel (after tk fuel e (S n))) \/
  (exists n s1 kbd, (n < cycles)%nat /\
     (forall j, (j < n)%nat -> cycle_ok tk fuel (after tk fuel e j) = true /\ stops lim stop (after tk fuel e (S j)) = false) /\
     recur_pass tk fuel (after tk fuel e n) 0%N = (s1, GRaise kbd) /\
     run_tail tk cycles fuel s0 ds limit = emit (close_own tk fuel s1 0%N) (if kbd then DoReturn else DoRaise) 0%N).
Proof.
  cbv zeta. destruct (enter_ok_from s0 ds) eqn:Ok.
  - rewrite (tail_loop cycles s0 ds limit Ok).
    destruct (cycle_loop_cases tk fuel (lim_of limit) (stop_of (tyme s0) limit) cycles (entered_from s0 ds)) as [O|[C|C]];
      [left; exact O|right; right; left; exact C|right; right; right; exact C].
  - unfold enter_ok_from in Ok. unfold run_tail.
    destruct (enter_own tk fuel s0 0%N ds) as [s1 r] eqn:E. cbn [snd] in Ok.
    destruct r as [t| |kbd|]; try discriminate.
    + right. left. exists s1, kbd. split; reflexivity.
    + left. exact (enter_own_fuel _ _ _ _ _ _ E).
Qed.

(* ---------- the grid, relative to the trace the run started with ---------- *)

(* the events l added since [base] lie on the grid that starts at [start] *)
Definition GR (start : T) (base : list (ev T)) (n : nat) s : Prop :=
  tyme s = grid start tk n /\ exists l, trace s = l ++ base /\ on_grid start tk n l.

Lemma gr_steps start base n a b : GR start base n a -> steps a b -> GR start base n b.
Proof.
  intros (Ty & l & E & G) S. split; [rewrite (steps_tyme _ _ S); exact Ty|].
  destruct (steps_trace_tyme _ _ S) as (l' & E' & F). exists (l' ++ l). split; [now rewrite E', E, app_assoc|].
  apply on_grid_app; [exact G|]. rewrite <- Ty. exact F.
Qed.

Lemma gr_tick start base n s : GR start base n s -> GR start base (S n) (set_tyme s (tadd (tyme s) tk)).
Proof.
  intros (Ty & l & E & G). split; cbn [tyme trace set_tyme grid]; [now rewrite Ty|].
  exists l. split; [exact E|]. change l with ([] ++ l). constructor; [exact G|constructor].
Qed.

Lemma gr_end start base n s k : GR start base n s -> GR start base n (emit (close_own tk fuel s 0%N) k 0%N).
Proof. intro G. eapply gr_steps; [exact G|]. apply k_emit. apply close_own_steps. Qed.

Lemma cycle_loop_gr start base cycles : forall s limit stop n,
  GR start base n s -> exists m, (n <= m)%nat /\ GR start base m (cycle_loop tk cycles fuel s limit stop).
Proof.
  induction cycles as [|c IH]; intros s limit stop n G; cbn [cycle_loop].
  - exists n. split; [lia|]. eapply gr_steps; [exact G|]. apply k_oof, st_refl.
  - destruct (recur_pass tk fuel s 0%N) as [s1 r] eqn:E.
    assert (G1 : GR start base n s1) by (eapply gr_steps; [exact G|eapply recur_pass_steps; exact E]).
    assert (Tick : exists m, (n <= m)%nat /\ GR start base m
      (let s2 := set_tyme s1 (tadd (tyme s1) tk) in
       match deeds (get_sched s2 0%N) with
       | [] => emit (close_own tk fuel (set_done s2 0%N (Some true)) 0%N) DoReturn 0%N
       | _ => if (match limit with Some l => negb (tfalsy l) | None => false end) && tleb stop (tyme s2)
              then emit (close_own tk fuel s2 0%N) DoReturn 0%N
              else cycle_loop tk c fuel s2 limit stop
       end)).
    { cbv zeta. pose proof (gr_tick start base n s1 G1) as G2.
      set (s2 := set_tyme s1 (tadd (tyme s1) tk)) in *.
      destruct (deeds (get_sched s2 0%N)).
      - exists (S n). split; [lia|]. apply gr_end. eapply gr_steps; [exact G2|]. apply k_done, st_refl.
      - destruct (_ && _).
        + exists (S n). split; [lia|]. now apply gr_end.
        + destruct (IH s2 limit stop (S n) G2) as (m & Hm & Gm). exists m. split; [lia|exact Gm]. }
    destruct r as [t| |[|]|]; try exact Tick.
    + exists n. split; [lia|]. now apply gr_end.
    + exists n. split; [lia|]. now apply gr_end.
    + exists n. split; [lia|exact G1].
Qed.

(* every run of a history: its final tyme is a grid point counted from ITS start tyme, and
   the events it added are blocks n, ..., 0 of that grid *)
Theorem tail_grid cycles s0 ds limit :
  exists n, GR (tyme s0) (trace s0) n (run_tail tk cycles fuel s0 ds limit).
Proof.
  assert (G0 : GR (tyme s0) (trace s0) 0 s0).
  { split; [reflexivity|]. exists []. split; [reflexivity|]. constructor. constructor. }
  unfold run_tail. destruct (enter_own tk fuel s0 0%N ds) as [s1 r] eqn:E.
  assert (G1 : GR (tyme s0) (trace s0) 0 s1) by (eapply gr_steps; [exact G0|eapply enter_own_steps; exact E]).
  destruct r as [t| |k|].
  - destruct (cycle_loop_gr (tyme s0) (trace s0) cycles (set_rlive s1 true) (option_map tabs limit)
                (tadd (tyme s1) match option_map tabs limit with Some l => l | None => tzero end) 0 G1) as (m & _ & Gm).
    exists m. exact Gm.
  - destruct (cycle_loop_gr (tyme s0) (trace s0) cycles (set_rlive s1 true) (option_map tabs limit)
                (tadd (tyme s1) match option_map tabs limit with Some l => l | None => tzero end) 0 G1) as (m & _ & Gm).
    exists m. exact Gm.
  - exists 0%nat. now apply gr_end.
  - exists 0%nat. exact G1.
Qed.

(* ---------- flag invariants over a tail ---------- *)

Variable D : amap (fdef T).
Hypothesis D0 : get D 0%N = None.

Lemma dinv_reset s : DInv D true s -> DInv D false (set_done s 0%N (Some false)).
Proof.
  intros (Df & A). split; [exact Df|]. intro i. specialize (A i). unfold dj in *.
  destruct (N.eq_dec i 0%N) as [->|Ne].
  - rewrite D0 in *. intros _. rewrite get_done_same. discriminate.
  - assert (Sa : same_at i s (set_done s 0%N (Some false))).
    { split; [reflexivity|]. split; [reflexivity|]. now apply get_done_other. }
    pose proof (dj_same D true s _ i Sa) as X. unfold dj in X.
    destruct (get D i) as [[k sc|t0 al kids]|]; try (apply X; exact A).
    intros _. rewrite get_done_other by exact Ne. apply A. now right.
Qed.

Lemma tail_dinv cycles s0 ds limit : DInv D false s0 -> DInv D true (run_tail tk cycles fuel s0 ds limit).
Proof.
  intro L. unfold run_tail. destruct (enter_own tk fuel s0 0%N ds) as [s1 r] eqn:E.
  assert (L1 : DInv D true s1) by (apply dinv_weaken; eapply dinv_enter_own; eassumption).
  destruct r as [t| |k|]; try exact L1.
  - apply cycle_loop_dinv; [exact D0|now apply dinv_rlive].
  - apply cycle_loop_dinv; [exact D0|now apply dinv_rlive].
  - apply dinv_top; [reflexivity|]. now apply dinv_close_own.
Qed.

Lemma tail_xinv cycles s0 ds limit : XInv D s0 -> XInv D (run_tail tk cycles fuel s0 ds limit).
Proof.
  intro L. unfold run_tail. destruct (enter_own tk fuel s0 0%N ds) as [s1 r] eqn:E.
  assert (L1 : XInv D s1) by (eapply xinv_enter_own; eassumption).
  destruct r as [t| |k|]; try exact L1.
  - apply cycle_loop_xinv; [exact D0|now apply xinv_rlive].
  - apply cycle_loop_xinv; [exact D0|now apply xinv_rlive].
  - apply xinv_top; [reflexivity|]. now apply xinv_close_own.
Qed.

(* before do() itself sets it, the root flag of a run is never True *)
Lemma tail_root_flag s0 ds k : DInv D false s0 ->
  get_done (after tk fuel (entered_from s0 ds) k) 0%N <> Some true.
Proof.
  intro L.
  assert (Le : DInv D false (entered_from s0 ds)).
  { unfold entered_from. destruct (enter_own tk fuel s0 0%N ds) as [s1 r] eqn:E. cbn [fst].
    apply dinv_rlive. eapply dinv_enter_own; eassumption. }
  destruct (after_dinv tk D false fuel k _ Le) as (_ & A).
  specialize (A 0%N). unfold dj in A. rewrite D0 in A. apply A. now left.
Qed.

Lemma rr_start_dinv s r : DInv D true s -> DInv D false (rr_start s r).
Proof.
  intro L. destruct r as [l [t|]|l t0 ds]; cbn [rr_start]; apply dinv_reset; apply dinv_rlive;
    try apply dinv_sched; try apply dinv_tyme; exact L.
Qed.

Lemma rr_start_xinv s r : XInv D s -> XInv D (rr_start s r).
Proof.
  intro L. destruct r as [l [t|]|l t0 ds]; cbn [rr_start]; apply (xinv_root_done D _ _ D0); apply xinv_rlive;
    try apply xinv_sched; try apply xinv_tyme; exact L.
Qed.

End Hist.

(* ---------- static flat reruns: the reference cycle model from the rerun's start ---------- *)
Section HistRef.
Context {T : Type} `{Time T}.
Implicit Types s : st T.
Variable tk : T.
Variable D : amap (fdef T).

Lemma cycles_ref_rel cycles : forall f s q outs base limit stop,
  deeds (get_sched s 0%N) = map deed_of q -> Good D s q ->
  recs s = rev (concat outs) ++ base -> get_done s 0%N = Some false ->
  oof (cycle_loop tk cycles f s limit stop) = false ->
  exists res (dn : bool),
    ref_cycles D tk limit stop cycles (tyme s) q outs = Some (res, tyme (cycle_loop tk cycles f s limit stop), dn) /\
    recs (cycle_loop tk cycles f s limit stop) = rev (concat res) ++ base /\
    get_done (cycle_loop tk cycles f s limit stop) 0%N = Some dn.
Proof.
  induction cycles as [|c IH]; intros f s q outs base limit stop Dq Gd Rc Dn O; cbn [cycle_loop ref_cycles] in *; [discriminate|].
  destruct (recur_pass tk f s 0%N) as [s1 r] eqn:E.
  assert (NF : r <> GFuel).
  { intro; subst r. rewrite (recur_pass_fuel tk f s 0%N s1 E) in O. discriminate. }
  pose proof (pass_ref tk D f s q s1 r E NF Dq Gd) as P.
  destruct (ref_pass D (tyme s) tk q) as [q' o].
  destruct P as (-> & Dq1 & G1 & R1 & T1 & Dn1 & _).
  cbv zeta in *.
  set (s2 := set_tyme s1 (tadd (tyme s1) tk)) in *.
  assert (Dq2 : deeds (get_sched s2 0%N) = map deed_of q') by exact Dq1.
  assert (R2 : recs s2 = rev (concat (outs ++ [o])) ++ base).
  { change (recs s2) with (recs s1). rewrite R1, Rc, concat_app, rev_app_distr. cbn [concat]. now rewrite app_nil_r, app_assoc. }
  rewrite <- T1. change (tadd (tyme s1) tk) with (tyme s2).
  rewrite Dq2 in O |- *. unfold limited.
  destruct q' as [|d q']; cbn [map] in *.
  - destruct (end_facts tk f (set_done s2 0%N (Some true)) DoReturn) as (F1 & F2 & F3).
    exists (outs ++ [o]), true. split; [now rewrite F2|]. split.
    + rewrite F1. cbn [app]. exact R2.
    + rewrite F3. apply get_done_same.
  - destruct (_ && _) eqn:Lim.
    + destruct (end_facts tk f s2 DoReturn) as (F1 & F2 & F3).
      exists (outs ++ [o]), false. split; [now rewrite F2|]. split.
      * rewrite F1. cbn [app]. exact R2.
      * rewrite F3. change (get_done s2 0%N) with (get_done s1 0%N). congruence.
    + assert (G2 : Good D s2 (d :: q')) by (eapply good_frame; [exact G1|reflexivity|reflexivity]).
      assert (Dn2 : get_done s2 0%N = Some false) by (change (get_done s2 0%N) with (get_done s1 0%N); congruence).
      exact (IH f s2 (d :: q') (outs ++ [o]) base limit stop Dq2 G2 R2 Dn2 O).
Qed.

(* the start state of a run over static flat doers: root deque empty, root flag False, the
   doers ds pairwise distinct, not 0, effect-free leaves, and all startable (never started,
   or exited) *)
Definition flat_start s0 (ds : list id) : Prop :=
  defs s0 = D /\ deeds (get_sched s0 0%N) = [] /\ get_done s0 0%N = Some false /\ NoDup ds /\
  forall i, In i ds -> startable s0 i = true /\ i <> 0%N /\ quiet_def (get D i) = true.

Theorem tail_ref cycles fuel s0 ds limit :
  flat_start s0 ds -> oof (run_tail tk cycles fuel s0 ds limit) = false ->
  exists res (dn : bool),
    ref_cycles D tk (lim_of limit) (stop_of (tyme s0) limit) cycles (tyme s0) (ref_enter D (tyme s0) ds) [] =
      Some (res, tyme (run_tail tk cycles fuel s0 ds limit), dn) /\
    recs (run_tail tk cycles fuel s0 ds limit) = rev (concat res) ++ recs s0 /\
    get_done (run_tail tk cycles fuel s0 ds limit) 0%N = Some dn.
Proof.
  intros (Df & Dq & Dn & ND & A) O. unfold run_tail in *.
  destruct (enter_own tk fuel s0 0%N ds) as [s1 r] eqn:E.
  assert (NF : r <> GFuel).
  { intro; subst r. rewrite (enter_own_fuel _ _ _ _ _ _ E) in O. discriminate. }
  assert (G0 : Good D s0 []) by (split; [exact Df|]; split; [constructor|]; intros d []).
  assert (A0 : forall i, In i ds -> startable s0 i = true /\ i <> 0%N /\ quiet_def (get D i) = true /\ ~ In i (map r_id (@nil (@rdoer T)))).
  { intros i I. destruct (A i I) as (A1 & A2 & A3). repeat split; auto. }
  destruct (enter_ref tk D ds fuel s0 [] s1 r E NF Dq G0 ND A0) as (-> & Dq1 & G1 & R1 & T1 & Dn1 & _).
  cbn [app] in *.
  assert (G2 : Good D (set_rlive s1 true) (ref_enter D (tyme s0) ds)) by (eapply good_frame; [exact G1|reflexivity|reflexivity]).
  assert (Dn2 : get_done (set_rlive s1 true) 0%N = Some false) by (change (get_done s1 0%N = Some false); congruence).
  pose proof (cycles_ref_rel cycles fuel (set_rlive s1 true) _ [] (recs s0) _ _ Dq1 G2 R1 Dn2 O) as C.
  change (tyme (set_rlive s1 true)) with (tyme s1) in C. unfold stop_of, lim_of. rewrite T1 in C |- *. exact C.
Qed.

End HistRef.

(* ---------- whole histories ---------- *)
Section HistRun.
Context {T : Type} `{Time T}.

Theorem run_hist_inv cycles fuel asyn (p : prog T) :
  get (p_defs p) 0%N = None ->
  forall h, DInv (p_defs p) true (run_hist cycles fuel asyn p h) /\ XInv (p_defs p) (run_hist cycles fuel asyn p h).
Proof.
  intros D0 h. induction h as [|r h IH] using rev_ind.
  - rewrite run_hist_first. split; [now apply do_run_dinv|now apply do_run_xinv].
  - rewrite run_hist_snoc, rerun_step_tail. destruct IH as (L & X). split.
    + apply tail_dinv; [exact D0|]. now apply rr_start_dinv.
    + apply tail_xinv; [exact D0|]. now apply rr_start_xinv.
Qed.

End HistRun.
