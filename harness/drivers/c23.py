"""C23 — Durq behaves as a FIFO queue, Dusq as an insertion-ordered set with FIFO pull; the durable copy
always equals memory in order; reopening the store and resyncing restores exactly that content."""
import shutil
from harness.core import coq_bytes, coq_list, coq_bool, coq_N, exn_kind, scratch_dir

PROP = "C23"
COQ_REQUIRES = ["Hio.Model.Lmdb", "Hio.Model.IoSub", "Hio.Model.Durq"]
COQ_CHECK = "Durq.check_case"
COQ_CASE_TYPE = "Durq.case"
COQ_BRANCHES = ("Durq.case_branches", "Durq.n_branches")
SHARD = 100
COQ_HEADER = []        # filled by _eq_table(): the value domain and the Python-equality table, once per case file
RULE = ("histories of push / push(None) / extend|update / pull(emptive or not) / clear / count / remove / sync(force) and "
        "CALLER-OBJECT operations (the caller changes the value of a non-frozen object it handed in through push / extend|update / "
        "the constructor, got from iteration or from pull, or pushes the same scratch object again after changing it: the "
        "containers must be unaffected) and REJECTED operations (extend|update|put of a batch with a non-RegDom member (str, int, dict, None) at a random "
        "position after >= 0 valid members, push/remove/add of such a value; the caller catches the error and carries on) over "
        "up to 3 queues of one kind (keys 'q', 'qq', 'top.q') or, in half of the cases, Durqs AND Dusqs side by side in one "
        "Subery (two Holds), always with a queue and a set at the SAME key and often at prefix-related keys, a key may be used "
        "as one kind before a reopen and as the other after it; the reference is one independent FIFO / ordered set per "
        "(kind, key) and the entry counts of the whole drqs / dsqs sub-dbs must equal the reference totals; values from an 11-element "
        "domain of Bag/IceBag instances with duplicates (and, in a separate stream, values equal in Python but "
        "serialised differently: 1 / 1.0 / True); the store is persistent or (40%) TEMPORARY (temp=True) and is cycled in 6 "
        "ways (new Subery object; close()+reopen(reuse=True); reopen(reuse=True); close()+reopen(); reopen(); reopen(clear=True)) "
        "- the content must come back exactly where the unchanged tree keeps the directory and must be gone otherwise; "
        "between any two ops the store may be closed and reopened with fresh "
        "queue objects injected through Hold (crash point), or a new preloaded queue object injected at a live key; "
        "every queue enters its Hold through one of 16 entry points (item / attribute assignment, update(mapping), "
        "update(list|tuple of pairs), update(zip|generator|iterator|map), update(k=q), update({}, k=q), Hold(mapping|list|"
        "zip|generator|k=q)), singly or all queues in one call; after entering, durable / _key / _sdb / hold[key] are asserted; "
        "after every op the result, list(queue) and the raw durable values at the key are compared with the model and "
        "with a FIFO / ordered-set reference; non-trivial = >= 4 ops with a duplicate value and a reopen between two ops")
MODELLED = ["the durable side of Durq/Dusq is the dictionary spec of DomIoSuber/DomIoSetSuber (C24's theorem ties it to "
            "the LMDB level for independent keys)",
            "a value is its serialisation (class name LF json); Python equality of values is a table computed by the harness "
            "with == on the real objects; json round trip _des(_ser(v)) == v on the value domain",
            "collections.deque, ordered_set.OrderedSet (lists)", "Hold.inject (sets _key/_sdb, calls sync)"]

KEYS = ["q", "qq", "top.q"]
# value table: (class, value)
VALS = [("Bag", 1), ("Bag", 2), ("Bag", "a"), ("IceBag", 1), ("IceBag", "a"), ("Bag", None), ("Bag", 3),
        ("Bag", 1.0), ("Bag", True), ("Bag", 0), ("Bag", False)]
PLAIN = [0, 1, 2, 3, 4, 5, 6]          # pairwise: Python-equal iff same serialisation
ALL = list(range(len(VALS)))


INVALID = ["x", 5, {"a": 1}, None]


def _bad(kind, in_batch=True):
    v = INVALID[kind % len(INVALID)]
    if v is None and not in_batch:
        v = 7.5                      # push(None) is the accepted no-op, not a rejection
    return dict(v) if isinstance(v, dict) else v


HOWS = ["newobj", "close_reopen_reuse", "reopen_reuse", "close_reopen", "reopen", "close_reopen_clear"]


def _kept(case, o):
    """does a reopen event keep the durable content (what the unchanged tree does)?  A persistent store keeps its directory
    unless clear=True; a temporary store only when the SAME object is reopened with reuse=True."""
    how = o[3] if len(o) > 3 else "newobj"
    if how == "close_reopen_clear":
        return False
    if case.get("temp"):
        return how in ("close_reopen_reuse", "reopen_reuse")
    return True


def _slots(case):
    """slot -> (kind, key index).  'durq'/'dusq' cases: 3 queues of that kind at the 3 keys;
    'mixed' cases: 6 slots, slot 2k = Durq at KEYS[k], slot 2k+1 = Dusq at KEYS[k] (same key, both kinds)."""
    if case["kind"] == "mixed":
        return [(("durq", "dusq")[i % 2], i // 2) for i in range(6)]
    return [(case["kind"], q) for q in range(3)]


BAGS = [0, 1, 2, 5, 6]      # VALS indices of non-frozen Bag values a caller may set its object to


def _is_bag(i):
    return VALS[i][0] == "Bag"


def _handed_by(o, n):
    """(slot, VALS index) of every non-frozen caller object op o hands to a container, in order"""
    name = o[0]
    if name == "push":
        return [(o[1], o[2])] if _is_bag(o[2]) else []
    if name == "extend":
        return [(o[1], i) for i in o[2] if _is_bag(i)]
    if name in ("extendbad", "rawputbad"):
        return [(o[1], i) for i in o[2] + o[3] if _is_bag(i)]
    if name == "reinject":
        return [(o[1], i) for i in o[2] if _is_bag(i)]
    if name == "reopen":
        return [(sl, i) for sl in range(n) for i in o[1].get(str(sl), []) if _is_bag(i)]
    return []


def _resolve(case):
    """ops with the caller-object ops made explicit: ['pushsame', q, k] becomes the push of the CURRENT value of the
    k-th object the caller handed to that queue earlier (or push(None) when there is none)."""
    n = len(_slots(case))
    pool = {q: [] for q in range(n)}
    out = []
    for o in case["ops"]:
        if o[0] == "pushsame":
            p = pool[o[1]]
            out.append(["push", o[1], p[o[2] % len(p)]] if p else ["pushnone", o[1]])
            continue
        if o[0] == "mutate" and o[2] == "handed" and pool[o[1]]:
            pool[o[1]][o[3] % len(pool[o[1]])] = o[4]
        for q, i in _handed_by(o, n):
            pool[q].append(i)
        out.append(o)
    return out


def _mk(i):
    from hio.base.hier import Bag, IceBag
    c, v = VALS[i]
    return (Bag if c == "Bag" else IceBag)(value=v)


def directed():
    out = []
    for kind in ("durq", "dusq"):
        ops = [["pull", 0, True], ["pull", 0, False], ["clear", 0], ["pushnone", 0], ["extend", 0, []],
               ["push", 0, 0], ["push", 0, 1], ["push", 0, 0], ["push", 1, 2], ["extend", 0, [3, 1, 3, 4]],
               ["extend", 0, [0, 1]], ["sync", 0, False], ["sync", 0, True], ["reopen", {"0": [], "1": [5], "2": [5, 5, 6]}],
               ["pull", 0, True], ["pull", 1, True], ["pull", 2, False], ["reinject", 0, [6]], ["reinject", 1, [6, 6]],
               ["clear", 0], ["clear", 0], ["sync", 0, True], ["push", 0, 4], ["reopen", {}], ["pull", 0, False],
               ["pull", 0, False]]
        ops += [["push", 1, 0], ["extendbad", 1, [1, 2], [3], 0], ["extendbad", 1, [], [1], 1], ["extendbad", 1, [4], [], 3],
                ["pushbad", 1, 2], ["rawputbad", 1, [1], [2], 0], ["rawaddbad", 1, 1], ["sync", 1, False], ["pull", 1, True],
                ["reopen", {}], ["extendbad", 1, [5, 6], [0], 2], ["pull", 1, False]]
        if kind == "durq":
            ops += [["push", 2, 1], ["count", 2, 5], ["count", 2, 1], ["count", 2, 0]]
        else:
            ops += [["push", 2, 1], ["remove", 2, 1], ["remove", 2, 1], ["remove", 2, 5], ["remove", 2, 0], ["reopen", {}],
                    ["remove", 2, 6], ["push", 2, 2], ["removebad", 2, 0], ["removebad", 2, 2]]
        out.append({"kind": kind, "ops": ops})
    # every entry point, singly (3 different ones per reopen) and all queues in one call, followed by ops that must reach the store
    for kind in ("durq", "dusq"):
        ops = []
        for v in range(0, len(VIA), 3):
            vs = [(v + i) % len(VIA) for i in range(3)]
            ops += [["reopen", {"1": [0]}, vs], ["push", 0, 1], ["push", 2, 2], ["pull", 1, True], ["reinject", 2, [3], vs[0]], ["pull", 2, True]]
        for v in BULK:
            ops += [["reopen", {"2": [4]}, v], ["push", 0, 2], ["extend", 1, [0, 1]], ["pull", 2, True]]
        out.append({"kind": kind, "ops": ops, "via0": 5})
        out.append({"kind": kind, "ops": [["push", 0, 0], ["push", 1, 1], ["push", 2, 2], ["reopen", {}, 12], ["pull", 0, False]], "via0": [6, 13, 15]})
    # a queue and a set at the same key (and at prefix-related keys) in one Subery; slot 2k = Durq, 2k+1 = Dusq at KEYS[k].
    # same values on both, dedupe only on the set, pulls/clears/removes on one must not touch the other,
    # a key that is a Durq before a reopen and only used as a Dusq afterwards (kind change), bulk entry
    out.append({"kind": "mixed", "ops": [
        ["push", 0, 0], ["push", 1, 0], ["push", 0, 0], ["push", 1, 0], ["extend", 0, [1, 2]], ["extend", 1, [1, 1, 3]],
        ["pull", 0, True], ["remove", 1, 1], ["push", 2, 4], ["push", 3, 4], ["clear", 1], ["count", 0, 0],
        ["reopen", {}, 5], ["pull", 0, False], ["pull", 1, True], ["push", 1, 2], ["pull", 2, True], ["pull", 3, True],
        ["clear", 0], ["push", 1, 6], ["reopen", {"0": [5], "1": [5, 5]}, [0, 2, 3, 8, 10, 14]], ["pull", 0, True],
        ["pull", 1, True], ["pull", 1, True], ["pull", 1, True]]})
    out.append({"kind": "mixed", "via0": 12, "ops": [
        ["extend", 4, [0, 1, 2]], ["reopen", {}, 7], ["pull", 5, True], ["push", 5, 0], ["reopen", {}],
        ["pull", 5, True], ["pull", 4, True], ["remove", 5, 0], ["pull", 4, False]]})
    # close / reopen cycles of a persistent and of a TEMPORARY store in every way; the content must come back exactly where the
    # store keeps its directory (persistent: unless clear=True; temporary: same object reopened with reuse=True)
    for temp in (False, True):
        for kind in ("durq", "dusq"):
            ops = []
            for n, how in enumerate(HOWS):
                ops += [["push", 0, n % 3], ["extend", 1, [1, 2]], ["reopen", {}, [0, 0, 0], how], ["pull", 0, True],
                        ["push", 1, 0], ["pull", 1, True]]
            out.append({"kind": kind, "temp": temp, "ops": ops})
    out.append({"kind": "mixed", "temp": True, "ops": [["push", 0, 0], ["push", 1, 1], ["reopen", {}, 5, "close_reopen_reuse"],
                                                       ["pull", 0, True], ["push", 1, 2], ["reopen", {}, 12, "reopen_reuse"],
                                                       ["pull", 1, True], ["pull", 1, True], ["reopen", {"0": [3]}, 3, "reopen"],
                                                       ["pull", 0, True], ["pull", 1, True]]})
    # the caller reuses ONE scratch Bag: sets its value and pushes it again and again; changes objects it handed in through
    # push / extend|update / the constructor, objects it got from iteration and from pull
    for kind in ("durq", "dusq"):
        out.append({"kind": kind, "ops": [
            ["push", 0, 0], ["mutate", 0, "handed", 0, 1], ["pushsame", 0, 0], ["mutate", 0, "handed", 0, 6], ["pushsame", 0, 0],
            ["pull", 0, True], ["mutate", 0, "pulled", 0, 5], ["mutate", 0, "iter", 1, 2], ["reopen", {}], ["pull", 0, True],
            ["extend", 1, [0, 1]], ["mutate", 1, "handed", 1, 6], ["mutate", 1, "handed", 0, 6], ["pull", 1, True],
            ["reopen", {"2": [2, 5]}, 12], ["mutate", 2, "handed", 0, 0], ["mutate", 2, "iter", 0, 1], ["pull", 2, False],
            ["reinject", 1, [1, 2], 5], ["mutate", 1, "handed", 2, 0], ["pull", 1, True], ["pull", 1, True]]})
    out.append({"kind": "dusq", "ops": [["push", 0, 0], ["mutate", 0, "handed", 0, 1], ["remove", 0, 0], ["pushsame", 0, 0],
                                        ["remove", 0, 1], ["reopen", {}], ["pull", 0, True]]})
    # D38 witness: values equal in Python, serialised differently
    out.append({"kind": "dusq", "ops": [["push", 0, 0], ["push", 0, 7], ["push", 0, 8]]})
    out.append({"kind": "dusq", "ops": [["push", 0, 0], ["remove", 0, 7]]})
    out.append({"kind": "durq", "ops": [["push", 0, 0], ["push", 0, 7], ["count", 0, 8], ["reopen", {}], ["count", 0, 8]]})
    return out


def _gen(rng, kind, dom, n):
    ops = []
    if kind == "mixed":
        # always a queue and a set at the same key, often more slots (prefix-related keys 'q' / 'qq')
        k = rng.randrange(3)
        active = [2 * k, 2 * k + 1] + rng.sample([i for i in range(6) if i // 2 != k], rng.choice([0, 1, 2]))
        nvia = 6
    else:
        active = list(range(rng.choice([1, 2, 3])))
        nvia = 3
    ckind = kind
    for _ in range(n):
        q = rng.choice(active)
        kind = ("durq", "dusq")[q % 2] if ckind == "mixed" else ckind
        if rng.random() < 0.16:      # the caller touches / reuses its own value objects
            if rng.random() < 0.65:
                ops.append(["mutate", q, rng.choice(["handed", "handed", "handed", "iter", "pulled"]), rng.choice([-1, -1, 0, 1, 2, 3]),
                            rng.choice([i for i in BAGS if i in dom] or BAGS)])
            else:
                ops.append(["pushsame", q, rng.choice([-1, -1, 0, 1, 2])])
            continue
        r = rng.random()
        if r < 0.28:
            ops.append(["push", q, rng.choice(dom)])
        elif r < 0.42:
            ops.append(["extend", q, [rng.choice(dom) for _ in range(rng.choice([0, 1, 2, 3, 4]))]])
        elif r < 0.62:
            ops.append(["pull", q, rng.random() < 0.8])
        elif r < 0.67:
            ops.append(["clear", q])
        elif r < 0.74:
            ops.append(["count" if kind == "durq" else "remove", q, rng.choice(dom)])
        elif r < 0.77:
            k = rng.randrange(4)
            pre = [rng.choice(dom) for _ in range(rng.choice([0, 1, 1, 2, 3]))]
            post = [rng.choice(dom) for _ in range(rng.choice([0, 0, 1, 2]))]
            rr = rng.random()
            if rr < 0.6:
                ops.append(["extendbad", q, pre, post, k])
            elif rr < 0.75:
                ops.append(["pushbad", q, k])
            elif rr < 0.87:
                ops.append(["rawputbad", q, pre, post, k])
            elif rr < 0.94 or kind == "durq":
                ops.append(["rawaddbad", q, k])
            else:
                ops.append(["removebad", q, k])
        elif r < 0.80:
            ops.append(["pushnone", q])
        elif r < 0.85:
            ops.append(["sync", q, rng.random() < 0.6])
        elif r < 0.95:
            pre = {}
            if rng.random() < 0.3:
                pre[str(rng.choice(active))] = [rng.choice(dom) for _ in range(rng.choice([1, 2, 3]))]
            ops.append(["reopen", pre, _rand_via(rng, nvia), rng.choice(HOWS + ["newobj", "close_reopen_reuse", "reopen_reuse"])])
        else:
            ops.append(["reinject", q, [rng.choice(dom) for _ in range(rng.choice([0, 1, 2]))], rng.randrange(len(VIA))])
    return {"kind": ckind, "ops": ops, "via0": _rand_via(rng, nvia), "temp": rng.random() < 0.4}


def _rand_via(rng, n=3):
    r = rng.random()
    if r < 0.35:
        return rng.choice(BULK)                       # all queues of a kind in one update(...) / Hold(...) call
    return [rng.randrange(len(VIA)) for _ in range(n)]


def generate(rng, tier):
    n = 300 if tier == "quick" else 4000
    out = []
    for i in range(n):
        kind = rng.choice(["durq", "dusq", "mixed", "mixed"])
        dom = rng.sample(PLAIN, rng.choice([2, 3, 4]))
        out.append(_gen(rng, kind, dom, rng.choice([4, 8, 12, 20, 30]) if kind != "mixed" else rng.choice([4, 8, 12, 20])))
    for i in range(n // 6):    # stream with Python-equal, differently serialised values (D38 class for Dusq)
        kind = rng.choice(["durq", "dusq", "mixed"])
        dom = rng.sample([0, 7, 8, 9, 10, 1], rng.choice([3, 4]))
        out.append(_gen(rng, kind, dom, rng.choice([4, 8, 12])))
    return out


# ---------------------------------------------------------------- implementation driver
# entry points of a queue into a Hold: (name, Gallina entry)
VIA = [("setitem", "Durq.ESetItem"), ("setattr", "Durq.ESetAttr"), ("update_mapping", "Durq.EUpdateMap"),
       ("update_list", "(Durq.EUpdatePairs Durq.Reiterable)"), ("update_tuple", "(Durq.EUpdatePairs Durq.Reiterable)"),
       ("update_zip", "(Durq.EUpdatePairs Durq.OneShot)"), ("update_generator", "(Durq.EUpdatePairs Durq.OneShot)"),
       ("update_iter", "(Durq.EUpdatePairs Durq.OneShot)"), ("update_kw", "Durq.EUpdateKw"), ("update_empty_kw", "Durq.EUpdateKw"),
       ("ctor_mapping", "Durq.ECtorMap"), ("ctor_list", "(Durq.ECtorPairs Durq.Reiterable)"),
       ("ctor_zip", "(Durq.ECtorPairs Durq.OneShot)"), ("ctor_generator", "(Durq.ECtorPairs Durq.OneShot)"),
       ("ctor_kw", "Durq.ECtorKw"), ("update_map", "(Durq.EUpdatePairs Durq.OneShot)")]
BULK = list(range(2, len(VIA)))         # entry points that take several items in one call
_N = [0]


class _World:
    """One Subery (LMDB env in a scratch dir) and two Holds over it: one for the Durqs, one for the Dusqs, so a
    queue and a set can sit at the same key."""
    def __init__(self, case):
        _N[0] += 1
        self.slots = _slots(case)
        self.temp = bool(case.get("temp"))
        self.head = str(scratch_dir() / f"c23-{_N[0]}")
        self.sub = None
        self.qs = {}
        self.handed = {sl: [] for sl in range(len(self.slots))}   # the caller's own non-frozen objects, per queue
        self.pulled = {sl: [] for sl in range(len(self.slots))}

    def hand(self, sl, i):
        """a fresh caller object for value i that is about to be handed to queue sl"""
        o = _mk(i)
        if _is_bag(i):
            self.handed[sl].append(o)
        return o

    def open(self, how="newobj"):
        """first opening, or a close/reopen cycle of the store (how = one of HOWS)"""
        from hio.base.during import Subery
        from hio.base.hier.holding import Hold
        if self.sub is None or how == "newobj":
            if self.sub is not None:
                self.sub.close()
            kw = dict(name=f"c23x{_N[0]}", temp=True) if self.temp else dict(name="c23", headDirPath=self.head)
            self.sub = Subery(reopen=True, **kw)
        elif how == "close_reopen_reuse":
            self.sub.close(); self.sub.reopen(reuse=True)
        elif how == "reopen_reuse":
            self.sub.reopen(reuse=True)
        elif how == "close_reopen":
            self.sub.close(); self.sub.reopen()
        elif how == "reopen":
            self.sub.reopen()
        elif how == "close_reopen_clear":
            self.sub.close(); self.sub.reopen(clear=True, reuse=True)
        else:
            raise ValueError(how)
        self.holds = {}
        for kind in ("durq", "dusq"):
            self.holds[kind] = Hold()
            self.holds[kind]._hold_subery = self.sub
        self.sdbs = {"durq": self.sub.drqs, "dusq": self.sub.dsqs}

    def _new(self, kind, pre, sl):
        from hio.base.hier import Durq, Dusq
        cls = Durq if kind == "durq" else Dusq
        return cls([self.hand(sl, i) for i in pre]) if pre else cls()

    def enter(self, kind, items, via):
        """items: list of (slot, pre), all of kind `kind`; they enter that kind's Hold through entry point
        VIA[via] (one call when the entry point takes several items).  Returns {slot: injected?}."""
        from hio.base.hier.holding import Hold
        name = VIA[via][0]
        objs = [(KEYS[self.slots[sl][1]], self._new(kind, pre, sl)) for sl, pre in items]
        sub = ("_hold_subery", self.sub)
        hold = self.holds[kind]
        if name == "setitem":
            for k, o in objs:
                hold[k] = o
        elif name == "setattr":
            for k, o in objs:
                setattr(hold, k, o)
        elif name == "update_mapping":
            hold.update(dict(objs))
        elif name == "update_list":
            hold.update(list(objs))
        elif name == "update_tuple":
            hold.update(tuple(objs))
        elif name == "update_zip":
            hold.update(zip([k for k, _ in objs], [o for _, o in objs]))
        elif name == "update_generator":
            hold.update((k, o) for k, o in objs)
        elif name == "update_iter":
            hold.update(iter(list(objs)))
        elif name == "update_map":
            hold.update(map(lambda ko: ko, objs))
        elif name == "update_kw":
            hold.update(**dict(objs))
        elif name == "update_empty_kw":
            hold.update({}, **dict(objs))
        elif name == "ctor_mapping":
            hold = Hold(dict([sub] + objs))
        elif name == "ctor_list":
            hold = Hold([sub] + objs)
        elif name == "ctor_zip":
            hold = Hold(zip([sub[0]] + [k for k, _ in objs], [sub[1]] + [o for _, o in objs]))
        elif name == "ctor_generator":
            hold = Hold(ko for ko in [sub] + objs)
        elif name == "ctor_kw":
            hold = Hold(**dict([sub] + objs))
        else:
            raise ValueError(name)
        self.holds[kind] = hold
        ok = {}
        for (sl, _), (k, o) in zip(items, objs):
            self.qs[sl] = o
            ok[sl] = bool(o.durable) and o._key == k and o._sdb is self.sdbs[kind] and hold[k] is o and not o.stale
        return ok

    def close(self, clear=False):
        if self.sub is not None:
            self.sub.close(clear=clear)
            self.sub = None

    def ser(self, sl, v):
        return self.sdbs[self.slots[sl][0]]._ser(v).decode("latin-1")

    def snap(self, sl, res):
        kind, ki = self.slots[sl]
        sdb = self.sdbs[kind]
        mem = [sdb._ser(v).decode("latin-1") for v in self.qs[sl]]
        store = [bytes(v).decode("latin-1") for v in self.sub.getIoVals(sdb.sdb, KEYS[ki].encode())]
        return [res, mem, store]

    def totals(self):
        """number of entries in the whole drqs / dsqs sub-db"""
        return [self.sub.drqs.cntAll(), self.sub.dsqs.cntAll()]


def _ret(r):
    """canonical result: bool / None / value"""
    if r is None:
        return ["opt", None]
    if r is True or r is False:
        return ["bool", r]
    if isinstance(r, int):
        return ["nat", r]
    return ["val", r]


def _enter_all(w, via, pre):
    """All queues enter their Hold: via = [v per slot] one call each, or an int = all queues of a kind in one call."""
    n = len(w.slots)
    if isinstance(via, int):
        ok = {}
        for kind in ("durq", "dusq"):
            items = [(sl, pre.get(str(sl), [])) for sl in range(n) if w.slots[sl][0] == kind]
            if items:
                ok.update(w.enter(kind, items, via))
        return [(sl, ok[sl]) for sl in range(n)]
    return [(sl, w.enter(w.slots[sl][0], [(sl, pre.get(str(sl), []))], via[sl % len(via)])[sl]) for sl in range(n)]


def _vias(case):
    """entry point of every model-level Enter event, in event order"""
    n = len(_slots(case))

    def each(v):
        return [v] * n if isinstance(v, int) else [v[i % len(v)] for i in range(n)]
    out = each(case.get("via0", [0, 0, 0]))
    for o in case["ops"]:
        if o[0] == "reopen":
            out += each(o[2] if len(o) > 2 else [0, 0, 0])
        elif o[0] == "reinject":
            out.append(o[3] if len(o) > 3 else 0)
    return out


def run_impl(case):
    w = _World(case)
    obs = []
    totals = None
    try:
        w.open()
        for q, ok in _enter_all(w, case.get("via0", [0, 0, 0]), {}):
            obs.append(w.snap(q, ["ok", ["bool", ok]]))     # entered the Hold: injected (key, sub-db bound, synced)?
        for o in case["ops"]:
            name = o[0]
            if name == "reopen":
                w.open(o[3] if len(o) > 3 else "newobj")
                if not _kept(case, o):       # the directory was not kept: nothing durable may be left, old objects are dead
                    for sl in range(len(w.slots)):
                        w.qs[sl] = []
                        obs.append(w.snap(sl, ["ok", ["opt", None]]))
                for q, ok in _enter_all(w, o[2] if len(o) > 2 else [0, 0, 0], o[1]):
                    obs.append(w.snap(q, ["ok", ["bool", ok]]))
                continue
            q = o[1]
            obj = w.qs[q]
            isq = w.slots[q][0] == "durq"
            try:
                if name == "push":
                    r = _ret(obj.push(w.hand(q, o[2])))
                elif name == "pushsame":     # the caller pushes one of its own earlier objects again, as it is now
                    p = w.handed[q]
                    r = _ret(obj.push(p[o[2] % len(p)] if p else None))
                elif name == "mutate":       # the caller changes an object it handed in / iterated over / pulled
                    how, k, new = o[2], o[3], o[4]
                    pool = w.handed[q] if how == "handed" else list(obj) if how == "iter" else w.pulled[q]
                    if pool:
                        t = pool[k % len(pool)]
                        if not t.__dataclass_params__.frozen:
                            t.value = VALS[new][1]
                    r = ["opt", None]
                elif name == "pushnone":
                    r = _ret(obj.push(None))
                elif name == "extend":
                    vs = [w.hand(q, i) for i in o[2]]
                    r = _ret(obj.extend(vs) if isq else obj.update(vs))
                elif name == "pull":
                    v = obj.pull(emptive=o[2])
                    r = ["opt", None] if v is None else ["opt", w.ser(q, v)]
                    if v is not None:
                        w.pulled[q].append(v)
                elif name == "clear":
                    r = _ret(obj.clear())
                elif name == "count":
                    r = _ret(obj.count(_mk(o[2])))
                elif name == "remove":
                    r = _ret(obj.remove(_mk(o[2])))
                elif name == "sync":
                    r = _ret(obj.sync(force=o[2]))
                elif name in ("extendbad", "rawputbad"):
                    vs = [w.hand(q, i) for i in o[2]] + [_bad(o[4])] + [w.hand(q, i) for i in o[3]]
                    if name == "rawputbad":
                        r = _ret(obj.put(vs))
                    else:
                        r = _ret(obj.extend(vs) if isq else obj.update(vs))
                elif name == "pushbad":
                    r = _ret(obj.push(_bad(o[2], in_batch=False)))
                elif name == "rawaddbad":
                    r = _ret(obj.add(_bad(o[2], in_batch=False)))
                elif name == "removebad":
                    r = _ret(obj.remove(_bad(o[2], in_batch=False)))
                elif name == "reinject":
                    r = ["bool", w.enter(w.slots[q][0], [(q, o[2])], o[3] if len(o) > 3 else 0)[q]]
                else:
                    raise ValueError(name)
                res = ["ok", r]
            except Exception as ex:
                res = ["exc", exn_kind(ex)]
            obs.append(w.snap(q, res))
        totals = w.totals()
    finally:
        w.close(clear=True)
        shutil.rmtree(w.head, ignore_errors=True)
    return {"obs": obs, "eq": _eq_table(), "totals": totals}


_EQ = []


def _eq_table():
    """(serialisation, Python-equality class id) for every value of the domain, computed with == on real objects."""
    if not _EQ:
        from hio.base.during import DomSuberBase
        objs = [_mk(i) for i in ALL]
        ser = lambda v: (v.__class__.__name__.encode() + b"\n" + v._asjson()).decode("latin-1")
        reps = []
        for o in objs:
            for ci, r in enumerate(reps):
                if o == r and hash(o) == hash(r):
                    _EQ.append([ser(o), ci]); break
            else:
                reps.append(o); _EQ.append([ser(o), len(reps) - 1])
        for i, (sv, c) in enumerate(_EQ):
            COQ_HEADER.append(f"Definition v{i} : bytes := {coq_bytes(sv.encode('latin-1'))}.")
        COQ_HEADER.append("Definition names : list bytes := %s." % coq_list(
            [coq_bytes(k.encode()) for k in KEYS], "bytes"))
        COQ_HEADER.append("Definition eqt : list (bytes * N) := %s." % coq_list(
            [f"(v{i}, {coq_N(c)})" for i, (sv, c) in enumerate(_EQ)], "bytes * N"))
    return _EQ


# ---------------------------------------------------------------- oracle: FIFO queue / insertion-ordered set
def _events(case):
    """model-level op list: (q, op) with reopen expanded to one Reopen per queue, preceded by the 3 initial injections."""
    n = len(_slots(case))
    ev = [(q, ["reopen1", []]) for q in range(n)]
    for o in _resolve(case):
        if o[0] == "reopen":
            if not _kept(case, o):
                ev += [(q, ["wipe"]) for q in range(n)]
            ev += [(q, ["reopen1", o[1].get(str(q), [])]) for q in range(n)]
        elif o[0] == "reinject":
            ev.append((o[1], ["reopen1", o[2]]))
        elif o[0] == "mutate":
            ev.append((o[1], ["mutate"]))
        else:
            ev.append((o[1], [o[0]] + o[2:]))
    return ev


REJECTED = ("extendbad", "pushbad", "removebad", "rawputbad", "rawaddbad")


def oracle(case, obs):
    eqt = obs["eq"]
    ser = [e[0] for e in eqt]
    cls = {e[0]: e[1] for e in eqt}
    pyeq = lambda a, b: cls[a] == cls[b]
    slots = _slots(case)
    ref = {q: [] for q in range(len(slots))}   # one independent reference content per (kind, key), as serialisations
    isset = False

    def add(l, v):
        if not isset or not any(pyeq(v, x) for x in l):
            l.append(v)

    ev = _events(case)
    if len(ev) != len(obs["obs"]):
        return f"harness: {len(ev)} events but {len(obs['obs'])} observations"
    for n, ((q, o), (res, mem, store)) in enumerate(zip(ev, obs["obs"])):
        l = ref[q]
        name = o[0]
        want = None
        isset = slots[q][0] == "dusq"
        where = f"{slots[q][0]} at {KEYS[slots[q][1]]!r}"
        if name == "reopen1":
            # reopening + resync restores exactly the durable content; an empty durable copy takes the preload
            if not l:
                for i in o[1]:
                    add(l, ser[i])
            want = ["ok", ["bool", True]]
        elif name == "push":
            add(l, ser[o[1]]); want = ["ok", ["bool", True]]
        elif name == "pushnone":
            want = ["ok", ["bool", False]]
        elif name == "extend":
            before = len(l)
            for i in o[1]:
                add(l, ser[i])
            want = ["ok", ["bool", (len(l) > before) if isset else bool(o[1])]]
        elif name == "pull":
            if l:
                want = ["ok", ["opt", l.pop(0)]]
            else:
                want = ["ok", ["opt", None]] if o[1] else ["exc", "IndexErr"]
        elif name == "clear":
            want = ["ok", ["bool", bool(l)]]; del l[:]
        elif name == "count":
            want = ["ok", ["nat", sum(1 for x in l if pyeq(x, ser[o[1]]))]]
        elif name == "remove":
            hit = [x for x in l if pyeq(x, ser[o[1]])]
            if hit:
                l.remove(hit[0]); want = ["ok", ["bool", True]]
            else:
                want = ["ok", ["bool", False]]
        elif name == "sync":
            want = ["ok", ["bool", True]] if o[1] else ["ok", ["opt", None]]
        elif name == "wipe":
            # the store's directory was not kept across this reopen: the durable content is gone
            want = ["ok", ["opt", None]]; del l[:]
        elif name == "mutate":
            # the caller changing its own object is not an operation on the container: nothing changes
            want = ["ok", ["opt", None]]
        elif name in REJECTED:
            # a rejected operation raises and leaves cache and durable copy unchanged (and equal)
            want = ["exc", "HierErr"]
        what = "queue" if not isset else "ordered set"
        if name == "reopen1" and res == ["ok", ["bool", False]]:
            return (f"event {n}: the {where} put into the Hold was not injected (not durable / no key / "
                    f"no sub-db / not synced): its operations cannot reach the store")
        if res != want:
            return f"event {n} {name} on {where}: returned {res}, a {what} returns {want}"
        if mem != l:
            return f"event {n} {name} on {where}: memory is {mem}, a {what} holds {l}"
        if store != mem:
            return f"event {n} {name} on {where}: durable copy {store} differs from memory {mem}"
    want_tot = [sum(len(ref[q]) for q in ref if slots[q][0] == k) for k in ("durq", "dusq")]
    if obs.get("totals") is not None and obs["totals"] != want_tot:
        return (f"the drqs / dsqs sub-dbs hold {obs['totals']} entries in all, the queues and sets hold {want_tot}: "
                f"foreign entries in a sub-db")
    return None


def classify(case, obs, why):
    """D38: the history of a Dusq uses two values that are equal in Python but serialised differently."""
    slots = _slots(case)
    isset = lambda sl: slots[int(sl)][0] == "dusq"
    eqt = obs.get("eq") or _eq_table()
    used = set()
    for o in _resolve(case):
        if o[0] == "mutate":
            if isset(o[1]) and o[2] == "handed":
                used.add(o[4])
            continue
        if o[0] == "reopen":
            for sl, v in o[1].items():
                if isset(sl):
                    used.update(v)
        elif not isset(o[1]):
            continue
        elif o[0] in ("push", "count", "remove"):
            used.add(o[2])
        elif o[0] in ("extend", "reinject"):
            used.update(o[2])
        elif o[0] in ("extendbad", "rawputbad"):
            used.update(o[2]); used.update(o[3])
    cl = {}
    for i in used:
        cl.setdefault(eqt[i][1], set()).add(eqt[i][0])
    if any(len(s) > 1 for s in cl.values()):
        return "D38"
    return None


# ---------------------------------------------------------------- Gallina
def _b(s):
    for i, e in enumerate(_EQ):
        if e[0] == s:
            return f"v{i}"
    return coq_bytes(s.encode("latin-1"))


def _vals(ser, idxs):
    return coq_list([_b(ser[i]) for i in idxs], "bytes")


def _coq_ev(ser, q, o, via=0):
    name = o[0]
    if name == "reopen1":
        t = f"(Durq.Enter {VIA[via][1]} {_vals(ser, o[1])})"
    elif name == "push":
        t = f"(Durq.Push {_b(ser[o[1]])})"
    elif name == "pushnone":
        t = "Durq.PushNone"
    elif name == "extend":
        t = f"(Durq.Extend {_vals(ser, o[1])})"
    elif name == "pull":
        t = f"(Durq.Pull {coq_bool(o[1])})"
    elif name == "clear":
        t = "Durq.Clear"
    elif name == "count":
        t = f"(Durq.Count {_b(ser[o[1]])})"
    elif name == "remove":
        t = f"(Durq.Remove {_b(ser[o[1]])})"
    elif name == "sync":
        t = f"(Durq.Sync {coq_bool(o[1])})"
    elif name == "extendbad":
        t = f"(Durq.ExtendBad {_vals(ser, o[1])} {_vals(ser, o[2])})"
    elif name == "rawputbad":
        t = f"(Durq.RawPutBad {_vals(ser, o[1])} {_vals(ser, o[2])})"
    elif name == "wipe":
        t = "Durq.Wiped"
    elif name == "mutate":
        t = "Durq.CallerMutates"
    elif name == "pushbad":
        t = "Durq.PushBad"
    elif name == "rawaddbad":
        t = "Durq.RawAddBad"
    elif name == "removebad":
        t = "Durq.RemoveBad"
    else:
        raise ValueError(name)
    return t


def _coq_evs(ser, ev, vias, slots):
    out, it = [], iter(vias)
    for q, o in ev:
        t = _coq_ev(ser, q, o, next(it) if o[0] == "reopen1" else 0)
        out.append(f"({coq_bool(slots[q][0] == 'dusq')}, {coq_N(slots[q][1])}, {t})")
    return out


def _coq_res(res):
    if res[0] == "exc":
        return f"(Exc {res[1]})"
    t, v = res[1]
    if t == "bool":
        return f"(Ok (IoSub.RBool {coq_bool(v)}))"
    if t == "opt":
        return "(Ok (IoSub.ROpt None))" if v is None else f"(Ok (IoSub.ROpt (Some {_b(v)})))"
    if t == "nat":
        return f"(Ok (IoSub.RNat {coq_N(v)}))"
    raise ValueError(t)


def to_coq(case, obs):
    ser = [e[0] for e in obs["eq"]]
    ev = _events(case)
    snaps = ["{| Durq.sn_res := %s; Durq.sn_mem := %s; Durq.sn_store := %s |}" % (
        _coq_res(r), coq_list([_b(x) for x in m], "bytes"), coq_list([_b(x) for x in s], "bytes"))
        for r, m, s in obs["obs"]]
    return ("{| Durq.c_names := names; Durq.c_eq := %s; Durq.c_ops := %s; Durq.c_obs := %s |}" % (
        "eqt",
        coq_list(_coq_evs(ser, ev, _vias(case), _slots(case)), "bool * N * Durq.qop"),
        coq_list(snaps, "Durq.snap")))


def nontrivial(case, obs):
    ops = case["ops"]
    if len(ops) < 4:
        return False
    vals = []
    for o in ops:
        if o[0] == "push":
            vals.append(o[2])
        elif o[0] == "extend":
            vals += o[2]
    dup = len(vals) != len(set(vals))
    idx = [i for i, o in enumerate(ops) if o[0] == "reopen"]
    return dup and any(0 < i < len(ops) - 1 for i in idx)


def shrink(case):
    ops = case["ops"]
    for i in range(len(ops)):
        yield {"kind": case["kind"], "ops": ops[:i] + ops[i + 1:]}


def distribution(cases, obs):
    d = {"durq": 0, "dusq": 0, "mixed": 0, "ops": 0, "reopens": 0, "with_py_equal_values": 0}
    for c in cases:
        d[c["kind"]] += 1
        d["ops"] += len(c["ops"])
        d["reopens"] += sum(1 for o in c["ops"] if o[0] == "reopen")
    return d
