(* The Io sub-db as  L ++ (block of key k) ++ R : under the independence
   hypothesis on the key universe every user key owns one contiguous block of
   the sorted db, everything before it sorts below all its possible suffixed
   keys and everything after it above. *)
From Hio Require Import Base.Prelude Base.ListFacts Model.Lmdb Model.IoSub
  Proofs.LmdbProofs Proofs.IoSubHex.
Local Open Scope N_scope.

Lemma bytes_eq_dec (a b : bytes) : {a = b} + {a <> b}.
Proof. apply list_eq_dec. apply N.eq_dec. Qed.

Lemma beqb_refl a : bytes_eqb a a = true.
Proof. now apply bytes_eqb_eq. Qed.
Lemma beqb_neq a b : a <> b -> bytes_eqb a b = false.
Proof. intros H. destruct (bytes_eqb a b) eqn:E; auto. apply bytes_eqb_eq in E. contradiction. Qed.

Lemma maxsuffix_lt : maxsuffix < ionmax.
Proof. vm_compute. reflexivity. Qed.

(* the entries of key k: (ion, value) in ascending ion order *)
Definition blk (k : bytes) (m : list (N * bytes)) : dbb :=
  map (fun iv => (suffix k (fst iv), snd iv)) m.

Fixpoint incr (B : N) (m : list (N * bytes)) : Prop :=
  match m with
  | [] => True
  | iv :: m' => fst iv < B /\ Forall (fun jv => fst iv < fst jv) m' /\ incr B m'
  end.

Lemma incr_bound B m : incr B m -> Forall (fun iv => fst iv < B) m.
Proof. induction m as [|iv m IH]; simpl; intros H; constructor; tauto. Qed.

Lemma incr_mono B B' m : B <= B' -> incr B m -> incr B' m.
Proof. intros HB. induction m as [|iv m IH]; simpl; auto. intros (H1 & H2 & H3). repeat split; auto. lia. Qed.

Lemma blk_app k m1 m2 : blk k (m1 ++ m2) = blk k m1 ++ blk k m2.
Proof. apply map_app. Qed.

Lemma map_snd_blk k m : map snd (blk k m) = map snd m.
Proof. unfold blk. rewrite map_map. reflexivity. Qed.

Section Universe.
  Variable U : bytes -> Prop.
  Hypothesis U_indep : forall k k', U k -> U k' -> k <> k' -> indep2 k k'.

  Definition wf (B : N) (e : bytes * bytes) : Prop :=
    exists k i, U k /\ i < B /\ fst e = suffix k i.
  Definition below (k : bytes) (e : bytes * bytes) : Prop :=
    exists k' i, U k' /\ k' <> k /\ i < ionmax /\ fst e = suffix k' i /\ tag_lt k' k = true.
  Definition above (k : bytes) (e : bytes * bytes) : Prop :=
    exists k' i, U k' /\ k' <> k /\ i < ionmax /\ fst e = suffix k' i /\ tag_lt k k' = true.

  Definition Inv (B : N) (d : dbb) : Prop :=
    B <= maxsuffix /\ sorted d /\ Forall (wf B) d.

  Record Dec (k : bytes) (B : N) (L R : dbb) : Prop := {
    dec_U : U k;
    dec_B : B <= maxsuffix;
    dec_below : Forall (below k) L;
    dec_above : Forall (above k) R;
    dec_sL : sorted L;
    dec_sR : sorted R;
    dec_LR : Forall (fun l => klt (fst l) R) L;
    dec_wL : Forall (wf B) L;
    dec_wR : Forall (wf B) R }.

  Lemma below_lt k e j : U k -> below k e -> blt (fst e) (suffix k j) = true.
  Proof.
    intros Uk (k' & i & Uk' & Hne & Hi & -> & T). rewrite suffix_lt_other; auto.
  Qed.
  Lemma above_gt k e j : U k -> above k e -> blt (suffix k j) (fst e) = true.
  Proof.
    intros Uk (k' & i & Uk' & Hne & Hi & -> & T). rewrite suffix_lt_other; auto.
  Qed.
  Lemma below_key k e : below k e -> exists k' i, k' <> k /\ unsuffix (fst e) = Ok (k', i).
  Proof. intros (k' & i & Uk' & Hne & Hi & -> & T). exists k', i. split; auto. now apply unsuffix_suffix. Qed.
  Lemma above_key k e : above k e -> exists k' i, k' <> k /\ unsuffix (fst e) = Ok (k', i).
  Proof. intros (k' & i & Uk' & Hne & Hi & -> & T). exists k', i. split; auto. now apply unsuffix_suffix. Qed.

  Lemma wf_mono B B' e : B <= B' -> wf B e -> wf B' e.
  Proof. intros HB (k & i & Uk & Hi & E). exists k, i. repeat split; auto. lia. Qed.

  Lemma Dec_mono k B B' L R : B <= B' -> B' <= maxsuffix -> Dec k B L R -> Dec k B' L R.
  Proof.
    intros H1 H2 D. destruct D. constructor; auto.
    - eapply Forall_impl; [|exact dec_wL0]. intros e. now apply wf_mono.
    - eapply Forall_impl; [|exact dec_wR0]. intros e. now apply wf_mono.
  Qed.

  Lemma blk_sorted k B m : B <= ionmax -> incr B m -> sorted (blk k m).
  Proof.
    intros HB. induction m as [|[i v] m IH]; simpl; auto. intros (H1 & H2 & H3). split; auto.
    unfold klt, blk. rewrite Forall_map. simpl.
    pose proof (incr_bound _ _ H3) as Hb.
    rewrite Forall_forall in *. intros jv Hin. simpl.
    rewrite suffix_lt_same; [apply N.ltb_lt; now apply H2| lia | specialize (Hb jv Hin); simpl in Hb; lia].
  Qed.

  (* ---- every db satisfying the invariant decomposes around every key ---- *)
  Lemma block B d k : Inv B d -> U k ->
    exists L m R, d = L ++ blk k m ++ R /\ Dec k B L R /\ incr B m.
  Proof.
    intros (HB & S & W) Uk. pose proof maxsuffix_lt as ML.
    induction d as [|[ik v] d IH].
    - exists [], [], []. split; [reflexivity|]. split; [constructor; auto; constructor|exact I].
    - destruct S as [S1 S2]. inversion W as [|? ? We Wd]; subst.
      destruct (IH S2 Wd) as (L & m & R & -> & D & Hm). clear IH.
      destruct We as (k0 & i0 & Uk0 & Hi0 & E). simpl in E. subst ik.
      simpl in S1. unfold klt in S1. rewrite !Forall_app in S1. destruct S1 as (SL & SM & SR).
      destruct (bytes_eq_dec k0 k) as [->|Hne].
      + (* an entry of k itself: L must be empty *)
        assert (L = []) as ->.
        { destruct L as [|l L]; auto. exfalso.
          inversion SL; subst. pose proof (dec_below _ _ _ _ D) as DB. inversion DB; subst.
          pose proof (below_lt k l i0 Uk H3) as X. apply blt_asym in X. congruence. }
        exists [], ((i0, v) :: m), R. split; [reflexivity|]. split; [exact D|].
        simpl. repeat split; auto.
        pose proof (incr_bound _ _ Hm) as Hb. unfold blk in SM. rewrite Forall_map in SM.
        rewrite Forall_forall in *. intros jv Hin. specialize (SM jv Hin). simpl in SM.
        rewrite suffix_lt_same in SM; [now apply N.ltb_lt| lia | specialize (Hb jv Hin); simpl in Hb; lia].
      + destruct (tag_lt k0 k) eqn:T.
        * (* sorts below the block *)
          exists ((suffix k0 i0, v) :: L), m, R. split; [reflexivity|]. split; [|exact Hm].
          destruct D. constructor; auto.
          all: try (simpl; split; auto; fail).
          all: constructor; auto.
          all: exists k0, i0; repeat split; auto; lia.
        * (* sorts above the block: L and the block must be empty *)
          assert (T' : tag_lt k k0 = true).
          { rewrite (tag_lt_total k0 k); auto. now rewrite T. }
          assert (A : above k (suffix k0 i0, v)).
          { exists k0, i0. repeat split; auto. lia. }
          assert (L = []) as ->.
          { destruct L as [|l L]; auto. exfalso. inversion SL; subst.
            pose proof (dec_below _ _ _ _ D) as DB. inversion DB; subst.
            pose proof (below_lt k l 0 Uk H3) as X4. pose proof (above_gt k _ 0 Uk A) as X5. simpl in X5.
            pose proof (blt_trans _ _ _ X4 X5) as X6. apply blt_asym in X6. congruence. }
          assert (m = []) as ->.
          { destruct m as [|[j w] m]; auto. exfalso. inversion SM; subst. simpl in H1.
            pose proof (above_gt k _ j Uk A) as X5. simpl in X5. apply blt_asym in X5. congruence. }
          exists [], [], ((suffix k0 i0, v) :: R). split; [reflexivity|]. split; [|exact I].
          destruct D. constructor; auto.
          all: try (simpl; split; auto; fail).
          all: constructor; auto.
          all: exists k0, i0; repeat split; auto; lia.
  Qed.

  (* ---- and conversely ---- *)
  Lemma unblock k B L R m : Dec k B L R -> incr B m -> Inv B (L ++ blk k m ++ R).
  Proof.
    intros D Hm. destruct D. pose proof maxsuffix_lt as ML. split; [auto|]. split.
    - apply sorted_app. split; [auto|]. split.
      + apply sorted_app. split; [apply (blk_sorted k B); auto; lia|]. split; [auto|].
        unfold blk. rewrite Forall_map. apply Forall_forall. intros iv _. simpl.
        eapply Forall_impl; [|exact dec_above0]. intros e He. now apply above_gt.
      + rewrite Forall_forall in *. intros l Hl. unfold klt. rewrite Forall_app. split.
        * unfold blk. rewrite Forall_map. apply Forall_forall. intros iv _. simpl.
          apply below_lt; auto.
        * now apply dec_LR0.
    - rewrite !Forall_app. repeat split; auto.
      unfold blk. rewrite Forall_map. pose proof (incr_bound _ _ Hm) as Hb.
      eapply Forall_impl; [|exact Hb]. intros iv Hiv. exists k, (fst iv). repeat split; auto.
  Qed.
End Universe.
