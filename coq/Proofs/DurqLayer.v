(* Layering of C23 on C24: the Durq / Dusq model run over the LMDB-level model of
   IoSuber / IoSetSuber produces exactly the history it produces over the
   dictionary, as long as the Hold keys of the queues are independent (C24) and
   fewer than 2^128-1 values are ever written. *)
From Hio Require Import Base.Prelude Base.ListFacts Model.Lmdb Model.IoSub Model.Durq
  Proofs.LmdbProofs Proofs.IoSubHex Proofs.IoSubBlock Proofs.IoSubOps Proofs.IoSubProofs
  Proofs.IoSubRun Proofs.DurqProofs.
Local Open Scope N_scope.

Section Sim.
  Variable pyeq : bytes -> bytes -> bool.
  Variables (S1 S2 : Type).
  Variable step1 : bool -> S1 -> IoSub.op -> N -> S1 * res rv.
  Variable view1 : S1 -> N -> list bytes.
  Variable step2 : bool -> S2 -> IoSub.op -> N -> S2 * res rv.
  Variable view2 : S2 -> N -> list bytes.
  Variable Q : N -> Prop.
  Variable R : N -> S1 -> S2 -> Prop.
  Variable M : N.
  Hypothesis R_mono : forall B B' s1 s2, B <= B' -> B' <= M -> R B s1 s2 -> R B' s1 s2.
  Hypothesis R_view : forall B s1 s2 q, R B s1 s2 -> Q q -> view1 s1 q = view2 s2 q.
  Hypothesis R_step : forall set B s1 s2 o q, R B s1 s2 -> Q q -> B + weight o <= M ->
    snd (step1 set s1 o q) = snd (step2 set s2 o q) /\
    R (B + weight o) (fst (step1 set s1 o q)) (fst (step2 set s2 o q)).

  Definition sim3 (B : N) (x : S1 * queue * res rv) (y : S2 * queue * res rv) : Prop :=
    snd (fst x) = snd (fst y) /\ snd x = snd y /\ R B (fst (fst x)) (fst (fst y)).

  (* one store call on both sides *)
  Lemma call set B s1 s2 o q (k1 : S1 * res rv -> S1 * queue * res rv)
        (k2 : S2 * res rv -> S2 * queue * res rv) B' :
    R B s1 s2 -> Q q -> B + weight o <= M -> B + weight o <= B' -> B' <= M ->
    (forall a1 a2 r, R B' a1 a2 -> sim3 B' (k1 (a1, r)) (k2 (a2, r))) ->
    sim3 B' (k1 (step1 set s1 o q)) (k2 (step2 set s2 o q)).
  Proof.
    intros HR HQ H1 H2 H3 K. destruct (R_step set B s1 s2 o q HR HQ H1) as [E HR'].
    destruct (step1 set s1 o q) as [a1 r1]. destruct (step2 set s2 o q) as [a2 r2].
    cbn [fst snd] in *. subst r2. apply K. apply (R_mono (B + weight o)); auto.
  Qed.

  Lemma gsync_sim set B s1 s2 q st force :
    R B s1 s2 -> Q q -> B + N.of_nat (length (mem st)) <= M ->
    sim3 (B + N.of_nat (length (mem st)))
      (gsync pyeq S1 step1 view1 set q s1 st force) (gsync pyeq S2 step2 view2 set q s2 st force).
  Proof.
    intros HR HQ HB. unfold gsync. rewrite <- (R_view B s1 s2 q HR HQ).
    assert (Mono : R (B + N.of_nat (length (mem st))) s1 s2) by (apply (R_mono B); auto; lia).
    destruct (stale st || force); [|repeat split; auto].
    destruct (view1 s1 q) as [|b l].
    - apply (call set B s1 s2 (OPin [] (mem st)) q
               (fun x => let (s', _) := x in (s', {| mem := mem st; stale := false |}, Ok (RBool true)))
               (fun x => let (s', _) := x in (s', {| mem := mem st; stale := false |}, Ok (RBool true)))); auto.
      + cbn [weight]. lia.
      + intros a1 a2 r Ha. repeat split; auto.
    - repeat split; auto.
  Qed.

  Lemma gstep_sim set B s1 s2 q st o :
    R B s1 s2 -> Q q -> B + qweight pyeq set st o <= M ->
    sim3 (B + qweight pyeq set st o)
      (gstep pyeq S1 step1 view1 set q s1 st o) (gstep pyeq S2 step2 view2 set q s2 st o).
  Proof.
    intros HR HQ HB.
    assert (Mono : R (B + qweight pyeq set st o) s1 s2) by (apply (R_mono B); auto; lia).
    destruct o; cbn [gstep qweight] in *.
    - (* Push *) destruct set.
      + apply (call true B s1 s2 (OAdd [] v) q
          (fun x => let (s', r) := x in
             if Nat.ltb (length (mem st)) (length (oset_add pyeq (mem st) v)) && is_false r
             then (s', {| mem := oset_add pyeq (mem st) v; stale := false |}, Exc HierErr)
             else (s', {| mem := oset_add pyeq (mem st) v; stale := false |}, Ok (RBool true)))
          (fun x => let (s', r) := x in
             if Nat.ltb (length (mem st)) (length (oset_add pyeq (mem st) v)) && is_false r
             then (s', {| mem := oset_add pyeq (mem st) v; stale := false |}, Exc HierErr)
             else (s', {| mem := oset_add pyeq (mem st) v; stale := false |}, Ok (RBool true)))); auto;
          try (cbn [weight]; lia).
        intros a1 a2 r Ha. destruct (_ && _); repeat split; auto.
      + apply (call false B s1 s2 (OAdd [] v) q
          (fun x => let (s', r) := x in
             if is_false r then (s', {| mem := mem st ++ [v]; stale := false |}, Exc HierErr)
             else (s', {| mem := mem st ++ [v]; stale := false |}, Ok (RBool true)))
          (fun x => let (s', r) := x in
             if is_false r then (s', {| mem := mem st ++ [v]; stale := false |}, Exc HierErr)
             else (s', {| mem := mem st ++ [v]; stale := false |}, Ok (RBool true)))); auto;
          try (cbn [weight]; lia).
        intros a1 a2 r Ha. destruct (is_false r); repeat split; auto.
    - (* PushNone *) repeat split; auto.
    - (* Extend *) destruct set.
      + destruct (Nat.ltb (length (mem st)) (length (oset_update pyeq (mem st) vs))); [|repeat split; auto].
        apply (call true B s1 s2 (OPut [] vs) q
          (fun x => let (s', r) := x in
             if is_false r then (s', {| mem := oset_update pyeq (mem st) vs; stale := false |}, Exc HierErr)
             else (s', {| mem := oset_update pyeq (mem st) vs; stale := false |}, Ok (RBool true)))
          (fun x => let (s', r) := x in
             if is_false r then (s', {| mem := oset_update pyeq (mem st) vs; stale := false |}, Exc HierErr)
             else (s', {| mem := oset_update pyeq (mem st) vs; stale := false |}, Ok (RBool true)))); auto;
          try (cbn [weight]; lia).
        intros a1 a2 r Ha. destruct (is_false r); repeat split; auto.
      + destruct vs as [|v0 vs0]; [repeat split; auto|].
        apply (call false B s1 s2 (OPut [] (v0 :: vs0)) q
          (fun x => let (s', r) := x in
             if is_false r then (s', {| mem := mem st ++ v0 :: vs0; stale := false |}, Exc HierErr)
             else (s', {| mem := mem st ++ v0 :: vs0; stale := false |}, Ok (RBool true)))
          (fun x => let (s', r) := x in
             if is_false r then (s', {| mem := mem st ++ v0 :: vs0; stale := false |}, Exc HierErr)
             else (s', {| mem := mem st ++ v0 :: vs0; stale := false |}, Ok (RBool true)))); auto;
          try (cbn [weight]; lia).
        intros a1 a2 r Ha. destruct (is_false r); repeat split; auto.
    - (* Pull *)
      apply (call set B s1 s2 (OPop []) q
        (fun x => let (s', r) := x in
           match mem st with
           | [] => if negb (is_none r) then (s', st, Exc HierErr)
                   else if emptive then (s', st, Ok (ROpt None)) else (s', st, Exc IndexErr)
           | v :: m' => if is_none r then (s', {| mem := m'; stale := stale st |}, Exc HierErr)
                        else (s', {| mem := m'; stale := stale st |}, Ok (ROpt (Some v)))
           end)
        (fun x => let (s', r) := x in
           match mem st with
           | [] => if negb (is_none r) then (s', st, Exc HierErr)
                   else if emptive then (s', st, Ok (ROpt None)) else (s', st, Exc IndexErr)
           | v :: m' => if is_none r then (s', {| mem := m'; stale := stale st |}, Exc HierErr)
                        else (s', {| mem := m'; stale := stale st |}, Ok (ROpt (Some v)))
           end)); auto; try (cbn [weight]; lia).
      intros a1 a2 r Ha. destruct (mem st); [destruct (negb (is_none r)); [|destruct emptive]|destruct (is_none r)];
        repeat split; auto.
    - (* Clear *) destruct (mem st) as [|v0 m0]; [repeat split; auto|].
      apply (call set B s1 s2 (ORem []) q
        (fun x => let (s', r) := x in
           if is_false r then (s', {| mem := []; stale := stale st |}, Exc HierErr)
           else (s', {| mem := []; stale := stale st |}, Ok (RBool true)))
        (fun x => let (s', r) := x in
           if is_false r then (s', {| mem := []; stale := stale st |}, Exc HierErr)
           else (s', {| mem := []; stale := stale st |}, Ok (RBool true)))); auto; try (cbn [weight]; lia).
      intros a1 a2 r Ha. destruct (is_false r); repeat split; auto.
    - (* Count *) destruct set; repeat split; auto.
    - (* Remove *) destruct set; [|repeat split; auto].
      destruct (oset_remove pyeq (mem st) v) as [m'|]; [|repeat split; auto].
      apply (call true B s1 s2 (ORemVal [] v) q
        (fun x => let (s', r) := x in
           if is_false r then (s', {| mem := m'; stale := stale st |}, Exc HierErr)
           else (s', {| mem := m'; stale := stale st |}, Ok (RBool true)))
        (fun x => let (s', r) := x in
           if is_false r then (s', {| mem := m'; stale := stale st |}, Exc HierErr)
           else (s', {| mem := m'; stale := stale st |}, Ok (RBool true)))); auto; try (cbn [weight]; lia).
      intros a1 a2 r Ha. destruct (is_false r); repeat split; auto.
    - (* Sync *) now apply gsync_sim.
    - (* Reopen *)
      apply (gsync_sim set B s1 s2 q (fresh (if set then oset_update pyeq [] pre else pre)) false); auto.
    - (* Enter *)
      destruct e as [| | |[|]| | |[|]|]; cbn [hold_enter walk it_src it_used it_items];
        apply (gsync_sim set B s1 s2 q (fresh (if set then oset_update pyeq [] pre else pre)) false); auto.
    - repeat split; auto.
    - repeat split; auto.
    - destruct set; repeat split; auto.
    - repeat split; auto.
    - repeat split; auto.
    - repeat split; auto.
    - (* Wiped *)
      apply (call set B s1 s2 (ORem []) q
        (fun x => let (s', _) := x in (s', fresh [], Ok (ROpt None)))
        (fun x => let (s', _) := x in (s', fresh [], Ok (ROpt None)))); auto; try (cbn [weight]; lia).
      intros a1 a2 r Ha. repeat split; auto.
  Qed.
End Sim.

(* ---- the two instances ---- *)
Lemma op_key_with_key o k : op_key (with_key o k) = k.
Proof. now destruct o. Qed.
Lemma weight_with_key o k : weight (with_key o k) = weight o.
Proof. now destruct o. Qed.
Lemma spec_io_with_key {K} (e : K -> K -> bool) set s o k x :
  spec_io e set s (with_key o k) x = spec_io e set s o x.
Proof. now destruct o. Qed.

Section Layer.
  Variable pyeq : bytes -> bytes -> bool.
  Variable name : N -> bytes.
  Variable Q : N -> Prop.
  Hypothesis name_inj : forall a b, Q a -> Q b -> name a = name b -> a = b.
  Hypothesis name_indep : forall a b, Q a -> Q b -> a <> b -> indep2 (name a) (name b).

  Definition UQ (k : bytes) : Prop := exists q, Q q /\ k = name q.

  Lemma UQ_indep : forall k k', UQ k -> UQ k' -> k <> k' -> indep2 k k'.
  Proof.
    intros k k' (a & Qa & ->) (b & Qb & ->) Hne. apply name_indep; auto. congruence.
  Qed.

  Definition RL (B : N) (s : store) (d : dbb) : Prop :=
    exists sb, Rel UQ B d sb /\ forall q, Q q -> s q = sb (name q).

  Lemma name_eqb a b : Q a -> Q b -> bytes_eqb (name a) (name b) = N.eqb a b.
  Proof.
    intros Qa Qb. destruct (N.eqb a b) eqn:E.
    - apply N.eqb_eq in E. subst. apply beqb_refl.
    - apply beqb_neq. intros H. apply name_inj in H; auto. subst. rewrite N.eqb_refl in E. discriminate.
  Qed.

  Lemma getIoVals_abs B d sb k : Rel UQ B d sb -> UQ k -> getIoVals d k = Ok (sb k).
  Proof.
    intros [Iv A] Uk. destruct (block UQ UQ_indep B d k Iv Uk) as (L & m & R & -> & D & Hm).
    rewrite (getIoVals_dec UQ UQ_indep k B L R m D Hm). rewrite <- (A k Uk).
    now rewrite (abs_dec UQ k B L R m D Hm).
  Qed.

  Lemma RL_mono B B' s d : B <= B' -> B' <= maxsuffix -> RL B s d -> RL B' s d.
  Proof. intros H1 H2 (sb & Hr & Hs). exists sb. split; auto. now apply (rel_mono UQ B B'). Qed.

  Lemma RL_view B s d q : RL B s d -> Q q -> spec_view s q = db_view name d q.
  Proof.
    intros (sb & Hr & Hs) Qq. unfold spec_view, db_view.
    rewrite (getIoVals_abs B d sb (name q) Hr) by (exists q; auto). now apply Hs.
  Qed.

  Lemma RL_step set B s d o q : RL B s d -> Q q -> B + weight o <= maxsuffix ->
    snd (spec_sstep set s o q) = snd (db_sstep name set d o q) /\
    RL (B + weight o) (fst (spec_sstep set s o q)) (fst (db_sstep name set d o q)).
  Proof.
    intros (sb & Hr & Hs) Qq Hw. unfold spec_sstep, db_sstep.
    assert (Uk : UQ (tokey (op_key (with_key o [name q])))).
    { rewrite op_key_with_key. exists q. split; auto. }
    destruct (step_io_refines UQ UQ_indep set B d sb (with_key o [name q]) Hr Uk) as [E1 E2].
    { now rewrite weight_with_key. }
    rewrite op_key_with_key, weight_with_key, spec_io_with_key in *. cbn [tokey join] in *.
    destruct (spec_io_rename N.eqb bytes_eqb name Q name_eqb set s sb o q Qq Hs) as [F1 F2].
    split; [etransitivity; [exact F1|symmetry; exact E1]|].
    exists (fst (spec_io bytes_eqb set sb o (name q))). split; auto.
  Qed.

  Lemma RL_init : RL 0 store0 [].
  Proof. exists (fun _ => []). split; [apply rel_init|reflexivity]. Qed.

  Theorem layer_run set : forall ops B s d qs,
    RL B s d -> Forall (fun qo => Q (fst qo)) ops ->
    B + qbudget pyeq set s qs ops <= maxsuffix ->
    drun pyeq name set d qs ops = qrun pyeq set s qs ops.
  Proof.
    unfold drun, qrun. induction ops as [|[q o] ops IH]; intros B s d qs HR HQ HB; [reflexivity|].
    inversion HQ as [|? ? Qq HQ']; subst. cbn [fst] in Qq.
    cbn [grun qbudget] in *. unfold qstep in HB.
    pose proof (gstep_sim pyeq store dbb spec_sstep spec_view (db_sstep name) (db_view name) Q RL maxsuffix
                 RL_mono RL_view RL_step set B s d q (qs q) o HR Qq) as Sim.
    destruct (gstep pyeq store spec_sstep spec_view set q s (qs q) o) as [[s1 st1] r1].
    destruct (gstep pyeq dbb (db_sstep name) (db_view name) set q d (qs q) o) as [[d2 st2] r2].
    destruct Sim as (E1 & E2 & HR'); [lia|]. cbn [fst snd] in *. subst st2 r2.
    rewrite <- (RL_view _ s1 d2 q HR' Qq). unfold spec_view at 1. f_equal.
    apply (IH (B + qweight pyeq set (qs q) o)); auto. lia.
  Qed.
End Layer.
