#!/bin/bash
# usage: tools/seed_loop.sh <round> Cxx...  (evaluates /tmp/seed<round>-Cxx-out with tools/seed_eval.sh; log /var/tmp/seed_loop_r<round>.log)
r=$1; shift
cd /verif
for c in "$@"; do
  if [ -f /tmp/seed$r-$c-out/patch.diff ]; then
    echo "=== $c" >> /var/tmp/seed_loop_r$r.log
    timeout 2400 tools/seed_eval.sh $c /tmp/seed$r-$c-out $r 2>&1 | grep -v "^KNOWN" | tail -4 | cut -c1-300 >> /var/tmp/seed_loop_r$r.log
  else
    echo "=== $c: no patch.diff" >> /var/tmp/seed_loop_r$r.log
  fi
done
echo "=== DONE $*" >> /var/tmp/seed_loop_r$r.log
