(* C18 — WSGI responses are framed and pipelined requests answered in order.
   Statements only; proofs are in Proofs/WsgiProofs.v. *)
From Hio Require Import Base.Prelude Model.Wsgi Proofs.WsgiProofs.

(* The server closes the connection exactly when it reached a request that was
   not persistent (or that it could not parse). *)
Theorem C18_closed_iff_not_persistent : forall date conn rs out cl,
  serve date rs conn = Ok (out, cl) -> cl = closes conn.
Proof. exact serve_closed. Qed.
Print Assumptions C18_closed_iff_not_persistent.
