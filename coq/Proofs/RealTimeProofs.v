(* Proofs for C07 over exact time (Z): the real branch of Doist.do never starts
   a cycle early and its deadlines are lossless.  Model: Model/RealTime.v. *)
From Coq Require Import ZifyBool.
From Hio Require Import Base.Prelude Base.Time Model.RealTime.
Local Open Scope Z_scope.

Notation zworld := (@world Z).
Notation ztimer := (@timer Z).
Notation zcyc := (@cyc Z).

Ltac rsplit := repeat match goal with |- _ /\ _ => split end.
Ltac tz := cbn [tadd tsub tleb tltb tzero tabs teqb tfalsy ZTime] in *.

(* ------------------------------------------------------------------ the environment *)

Lemma advance_facts : forall (w : zworld) s,
  step_ok s ->
  mono w <= mono (advance w s) /\
  now (advance w s) - mono (advance w s) <= now w - mono w /\
  reads (advance w s) = reads w /\ overs (advance w s) = overs w /\ log (advance w s) = log w.
Proof.
  intros w [p j] [Hp Hj]. unfold advance. cbn [now mono reads overs log fst snd] in *. tz. rsplit; try reflexivity; lia.
Qed.

Lemma advance_ok : forall (w : zworld) s, world_ok w -> world_ok (advance w s).
Proof. intros w s [H1 H2]. split; assumption. Qed.

Lemma read_log : forall (w w' : zworld) r, read w = (r, w') -> r = now w' /\ log w' = r :: log w.
Proof.
  intros w w' r E. unfold read in E. destruct (reads w); inversion E; subst; cbn; split; reflexivity.
Qed.

Lemma read_facts : forall (w w' : zworld) r,
  world_ok w -> read w = (r, w') ->
  world_ok w' /\ mono w <= mono w' /\ now w' - mono w' <= now w - mono w.
Proof.
  intros w w' r [Hr Ho] E. unfold read in E. destruct (reads w) as [|[p j] rs] eqn:R.
  - inversion E; subst. cbn [now mono]. split; [|lia].
    unfold world_ok. cbn [reads overs]. rewrite R. split; [constructor|assumption].
  - inversion Hr as [|? ? [Hp Hj] Hrs]; subst. inversion E; subst. unfold advance.
    cbn [now mono reads overs log fst snd] in *. tz. split; [|lia].
    unfold world_ok. cbn [reads overs]. split; assumption.
Qed.

Lemma max0_nonneg : forall x : Z, 0 <= max0 x.
Proof. intros x. unfold max0. tz. destruct (0 <? x) eqn:E; lia. Qed.

Lemma sleep_facts : forall (w : zworld) d,
  world_ok w -> 0 <= d ->
  world_ok (sleep w d) /\ mono w <= mono (sleep w d) /\
  now (sleep w d) - mono (sleep w d) = now w - mono w /\ log (sleep w d) = log w.
Proof.
  intros w d [Hr Ho] Hd. unfold sleep. destruct (overs w) as [|[o|e] os] eqn:O.
  - cbn [now mono log]. tz. rsplit; try reflexivity; try lia. split; cbn [reads overs]; [assumption|constructor].
  - inversion Ho as [|? ? Hoo Hos]; subst. cbn in Hoo. cbn [now mono log]. tz. rsplit; try reflexivity; try lia.
    split; cbn [reads overs]; assumption.
  - inversion Ho as [|? ? Hoo Hos]; subst. cbn in Hoo. cbn [now mono log]. tz.
    destruct (e <? d) eqn:E; rsplit; try reflexivity; try lia; split; cbn [reads overs]; assumption.
Qed.

Lemma sleep_log : forall (w : zworld) d, log (sleep w d) = log w.
Proof. intros w d. unfold sleep. destruct (overs w) as [|[o|e] os]; reflexivity. Qed.

(* ------------------------------------------------------------------ MonoTimer.latest *)

Lemma latest_spec : forall (tm tm' : ztimer) (w w' : zworld) l,
  latest tm w = (tm', l, w') ->
  exists r, read w = (r, w') /\ l = r /\ t_last tm' = r /\
    t_stop tm' = t_stop tm + Z.min 0 (r - t_last tm) /\
    t_start tm' = t_start tm + Z.min 0 (r - t_last tm).
Proof.
  intros tm tm' w w' l E. unfold latest in E. destruct (read w) as [r w1] eqn:R. tz.
  exists r. destruct (r - t_last tm <? 0) eqn:D; inversion E; subst; cbn; rsplit; try reflexivity; lia.
Qed.

(* ------------------------------------------------------------------ never early *)

(* [M] (true time) is a lower bound of the true time at which the timer can
   expire: with [ol] an upper bound of the clock's offset to true time now and a
   witness that the last reading was taken in the past. *)
Definition ne_inv (tm : ztimer) (w : zworld) (M : Z) : Prop :=
  exists ol, now w - mono w <= ol /\ t_last tm - ol <= mono w /\ M <= t_stop tm - ol.

Lemma ne_advance : forall tm w M s, step_ok s -> ne_inv tm w M -> ne_inv tm (advance w s) M.
Proof.
  intros tm w M s Hs [ol [A [B C]]]. destruct (advance_facts w s Hs) as [F1 [F2 _]].
  exists ol. rsplit; lia.
Qed.

Lemma ne_sleep : forall tm w M d, world_ok w -> 0 <= d -> ne_inv tm w M -> ne_inv tm (sleep w d) M.
Proof.
  intros tm w M d Hw Hd [ol [A [B C]]]. destruct (sleep_facts w d Hw Hd) as [_ [F1 [F2 _]]].
  exists ol. rsplit; lia.
Qed.

(* after a reading the invariant holds with the current offset *)
Lemma ne_latest : forall tm tm' w w' l M,
  world_ok w -> ne_inv tm w M -> latest tm w = (tm', l, w') ->
  world_ok w' /\ mono w <= mono w' /\ l = now w' /\ t_last tm' = now w' /\
  M <= t_stop tm' - now w' + mono w' /\
  t_stop tm' - t_start tm' = t_stop tm - t_start tm.
Proof.
  intros tm tm' w w' l M Hw [ol [A [B C]]] E.
  destruct (latest_spec _ _ _ _ _ E) as [r [R [L1 [L2 [L3 L4]]]]].
  destruct (read_log _ _ _ R) as [Rn _]. destruct (read_facts _ _ _ Hw R) as [Hw' [Mm Off]].
  subst l. rsplit; try assumption; try lia.
Qed.

Lemma ne_of_synced : forall (tm : ztimer) (w : zworld) M,
  t_last tm = now w -> M <= t_stop tm - now w + mono w -> ne_inv tm w M.
Proof. intros tm w M A B. exists (now w - mono w). rsplit; lia. Qed.

Lemma ne_wait : forall fuel tm w acc M tm' w' sl,
  world_ok w -> ne_inv tm w M -> wait fuel tm w acc = Some (tm', w', sl) ->
  world_ok w' /\ ne_inv tm' w' M /\ M <= mono w' /\ mono w <= mono w' /\
  t_stop tm' - t_start tm' = t_stop tm - t_start tm.
Proof.
  induction fuel as [|f IH]; intros tm w acc M tm' w' sl Hw Hi E; [discriminate|].
  cbn [wait] in E. unfold expired in E.
  destruct (latest tm w) as [[tm1 l1] w1] eqn:L1.
  destruct (ne_latest _ _ _ _ _ _ Hw Hi L1) as [Hw1 [Mo1 [Ll1 [La1 [B1 D1]]]]].
  tz. destruct (t_stop tm1 <=? l1) eqn:X.
  - inversion E; subst. rsplit; try assumption; try lia. apply ne_of_synced; assumption.
  - unfold remaining in E. destruct (latest tm1 w1) as [[tm2 l2] w2] eqn:L2.
    assert (Hi1 : ne_inv tm1 w1 M) by (apply ne_of_synced; assumption).
    destruct (ne_latest _ _ _ _ _ _ Hw1 Hi1 L2) as [Hw2 [Mo2 [Ll2 [La2 [B2 D2]]]]].
    assert (Hi2 : ne_inv tm2 w2 M) by (apply ne_of_synced; assumption).
    pose proof (max0_nonneg (t_stop tm1 - l2)) as Hd.
    destruct (sleep_facts w2 _ Hw2 Hd) as [Hw3 [Mo3 _]].
    apply (ne_sleep _ _ _ _ Hw2 Hd) in Hi2.
    destruct (IH _ _ _ _ _ _ _ Hw3 Hi2 E) as [R1 [R2 [R3 [R4 R5]]]].
    rsplit; try assumption; lia.
Qed.

Lemma ne_restart : forall tm w M, ne_inv tm w M -> ne_inv (restart tm) w (M + (t_stop tm - t_start tm)).
Proof.
  intros tm w M [ol [A [B C]]]. exists ol. unfold restart, start_at. cbn. tz. rsplit; lia.
Qed.

Lemma restart_duration : forall tm : ztimer,
  t_stop (restart tm) - t_start (restart tm) = t_stop tm - t_start tm.
Proof. intros tm. unfold restart, start_at. cbn. tz. lia. Qed.

(* the k-th cycle of a run of [cycles] entered with bound M for the NEXT start
   and the current start not before M - d *)
Lemma ne_cycles : forall works fuel tm w M d cs tmf wf,
  world_ok w -> Forall step_ok works -> ne_inv tm w M ->
  t_stop tm - t_start tm = d -> M - d <= mono w ->
  cycles fuel tm w works = Some (cs, tmf, wf) ->
  world_ok wf /\
  (forall k c, nth_error cs k = Some c -> M - d + Z.of_nat k * d <= c_mono c) /\
  M - d + Z.of_nat (length works) * d <= mono wf /\ length cs = length works.
Proof.
  induction works as [|wk rest IH]; intros fuel tm w M d cs tmf wf Hw Hs Hi Hd Hm E.
  - cbn in E. inversion E; subst. rsplit; try assumption; try (cbn; lia).
    intros k c Hk. destruct k; discriminate.
  - cbn [cycles] in E. inversion Hs as [|? ? Hwk Hrest]; subst.
    destruct (wait fuel tm (advance w wk) []) as [[[tm1 w1] sl]|] eqn:W; [|discriminate].
    destruct (cycles fuel (restart tm1) w1 rest) as [[[cs' tmf'] wf']|] eqn:C; [|discriminate].
    inversion E; subst. clear E.
    pose proof (advance_ok w wk Hw) as Hwa.
    pose proof (ne_advance _ _ _ _ Hwk Hi) as Hia.
    destruct (advance_facts w wk Hwk) as [Ma _].
    destruct (ne_wait _ _ _ _ _ _ _ _ Hwa Hia W) as [Hw1 [Hi1 [HM [Mo Du]]]].
    pose proof (ne_restart _ _ _ Hi1) as Hir. rewrite Du in Hir.
    assert (Hdr : t_stop (restart tm1) - t_start (restart tm1) = t_stop tm - t_start tm)
      by (rewrite restart_duration; exact Du).
    destruct (IH fuel (restart tm1) w1 (M + (t_stop tm - t_start tm)) (t_stop tm - t_start tm) cs' tmf wf
                 Hw1 Hrest Hir Hdr ltac:(lia) C) as [Hwf [Hk [He Hl]]].
    rsplit; try assumption.
    + intros k c Hkc. destruct k as [|k].
      * cbn in Hkc. inversion Hkc; subst. cbn. lia.
      * cbn in Hkc. specialize (Hk k c Hkc). lia.
    + cbn [length]. lia.
    + cbn [length]. lia.
Qed.

(* the run start of the current code: latest, then start(duration=tock, start=latest) *)
Lemma start_sync_spec : forall tock (tm tm0 : ztimer) (w w0 : zworld),
  start_run VSync tock tm w = (tm0, w0) ->
  exists r, read w = (r, w0) /\ t_last tm0 = r /\ t_start tm0 = r /\ t_stop tm0 = r + tock.
Proof.
  intros tock tm tm0 w w0 E. unfold start_run in E.
  destruct (latest tm w) as [[tm1 l] w1] eqn:L. inversion E; subst. clear E.
  destruct (latest_spec _ _ _ _ _ L) as [r [R [L1 [L2 _]]]]. subst l.
  exists r. unfold start_at. cbn. tz. rsplit; try assumption; lia.
Qed.

Lemma clear_log_fields : forall w : zworld,
  now (clear_log w) = now w /\ mono (clear_log w) = mono w /\
  reads (clear_log w) = reads w /\ overs (clear_log w) = overs w.
Proof. intros w. unfold clear_log. cbn. rsplit; reflexivity. Qed.

Lemma clear_log_ok : forall w : zworld, world_ok w -> world_ok (clear_log w).
Proof. intros w [A B]. split; assumption. Qed.

Theorem do_real_not_early : forall fuel tock (tm : ztimer) (w : zworld) works out tmf wf,
  world_ok w -> Forall step_ok works ->
  do_real VSync fuel tock tm w works = Some (out, tmf, wf) ->
  world_ok wf /\
  (forall k c, nth_error (r_cycles out) k = Some c -> r_mono out + Z.of_nat k * tock <= c_mono c) /\
  r_mono out + Z.of_nat (length works) * tock <= r_end_mono out /\
  length (r_cycles out) = length works.
Proof.
  intros fuel tock tm w works out tmf wf Hw Hs E. unfold do_real in E.
  destruct (start_run VSync tock tm w) as [tm0 w0] eqn:S.
  destruct (start_sync_spec _ _ _ _ _ S) as [r [R [A [B C]]]].
  destruct (read_log _ _ _ R) as [Rn _]. destruct (read_facts _ _ _ Hw R) as [Hw0 _].
  destruct (cycles fuel tm0 (clear_log w0) works) as [[[cs tmf'] wf']|] eqn:Cy; [|discriminate].
  inversion E; subst. clear E. cbn [r_cycles r_mono r_end_mono].
  destruct (clear_log_fields w0) as [F1 [F2 _]].
  assert (Hi : ne_inv tm0 (clear_log w0) (mono w0 + tock)).
  { apply ne_of_synced; rewrite ?F1, ?F2; lia. }
  destruct (ne_cycles works fuel tm0 (clear_log w0) (mono w0 + tock) tock cs tmf wf
              (clear_log_ok _ Hw0) Hs Hi ltac:(lia) ltac:(rewrite F2; lia) Cy) as [Hwf [Hk [He Hl]]].
  rsplit; try assumption.
  - intros k c Hkc. specialize (Hk k c Hkc). lia.
  - lia.
Qed.

(* ------------------------------------------------------------------ lossless deadlines *)

(* the timer's stop is [base] plus the retrograde shifts visible in the reading log *)
Definition ll_inv (tm : ztimer) (w : zworld) (base : Z) : Prop :=
  exists r rest, log w = r :: rest /\ t_last tm = r /\ t_stop tm = base + shifts (log w).

Lemma ll_advance : forall tm w base s, ll_inv tm w base -> ll_inv tm (advance w s) base.
Proof. intros tm w base s H. exact H. Qed.

Lemma ll_sleep : forall tm w base d, ll_inv tm w base -> ll_inv tm (sleep w d) base.
Proof. intros tm w base d [r [rest [A [B C]]]]. exists r, rest. rewrite sleep_log. rsplit; assumption. Qed.

Lemma ll_latest : forall tm tm' w w' l base,
  ll_inv tm w base -> latest tm w = (tm', l, w') ->
  ll_inv tm' w' base /\ t_stop tm' - t_start tm' = t_stop tm - t_start tm.
Proof.
  intros tm tm' w w' l base [r [rest [A [B C]]]] E.
  destruct (latest_spec _ _ _ _ _ E) as [r' [R [L1 [L2 [L3 L4]]]]].
  destruct (read_log _ _ _ R) as [_ Lg]. split; [|lia].
  exists r', (log w). rewrite Lg. rsplit; try assumption; try reflexivity.
  rewrite L3, C, A, B. cbn [shifts]. lia.
Qed.

Lemma ll_wait : forall fuel tm w acc base tm' w' sl,
  ll_inv tm w base -> wait fuel tm w acc = Some (tm', w', sl) ->
  ll_inv tm' w' base /\ t_stop tm' - t_start tm' = t_stop tm - t_start tm.
Proof.
  induction fuel as [|f IH]; intros tm w acc base tm' w' sl Hi E; [discriminate|].
  cbn [wait] in E. unfold expired in E.
  destruct (latest tm w) as [[tm1 l1] w1] eqn:L1.
  destruct (ll_latest _ _ _ _ _ _ Hi L1) as [Hi1 D1].
  destruct (tleb (t_stop tm1) l1).
  - inversion E; subst. split; assumption.
  - unfold remaining in E. destruct (latest tm1 w1) as [[tm2 l2] w2] eqn:L2.
    destruct (ll_latest _ _ _ _ _ _ Hi1 L2) as [Hi2 D2].
    apply (ll_sleep _ _ _ (max0 (tsub (t_stop tm1) l2))) in Hi2.
    destruct (IH _ _ _ _ _ _ _ Hi2 E) as [R1 R2]. split; [assumption|lia].
Qed.

Lemma ll_restart : forall tm w base, ll_inv tm w base -> ll_inv (restart tm) w (base + (t_stop tm - t_start tm)).
Proof.
  intros tm w base [r [rest [A [B C]]]]. exists r, rest. unfold restart, start_at. cbn. tz.
  rsplit; try assumption. lia.
Qed.

Lemma ll_cycles : forall works fuel tm w base d cs tmf wf,
  ll_inv tm w base -> t_stop tm - t_start tm = d ->
  cycles fuel tm w works = Some (cs, tmf, wf) ->
  forall k c, nth_error cs k = Some c -> c_stop c = base + Z.of_nat k * d + shifts (c_log c).
Proof.
  induction works as [|wk rest IH]; intros fuel tm w base d cs tmf wf Hi Hd E k c Hk.
  - cbn in E. inversion E; subst. destruct k; discriminate.
  - cbn [cycles] in E.
    destruct (wait fuel tm (advance w wk) []) as [[[tm1 w1] sl]|] eqn:W; [|discriminate].
    destruct (cycles fuel (restart tm1) w1 rest) as [[[cs' tmf'] wf']|] eqn:C; [|discriminate].
    inversion E; subst. clear E.
    destruct (ll_wait _ _ _ _ _ _ _ _ (ll_advance _ _ _ wk Hi) W) as [Hi1 Du].
    pose proof (ll_restart _ _ _ Hi1) as Hir. rewrite Du in Hir.
    destruct k as [|k].
    + cbn in Hk. inversion Hk; subst. cbn. destruct Hi as [r [rs [A [B C']]]]. lia.
    + cbn in Hk.
      assert (Hdr : t_stop (restart tm1) - t_start (restart tm1) = t_stop tm - t_start tm)
        by (rewrite restart_duration; exact Du).
      rewrite (IH fuel (restart tm1) w1 _ _ cs' tmf wf Hir Hdr C k c Hk). lia.
Qed.

Theorem do_real_lossless : forall fuel tock (tm : ztimer) (w : zworld) works out tmf wf,
  do_real VSync fuel tock tm w works = Some (out, tmf, wf) ->
  forall k c, nth_error (r_cycles out) k = Some c ->
    c_stop c = r_now out + (Z.of_nat k + 1) * tock + shifts (c_log c).
Proof.
  intros fuel tock tm w works out tmf wf E k c Hk. unfold do_real in E.
  destruct (start_run VSync tock tm w) as [tm0 w0] eqn:S.
  destruct (start_sync_spec _ _ _ _ _ S) as [r [R [A [B C]]]].
  destruct (read_log _ _ _ R) as [Rn Lg].
  destruct (cycles fuel tm0 (clear_log w0) works) as [[[cs tmf'] wf']|] eqn:Cy; [|discriminate].
  inversion E; subst out tmf' wf'. clear E. cbn [r_cycles r_now] in *.
  assert (Hi : ll_inv tm0 (clear_log w0) (now w0 + tock)).
  { exists (now w0), []. unfold clear_log. cbn [log]. rewrite Lg. cbn. rewrite <- Rn. rsplit; try reflexivity; lia. }
  rewrite (ll_cycles works fuel tm0 (clear_log w0) _ tock cs tmf wf Hi ltac:(lia) Cy k c Hk).
  lia.
Qed.

(* ------------------------------------------------------------------ sessions *)

Lemma do_real_run : forall fuel tock (tm : ztimer) (w : zworld) works out tmf wf,
  world_ok w -> Forall step_ok works ->
  do_real VSync fuel tock tm w works = Some (out, tmf, wf) ->
  world_ok wf /\ not_early_run tock out /\ lossless_run tock out.
Proof.
  intros fuel tock tm w works out tmf wf Hw Hs E.
  destruct (do_real_not_early _ _ _ _ _ _ _ _ Hw Hs E) as [Hwf [Hk [He Hl]]].
  split; [assumption|]. split.
  - split; [assumption|]. rewrite Hl. exact He.
  - exact (do_real_lossless _ _ _ _ _ _ _ _ E).
Qed.

Lemma session_runs : forall runs fuel tock (tm : ztimer) (w : zworld) outs,
  world_ok w -> Forall run_ok runs ->
  session VSync fuel tock tm w runs = Some outs ->
  Forall2 (fun t o => not_early_run t o /\ lossless_run t o) (eff_tocks tock runs) outs.
Proof.
  induction runs as [|r rest IH]; intros fuel tock tm w outs Hw Hr E.
  - cbn in E. inversion E; subst. constructor.
  - cbn [session] in E. inversion Hr as [|? ? [Hpre Hworks] Hrest]; subst.
    set (t := match i_tock r with Some x => x | None => tock end) in *.
    destruct (do_real VSync fuel t tm (advance w (i_pre r)) (i_works r)) as [[[o tm1] w1]|] eqn:D; [|discriminate].
    destruct (session VSync fuel (last_set (i_sets r) t) tm1 w1 rest) as [os|] eqn:S; [|discriminate].
    inversion E; subst. clear E.
    destruct (do_real_run _ _ _ _ _ _ _ _ (advance_ok _ _ Hw) Hworks D) as [Hw1 [NE LL]].
    cbn [eff_tocks]. fold t. constructor; [split; assumption|].
    exact (IH _ _ _ _ _ Hw1 Hrest S).
Qed.

Theorem play_runs : forall fuel t0 tock0 rs os runs outs,
  Forall step_ok rs -> Forall slp_ok os -> Forall run_ok runs ->
  play VSync fuel t0 tock0 rs os runs = Some outs ->
  Forall2 (fun t o => not_early_run t o /\ lossless_run t o) (eff_tocks tock0 runs) outs.
Proof.
  intros fuel t0 tock0 rs os runs outs Hr Ho Hruns E. unfold play in E.
  set (w := {| now := t0; mono := tzero; reads := rs; overs := os; log := [] |}) in *.
  assert (Hw : world_ok w) by (split; assumption).
  unfold timer_init in E.
  destruct (read w) as [r1 w1] eqn:R1. destruct (read w1) as [r2 w2] eqn:R2.
  destruct (read_facts _ _ _ Hw R1) as [Hw1 _]. destruct (read_facts _ _ _ Hw1 R2) as [Hw2 _].
  exact (session_runs _ _ _ _ _ _ Hw2 Hruns E).
Qed.

(* ------------------------------------------------------------------ the wait always ends *)

Lemma bad_reads_cons : forall p j rs,
  (bad_reads rs <= bad_reads ((p, j) :: rs))%nat /\
  (0 < j -> (S (bad_reads rs) <= bad_reads ((p, j) :: rs))%nat) /\
  (j <= 0 -> bad_reads ((p, j) :: rs) = bad_reads rs).
Proof.
  intros p j rs. unfold bad_reads. cbn [filter snd]. destruct (0 <? j) eqn:E; cbn [length]; rsplit; intros; lia.
Qed.

(* a reading is either not below the clock before it, or it used up one backward jump of the script *)
Lemma read_cases : forall (w w' : zworld) r,
  world_ok w -> read w = (r, w') ->
  overs w' = overs w /\ r = now w' /\ (bad w' <= bad w)%nat /\
  (now w <= now w' \/ (S (bad w') <= bad w)%nat).
Proof.
  intros w w' r [Hr Ho] E. unfold read in E. destruct (reads w) as [|[p j] rs] eqn:R.
  - inversion E; subst. unfold bad. cbn [now reads overs]. rewrite R. rsplit; try reflexivity; try lia.
  - inversion Hr as [|? ? [Hp Hj] Hrs]; subst. inversion E; subst. unfold advance, bad.
    cbn [now mono reads overs log fst snd] in *. tz. rewrite R.
    unfold bad_reads. cbn [filter snd].
    destruct (0 <? j) eqn:J; cbn [length]; rsplit; try reflexivity; try lia.
Qed.

Lemma sleep_cases : forall (w : zworld) d,
  world_ok w -> 0 <= d ->
  (bad (sleep w d) <= bad w)%nat /\
  ((now w + d <= now (sleep w d)) \/ (S (bad (sleep w d)) <= bad w)%nat).
Proof.
  intros w d [Hr Ho] Hd. unfold sleep, bad. destruct (overs w) as [|[o|e] os] eqn:O.
  - cbn [now reads overs]. tz. unfold bad_overs. cbn. split; [lia|left; lia].
  - inversion Ho as [|? ? Hoo Hos]; subst. cbn in Hoo. cbn [now reads overs]. tz.
    unfold bad_overs. cbn [filter length]. split; [lia|left; lia].
  - cbn [now reads overs]. unfold bad_overs. cbn [filter length]. split; [lia|right; lia].
Qed.

Lemma advance_bad : forall (w : zworld) s, bad (advance w s) = bad w.
Proof. intros w s. reflexivity. Qed.

Lemma latest_cases : forall (tm tm' : ztimer) (w w' : zworld) l,
  world_ok w -> latest tm w = (tm', l, w') ->
  world_ok w' /\ l = now w' /\ t_last tm' = now w' /\
  t_stop tm' = t_stop tm + Z.min 0 (now w' - t_last tm) /\
  (bad w' <= bad w)%nat /\ (now w <= now w' \/ (S (bad w') <= bad w)%nat).
Proof.
  intros tm tm' w w' l Hw E.
  destruct (latest_spec _ _ _ _ _ E) as [r [R [L1 [L2 [L3 _]]]]].
  destruct (read_facts _ _ _ Hw R) as [Hw' _].
  destruct (read_cases _ _ _ Hw R) as [_ [Rn [B C]]]. subst l. subst r.
  rsplit; try assumption; try reflexivity; try lia.
Qed.

Definition ready (tm : ztimer) (w : zworld) : Prop := t_stop tm <= now w /\ t_last tm <= now w.

Lemma wait_ends : forall fuel tm w acc,
  world_ok w ->
  (ready tm w /\ (2 * bad w < fuel)%nat) \/ (2 * bad w + 1 < fuel)%nat ->
  wait fuel tm w acc <> None.
Proof.
  induction fuel as [|f IH]; intros tm w acc Hw H; [destruct H as [[_ H]|H]; lia|].
  cbn [wait]. unfold expired.
  destruct (latest tm w) as [[tm1 l1] w1] eqn:L1.
  destruct (latest_cases _ _ _ _ _ Hw L1) as [Hw1 [E1 [La1 [St1 [B1 C1]]]]].
  tz. destruct (t_stop tm1 <=? l1) eqn:X; [discriminate|].
  assert (F : (2 * bad w1 < f)%nat).
  { destruct H as [[[R1 R2] H]|H]; [|lia]. destruct C1 as [C1|C1]; lia. }
  unfold remaining. destruct (latest tm1 w1) as [[tm2 l2] w2] eqn:L2.
  destruct (latest_cases _ _ _ _ _ Hw1 L2) as [Hw2 [E2 [La2 [St2 [B2 C2]]]]].
  pose proof (max0_nonneg (t_stop tm1 - l2)) as Hd.
  assert (Hd2 : t_stop tm1 - l2 <= max0 (t_stop tm1 - l2)).
  { unfold max0. tz. destruct (0 <? t_stop tm1 - l2) eqn:Y; lia. }
  destruct (sleep_facts w2 _ Hw2 Hd) as [Hw3 _].
  destruct (sleep_cases w2 _ Hw2 Hd) as [B3 C3].
  apply IH; [assumption|].
  destruct C3 as [C3|C3].
  - left. tz. unfold ready. rsplit; lia.
  - right. tz. lia.
Qed.

Lemma wait_world : forall fuel tm w acc tm' w' sl,
  world_ok w -> wait fuel tm w acc = Some (tm', w', sl) -> world_ok w' /\ (bad w' <= bad w)%nat.
Proof.
  induction fuel as [|f IH]; intros tm w acc tm' w' sl Hw E; [discriminate|].
  cbn [wait] in E. unfold expired in E.
  destruct (latest tm w) as [[tm1 l1] w1] eqn:L1.
  destruct (latest_cases _ _ _ _ _ Hw L1) as [Hw1 [_ [_ [_ [B1 _]]]]].
  destruct (tleb (t_stop tm1) l1).
  - inversion E; subst. split; assumption.
  - unfold remaining in E. destruct (latest tm1 w1) as [[tm2 l2] w2] eqn:L2.
    destruct (latest_cases _ _ _ _ _ Hw1 L2) as [Hw2 [_ [_ [_ [B2 _]]]]].
    pose proof (max0_nonneg (t_stop tm1 - l2)) as Hd. tz.
    destruct (sleep_facts w2 _ Hw2 Hd) as [Hw3 _].
    destruct (sleep_cases w2 _ Hw2 Hd) as [B3 _].
    destruct (IH _ _ _ _ _ _ Hw3 E) as [R1 R2]. split; [assumption|lia].
Qed.

Lemma cycles_ends : forall works fuel tm w,
  world_ok w -> Forall step_ok works -> (2 * bad w + 1 < fuel)%nat ->
  cycles fuel tm w works <> None.
Proof.
  induction works as [|wk rest IH]; intros fuel tm w Hw Hs F; [discriminate|].
  cbn [cycles]. inversion Hs as [|? ? Hwk Hrest]; subst.
  pose proof (advance_ok w wk Hw) as Hwa.
  destruct (wait fuel tm (advance w wk) []) as [[[tm1 w1] sl]|] eqn:W.
  - destruct (wait_world _ _ _ _ _ _ _ Hwa W) as [Hw1 B1]. rewrite advance_bad in B1.
    specialize (IH fuel (restart tm1) w1 Hw1 Hrest ltac:(lia)).
    destruct (cycles fuel (restart tm1) w1 rest) as [[[cs tmf] wf]|]; [discriminate|contradiction].
  - exfalso. apply (wait_ends fuel tm (advance w wk) [] Hwa); [right; rewrite advance_bad; lia|exact W].
Qed.

Theorem do_real_ends : forall fuel tock (tm : ztimer) (w : zworld) works,
  world_ok w -> Forall step_ok works -> (2 * bad w + 1 < fuel)%nat ->
  exists out tmf wf, do_real VSync fuel tock tm w works = Some (out, tmf, wf).
Proof.
  intros fuel tock tm w works Hw Hs F. unfold do_real.
  destruct (start_run VSync tock tm w) as [tm0 w0] eqn:S.
  destruct (start_sync_spec _ _ _ _ _ S) as [r [R _]].
  destruct (read_facts _ _ _ Hw R) as [Hw0 _]. destruct (read_cases _ _ _ Hw R) as [_ [_ [B _]]].
  pose proof (cycles_ends works fuel tm0 (clear_log w0) (clear_log_ok _ Hw0) Hs) as C.
  assert (Bc : bad (clear_log w0) = bad w0) by reflexivity.
  specialize (C ltac:(lia)).
  destruct (cycles fuel tm0 (clear_log w0) works) as [[[cs tmf] wf]|]; [|contradiction].
  eexists _, _, _. reflexivity.
Qed.

(* ------------------------------------------------------------------ a clock that never steps back: no shifts at all *)

Definition no_retro (rs : list (Z * Z)) : Prop := Forall (fun s => snd s = 0) rs.

(* the reading log shows no retrograde and its newest entry is not above the clock *)
Definition flat (w : zworld) : Prop :=
  shifts (log w) = 0 /\ (forall h t, log w = h :: t -> h <= now w) /\ no_retro (reads w).

Lemma flat_advance : forall w s, step_ok s -> snd s = 0 -> flat w -> flat (advance w s).
Proof.
  intros w [p j] [Hp _] Hj [A [B C]]. cbn [snd fst] in *. subst j.
  unfold flat, advance. cbn [now log reads fst snd]. tz. rsplit; try assumption.
  intros h t E. specialize (B h t E). lia.
Qed.

Lemma flat_sleep : forall w d, world_ok w -> 0 <= d -> flat w -> flat (sleep w d).
Proof.
  intros w d [Hr Ho] Hd [A [B C]]. unfold flat. rewrite sleep_log. rsplit; try assumption.
  - intros h t E. specialize (B h t E).
    unfold sleep. destruct (overs w) as [|[o|e] os] eqn:O; cbn [now]; tz.
    + lia.
    + inversion Ho as [|? ? Hoo Hos]; subst. cbn in Hoo. lia.
    + inversion Ho as [|? ? Hoo Hos]; subst. cbn in Hoo. destruct (e <? d) eqn:X; lia.
  - unfold sleep. destruct (overs w) as [|[o|e] os]; exact C.
Qed.

Lemma flat_read : forall w w' r, world_ok w -> flat w -> read w = (r, w') -> flat w'.
Proof.
  intros w w' r [Hr Ho] [A [B C]] E. unfold read in E. destruct (reads w) as [|[p j] rs] eqn:R.
  - inversion E; subst. unfold flat. cbn [log now reads]. rewrite R. rsplit.
    + destruct (log w) as [|h t] eqn:L; [reflexivity|]. specialize (B h t eq_refl).
      cbn [shifts] in *. lia.
    + intros h t X. inversion X; subst. lia.
    + constructor.
  - inversion Hr as [|? ? [Hp Hj] Hrs]; subst. inversion C as [|? ? Hj0 Crs]; subst.
    cbn [fst snd] in *. subst j. inversion E; subst. unfold flat, advance. cbn [log now reads fst snd]. tz. rsplit.
    + destruct (log w) as [|h t] eqn:L; [reflexivity|]. specialize (B h t eq_refl).
      cbn [shifts] in *. lia.
    + intros h t X. inversion X; subst. lia.
    + assumption.
Qed.

Lemma flat_latest : forall (tm tm' : ztimer) w w' l,
  world_ok w -> flat w -> latest tm w = (tm', l, w') -> flat w'.
Proof.
  intros tm tm' w w' l Hw F E. destruct (latest_spec _ _ _ _ _ E) as [r [R _]].
  exact (flat_read _ _ _ Hw F R).
Qed.

Lemma flat_wait : forall fuel (tm : ztimer) w acc tm' w' sl,
  world_ok w -> flat w -> wait fuel tm w acc = Some (tm', w', sl) -> flat w'.
Proof.
  induction fuel as [|f IH]; intros tm w acc tm' w' sl Hw F E; [discriminate|].
  cbn [wait] in E. unfold expired in E.
  destruct (latest tm w) as [[tm1 l1] w1] eqn:L1.
  destruct (latest_cases _ _ _ _ _ Hw L1) as [Hw1 _].
  pose proof (flat_latest _ _ _ _ _ Hw F L1) as F1.
  destruct (tleb (t_stop tm1) l1).
  - inversion E; subst. assumption.
  - unfold remaining in E. destruct (latest tm1 w1) as [[tm2 l2] w2] eqn:L2.
    destruct (latest_cases _ _ _ _ _ Hw1 L2) as [Hw2 _].
    pose proof (flat_latest _ _ _ _ _ Hw1 F1 L2) as F2. tz.
    pose proof (max0_nonneg (t_stop tm1 - l2)) as Hd.
    destruct (sleep_facts w2 _ Hw2 Hd) as [Hw3 _].
    exact (IH _ _ _ _ _ _ Hw3 (flat_sleep _ _ Hw2 Hd F2) E).
Qed.

Lemma flat_cycles : forall works fuel (tm : ztimer) w cs tmf wf,
  world_ok w -> flat w -> Forall step_ok works -> no_retro works ->
  cycles fuel tm w works = Some (cs, tmf, wf) ->
  forall k c, nth_error cs k = Some c -> shifts (c_log c) = 0.
Proof.
  induction works as [|wk rest IH]; intros fuel tm w cs tmf wf Hw F Hs Hn E k c Hk.
  - cbn in E. inversion E; subst. destruct k; discriminate.
  - cbn [cycles] in E. inversion Hs as [|? ? Hwk Hrest]; subst. inversion Hn as [|? ? Hj Hnrest]; subst.
    destruct (wait fuel tm (advance w wk) []) as [[[tm1 w1] sl]|] eqn:W; [|discriminate].
    destruct (cycles fuel (restart tm1) w1 rest) as [[[cs' tmf'] wf']|] eqn:C; [|discriminate].
    inversion E; subst. clear E.
    pose proof (advance_ok w wk Hw) as Hwa.
    pose proof (flat_wait _ _ _ _ _ _ _ Hwa (flat_advance _ _ Hwk Hj F) W) as F1.
    destruct (wait_world _ _ _ _ _ _ _ Hwa W) as [Hw1 _].
    destruct k as [|k].
    + cbn in Hk. inversion Hk; subst. cbn. exact (proj1 F).
    + cbn in Hk. exact (IH _ _ _ _ _ _ Hw1 F1 Hrest Hnrest C k c Hk).
Qed.

(* steady, stalled or merely late clock: every deadline is exactly start + (k+1) tocks *)
Theorem do_real_no_drift : forall fuel tock (tm : ztimer) (w : zworld) works out tmf wf,
  world_ok w -> Forall step_ok works -> no_retro (reads w) -> no_retro works ->
  do_real VSync fuel tock tm w works = Some (out, tmf, wf) ->
  forall k c, nth_error (r_cycles out) k = Some c ->
    c_stop c = r_now out + (Z.of_nat k + 1) * tock.
Proof.
  intros fuel tock tm w works out tmf wf Hw Hs Hnr Hnw E k c Hk.
  rewrite (do_real_lossless _ _ _ _ _ _ _ _ E k c Hk).
  unfold do_real in E.
  destruct (start_run VSync tock tm w) as [tm0 w0] eqn:S.
  destruct (start_sync_spec _ _ _ _ _ S) as [r [R _]].
  destruct (read_log _ _ _ R) as [Rn Lg]. destruct (read_facts _ _ _ Hw R) as [Hw0 _].
  destruct (cycles fuel tm0 (clear_log w0) works) as [[[cs tmf'] wf']|] eqn:Cy; [|discriminate].
  inversion E; subst out tmf' wf'. clear E. cbn [r_cycles] in Hk.
  assert (F : flat (clear_log w0)).
  { unfold flat, clear_log. cbn [log now reads]. rewrite Lg. cbn [firstn shifts]. rsplit.
    - reflexivity.
    - intros h t X. inversion X; subst. lia.
    - unfold read in R. destruct (reads w) as [|[p j] rs] eqn:Q; inversion R; subst; cbn [reads advance].
      + rewrite Q. constructor.
      + inversion Hnr; assumption. }
  rewrite (flat_cycles _ _ _ _ _ _ _ (clear_log_ok _ Hw0) F Hs Hnw Cy k c Hk). lia.
Qed.

(* ================================================================== Doist.ado: AsyncTimer over the loop clock *)

Notation zatimer := (@atimer Z).

Definition ane_inv (tm : zatimer) (w : zworld) (M : Z) : Prop :=
  exists ol, now w - mono w <= ol /\ M <= a_stop tm - ol.

Lemma ane_advance : forall tm w M s, step_ok s -> ane_inv tm w M -> ane_inv tm (advance w s) M.
Proof.
  intros tm w M s Hs [ol [A B]]. destruct (advance_facts w s Hs) as [_ [F2 _]]. exists ol. split; lia.
Qed.

Lemma ane_sleep : forall tm w M d, world_ok w -> 0 <= d -> ane_inv tm w M -> ane_inv tm (sleep w d) M.
Proof.
  intros tm w M d Hw Hd [ol [A B]]. destruct (sleep_facts w d Hw Hd) as [_ [_ [F2 _]]]. exists ol. split; lia.
Qed.

Lemma ane_read : forall tm w w' r M, world_ok w -> ane_inv tm w M -> read w = (r, w') ->
  world_ok w' /\ ane_inv tm w' M /\ mono w <= mono w' /\ r = now w' /\ (a_stop tm <= r -> M <= mono w').
Proof.
  intros tm w w' r M Hw [ol [A B]] R.
  destruct (read_log _ _ _ R) as [Rn _]. destruct (read_facts _ _ _ Hw R) as [Hw' [Mm Off]].
  rsplit; try assumption; try lia. exists ol. split; lia.
Qed.

Lemma ane_await : forall fuel (tm : zatimer) w acc M w' sl,
  world_ok w -> ane_inv tm w M -> await fuel tm w acc = Some (w', sl) ->
  world_ok w' /\ ane_inv tm w' M /\ M <= mono w' /\ mono w <= mono w'.
Proof.
  induction fuel as [|f IH]; intros tm w acc M w' sl Hw Hi E; [discriminate|].
  cbn [await] in E. destruct (read w) as [r1 w1] eqn:R1.
  destruct (ane_read _ _ _ _ _ Hw Hi R1) as [Hw1 [Hi1 [Mo1 [E1 X1]]]].
  tz. destruct (a_stop tm <=? r1) eqn:X.
  - inversion E; subst w1 sl. rsplit; try assumption. apply X1. lia.
  - destruct (read w1) as [r2 w2] eqn:R2.
    destruct (ane_read _ _ _ _ _ Hw1 Hi1 R2) as [Hw2 [Hi2 [Mo2 _]]].
    pose proof (max0_nonneg (a_stop tm - r2)) as Hd.
    destruct (sleep_facts w2 _ Hw2 Hd) as [Hw3 [Mo3 _]].
    apply (ane_sleep _ _ _ _ Hw2 Hd) in Hi2.
    destruct (IH _ _ _ _ _ _ Hw3 Hi2 E) as [Q1 [Q2 [Q3 Q4]]]. rsplit; try assumption. lia.
Qed.

Lemma ane_restart : forall tm w M, ane_inv tm w M -> ane_inv (atimer_restart tm) w (M + (a_stop tm - a_start tm)).
Proof. intros tm w M [ol [A B]]. exists ol. unfold atimer_restart. cbn. tz. split; lia. Qed.

Lemma atimer_restart_fields : forall tm : zatimer,
  a_stop (atimer_restart tm) - a_start (atimer_restart tm) = a_stop tm - a_start tm /\
  a_stop (atimer_restart tm) = a_stop tm + (a_stop tm - a_start tm).
Proof. intros tm. unfold atimer_restart. cbn. tz. lia. Qed.

Lemma ane_acycles : forall works fuel tm w M d cs tmf wf,
  world_ok w -> Forall step_ok works -> ane_inv tm w M ->
  a_stop tm - a_start tm = d -> M - d <= mono w ->
  acycles fuel tm w works = Some (cs, tmf, wf) ->
  world_ok wf /\
  (forall k c, nth_error cs k = Some c -> M - d + Z.of_nat k * d <= c_mono c) /\
  M - d + Z.of_nat (length works) * d <= mono wf /\ length cs = length works.
Proof.
  induction works as [|wk rest IH]; intros fuel tm w M d cs tmf wf Hw Hs Hi Hd Hm E.
  - cbn in E. inversion E; subst. rsplit; try assumption; try (cbn; lia).
    intros k c Hk. destruct k; discriminate.
  - cbn [acycles] in E. inversion Hs as [|? ? Hwk Hrest]; subst.
    destruct (await fuel tm (advance w wk) []) as [[w1 sl]|] eqn:W; [|discriminate].
    destruct (acycles fuel (atimer_restart tm) w1 rest) as [[[cs' tmf'] wf']|] eqn:C; [|discriminate].
    inversion E; subst. clear E.
    pose proof (advance_ok w wk Hw) as Hwa.
    pose proof (ane_advance _ _ _ _ Hwk Hi) as Hia.
    destruct (advance_facts w wk Hwk) as [Ma _].
    destruct (ane_await _ _ _ _ _ _ _ Hwa Hia W) as [Hw1 [Hi1 [HM Mo]]].
    pose proof (ane_restart _ _ _ Hi1) as Hir.
    destruct (atimer_restart_fields tm) as [Hdr _].
    destruct (IH fuel (atimer_restart tm) w1 (M + (a_stop tm - a_start tm)) (a_stop tm - a_start tm) cs' tmf wf
                 Hw1 Hrest Hir Hdr ltac:(lia) C) as [Hwf [Hk [He Hl]]].
    rsplit; try assumption.
    + intros k c Hkc. destruct k as [|k].
      * cbn in Hkc. inversion Hkc; subst. cbn. lia.
      * cbn in Hkc. specialize (Hk k c Hkc). lia.
    + cbn [length]. lia.
    + cbn [length]. lia.
Qed.

(* ado's run start: AsyncTimer(duration=tock) then .start(): two loop-clock readings, the second is the start *)
Lemma ado_start_spec : forall tock (w w0 w1 : zworld) tm0 tm1,
  atimer_init tock w = (tm0, w0) -> atimer_start tm0 w0 = (tm1, w1) ->
  exists r0 r1, read w = (r0, w0) /\ read w0 = (r1, w1) /\ a_start tm1 = r1 /\ a_stop tm1 = r1 + tock.
Proof.
  intros tock w w0 w1 tm0 tm1 I S. unfold atimer_init in I. unfold atimer_start in S.
  destruct (read w) as [r0 w0'] eqn:R0. inversion I; subst. clear I. cbn [a_start a_stop] in S. tz.
  destruct (read w0) as [r1 w1'] eqn:R1. inversion S; subst. clear S.
  exists r0, r1. cbn. tz. rsplit; try reflexivity; lia.
Qed.

Theorem ado_real_not_early : forall fuel tock (w : zworld) works out wf,
  world_ok w -> Forall step_ok works ->
  ado_real fuel tock w works = Some (out, wf) ->
  world_ok wf /\
  (forall k c, nth_error (r_cycles out) k = Some c -> r_mono out + Z.of_nat k * tock <= c_mono c) /\
  r_mono out + Z.of_nat (length works) * tock <= r_end_mono out /\
  length (r_cycles out) = length works.
Proof.
  intros fuel tock w works out wf Hw Hs E. unfold ado_real in E.
  destruct (atimer_init tock w) as [tm0 w0] eqn:I. destruct (atimer_start tm0 w0) as [tm1 w1] eqn:S.
  destruct (ado_start_spec _ _ _ _ _ _ I S) as [r0 [r1 [R0 [R1 [A B]]]]].
  destruct (read_facts _ _ _ Hw R0) as [Hw0 _]. destruct (read_facts _ _ _ Hw0 R1) as [Hw1 _].
  destruct (read_log _ _ _ R1) as [Rn _].
  destruct (acycles fuel tm1 (clear_log w1) works) as [[[cs tmf] wf']|] eqn:Cy; [|discriminate].
  inversion E; subst. clear E. cbn [r_cycles r_mono r_end_mono].
  destruct (clear_log_fields w1) as [F1 [F2 _]].
  assert (Hi : ane_inv tm1 (clear_log w1) (mono w1 + tock)).
  { exists (now w1 - mono w1). rewrite F1, F2. split; lia. }
  destruct (ane_acycles works fuel tm1 (clear_log w1) (mono w1 + tock) tock cs tmf wf
              (clear_log_ok _ Hw1) Hs Hi ltac:(lia) ltac:(rewrite F2; lia) Cy) as [Hwf [Hk [He Hl]]].
  rsplit; try assumption.
  - intros k c Hkc. specialize (Hk k c Hkc). lia.
  - lia.
Qed.

(* deadlines: exactly start + (k+1) tocks, whatever the environment does (there is nothing that shifts them) *)
Lemma all_acycles : forall works fuel (tm : zatimer) w d cs tmf wf,
  a_stop tm - a_start tm = d ->
  acycles fuel tm w works = Some (cs, tmf, wf) ->
  forall k c, nth_error cs k = Some c -> c_stop c = a_stop tm + Z.of_nat k * d.
Proof.
  induction works as [|wk rest IH]; intros fuel tm w d cs tmf wf Hd E k c Hk.
  - cbn in E. inversion E; subst. destruct k; discriminate.
  - cbn [acycles] in E.
    destruct (await fuel tm (advance w wk) []) as [[w1 sl]|] eqn:W; [|discriminate].
    destruct (acycles fuel (atimer_restart tm) w1 rest) as [[[cs' tmf'] wf']|] eqn:C; [|discriminate].
    inversion E; subst. clear E.
    destruct (atimer_restart_fields tm) as [Hdr Hst].
    destruct k as [|k].
    + cbn in Hk. inversion Hk; subst. cbn. lia.
    + cbn in Hk. rewrite (IH fuel (atimer_restart tm) w1 _ cs' tmf wf Hdr C k c Hk). lia.
Qed.

Theorem ado_real_lossless : forall fuel tock (w : zworld) works out wf,
  ado_real fuel tock w works = Some (out, wf) ->
  forall k c, nth_error (r_cycles out) k = Some c ->
    c_stop c = r_now out + (Z.of_nat k + 1) * tock.
Proof.
  intros fuel tock w works out wf E k c Hk. unfold ado_real in E.
  destruct (atimer_init tock w) as [tm0 w0] eqn:I. destruct (atimer_start tm0 w0) as [tm1 w1] eqn:S.
  destruct (ado_start_spec _ _ _ _ _ _ I S) as [r0 [r1 [R0 [R1 [A B]]]]].
  destruct (read_log _ _ _ R1) as [Rn _].
  destruct (acycles fuel tm1 (clear_log w1) works) as [[[cs tmf] wf']|] eqn:Cy; [|discriminate].
  inversion E; subst out wf'. clear E. cbn [r_cycles r_now] in *.
  rewrite (all_acycles works fuel tm1 (clear_log w1) tock cs tmf wf ltac:(lia) Cy k c Hk).
  lia.
Qed.

(* the await loop ends *)
Lemma await_ends : forall fuel (tm : zatimer) w acc,
  world_ok w ->
  (a_stop tm <= now w /\ (2 * bad w < fuel)%nat) \/ (2 * bad w + 1 < fuel)%nat ->
  await fuel tm w acc <> None.
Proof.
  induction fuel as [|f IH]; intros tm w acc Hw H; [destruct H as [[_ H]|H]; lia|].
  cbn [await]. destruct (read w) as [r1 w1] eqn:R1.
  destruct (read_facts _ _ _ Hw R1) as [Hw1 _]. destruct (read_cases _ _ _ Hw R1) as [_ [E1 [B1 C1]]].
  tz. destruct (a_stop tm <=? r1) eqn:X; [discriminate|].
  assert (F : (2 * bad w1 < f)%nat).
  { destruct H as [[R H]|H]; [|lia]. destruct C1 as [C1|C1]; lia. }
  destruct (read w1) as [r2 w2] eqn:R2.
  destruct (read_facts _ _ _ Hw1 R2) as [Hw2 _]. destruct (read_cases _ _ _ Hw1 R2) as [_ [E2 [B2 C2]]].
  pose proof (max0_nonneg (a_stop tm - r2)) as Hd.
  assert (Hd2 : a_stop tm - r2 <= max0 (a_stop tm - r2)).
  { unfold max0. tz. destruct (0 <? a_stop tm - r2) eqn:Y; lia. }
  destruct (sleep_facts w2 _ Hw2 Hd) as [Hw3 _].
  destruct (sleep_cases w2 _ Hw2 Hd) as [B3 C3].
  apply IH; [assumption|].
  destruct C3 as [C3|C3]; [left; split; lia|right; lia].
Qed.

Lemma await_world : forall fuel (tm : zatimer) w acc w' sl,
  world_ok w -> await fuel tm w acc = Some (w', sl) -> world_ok w' /\ (bad w' <= bad w)%nat.
Proof.
  induction fuel as [|f IH]; intros tm w acc w' sl Hw E; [discriminate|].
  cbn [await] in E. destruct (read w) as [r1 w1] eqn:R1.
  destruct (read_facts _ _ _ Hw R1) as [Hw1 _]. destruct (read_cases _ _ _ Hw R1) as [_ [_ [B1 _]]].
  destruct (tleb (a_stop tm) r1).
  - inversion E; subst. split; assumption.
  - destruct (read w1) as [r2 w2] eqn:R2.
    destruct (read_facts _ _ _ Hw1 R2) as [Hw2 _]. destruct (read_cases _ _ _ Hw1 R2) as [_ [_ [B2 _]]].
    tz. pose proof (max0_nonneg (a_stop tm - r2)) as Hd.
    destruct (sleep_facts w2 _ Hw2 Hd) as [Hw3 _]. destruct (sleep_cases w2 _ Hw2 Hd) as [B3 _].
    destruct (IH _ _ _ _ _ Hw3 E) as [Q1 Q2]. split; [assumption|lia].
Qed.

Lemma acycles_ends : forall works fuel (tm : zatimer) w,
  world_ok w -> Forall step_ok works -> (2 * bad w + 1 < fuel)%nat ->
  acycles fuel tm w works <> None.
Proof.
  induction works as [|wk rest IH]; intros fuel tm w Hw Hs F; [discriminate|].
  cbn [acycles]. inversion Hs as [|? ? Hwk Hrest]; subst.
  pose proof (advance_ok w wk Hw) as Hwa.
  destruct (await fuel tm (advance w wk) []) as [[w1 sl]|] eqn:W.
  - destruct (await_world _ _ _ _ _ _ Hwa W) as [Hw1 B1]. rewrite advance_bad in B1.
    specialize (IH fuel (atimer_restart tm) w1 Hw1 Hrest ltac:(lia)).
    destruct (acycles fuel (atimer_restart tm) w1 rest) as [[[cs tmf] wf]|]; [discriminate|contradiction].
  - exfalso. apply (await_ends fuel tm (advance w wk) [] Hwa); [right; rewrite advance_bad; lia|exact W].
Qed.

Theorem ado_real_ends : forall fuel tock (w : zworld) works,
  world_ok w -> Forall step_ok works -> (2 * bad w + 1 < fuel)%nat ->
  exists out wf, ado_real fuel tock w works = Some (out, wf).
Proof.
  intros fuel tock w works Hw Hs F. unfold ado_real.
  destruct (atimer_init tock w) as [tm0 w0] eqn:I. destruct (atimer_start tm0 w0) as [tm1 w1] eqn:S.
  destruct (ado_start_spec _ _ _ _ _ _ I S) as [r0 [r1 [R0 [R1 _]]]].
  destruct (read_facts _ _ _ Hw R0) as [Hw0 _]. destruct (read_cases _ _ _ Hw R0) as [_ [_ [B0 _]]].
  destruct (read_facts _ _ _ Hw0 R1) as [Hw1 _]. destruct (read_cases _ _ _ Hw0 R1) as [_ [_ [B1 _]]].
  pose proof (acycles_ends works fuel tm1 (clear_log w1) (clear_log_ok _ Hw1) Hs) as C.
  assert (Bc : bad (clear_log w1) = bad w1) by reflexivity.
  specialize (C ltac:(lia)).
  destruct (acycles fuel tm1 (clear_log w1) works) as [[[cs tmf] wf]|]; [|contradiction].
  eexists _, _. reflexivity.
Qed.

(* sessions of ado() runs *)
Definition ado_exact_run (tock : Z) (o : @run_out Z) : Prop :=
  forall k c, nth_error (r_cycles o) k = Some c -> c_stop c = r_now o + (Z.of_nat k + 1) * tock.

Lemma asession_runs : forall runs fuel tock (w : zworld) outs,
  world_ok w -> Forall run_ok runs ->
  asession fuel tock w runs = Some outs ->
  Forall2 (fun t o => not_early_run t o /\ ado_exact_run t o) (eff_tocks tock runs) outs.
Proof.
  induction runs as [|r rest IH]; intros fuel tock w outs Hw Hr E.
  - cbn in E. inversion E; subst. constructor.
  - cbn [asession] in E. inversion Hr as [|? ? [Hpre Hworks] Hrest]; subst.
    set (t := match i_tock r with Some x => x | None => tock end) in *.
    destruct (ado_real fuel t (advance w (i_pre r)) (i_works r)) as [[o w1]|] eqn:D; [|discriminate].
    destruct (asession fuel (last_set (i_sets r) t) w1 rest) as [os|] eqn:S; [|discriminate].
    inversion E; subst. clear E.
    destruct (ado_real_not_early _ _ _ _ _ _ (advance_ok _ _ Hw) Hworks D) as [Hw1 [Hk [He Hl]]].
    cbn [eff_tocks]. fold t. constructor.
    + split; [split; [assumption|rewrite Hl; exact He]|exact (ado_real_lossless _ _ _ _ _ _ D)].
    + exact (IH _ _ _ _ Hw1 Hrest S).
Qed.

Theorem aplay_runs : forall fuel t0 tock0 rs os runs outs,
  Forall step_ok rs -> Forall slp_ok os -> Forall run_ok runs ->
  aplay fuel t0 tock0 rs os runs = Some outs ->
  Forall2 (fun t o => not_early_run t o /\ ado_exact_run t o) (eff_tocks tock0 runs) outs.
Proof.
  intros fuel t0 tock0 rs os runs outs Hr Ho Hruns E. unfold aplay in E.
  refine (asession_runs _ _ _ _ _ _ Hruns E). split; assumption.
Qed.

(* ================================================================== on time: lateness is never carried over *)

Definition quiet (w : zworld) : Prop := reads w = [] /\ overs w = [].

Lemma read_quiet : forall w : zworld, quiet w ->
  exists w', read w = (now w, w') /\ now w' = now w /\ quiet w'.
Proof.
  intros w [R O]. unfold read. rewrite R. eexists. split; [reflexivity|]. cbn. split; [reflexivity|].
  split; cbn; auto.
Qed.

Lemma sleep_quiet : forall (w : zworld) d, quiet w -> now (sleep w d) = now w + d /\ quiet (sleep w d).
Proof.
  intros w d [R O]. unfold sleep. rewrite O. cbn. tz. split; [reflexivity|]. split; cbn; auto.
Qed.

Lemma latest_quiet : forall (tm : ztimer) w, quiet w -> t_last tm <= now w ->
  exists tm' w', latest tm w = (tm', now w, w') /\ now w' = now w /\ quiet w' /\
    t_stop tm' = t_stop tm /\ t_start tm' = t_start tm /\ t_last tm' = now w.
Proof.
  intros tm w Q L. destruct (read_quiet w Q) as [w' [R [N Q']]].
  unfold latest. rewrite R. tz. destruct (now w - t_last tm <? 0) eqn:D; [lia|].
  eexists _, w'. split; [f_equal; f_equal; lia|]. cbn. rsplit; try assumption; try reflexivity; lia.
Qed.

Lemma wait_quiet : forall fuel (tm : ztimer) w acc tm' w' sl,
  quiet w -> t_last tm <= now w ->
  wait (S (S fuel)) tm w acc = Some (tm', w', sl) ->
  now w' = Z.max (t_stop tm) (now w) /\ quiet w' /\
  t_stop tm' = t_stop tm /\ t_start tm' = t_start tm /\ t_last tm' = now w'.
Proof.
  intros fuel tm w acc tm' w' sl Q L E.
  cbn [wait] in E. unfold expired in E.
  destruct (latest_quiet tm w Q L) as [tm1 [w1 [L1 [N1 [Q1 [S1 [A1 La1]]]]]]]. rewrite L1 in E. tz.
  destruct (t_stop tm1 <=? now w) eqn:X.
  - inversion E; subst. rsplit; try assumption; lia.
  - unfold remaining in E.
    destruct (latest_quiet tm1 w1 Q1 ltac:(lia)) as [tm2 [w2 [L2 [N2 [Q2 [S2 [A2 La2]]]]]]]. rewrite L2 in E. tz.
    assert (Hm : max0 (t_stop tm1 - now w1) = t_stop tm1 - now w1).
    { unfold max0. tz. destruct (0 <? t_stop tm1 - now w1) eqn:Y; lia. }
    rewrite Hm in E.
    destruct (sleep_quiet w2 (t_stop tm1 - now w1) Q2) as [N3 Q3].
    set (w3 := sleep w2 (t_stop tm1 - now w1)) in *.
    destruct (latest_quiet tm2 w3 Q3 ltac:(lia)) as [tm4 [w4 [L4 [N4 [Q4 [S4 [A4 La4]]]]]]]. rewrite L4 in E.
    destruct (t_stop tm4 <=? now w3) eqn:Y; [|lia].
    inversion E; subst. rsplit; try assumption; lia.
Qed.

Lemma cycles_on_time : forall works fuel (tm : ztimer) w d cs tmf wf,
  quiet w -> t_last tm <= now w -> t_stop tm - t_start tm = d ->
  Forall step_ok works -> no_retro works ->
  cycles (S (S fuel)) tm w works = Some (cs, tmf, wf) ->
  map (fun c => (c_now c, c_stop c)) cs = ideal (now w) (t_stop tm) d works.
Proof.
  induction works as [|[p j] rest IH]; intros fuel tm w d cs tmf wf Q L Hd Hs Hn E.
  - cbn in E. inversion E; subst. reflexivity.
  - cbn [cycles] in E. inversion Hs as [|? ? [Hp _] Hrest]; subst. inversion Hn as [|? ? Hj Hnrest]; subst.
    cbn [fst snd] in *. subst j.
    destruct (wait (S (S fuel)) tm (advance w (p, 0)) []) as [[[tm1 w1] sl]|] eqn:W; [|discriminate].
    destruct (cycles (S (S fuel)) (restart tm1) w1 rest) as [[[cs' tmf'] wf']|] eqn:C; [|discriminate].
    inversion E; subst. clear E.
    assert (Qa : quiet (advance w (p, 0))) by exact Q.
    assert (Na : now (advance w (p, 0)) = now w + p) by (unfold advance; cbn; tz; lia).
    assert (La : t_last tm <= now (advance w (p, 0))) by lia.
    destruct (wait_quiet _ _ _ _ _ _ _ Qa La W) as [N1 [Q1 [S1 [A1 La1]]]].
    cbn [map ideal c_now c_stop fst]. f_equal.
    rewrite (IH fuel (restart tm1) w1 (t_stop tm - t_start tm) cs' tmf wf Q1).
    + unfold restart, start_at. cbn [t_stop]. tz. rewrite N1, Na, S1. f_equal; lia.
    + unfold restart, start_at. cbn [t_last]. lia.
    + rewrite restart_duration. lia.
    + assumption.
    + assumption.
    + assumption.
Qed.

Theorem do_real_on_time : forall fuel tock (tm : ztimer) (w : zworld) works out tmf wf,
  quiet w -> Forall step_ok works -> no_retro works ->
  do_real VSync (S (S fuel)) tock tm w works = Some (out, tmf, wf) ->
  map (fun c => (c_now c, c_stop c)) (r_cycles out) = ideal (r_now out) (r_now out + tock) tock works.
Proof.
  intros fuel tock tm w works out tmf wf Q Hs Hn E. unfold do_real in E.
  destruct (start_run VSync tock tm w) as [tm0 w0] eqn:St.
  destruct (start_sync_spec _ _ _ _ _ St) as [r [R [A [B C]]]].
  destruct (read_quiet w Q) as [w0' [R' [N0 Q0]]]. rewrite R' in R. inversion R; subst r w0'. clear R.
  destruct (cycles (S (S fuel)) tm0 (clear_log w0) works) as [[[cs tmf'] wf']|] eqn:Cy; [|discriminate].
  inversion E; subst out tmf' wf'. clear E. cbn [r_cycles r_now].
  assert (Qc : quiet (clear_log w0)) by exact Q0.
  assert (Nc : now (clear_log w0) = now w0) by reflexivity.
  rewrite (cycles_on_time works fuel tm0 (clear_log w0) tock cs tmf wf Qc ltac:(lia) ltac:(lia) Hs Hn Cy).
  rewrite Nc. f_equal. lia.
Qed.

(* the same for ado() *)
Lemma await_quiet : forall fuel (tm : zatimer) w acc w' sl,
  quiet w -> await (S (S fuel)) tm w acc = Some (w', sl) ->
  now w' = Z.max (a_stop tm) (now w) /\ quiet w'.
Proof.
  intros fuel tm w acc w' sl Q E. cbn [await] in E.
  destruct (read_quiet w Q) as [w1 [R1 [N1 Q1]]]. rewrite R1 in E. tz.
  destruct (a_stop tm <=? now w) eqn:X.
  - inversion E; subst. split; [lia|assumption].
  - destruct (read_quiet w1 Q1) as [w2 [R2 [N2 Q2]]]. rewrite R2 in E.
    assert (Hm : max0 (a_stop tm - now w1) = a_stop tm - now w1).
    { unfold max0. tz. destruct (0 <? a_stop tm - now w1) eqn:Y; lia. }
    rewrite Hm in E.
    destruct (sleep_quiet w2 (a_stop tm - now w1) Q2) as [N3 Q3].
    set (w3 := sleep w2 (a_stop tm - now w1)) in *.
    destruct (read_quiet w3 Q3) as [w4 [R4 [N4 Q4]]]. rewrite R4 in E.
    destruct (a_stop tm <=? now w3) eqn:Y; [|lia].
    inversion E; subst. split; [lia|assumption].
Qed.

Lemma acycles_on_time : forall works fuel (tm : zatimer) w d cs tmf wf,
  quiet w -> a_stop tm - a_start tm = d ->
  Forall step_ok works -> no_retro works ->
  acycles (S (S fuel)) tm w works = Some (cs, tmf, wf) ->
  map (fun c => (c_now c, c_stop c)) cs = ideal (now w) (a_stop tm) d works.
Proof.
  induction works as [|[p j] rest IH]; intros fuel tm w d cs tmf wf Q Hd Hs Hn E.
  - cbn in E. inversion E; subst. reflexivity.
  - cbn [acycles] in E. inversion Hs as [|? ? [Hp _] Hrest]; subst. inversion Hn as [|? ? Hj Hnrest]; subst.
    cbn [fst snd] in *. subst j.
    destruct (await (S (S fuel)) tm (advance w (p, 0)) []) as [[w1 sl]|] eqn:W; [|discriminate].
    destruct (acycles (S (S fuel)) (atimer_restart tm) w1 rest) as [[[cs' tmf'] wf']|] eqn:C; [|discriminate].
    inversion E; subst. clear E.
    assert (Qa : quiet (advance w (p, 0))) by exact Q.
    assert (Na : now (advance w (p, 0)) = now w + p) by (unfold advance; cbn; tz; lia).
    destruct (await_quiet _ _ _ _ _ _ Qa W) as [N1 Q1].
    destruct (atimer_restart_fields tm) as [Hdr Hst].
    cbn [map ideal c_now c_stop fst]. f_equal.
    rewrite (IH fuel (atimer_restart tm) w1 (a_stop tm - a_start tm) cs' tmf wf Q1 Hdr Hrest Hnrest C).
    rewrite N1, Na, Hst. f_equal; lia.
Qed.

Theorem ado_real_on_time : forall fuel tock (w : zworld) works out wf,
  quiet w -> Forall step_ok works -> no_retro works ->
  ado_real (S (S fuel)) tock w works = Some (out, wf) ->
  map (fun c => (c_now c, c_stop c)) (r_cycles out) = ideal (r_now out) (r_now out + tock) tock works.
Proof.
  intros fuel tock w works out wf Q Hs Hn E. unfold ado_real in E.
  destruct (atimer_init tock w) as [tm0 w0] eqn:I. destruct (atimer_start tm0 w0) as [tm1 w1] eqn:St.
  destruct (ado_start_spec _ _ _ _ _ _ I St) as [r0 [r1 [R0 [R1 [A B]]]]].
  destruct (read_quiet w Q) as [w0' [R0' [N0 Q0]]]. rewrite R0' in R0. inversion R0; subst r0 w0'. clear R0.
  destruct (read_quiet w0 Q0) as [w1' [R1' [N1 Q1]]]. rewrite R1' in R1. inversion R1; subst r1 w1'. clear R1.
  destruct (acycles (S (S fuel)) tm1 (clear_log w1) works) as [[[cs tmf] wf']|] eqn:Cy; [|discriminate].
  inversion E; subst out wf'. clear E. cbn [r_cycles r_now].
  assert (Qc : quiet (clear_log w1)) by exact Q1.
  assert (Nc : now (clear_log w1) = now w1) by reflexivity.
  rewrite (acycles_on_time works fuel tm1 (clear_log w1) tock cs tmf wf Qc ltac:(lia) Hs Hn Cy).
  rewrite Nc. f_equal. lia.
Qed.
