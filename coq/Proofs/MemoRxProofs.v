(* Proofs about Model/MemoGram.v (pick) and Model/MemoRx.v: totality of receive
   servicing, invalid grams leave no trace, authenticity of delivered memos. *)
From Hio Require Import Base.Prelude Model.B64 Model.MemoGram Model.MemoRx.
Local Open Scope N_scope.

(* ---------- Base64 text never fails b64ToInt ---------- *)
Lemma b64_fold_ok : forall rs e i, is_b64 rs = true -> exists n, b64_fold rs e i = Ok n.
Proof.
  induction rs as [|c rs IH]; intros e i H; cbn [b64_fold].
  - eexists; reflexivity.
  - cbn [is_b64 forallb] in H. apply andb_prop in H. destruct H as [Hc Hr].
    destruct (idx_of_chr c); [|discriminate]. apply IH. exact Hr.
Qed.

Lemma is_b64_app : forall a b, is_b64 (a ++ b) = is_b64 a && is_b64 b.
Proof. intros. unfold is_b64. apply forallb_app. Qed.

Lemma is_b64_rev : forall s, is_b64 s = true -> is_b64 (rev s) = true.
Proof.
  induction s as [|c s IH]; intros H; [reflexivity|]. cbn [rev]. rewrite is_b64_app.
  cbn [is_b64 forallb] in H. apply andb_prop in H. destruct H as [Hc Hr].
  rewrite (IH Hr). cbn [is_b64 forallb]. rewrite Hc. reflexivity.
Qed.

Lemma b64ToInt_ok : forall s, s <> [] -> is_b64 s = true -> exists n, b64ToInt s = Ok n.
Proof.
  intros s Hne H. unfold b64ToInt. destruct s as [|c s]; [contradiction|].
  apply b64_fold_ok. apply is_b64_rev. exact H.
Qed.

Lemma is_b64_firstn : forall n s, is_b64 s = true -> is_b64 (firstn n s) = true.
Proof.
  induction n; intros s H; [reflexivity|]. destruct s as [|c s]; [reflexivity|].
  cbn [firstn is_b64 forallb] in *. apply andb_prop in H. destruct H as [Hc Hr].
  rewrite Hc. apply IHn. exact Hr.
Qed.

Lemma is_b64_skipn : forall n s, is_b64 s = true -> is_b64 (skipn n s) = true.
Proof.
  induction n; intros s H; [exact H|]. destruct s as [|c s]; [reflexivity|].
  cbn [skipn]. apply IHn. cbn [is_b64 forallb] in H. apply andb_prop in H. tauto.
Qed.

Lemma firstn_firstn_le : forall A (l : list A) a b, (a <= b)%nat -> firstn a (firstn b l) = firstn a l.
Proof. intros. rewrite firstn_firstn. f_equal. lia. Qed.

(* neck of a b64 gram whose head is Base64 text *)
Lemma neck_ok : forall gram hz, (32 <= hz)%nat -> (hz <= length gram)%nat ->
  is_b64 (firstn hz gram) = true -> exists n, b64ToInt (slice 4 8 gram) = Ok n.
Proof.
  intros gram hz H32 Hl Hb. apply b64ToInt_ok.
  - unfold slice. intros C. apply (f_equal (@length N)) in C.
    rewrite firstn_length, skipn_length in C. cbn [length] in C. lia.
  - unfold slice.
    assert (E : firstn (8 - 4) (skipn 4 gram) = firstn 4 (skipn 4 (firstn hz gram))).
    { rewrite skipn_firstn_comm, firstn_firstn. f_equal. lia. }
    rewrite E. apply is_b64_firstn, is_b64_skipn. exact Hb.
Qed.

Section WithVerify.
  Variable verify : bytes -> bytes -> bytes -> res unit.

  (* ---------- shape of a successful finish / pick ---------- *)
  Definition vid_opt (v : bytes) : option bytes := match v with [] => None | _ => Some v end.

  Lemma finish_ok : forall vids c n mid vid sig sgram body p,
    finish verify vids c n mid vid sig sgram body = Ok p ->
    exists v gn gc,
      p = {| p_mid := mid; p_vid := vid_opt v; p_gn := gn; p_gc := gc; p_body := body |} /\
      (sig = [] \/ verify v sig sgram = Ok tt) /\
      ((kind_of c = KZero /\ v = vid /\ gn = 0 /\ gc = Some n) \/
       (kind_of c = KGram /\ v = (match vid with [] => vids mid | _ => vid end) /\ gn = n /\ gc = None)).
  Proof.
    intros vids c n mid vid sig sgram body p H. unfold finish in H.
    destruct (kind_of c) eqn:K; try discriminate.
    - exists vid, 0, (Some n). destruct sig as [|s0 sig'].
      + cbn in H. inversion H; subst. repeat split; auto.
      + destruct (verify vid (s0 :: sig') sgram) as [[]|k] eqn:V; cbn in H; [|discriminate].
        inversion H; subst. repeat split; auto.
    - set (v := match vid with [] => vids mid | _ => vid end) in *.
      exists v, n, None. destruct sig as [|s0 sig'].
      + cbn in H. inversion H; subst. repeat split; auto.
      + destruct (verify v (s0 :: sig') sgram) as [[]|k] eqn:V; cbn in H; [|discriminate].
        inversion H; subst. repeat split; auto.
  Qed.

  (* ---------- totality of pick ---------- *)
  Hypothesis verify_contract : forall v s m, verify v s m = Ok tt \/ verify v s m = Exc MemoErr.

  Lemma finish_total : forall vids c n mid vid sig sgram body,
    (exists p, finish verify vids c n mid vid sig sgram body = Ok p) \/
    finish verify vids c n mid vid sig sgram body = Exc MemoErr.
  Proof.
    intros. unfold finish. destruct (kind_of c); [| |right; reflexivity].
    - destruct sig as [|s0 sig']; [left; eexists; reflexivity|].
      destruct (verify_contract vid (s0 :: sig') sgram) as [-> | ->]; [left; eexists; reflexivity|right; reflexivity].
    - destruct sig as [|s0 sig']; [left; eexists; reflexivity|].
      destruct (verify_contract (match vid with [] => vids mid | _ => vid end) (s0 :: sig') sgram) as [-> | ->];
        [left; eexists; reflexivity|right; reflexivity].
  Qed.

  Lemma pick_b64_total : forall authic vids gram,
    (exists p, pick_b64 verify authic vids gram = Ok p) \/ pick_b64 verify authic vids gram = Exc MemoErr.
  Proof.
    intros. unfold pick_b64.
    destruct (Nat.ltb (length gram) 4); [right; reflexivity|].
    destruct (negb (is_b64 (firstn 4 gram))); [right; reflexivity|].
    destruct (code_of_text (firstn 4 gram)) as [c|]; [|right; reflexivity].
    destruct (authic && negb (auth c)); [right; reflexivity|].
    destruct (Nat.ltb (length gram) (32 + vz c + az c)) eqn:L; [right; reflexivity|].
    destruct (is_b64 (firstn (32 + vz c) gram)) eqn:B; cbn [andb negb]; [|right; reflexivity].
    destruct (is_b64 (skipn (length gram - az c) gram)); cbn [negb]; [|right; reflexivity].
    apply Nat.ltb_ge in L.
    destruct (neck_ok gram (32 + vz c)) as [n ->]; [lia|lia|exact B|]. cbn [bind].
    apply finish_total.
  Qed.

  Lemma pick_b2_total : forall authic vids gram,
    (exists p, pick_b2 verify authic vids gram = Ok p) \/ pick_b2 verify authic vids gram = Exc MemoErr.
  Proof.
    intros. unfold pick_b2.
    destruct (Nat.ltb (length gram) 3) eqn:L; [right; reflexivity|].
    unfold codeB2ToB64. change (nbytes 4) with 3%nat. rewrite L. cbn [bind].
    destruct (code_of_text _) as [c|]; [|right; reflexivity].
    destruct (authic && negb (auth c)); [right; reflexivity|].
    destruct (Nat.ltb (length gram) (24 + b2z (vz c) + b2z (az c))); [right; reflexivity|].
    apply finish_total.
  Qed.

  Theorem pick_total : forall authic vids gram, gram <> [] ->
    (exists p, pick verify authic vids gram = Ok p) \/ pick verify authic vids gram = Exc MemoErr.
  Proof.
    intros authic vids gram Hne. unfold pick. destruct gram as [|b g]; [contradiction|].
    destruct (b / 4 =? 24); [apply pick_b64_total|].
    destruct (b / 4 =? 27); [apply pick_b2_total|]. right; reflexivity.
  Qed.

  (* ---------- receive servicing never raises ---------- *)
  Lemma receive_one_quiet : forall authic es g src, g <> [] ->
    snd (receive_one verify authic es g src) = None /\
    (fst (receive_one verify authic es g src) = es \/
     exists p, pick verify authic (vids_of es) g = Ok p /\
               fst (receive_one verify authic es g src) = store es p src).
  Proof.
    intros authic es g src Hne. unfold receive_one.
    destruct (pick_total authic (vids_of es) g Hne) as [[p ->] | ->]; cbn; split; auto.
    right. exists p. auto.
  Qed.

  Lemma receives_quiet : forall authic q es, snd (receives verify authic es q) = None.
  Proof.
    induction q as [|[g src] q IH]; intros es; cbn [receives]; [reflexivity|].
    destruct g as [|b g]; [reflexivity|].
    pose proof (receive_one_quiet authic es (b :: g) src) as [H _]; [discriminate|].
    destruct (receive_one verify authic es (b :: g) src) as [es' x]. cbn in H. subst x. apply IH.
  Qed.

  Lemma receives_once_quiet : forall authic q es, snd (receives_once verify authic es q) = None.
  Proof.
    intros authic [|[g src] q] es; cbn [receives_once]; [reflexivity|].
    destruct g as [|b g]; [reflexivity|].
    pose proof (receive_one_quiet authic es (b :: g) src) as [H _]; [discriminate|].
    destruct (receive_one verify authic es (b :: g) src) as [es' x]. cbn in H. subst x. reflexivity.
  Qed.

  Lemma step_quiet : forall authic s o, snd (step verify authic s o) = None.
  Proof.
    intros authic s o.
    assert (R : forall once, snd (do_receives verify authic once s) = None).
    { intros once. unfold do_receives. destruct once.
      - pose proof (receives_once_quiet authic (queue s) (rxgs s)) as H.
        destruct (receives_once verify authic (rxgs s) (queue s)) as [[es q] x]. exact H.
      - pose proof (receives_quiet authic (queue s) (rxgs s)) as H.
        destruct (receives verify authic (rxgs s) (queue s)) as [[es q] x]. exact H. }
    destruct o; cbn [step]; try reflexivity.
    - apply R.
    - specialize (R false). destruct (do_receives verify authic false s) as [s' x]. cbn in R. subst x. reflexivity.
    - specialize (R true). destruct (do_receives verify authic true s) as [s' x]. cbn in R. subst x. reflexivity.
  Qed.

  Theorem run_quiet : forall authic ops s, Forall (fun x => x = None) (snd (run verify authic s ops)).
  Proof.
    induction ops as [|o ops IH]; intros s; cbn [run]; [constructor|].
    pose proof (step_quiet authic s o) as H.
    destruct (step verify authic s o) as [s' x]. cbn in H. subst x.
    specialize (IH s'). destruct (run verify authic s' ops) as [s'' xs]. cbn in *. constructor; auto.
  Qed.

  (* an invalid gram (pick raises MemoerError) is dropped: no trace in the rx state *)
  Theorem invalid_dropped : forall authic es g src,
    pick verify authic (vids_of es) g = Exc MemoErr ->
    receive_one verify authic es g src = (es, None).
  Proof. intros authic es g src H. unfold receive_one. rewrite H. reflexivity. Qed.
End WithVerify.

(* ---------- authenticity ---------- *)
Section Auth.
  Variable verify : bytes -> bytes -> bytes -> res unit.
  (* an empty signer id never verifies (Memoer._decodeVID rejects it) *)
  Hypothesis verify_no_vid : forall s m, verify [] s m <> Ok tt.

  (* body was received in datagram d inside a part ser = head ++ body whose
     detached signature (text sg; carried as text or as its base2 bytes)
     verifies for signer v *)
  Definition signed_ok (v body d : bytes) : Prop :=
    exists ser sg head raw,
      verify v sg ser = Ok tt /\ ser = head ++ body /\ d = ser ++ raw /\ (sg = raw \/ sg = enc raw).

  Lemma enc_nil : forall l, enc l = [] -> (length l < 3)%nat.
  Proof. intros [|a [|b [|c r]]] H; cbn in *; try lia. discriminate. Qed.

  Lemma auth_sizes : forall c, auth c = true -> az c = 88%nat /\ b2z (az c) = 66%nat.
  Proof. intros c H. unfold az. rewrite H. split; reflexivity. Qed.

  Lemma kgram_vz : forall c, kind_of c = KGram -> vz c = 0%nat.
  Proof. intros [] H; try discriminate; reflexivity. Qed.

  (* a gram accepted when signatures are required was verified for the signer it is filed under *)
  Lemma pick_auth : forall vids gram p,
    pick verify true vids gram = Ok p ->
    exists v, v <> [] /\ p_vid p = Some v /\ signed_ok v (p_body p) gram /\
              ((p_gc p <> None /\ p_gn p = 0) \/ (p_gc p = None /\ v = vids (p_mid p))).
  Proof.
    intros vids gram p H. unfold pick in H. destruct gram as [|b0 g0]; [discriminate|].
    set (gram := b0 :: g0) in *.
    assert (Fin : forall c n mid vid sig sgram body raw,
               auth c = true -> sig <> [] -> (kind_of c = KGram -> vid = []) ->
               gram = sgram ++ raw -> (sig = raw \/ sig = enc raw) ->
               (exists head, sgram = head ++ body) ->
               finish verify vids c n mid vid sig sgram body = Ok p ->
               exists v, v <> [] /\ p_vid p = Some v /\ signed_ok v (p_body p) gram /\
                 ((p_gc p <> None /\ p_gn p = 0) \/ (p_gc p = None /\ v = vids (p_mid p)))).
    { intros c n mid vid sig sgram body raw Ha Hs Hk Hg Hr [head Hh] F.
      apply finish_ok in F. destruct F as (v & gn & gc & -> & [Hv|Hv] & Hc); [contradiction|].
      assert (Hne : v <> []). { intros ->. exact (verify_no_vid _ _ Hv). }
      exists v. split; [exact Hne|]. cbn [p_vid p_body p_gc p_gn p_mid].
      split; [destruct v; [contradiction|reflexivity]|]. split.
      - exists sgram, sig, head, raw. auto.
      - destruct Hc as [(K & _ & -> & ->) | (K & Hv' & -> & ->)].
        + left. split; [discriminate|reflexivity].
        + right. split; [reflexivity|]. rewrite (Hk K) in Hv'. exact Hv'. }
    destruct (b0 / 4 =? 24).
    - (* b64 *)
      unfold pick_b64 in H.
      destruct (Nat.ltb (length gram) 4); [discriminate|].
      destruct (negb (is_b64 (firstn 4 gram))); [discriminate|].
      destruct (code_of_text (firstn 4 gram)) as [c|]; [|discriminate].
      destruct (auth c) eqn:A; cbn [andb negb] in H; [|discriminate].
      destruct (auth_sizes c A) as [Az _].
      destruct (Nat.ltb (length gram) (32 + vz c + az c)) eqn:L; [discriminate|].
      apply Nat.ltb_ge in L.
      destruct (negb _); [discriminate|].
      destruct (b64ToInt (slice 4 8 gram)) as [n|k]; cbn [bind] in H; [|discriminate].
      eapply Fin; [exact A| | | | | |exact H].
      + intros C. apply (f_equal (@length N)) in C. rewrite skipn_length in C. cbn [length] in C. lia.
      + intros K. rewrite (kgram_vz c K). unfold slice. rewrite Nat.add_0_r, Nat.sub_diag. reflexivity.
      + symmetry. apply firstn_skipn.
      + left. reflexivity.
      + exists (firstn (32 + vz c) (firstn (length gram - az c) gram)). symmetry. apply firstn_skipn.
    - destruct (b0 / 4 =? 27); [|discriminate].
      unfold pick_b2 in H.
      destruct (Nat.ltb (length gram) 3) eqn:L3; [discriminate|].
      unfold codeB2ToB64 in H. change (nbytes 4) with 3%nat in H. rewrite L3 in H. cbn [bind] in H.
      destruct (code_of_text _) as [c|]; [|discriminate].
      destruct (auth c) eqn:A; cbn [andb negb] in H; [|discriminate].
      destruct (auth_sizes c A) as [_ Az].
      destruct (Nat.ltb (length gram) (24 + b2z (vz c) + b2z (az c))) eqn:L; [discriminate|].
      apply Nat.ltb_ge in L.
      eapply Fin; [exact A| | | | | |exact H].
      + intros C. apply enc_nil in C. rewrite skipn_length in C. lia.
      + intros K. rewrite (kgram_vz c K). unfold slice. cbn. reflexivity.
      + symmetry. apply firstn_skipn.
      + right. reflexivity.
      + exists (firstn (24 + b2z (vz c)) (firstn (length gram - b2z (az c)) gram)). symmetry. apply firstn_skipn.
  Qed.

  (* ---------- the invariant of the rx state when signatures are required ---------- *)
  Variable H : list bytes.      (* every datagram that ever reached the transport *)

  Definition entry_ok (e : entry) : Prop :=
    exists v, v <> [] /\ e_vid e = Some v /\ gram_at 0 (e_grams e) <> None /\
              forall gn body, In (gn, body) (e_grams e) -> exists d, In d H /\ signed_ok v body d.

  Definition authentic (m : memo) : Prop :=
    exists v bodies, snd m = Some v /\ v <> [] /\ fst (fst m) = concat bodies /\
                     Forall (fun b => exists d, In d H /\ signed_ok v b d) bodies /\
                     (* at least the zeroth gram was verified for v, also when the text is empty *)
                     (exists b0 d0, In d0 H /\ signed_ok v b0 d0).

  Definition inv (s : state) : Prop :=
    (forall g src, In (g, src) (queue s) -> In g H) /\
    Forall entry_ok (rxgs s) /\ Forall authentic (rxms s) /\ Forall authentic (inbox s).

  Lemma gram_at_In : forall gs gn b, gram_at gn gs = Some b -> In (gn, b) gs.
  Proof.
    induction gs as [|[k b'] gs IH]; intros gn b E; cbn in E; [discriminate|].
    destruct (k =? gn) eqn:K.
    - apply N.eqb_eq in K. inversion E; subst. left; reflexivity.
    - right. apply IH. exact E.
  Qed.

  Lemma gram_at_app_none : forall gs gn x, gram_at gn gs <> None -> gram_at gn (gs ++ x) <> None.
  Proof.
    induction gs as [|[k b'] gs IH]; intros gn x E; cbn in *; [contradiction|].
    destruct (k =? gn); [discriminate|]. apply IH. exact E.
  Qed.

  Lemma vids_of_find : forall es mid e, find_entry mid es = Some e ->
    vids_of es mid = match e_vid e with Some v => v | None => [] end.
  Proof. intros es mid e E. unfold vids_of. rewrite E. reflexivity. Qed.

  Lemma store_ok : forall es p src d,
    In d H -> Forall entry_ok es ->
    (exists v, v <> [] /\ p_vid p = Some v /\ signed_ok v (p_body p) d /\
       ((p_gc p <> None /\ p_gn p = 0) \/ (p_gc p = None /\ v = vids_of es (p_mid p)))) ->
    Forall entry_ok (store es p src).
  Proof.
    induction es as [|e es IH]; intros p src d Hd Hes (v & Hne & Hv & Hs & Hc); cbn [store].
    - constructor; [|constructor]. destruct Hc as [[Hgc Hgn] | [_ Hvv]].
      + exists v. cbn. repeat split; auto.
        * rewrite Hgn. cbn. discriminate.
        * intros gn body [E|[]]. inversion E; subst. exists d. auto.
      + (* a non-zeroth gram for an unknown mid was verified against the empty vid: impossible *)
        exfalso. apply Hne. rewrite Hvv. reflexivity.
    - inversion Hes as [|? ? He Hes']; subst.
      destruct (bytes_eqb (e_mid e) (p_mid p)) eqn:M.
      + constructor; [|exact Hes'].
        destruct He as (ve & Hvne & Hve & H0 & Hall).
        exists ve. unfold upd_entry. cbn [e_vid e_grams]. repeat split; auto.
        * destruct (gram_at (p_gn p) (e_grams e)); [exact H0|]. apply gram_at_app_none. exact H0.
        * intros gn body Hin. destruct (gram_at (p_gn p) (e_grams e)) eqn:G; [eapply Hall; exact Hin|].
          apply in_app_or in Hin. destruct Hin as [Hin|[E|[]]]; [eapply Hall; exact Hin|].
          inversion E; subst gn body. exists d. split; [exact Hd|].
          destruct Hc as [[_ Hgn] | [_ Hvv]].
          -- (* a second zeroth gram is never stored: gram 0 is already there *)
             rewrite Hgn in G. contradiction.
          -- unfold vids_of in Hvv. cbn [find_entry] in Hvv. rewrite M, Hve in Hvv. subst v. exact Hs.
      + constructor; [exact He|].
        eapply IH; [exact Hd|exact Hes'|]. exists v. repeat split; auto.
        destruct Hc as [Hc | [Hgc Hvv]]; [left; exact Hc|right]. split; [exact Hgc|].
        unfold vids_of in *. cbn [find_entry] in Hvv. rewrite M in Hvv. exact Hvv.
  Qed.

  Lemma receive_one_ok : forall es g src, In g H -> Forall entry_ok es ->
    Forall entry_ok (fst (receive_one verify true es g src)).
  Proof.
    intros es g src Hg Hes. unfold receive_one.
    destruct (pick verify true (vids_of es) g) as [p|k] eqn:P.
    - cbn. apply pick_auth in P. eapply store_ok; eauto.
    - destruct k; exact Hes.
  Qed.

  Lemma receives_ok : forall q es, (forall g src, In (g, src) q -> In g H) -> Forall entry_ok es ->
    let '(es', q', _) := receives verify true es q in
    Forall entry_ok es' /\ (forall g src, In (g, src) q' -> In g H).
  Proof.
    induction q as [|[g src] q IH]; intros es Hq Hes; cbn [receives].
    - split; [exact Hes|]. intros ? ? [].
    - assert (Hq' : forall g0 src0, In (g0, src0) q -> In g0 H) by (intros; eapply Hq; right; eauto).
      destruct g as [|b g]; [split; assumption|].
      pose proof (receive_one_ok es (b :: g) src (Hq _ _ (or_introl eq_refl)) Hes) as R.
      destruct (receive_one verify true es (b :: g) src) as [es' [k|]]; cbn in R.
      + split; assumption.
      + apply IH; assumption.
  Qed.

  Lemma receives_once_ok : forall q es, (forall g src, In (g, src) q -> In g H) -> Forall entry_ok es ->
    let '(es', q', _) := receives_once verify true es q in
    Forall entry_ok es' /\ (forall g src, In (g, src) q' -> In g H).
  Proof.
    intros [|[g src] q] es Hq Hes; cbn [receives_once].
    - split; [exact Hes|]. intros ? ? [].
    - assert (Hq' : forall g0 src0, In (g0, src0) q -> In g0 H) by (intros; eapply Hq; right; eauto).
      destruct g as [|b g]; [split; assumption|].
      pose proof (receive_one_ok es (b :: g) src (Hq _ _ (or_introl eq_refl)) Hes) as R.
      destruct (receive_one verify true es (b :: g) src) as [es' x]; cbn in R. split; assumption.
  Qed.

  Lemma collect_bodies : forall gs n i m, collect gs i n = Some m ->
    exists bodies, m = concat bodies /\ Forall (fun b => exists gn, In (gn, b) gs) bodies.
  Proof.
    induction n; intros i m E; cbn [collect] in E.
    - inversion E; subst. exists []. split; [reflexivity|constructor].
    - destruct (gram_at i gs) as [b|] eqn:G; [|discriminate].
      destruct (collect gs (i + 1) n) as [r|] eqn:C; [|discriminate]. inversion E; subst.
      destruct (IHn _ _ C) as (bs & -> & F). exists (b :: bs). split; [reflexivity|].
      constructor; [|exact F]. exists i. apply gram_at_In. exact G.
  Qed.

  Lemma rx_grams_ok : forall es, Forall entry_ok es ->
    Forall entry_ok (fst (rx_grams es)) /\ Forall authentic (snd (rx_grams es)).
  Proof.
    induction es as [|e es IH]; intros Hes; cbn [rx_grams]; [split; constructor|].
    inversion Hes as [|? ? He Hes']; subst. destruct (IH Hes') as [Ik Id].
    destruct (rx_grams es) as [k d]. cbn [fst snd] in *.
    destruct (e_count e) as [c|]; [|cbn; split; [constructor|]; assumption].
    destruct (fuse (e_grams e) c) as [[m|]|x] eqn:F; cbn [fst snd]; try (split; [try constructor|]; assumption).
    split; [assumption|]. constructor; [|assumption].
    unfold fuse in F. destruct (N.of_nat (length (e_grams e)) <? c); [discriminate|].
    destruct (collect (e_grams e) 0 (N.to_nat c)) as [m'|] eqn:C; [|discriminate].
    destruct (utf8_ok m'); [|discriminate]. inversion F; subst m'.
    destruct He as (v & Hne & Hv & H0 & Hall).
    destruct (collect_bodies _ _ _ _ C) as (bs & -> & Fb).
    exists v, bs. cbn [fst snd]. split; [exact Hv|]. split; [exact Hne|]. split; [reflexivity|]. split.
    - eapply Forall_impl; [|exact Fb]. cbn. intros b [gn Hin]. eapply Hall. exact Hin.
    - destruct (gram_at 0 (e_grams e)) as [b0|] eqn:G0; [|contradiction].
      apply gram_at_In in G0. destruct (Hall _ _ G0) as (d0 & Hd0 & S0). exists b0, d0. auto.
  Qed.

  Lemma step_inv : forall s o, (forall g src, o = Dgram g src -> In g H) ->
    inv s -> inv (fst (step verify true s o)).
  Proof.
    intros s o Ho (Iq & Ie & Im & Ii).
    assert (R : forall once, inv (fst (do_receives verify true once s))).
    { intros once. unfold do_receives. destruct once.
      - pose proof (receives_once_ok (queue s) (rxgs s) Iq Ie) as P.
        destruct (receives_once verify true (rxgs s) (queue s)) as [[es q] x]. destruct P. repeat split; auto.
      - pose proof (receives_ok (queue s) (rxgs s) Iq Ie) as P.
        destruct (receives verify true (rxgs s) (queue s)) as [[es q] x]. destruct P. repeat split; auto. }
    assert (G : forall s0, inv s0 -> inv (do_rx_grams s0)).
    { intros s0 (Jq & Je & Jm & Ji). unfold do_rx_grams. destruct (rx_grams_ok _ Je) as [Gk Gd].
      destruct (rx_grams (rxgs s0)) as [k d]. repeat split; auto. cbn. apply Forall_app. auto. }
    assert (M : forall once s0, inv s0 -> inv (do_rx_memos once s0)).
    { intros once s0 (Jq & Je & Jm & Ji). unfold do_rx_memos. destruct once.
      - destruct (rxms s0) as [|m r] eqn:E.
        + split; [exact Jq|]. split; [exact Je|]. split; [rewrite E; constructor|exact Ji].
        + inversion Jm; subst. split; [exact Jq|]. split; [exact Je|]. split; [assumption|].
          cbn [inbox]. apply Forall_app. split; [exact Ji|]. constructor; [assumption|constructor].
      - split; [exact Jq|]. split; [exact Je|]. split; [constructor|].
        cbn [inbox]. apply Forall_app. split; assumption. }
    destruct o; cbn [step].
    - repeat split; auto. cbn. intros g0 src0 Hin. apply in_app_or in Hin.
      destruct Hin as [Hin|[E|[]]]; [eapply Iq; eauto|]. inversion E; subst. eapply Ho; reflexivity.
    - apply R.
    - cbn [fst]. apply G. repeat split; auto.
    - cbn [fst]. apply (M false). repeat split; auto.
    - specialize (R false). destruct (do_receives verify true false s) as [s' [k|]]; cbn [fst] in *; [exact R|].
      apply M, G, R.
    - specialize (R true). destruct (do_receives verify true true s) as [s' [k|]]; cbn [fst] in *; [exact R|].
      apply M, G, R.
    - repeat split; auto.
  Qed.
End Auth.

(* datagrams of an op sequence *)
Fixpoint dgrams (ops : list op) : list bytes :=
  match ops with
  | [] => []
  | Dgram g _ :: ops' => g :: dgrams ops'
  | _ :: ops' => dgrams ops'
  end.

Lemma run_inv : forall verify, (forall s m, verify [] s m <> Ok tt) ->
  forall H ops s, incl (dgrams ops) H -> inv verify H s -> inv verify H (fst (run verify true s ops)).
Proof.
  intros verify Hv H. induction ops as [|o ops IH]; intros s Hi I; cbn [run]; [exact I|].
  pose proof (step_inv verify Hv H s o) as S.
  destruct (step verify true s o) as [s' x]. cbn [fst] in S.
  specialize (IH s'). destruct (run verify true s' ops) as [s'' xs]. cbn [fst] in *.
  apply IH.
  - destruct o; cbn [dgrams] in Hi; try exact Hi. intros y Hy. apply Hi. right. exact Hy.
  - apply S; [|exact I]. intros g src ->. apply Hi. left. reflexivity.
Qed.

Lemma inv_init : forall verify H, inv verify H init.
Proof. intros. repeat split; try constructor. intros ? ? []. Qed.
