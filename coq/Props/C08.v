(* C08 — Timers measure elapsed tyme exactly and restart losslessly.
   Statements only; proofs are in Proofs/TimersProofs.v.  Model: Model/Timers.v
   (Tymer of hio.base.tyming; Timer and MonoTimer of hio.help.timing).

   [report k st sp n] is what property k must read at tyme/clock n for _start st,
   _stop sp:  duration = sp - st, elapsed = n - st, remaining = sp - n,
   expired = (sp <= n).  Theorems of part A hold for every [Time] instance, hence
   for the binary64 instance the correspondence runs; part B needs [TimeLaws];
   part C is over exact time (Z). *)
From Coq Require Import PrimFloat.
From Hio Require Import Base.Prelude Base.Time Model.Timers Proofs.TimersProofs.

(* ============================== A. every Time instance (also binary64) *)

(* Tymer: after any constructor arguments and ANY sequence of start / restart /
   wind / read ops, each at its own tyme (rewinds included), a read at any tyme
   n reports exactly the formula over the current _start/_stop, does not raise
   and changes nothing. *)
Theorem C08_tymer_reads : forall (T : Type) (TI : Time T) now0 dur0 start0 (ops : list (option T * yop T)) n k,
  wound ops ->
  let s := y_final (y_init now0 dur0 start0) ops in
  exists st, y_start s = Some st /\
    y_step s (Some n) (YRead k) = (s, Ok (report k st (y_stop s) n)).
Proof. intros T TI. exact y_reads_after_any_history. Qed.
Print Assumptions C08_tymer_reads.

(* Tymer: restart begins the next period at the previous stop (and returns it),
   whatever the tyme at which restart() is called (even None); the new stop is
   previous stop + (given duration | _stop - _start). *)
Theorem C08_tymer_restart : forall (T : Type) (TI : Time T) now0 dur0 start0 (ops : list (option T * yop T)) now dur,
  wound ops ->
  let s := y_final (y_init now0 dur0 start0) ops in
  exists st, y_start s = Some st /\
    y_step s now (YRestart dur) =
      ({| y_start := Some (y_stop s);
          y_stop := tadd (y_stop s) (dur_or dur (tsub (y_stop s) st)) |}, Ok (VT (y_stop s))).
Proof. intros T TI. exact y_restart_after_any_history. Qed.
Print Assumptions C08_tymer_restart.

(* a wound Tymer never raises *)
Theorem C08_tymer_total : forall (T : Type) (TI : Time T) now0 dur0 start0 (ops : list (option T * yop T)),
  wound ops ->
  Forall (fun p => exists v, fst p = Ok v) (y_run (y_init now0 dur0 start0) ops).
Proof.
  intros T TI now0 dur0 start0 ops Hw.
  eapply y_run_wound_ok; eauto. rewrite y_init_spec. reflexivity.
Qed.
Print Assumptions C08_tymer_total.

(* Timer: in every state, each read consumes exactly one clock reading r and
   reports the formula at r (duration consumes none); restart consumes none and
   begins at the previous stop. *)
Theorem C08_timer_reads : forall (T : Type) (TI : Time T) (s : timer T) r c k,
  w_step s (r :: c) (WRead k) =
    (s, match k with RDuration => r :: c | _ => c end, Ok (report k (w_start s) (w_stop s) r)).
Proof. intros T TI. exact w_read_spec. Qed.
Print Assumptions C08_timer_reads.

Theorem C08_timer_restart : forall (T : Type) (TI : Time T) (s : timer T) c dur,
  w_step s c (WRestart dur) =
    ({| w_start := w_stop s;
        w_stop := tadd (w_stop s) (dur_or dur (tsub (w_stop s) (w_start s))) |}, c, Ok (VT (w_stop s))).
Proof. intros T TI. exact w_restart_spec. Qed.
Print Assumptions C08_timer_restart.

(* Construction: the period is exactly [start, start + duration] on the timer's
   own clock, start = the given one or the (last) reading of that clock.  For
   AsyncTimer the wall-clock reading its constructor takes first never enters. *)
Theorem C08_init : forall (T : Type) (TI : Time T) (wall r1 r2 st dur : T) (c : clock T) retro,
  w_init (r1 :: r2 :: c) dur None = ({| w_start := r2; w_stop := tadd r2 dur |}, c) /\
  w_init c dur (Some st) = ({| w_start := st; w_stop := tadd st dur |}, c) /\
  a_init wall (r1 :: c) dur None = ({| w_start := r1; w_stop := tadd r1 dur |}, c) /\
  a_init wall c dur (Some st) = ({| w_start := st; w_stop := tadd st dur |}, c) /\
  m_init (r1 :: r2 :: c) dur None retro =
    ({| m_start := r2; m_stop := tadd r2 dur; m_last := r1; m_retro := retro |}, c) /\
  m_init c dur (Some st) retro =
    ({| m_start := st; m_stop := tadd st dur; m_last := st; m_retro := retro |}, c) /\
  (forall now d0 s0, y_init now d0 s0 =
     let st := match s0 with Some x => x | None => match now with Some n => n | None => tzero end end in
     {| y_start := Some st; y_stop := tadd st (dur_or d0 tzero) |}).
Proof. intros. repeat split. Qed.
Print Assumptions C08_init.

(* MonoTimer: restart is Timer's (and does not touch _last) *)
Theorem C08_mono_restart : forall (T : Type) (TI : Time T) (s : mono T) c dur,
  m_step s c (MRestart dur) =
    ({| m_start := m_stop s;
        m_stop := tadd (m_stop s) (dur_or dur (tsub (m_stop s) (m_start s)));
        m_last := m_last s; m_retro := m_retro s |}, c, Ok (VT (m_stop s))).
Proof. intros T TI. exact m_restart_spec. Qed.
Print Assumptions C08_mono_restart.

(* ============================== B. under TimeLaws: lossless, no drift *)

(* k default restarts, called at whatever tymes and interleaved with whatever
   reads, put the period at start + k*d .. start + (k+1)*d: the duration is kept
   exactly and lateness of the restart calls never enters. *)
Theorem C08_tymer_no_drift : forall (T : Type) (TI : Time T) (TL : TimeLaws T)
    (ops : list (option T * yop T)) (s : tymer T) a d,
  y_start s = Some a -> y_stop s = tadd a d ->
  forallb y_lossless_op ops = true ->
  let k := length (filter y_is_restart ops) in
  y_final s ops = {| y_start := Some (tnth k a d); y_stop := tadd (tnth k a d) d |}.
Proof. intros T TI TL. exact y_no_drift. Qed.
Print Assumptions C08_tymer_no_drift.

Theorem C08_timer_no_drift : forall (T : Type) (TI : Time T) (TL : TimeLaws T)
    (ops : list (wop T)) (s : timer T) c a d,
  w_start s = a -> w_stop s = tadd a d ->
  forallb w_lossless_op ops = true ->
  let k := length (filter w_is_restart ops) in
  w_final s c ops = {| w_start := tnth k a d; w_stop := tadd (tnth k a d) d |}.
Proof. intros T TI TL. exact w_no_drift. Qed.
Print Assumptions C08_timer_no_drift.

(* ============================== C. exact time *)
Local Open Scope Z_scope.

(* expired exactly when now >= stop; elapsed + remaining = duration *)
Theorem C08_expired_iff : forall st sp n : Z,
  report RElapsed st sp n = VT (n - st) /\
  report RRemaining st sp n = VT (sp - n) /\
  (report RExpired st sp n = VB true <-> n >= sp) /\
  (report RExpired st sp n = VB false <-> n < sp) /\
  (n - st) + (sp - n) = sp - st.
Proof. exact report_Z. Qed.
Print Assumptions C08_expired_iff.

(* closed form of no drift, from ANY state with a start *)
Theorem C08_tymer_no_drift_Z : forall ops (s : tymer Z) a,
  y_start s = Some a ->
  forallb y_lossless_op ops = true ->
  let d := y_stop s - a in
  let k := Z.of_nat (length (filter y_is_restart ops)) in
  y_final s ops = {| y_start := Some (a + k * d); y_stop := a + (k + 1) * d |}.
Proof. exact y_no_drift_Z. Qed.
Print Assumptions C08_tymer_no_drift_Z.

Theorem C08_timer_no_drift_Z : forall ops (s : timer Z) c,
  forallb w_lossless_op ops = true ->
  let a := w_start s in
  let d := w_stop s - a in
  let k := Z.of_nat (length (filter w_is_restart ops)) in
  w_final s c ops = {| w_start := a + k * d; w_stop := a + (k + 1) * d |}.
Proof. exact w_no_drift_Z. Qed.
Print Assumptions C08_timer_no_drift_Z.

(* MonoTimer, one `latest` on ANY reading (forward, stalled, backward), in ANY
   state: the duration _stop - _start is untouched; elapsed (= _last - _start)
   advances by exactly the forward movement of the clock, never backwards; with
   retro=False a backward reading raises RetroTimerError and changes nothing. *)
Theorem C08_mono_latest : forall (s : mono Z) c,
  let now := fst (tick c) in
  let '(s', c', r) := m_latest s c in
  c' = snd (tick c) /\ m_retro s' = m_retro s /\ du s' = du s /\
  match r with
  | Ok l => l = now /\ m_last s' = now /\ el s' = el s + Z.max 0 (now - m_last s) /\
            (m_retro s = false -> m_last s <= now)
  | Exc k => k = OtherErr /\ s' = s /\ m_retro s = false /\ now < m_last s
  end.
Proof. exact m_latest_Z. Qed.
Print Assumptions C08_mono_latest.

(* MonoTimer, what the user observes: for ANY state, ANY script of clock
   readings and ANY op sequence, within each period (start()/restart() begin a
   new one) the elapsed values reported never decrease and expired, once True,
   never reverts to False.  [mono_ok None false] is that predicate on the list
   of (op, result) pairs. *)
Theorem C08_mono_monotone : forall (s : mono Z) (c : clock Z) (ops : list (mop Z)),
  mono_ok None false (combine ops (m_obs s c ops)).
Proof. intros. apply (m_mono_gen ops s c None false 0); [exact I|discriminate]. Qed.
Print Assumptions C08_mono_monotone.

(* MonoTimer while the clock does not go back reads exactly like Timer:
   elapsed = now - start, remaining = stop - now, expired = (stop <= now). *)
Theorem C08_mono_forward_exact : forall (s : mono Z) r c k,
  m_last s <= r -> k <> RDuration ->
  m_step s (r :: c) (MRead k) =
    ({| m_start := m_start s; m_stop := m_stop s; m_last := r; m_retro := m_retro s |}, c,
     Ok (report k (m_start s) (m_stop s) r)).
Proof. exact m_forward_exact. Qed.
Print Assumptions C08_mono_forward_exact.

(* MonoTimer (retro=True) closed form: after `latest` has consumed ANY readings
   rs, elapsed has grown by exactly the total forward movement [fwd] of the
   clock (backward steps contribute 0), and the duration is unchanged. *)
Theorem C08_mono_elapsed_closed_form : forall rs (s : mono Z),
  m_retro s = true ->
  let s' := m_final s rs (repeat MLatest (length rs)) in
  el s' = el s + fwd (m_last s) rs /\ du s' = du s /\ m_last s' = last rs (m_last s) /\ m_retro s' = true.
Proof. exact m_elapsed_closed_form. Qed.
Print Assumptions C08_mono_elapsed_closed_form.

(* ============================== D. expired is latched wherever + is monotone *)

(* "expired never reverts to False" does not need exact arithmetic: in every
   Time instance where <= is transitive, a <= b -> a + c <= b + c, and
   not (d < 0) -> a <= a + d  (class AddMono: Z below; round-to-nearest binary64
   away from nan/inf also has these, which is why the oracle checks the latch on
   all finite float cases, not only dyadic ones), for ANY state, clock script
   and op sequence, within a period expired once True stays True. *)
Theorem C08_mono_expired_latched : forall (T : Type) (TI : Time T) (AM : AddMono T)
    (s : mono T) (c : clock T) (ops : list (mop T)),
  latch_ok false (combine ops (m_obs s c ops)).
Proof. intros. apply m_latch_gen. discriminate. Qed.
Print Assumptions C08_mono_expired_latched.

Theorem C08_mono_expired_latched_Z : forall (s : mono Z) (c : clock Z) (ops : list (mop Z)),
  latch_ok false (combine ops (m_obs s c ops)).
Proof. intros. apply m_latch_gen. discriminate. Qed.
Print Assumptions C08_mono_expired_latched_Z.

(* ============================== non-vacuity *)

Example C08_example_tymer :
  let s := @y_init Z ZTime (Some 5) (Some 3) None in
  map fst (y_run s [(Some 6, YRead RElapsed); (Some 7, YRead RRemaining); (Some 7, YRead RExpired);
                    (Some 8, YRead RExpired); (Some 9, YRestart None); (Some 9, YRead RElapsed);
                    (Some 2, YRead RExpired); (Some 20, YRestart None); (None, YRestart None);
                    (Some 20, YRead RDuration)])
  = [Ok (VT 1); Ok (VT 1); Ok (VB false); Ok (VB true); Ok (VT 8); Ok (VT 1); Ok (VB false);
     Ok (VT 11); Ok (VT 14); Ok (VT 3)]
  /\ wound [(Some 6, @YRead Z RElapsed); (Some 9, YRestart None)].
Proof. split; [vm_compute; reflexivity|]. repeat constructor; discriminate. Qed.

Example C08_example_no_drift :
  let ops := [(Some 7, @YRestart Z None); (Some 100, YRead RExpired); (None, YRestart None); (Some 1, YRestart None)] in
  forallb y_lossless_op ops = true /\
  y_final (@y_init Z ZTime (Some 5) (Some 3) None) ops = {| y_start := Some 14; y_stop := 17 |}.
Proof. vm_compute. split; reflexivity. Qed.

(* clock: construct reads 100, 100; then forward, stalled, back by 5, back again, forward *)
Example C08_example_mono :
  let '(s, c) := @m_init Z ZTime [100; 100; 102; 102; 97; 90; 92; 95] 4 None true in
  let ops := [MRead RElapsed; MRead RExpired; MRead RElapsed; MRead RRemaining; MRead RExpired; MRead RElapsed] in
  m_obs s c ops = [Ok (VT 2); Ok (VB false); Ok (VT 2); Ok (VT 9); Ok (VB true); Ok (VT 7)].
Proof. vm_compute. reflexivity. Qed.

Example C08_example_mono_noretro :
  let '(s, c) := @m_init Z ZTime [100; 100; 102; 99; 103] 4 None false in
  m_obs s c [MRead RElapsed; MRead RElapsed; MRead RElapsed] = [Ok (VT 2); Exc OtherErr; Ok (VT 3)].
Proof. vm_compute. reflexivity. Qed.

(* ============================== residue: binary64 (documented, not findings) *)
Local Close Scope Z_scope.

(* B does not transfer to floats: Tymer(start=0.30000000000000004, duration=0.1)
   has duration 0.09999999999999998 (= _stop - _start), which is what a default
   restart() carries on.  The correspondence reproduces this bit for bit. *)
Example C08_float_residue_duration :
  let s := @y_init fl FTime None (Some 0x1.999999999999ap-4%float) (Some 0x1.3333333333334p-2%float) in
  map fst (y_run s [(None, YRead RDuration); (None, YRestart None); (None, YRead RDuration)])
  = [Ok (VT 0x1.9999999999998p-4%float); Ok (VT 0x1.999999999999ap-2%float); Ok (VT 0x1.9999999999998p-4%float)].
Proof. vm_compute. reflexivity. Qed.

(* C08_mono_monotone does not transfer to floats: shifting _start and _last by
   the same rounded delta can move elapsed by one ulp.  Clock 0.1, 0.1, 0.8-, 0.9-,
   0.5667, 0.2667: elapsed reads 0.7, 0.7999999999999999, 0.7999999999999999,
   0.7999999999999998. *)
Example C08_float_residue_mono :
  let '(s, c) := @m_init fl FTime [0x1.999999999999ap-4; 0x1.999999999999ap-4; 0x1.9999999999999p-1;
                                    0x1.cccccccccccccp-1; 0x1.2222222222222p-1; 0x1.1111111111111p-2]%float
                                   1%float None true in
  m_obs s c [MRead RElapsed; MRead RElapsed; MRead RElapsed; MRead RElapsed]
  = [Ok (VT 0x1.6666666666666p-1%float); Ok (VT 0x1.9999999999999p-1%float);
     Ok (VT 0x1.9999999999999p-1%float); Ok (VT 0x1.9999999999998p-1%float)].
Proof. vm_compute. reflexivity. Qed.

(* Outside the property (it asks only monotonicity of MonoTimer), recorded
   because the model is faithful to both:
   1. MonoTimer.remaining evaluates `self._stop - self.latest` left to right, so
      on the read that detects a retrograde it uses the un-shifted _stop and
      reports |delta| too much (9 instead of 2 in C08_example_mono above).
   2. start()/restart() are Timer's: they read time.time() directly and leave
      _last alone, so a retrograde that happened since the last read is charged
      to the new period: constructed at 100, start() when the clock says 90,
      elapsed read at 90 reports 10 and a 5 s timer is expired at once. *)
Example C08_note_mono_start_after_retrograde :
  let '(s, c) := @m_init Z ZTime [100; 100; 90; 90; 90]%Z 5%Z None true in
  m_obs s c [MStart None None; MRead RElapsed; MRead RExpired] = [Ok (VT 90%Z); Ok (VT 10%Z); Ok (VB true)].
Proof. vm_compute. reflexivity. Qed.
