(* C11 — Closing a TCP endpoint releases every socket it opened.
   Statements only; proofs are in Proofs/TcpSockProofs.v.  The model
   (Model/TcpSock.v) is of the code after the fix commits for D10 (ServerTls.close
   closes pending handshakes), D11 (replaced connections are closed) and the
   axes leak (rejected / still queued accepted sockets are closed). *)
From Hio Require Import Base.Prelude Model.TcpSock Proofs.TcpSockProofs.

(* Server, plain and TLS: for every sequence of reopen (incl. failing bind) /
   serviceAccepts / serviceAxes / serviceCxes / serviceConnects (any batches of
   accepted connections: same address again, malformed, already reset by the peer, any handshake script) /
   receive outcomes / removeIx / closeIx / close events, right after a close
   every socket ever created for the server (listen sockets and accepted
   connections) has had close() called. *)
Theorem C11_server : forall (tls : bool) (evs : list sev) (i : N),
  let s := srun tls init (evs ++ [Close]) in In i (opened s) -> In i (closed s).
Proof. exact server_closed_all. Qed.
Print Assumptions C11_server.

(* the same in the form the harness observes: the set of created-and-not-closed ids is empty *)
Theorem C11_server_none_open : forall (tls : bool) (evs : list sev),
  open_ids (srun tls init (evs ++ [Close])) = [].
Proof. exact server_none_open. Qed.
Print Assumptions C11_server_none_open.

(* ... and nothing accepted is left queued in .axes (so a later reopen cannot service leftovers as new) *)
Theorem C11_server_axes_empty : forall (tls : bool) (evs : list sev),
  axes (srun tls init (evs ++ [Close])) = [].
Proof. exact server_axes_empty. Qed.
Print Assumptions C11_server_axes_empty.

(* at every moment (closed or not) a socket that is still open is still held by
   the server in .ss/.axes/.cxes/.ixes: nothing is dropped while open, whatever
   is replaced, aborted, rejected or removed has been closed *)
Theorem C11_server_nothing_dropped : forall (tls : bool) (evs : list sev) (i : N),
  let s := srun tls init evs in In i (open_ids s) -> In i (held s).
Proof. exact server_open_is_held. Qed.
Print Assumptions C11_server_nothing_dropped.

(* Client, plain and TLS: for every sequence of open / reopen / close / accept /
   connect / serviceConnect events with any connect_ex outcome (ok, in progress,
   refused -> reopen, raise), handshake outcome and reconnect-timer expiry, in which
   a raw open() is only used while no socket is held ([cwf]; reopen is
   unrestricted), the sockets created and not closed are exactly the one in .cs *)
Theorem C11_client : forall (tls : bool) (evs : list cev),
  cwf tls cinit evs ->
  copen_ids (crun tls cinit evs) = opt_list (cl_cs (crun tls cinit evs)) /\
  (length (copen_ids (crun tls cinit evs)) <= 1)%nat.
Proof. intros tls evs W. split; [now apply client_open_is_cs|now apply client_at_most_one]. Qed.
Print Assumptions C11_client.

Theorem C11_client_closed : forall (tls : bool) (evs : list cev),
  cwf tls cinit (evs ++ [CClose]) -> copen_ids (crun tls cinit (evs ++ [CClose])) = [].
Proof. exact client_none_after_close. Qed.
Print Assumptions C11_client_closed.

(* sequences without raw open() are always well formed *)
Theorem C11_client_reopen_only : forall (tls : bool) (evs : list cev),
  ~ In COpen evs -> (length (copen_ids (crun tls cinit evs)) <= 1)%nat.
Proof. intros tls evs H. apply client_at_most_one. now apply cwf_no_open. Qed.
Print Assumptions C11_client_reopen_only.

(* Non-vacuity.  TLS server: a handshake that stays pending (socket 2), a connection replaced while
   pending (1 by 3), one replaced when the newer handshake completes (3 by 4), a malformed accept (5),
   an aborted handshake (6), a cutoff and an error removal (7); close closes the rest (0, 4, 2). *)
Example C11_server_example :
  let evs := [Reopen false;
              SvcConnects [(0, AOk, [HWant; HOk]); (1, AOk, [HWant])];
              SvcAxes [(0, AOk, [HOk])];
              SvcCxes;
              SvcConnects [(0, AOk, [HOk]); (2, ABad, []); (3, AOk, [HEof])];
              SvcCxes; Recv 0 REof; SvcConnects [(3, AOk, [HOk])]; Recv 3 RErr]%N in
  open_ids (srun true init evs) = [0; 2; 4]%N /\
  closed (srun true init (evs ++ [Close])) = [1; 5; 3; 6; 7; 0; 4; 2]%N /\
  opened (srun true init (evs ++ [Close])) = [0; 1; 2; 3; 4; 5; 6; 7]%N.
Proof. vm_compute. repeat split. Qed.

Example C11_client_example :
  let evs := [COpen; CConnect CInprog HWant; CConnect CRefused HWant; CConnect COk HWant;
              CConnect COk HEof; CSvc COk HWant true; CReopen; CConnect COk HOk] in
  cwf true cinit evs /\
  cl_opened (crun true cinit evs) = [0; 1; 2; 3; 4]%N /\ copen_ids (crun true cinit evs) = [4]%N.
Proof. vm_compute. repeat split; discriminate. Qed.

(* raw open() on a client that already holds a socket is outside the property: it leaks *)
Example C11_raw_open_twice : copen_ids (crun false cinit [COpen; COpen; CClose]) = [0]%N.
Proof. vm_compute. reflexivity. Qed.
