(* C14 — requests built by the HTTP client are recovered exactly by the
   server's request parser and WSGI environ.  Statements only; proofs are in
   Proofs/HttpReqProofs.v.  The model (Model/HttpReq.v) is of the tree after
   the two D20 fix commits (query keys and form fields are quoted).

   Full statement (not proved in this generality):
     forall host port r, wf_request r = true -> roundtrip o host port r = true
   i.e. parse_request (build r) succeeds and yields the method, the path, the
   query arguments (through parse_qsl of QUERY_STRING), every header value
   (names case-insensitively, also as HTTP_* environ keys) and the body bytes
   (form fields through parse_qsl of the body) of r.
   Proved: the statement on an explicit finite grid of 2700 requests
   (C14_roundtrip_partial), and, for all inputs, the two codec facts the full
   proof rests on: percent-coding is inverted by unquote on every byte string
   (C14_percent_roundtrip) and every BMP scalar value decodes back from
   its UTF-8 encoding (C14_utf8_bmp).  Missing for the full theorem: the
   composition lemma utf8_dec (utf8_enc s) = s for strings and the
   tokenisation lemmas (a quoted target contains no blank, '?', '#'; a packed
   header splits at the first ': '); the differential check covers that gap
   with generated requests on every run. *)
From Hio Require Import Base.Prelude Model.HttpReqUrl Model.HttpTotal Model.HttpReq Proofs.HttpReqProofs.
From Coq Require Import String.
Local Open Scope N_scope.

(* Domain: 3 methods (GET, POST, DELETE) x 6 paths (blank, non-ASCII, non-BMP, literal %41, every
   sub-delimiter) x 5 query dicts (keys with & = + % # ? ; / blank, non-ASCII,
   empty key, empty value) x 3 header sets (mixed-case names, values with
   ': ', leading/trailing blanks, latin-1, empty) x 5 bodies (none, binary,
   JSON, form with & = + in fields, empty form) x {without, with} explicit
   Content-Length. *)
Theorem C14_roundtrip_partial : forall r, In r grid ->
  wf_request r = true /\ roundtrip o0 ghost 8080 r = true.
Proof. exact grid_roundtrip. Qed.
Print Assumptions C14_roundtrip_partial.

(* quote / quote_plus followed by unquote_to_bytes is the identity on every
   byte string, for every safe set that does not contain '%' *)
Theorem C14_percent_roundtrip : forall safe, mem_n 37 safe = false ->
  forall bs, Forall (fun b => b < 256) bs ->
  unquote_bytes (flat_map (quote_byte safe) bs) = bs.
Proof. exact unquote_quote_bytes. Qed.
Print Assumptions C14_percent_roundtrip.

(* every scalar value of the Basic Multilingual Plane survives UTF-8
   (exhaustive); beyond it a sparse sweep (every 97th value) is checked *)
Theorem C14_utf8_bmp : forall c, c < 65536 -> scalar c = true -> utf8_dec (utf8_enc1 c) = [c].
Proof. exact utf8_bmp_roundtrip. Qed.
Print Assumptions C14_utf8_bmp.

(* ---- a Requester that builds several requests in a row (rebuild with some or no
   arguments; the other attributes are carried over) ---- *)

(* For all states, all rebuild-argument sequences: every build of the history
   sends exactly build(request it was asked to send) ... *)
Theorem C14_history_wire : forall host port ops st,
  Forall (fun rw => snd rw = build host port (fst rw)) (history host port st ops).
Proof. exact history_wire. Qed.
Print Assumptions C14_history_wire.

(* ... where that request is: the given fields, and for the fields not given
   those of the previous request *as they were given* (the path unquoted, the
   same query dict; headers as the previous build left them; body / data /
   fargs never carry over). *)
Theorem C14_carry_over : forall host port st a,
  let r := request_of st in
  let r' := request_of (reinit (snd (build_step host port st)) a) in
  q_method r' = match a_method a with Some m => m | None => q_method r end /\
  q_path r' = match a_path a with Some p => p | None => q_path r end /\
  q_qargs r' = match a_qargs a with Some q => q | None => q_qargs r end /\
  q_headers r' = match a_headers a with Some h => h | None => final_headers r end /\
  q_body r' = match a_data a, a_fargs a with
              | Some e, _ => Json e
              | None, Some f => Form f
              | None, None => Raw (match a_body a with Some b => b | None => [] end)
              end.
Proof. exact next_request. Qed.
Print Assumptions C14_carry_over.

(* Hence the single-request round trip lifts to every build of every history. *)
Theorem C14_history_lift : forall o host port ops st,
  Forall (fun rw => roundtrip o host port (fst rw) = true ->
                    exists p, parse_request o (snd rw) = Ok p /\ recovered (fst rw) p = true)
         (history host port st ops).
Proof. exact history_roundtrip. Qed.
Print Assumptions C14_history_lift.

(* Finite domain: 36 first requests (paths with blank, non-ASCII, literal %) x
   every sequence of at most two rebuilds out of 6 (no arguments, method+body,
   path only, qargs+data, method+headers+fargs, GET with empty qargs): every
   build is well formed and parses back to the request of THAT build. *)
Theorem C14_history_partial : forall rs, In rs h_grid -> history_ok rs = true.
Proof. exact h_grid_roundtrip. Qed.
Print Assumptions C14_history_partial.

Example C14_history_example :
  let st := state_of {| q_method := str "GET"; q_path := str "/docs/annual report.txt";
                        q_qargs := []; q_headers := []; q_body := Raw [] |} in
  map (fun rw => (q_path (fst rw), firstn 34 (snd rw))) (history ghost 8080 st [no_args; no_args]) =
  let one := (str "/docs/annual report.txt", str "GET /docs/annual%20report.txt HTTP") in [one; one; one].
Proof. vm_compute. reflexivity. Qed.

(* Non-vacuity and the D20 witnesses: keys with '&', blank and non-ASCII, form
   values with '&' and '=' come back; the wire form is the expected one. *)
Example C14_example :
  let r := {| q_method := str "POST"; q_path := str "/a b/" ++ [233];
              q_qargs := [(str "k&1", str "v=2&x"); (str "sp ace", [233])];
              q_headers := [(str "x-UPPER", str "A: b")];
              q_body := Form [(str "a&b", str "c=d&e")] |} in
  wf_request r = true /\ roundtrip o0 ghost 8080 r = true /\
  firstn 59 (build ghost 8080 r) = str "POST /a%20b/%C3%A9?k%261=v%3D2%26x&sp+ace=%C3%A9 HTTP/1.1" ++ [13; 10] /\
  body_bytes r = str "a%26b=c%3Dd%26e".
Proof. vm_compute. repeat split. Qed.
