(* C14, general theorem, layer 4: lines, tokens, header fields. *)
From Hio Require Import Base.Prelude Model.HttpReqUrl Model.HttpTotal Model.HttpReq
     Proofs.HttpReqProofs Proofs.HttpReqCodec Proofs.HttpReqQuery.
From Coq Require Import String ZifyBool.
Local Open Scope N_scope.

Lemma ustr_eqb_eq a : forall b, ustr_eqb a b = true -> a = b.
Proof.
  unfold ustr_eqb. induction a as [|x a IH]; intros [|y b] H; try discriminate; [reflexivity|].
  cbn [list_eqb] in H. apply andb_true_iff in H. destruct H as [Hx Ha]. apply N.eqb_eq in Hx. subst.
  f_equal. now apply IH.
Qed.

Lemma ustr_eqb_refl a : ustr_eqb a a = true.
Proof. unfold ustr_eqb. induction a as [|x a IH]; [reflexivity|]. cbn [list_eqb]. now rewrite N.eqb_refl, IH. Qed.

Lemma mem_n_false_forall c l : mem_n c l = false <-> Forall (fun x => x <> c) l.
Proof.
  unfold mem_n. induction l as [|x l IH]; cbn [existsb]; split; intros H.
  - constructor. - reflexivity.
  - apply orb_false_iff in H. destruct H as [Hx Hl]. constructor; [apply N.eqb_neq in Hx; congruence|now apply IH].
  - inversion H; subst. apply orb_false_iff. split; [apply N.eqb_neq; congruence|now apply IH].
Qed.

(* ---------- one CRLF terminated line ---------- *)
Lemma take_lf_app : forall l rest, mem_n 10 l = false ->
  take_lf (l ++ 10 :: rest) = Some (l, rest).
Proof.
  induction l as [|x l IH]; intros rest H.
  - reflexivity.
  - unfold mem_n in H. cbn [existsb] in H. apply orb_false_iff in H. destruct H as [Hx Hl].
    cbn [app take_lf]. rewrite N.eqb_sym in Hx. rewrite Hx. rewrite IH by exact Hl. reflexivity.
Qed.

Lemma strip_cr_snoc l : strip_cr (l ++ [13]) = l.
Proof.
  unfold strip_cr. rewrite frev_rev, rev_app_distr. cbn [rev app]. change (N.eqb 13 13) with true. cbv iota.
  now rewrite frev_rev, rev_involutive.
Qed.

Lemma line_lf_crlf l rest : mem_n 10 l = false -> blen l <= MAXL ->
  line_lf (l ++ CRLFb ++ rest) = Got l rest.
Proof.
  intros Hl Hn. unfold line_lf, CRLFb.
  change (l ++ [13; 10] ++ rest) with (l ++ [13] ++ 10 :: rest). rewrite app_assoc.
  rewrite take_lf_app.
  - rewrite strip_cr_snoc. destruct (MAXL <? blen l) eqn:E; [lia|reflexivity].
  - rewrite mem_n_app, Hl. reflexivity.
Qed.

(* ---------- str.split() on three blank-separated tokens ---------- *)
Definition no_ws (s : ustr) : bool := forallb (fun c => negb (is_uspace c)) s.

Lemma split_ws_tok : forall x cur, no_ws x = true -> (x <> [] \/ cur <> []) ->
  split_ws_aux x cur = [rev cur ++ x].
Proof.
  induction x as [|c x IH]; intros cur H Hne.
  - cbn [split_ws_aux]. destruct cur as [|y cur]; [destruct Hne; congruence|].
    now rewrite frev_rev, app_nil_r.
  - cbn [no_ws forallb] in H. apply andb_true_iff in H. destruct H as [Hc Hx]. apply negb_true_iff in Hc.
    cbn [split_ws_aux]. rewrite Hc. rewrite IH; [|exact Hx|right; discriminate].
    cbn [rev]. now rewrite <- app_assoc.
Qed.

Lemma split_ws_sep : forall x cur rest, no_ws x = true -> (x <> [] \/ cur <> []) ->
  split_ws_aux (x ++ 32 :: rest) cur = (rev cur ++ x) :: split_ws_aux rest [].
Proof.
  induction x as [|c x IH]; intros cur rest H Hne.
  - cbn [app split_ws_aux]. change (is_uspace 32) with true. cbn iota.
    destruct cur as [|y cur]; [destruct Hne; congruence|]. now rewrite frev_rev, app_nil_r.
  - cbn [no_ws forallb] in H. apply andb_true_iff in H. destruct H as [Hc Hx]. apply negb_true_iff in Hc.
    cbn [app split_ws_aux]. rewrite Hc. rewrite IH; [|exact Hx|right; discriminate].
    cbn [rev]. now rewrite <- app_assoc.
Qed.

Lemma split_ws_three a b c : no_ws a = true -> no_ws b = true -> no_ws c = true ->
  a <> [] -> b <> [] -> c <> [] ->
  split_ws (a ++ 32 :: b ++ 32 :: c) = [a; b; c].
Proof.
  intros Ha Hb Hc Na Nb Nc. unfold split_ws.
  rewrite split_ws_sep by (auto). rewrite split_ws_sep by auto. rewrite split_ws_tok by auto. reflexivity.
Qed.

(* ---------- header field names: title() ---------- *)
Lemma title_aux_map (g : N -> N) :
  (forall c, is_alpha c = true -> g (lower1 c) = g c /\ g (upper1a c) = g c) ->
  forall n w, map g (title_aux n w) = map g n.
Proof.
  intros Hg. induction n as [|c n IH]; intros w; [reflexivity|].
  cbn [title_aux]. destruct (is_alpha c) eqn:E.
  - destruct (Hg c E) as [H1 H2]. cbn [map]. rewrite IH. destruct w; [now rewrite H1|now rewrite H2].
  - cbn [map]. now rewrite IH.
Qed.

Lemma alpha_lt c : is_alpha c = true -> c < 128.
Proof. unfold is_alpha, is_upper, is_lower. intros H. lia. Qed.

Lemma alpha_case_lower : forall c, is_alpha c = true -> lower1 (lower1 c) = lower1 c /\ lower1 (upper1a c) = lower1 c.
Proof.
  assert (H : forall c, c < 128 -> (negb (is_alpha c) || (N.eqb (lower1 (lower1 c)) (lower1 c) && N.eqb (lower1 (upper1a c)) (lower1 c))) = true).
  { apply all_below_spec. vm_compute. reflexivity. }
  intros c Hc. specialize (H c (alpha_lt c Hc)). rewrite Hc in H. cbn in H.
  apply andb_true_iff in H. destruct H as [H1 H2]. apply N.eqb_eq in H1, H2. now split.
Qed.

Lemma lower_title n : lower (title n) = lower n.
Proof. unfold lower, title. apply title_aux_map. exact alpha_case_lower. Qed.

Definition ekc (c : N) : N := upper1a (if N.eqb c 45 then 95 else c).
Lemma alpha_case_ekc : forall c, is_alpha c = true -> ekc (lower1 c) = ekc c /\ ekc (upper1a c) = ekc c.
Proof.
  assert (H : forall c, c < 128 -> (negb (is_alpha c) || (N.eqb (ekc (lower1 c)) (ekc c) && N.eqb (ekc (upper1a c)) (ekc c))) = true).
  { apply all_below_spec. vm_compute. reflexivity. }
  intros c Hc. specialize (H c (alpha_lt c Hc)). rewrite Hc in H. cbn in H.
  apply andb_true_iff in H. destruct H as [H1 H2]. apply N.eqb_eq in H1, H2. now split.
Qed.

Lemma environ_key_title n : environ_key (title n) = environ_key n.
Proof. unfold environ_key. f_equal. unfold title. apply (title_aux_map ekc). exact alpha_case_ekc. Qed.

(* title keeps the non-letters, so a token name stays free of ':' CR LF *)
Lemma title_aux_notin c : is_alpha c = false -> forall n w, mem_n c n = false -> mem_n c (title_aux n w) = false.
Proof.
  intros Hc. induction n as [|x n IH]; intros w H; [reflexivity|].
  unfold mem_n in H. cbn [existsb] in H. apply orb_false_iff in H. destruct H as [Hx Hn].
  cbn [title_aux]. destruct (is_alpha x) eqn:E.
  - unfold mem_n. cbn [existsb]. fold (mem_n c (title_aux n true)). rewrite IH by exact Hn. rewrite orb_false_r.
    apply N.eqb_neq. intros ->.
    assert (is_alpha (if w then lower1 x else upper1a x) = true).
    { assert (Hall : forall x, x < 128 -> (negb (is_alpha x) || (is_alpha (lower1 x) && is_alpha (upper1a x))) = true).
      { apply all_below_spec. vm_compute. reflexivity. }
      specialize (Hall x (alpha_lt x E)). rewrite E in Hall. cbn in Hall. apply andb_true_iff in Hall. destruct w; tauto. }
    congruence.
  - unfold mem_n. cbn [existsb]. fold (mem_n c (title_aux n false)). rewrite IH by exact Hn. now rewrite Hx.
Qed.

Lemma title_nil n : title n = [] -> n = [].
Proof. destruct n as [|c n]; [reflexivity|]. unfold title. cbn [title_aux]. destruct (is_alpha c); discriminate. Qed.
