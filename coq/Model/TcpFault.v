(* Model of how socket-level faults are handled by hio.core.tcp:
   - the errno / SSL-code classification at the eight send/receive sites is
     Stream.classify (Model/Stream.v), reused here;
   - RemoterTls.handshake and ClientTls.handshake;
   - Client.accept (connect_ex result codes);
   - Server.service / ServerTls.service as loops over .cxes and .ixes
     (serviceCxes, serviceReceivesAllIx with its try/except OSError + removeIx,
      serviceSendsAllIx without any handling).
   Faithful to the code as it is, including the open findings (EPIPE in no list;
   ClientTls.handshake re-raises). *)
From Hio Require Import Base.Prelude Model.Stream.

Inductive flavor := FOs | FSsl.       (* a plain OSError(errno) | an ssl.SSLError(code) *)

(* ---------- handshakes ---------- *)
Inductive hres := HDone | HFail (fl : flavor) (e : N).
Inductive hs_out := HsConnected | HsPending | HsAborted | HsRaised.

Definition want_codes : list N := [SSL_WANT_READ; SSL_WANT_WRITE].

(* RemoterTls.handshake: except ssl.SSLError: WANT_* -> return; else close, aborted;
   except OSError: close, aborted. *)
Definition remoter_handshake (h : hres) : hs_out :=
  match h with
  | HDone => HsConnected
  | HFail FSsl e => if memN e want_codes then HsPending else HsAborted
  | HFail FOs _ => HsAborted
  end.

(* ClientTls.handshake: except OSError: errno in WANT_* -> False; else close and re-raise. *)
Definition client_handshake (h : hres) : hs_out :=
  match h with
  | HDone => HsConnected
  | HFail _ e => if memN e want_codes then HsPending else HsRaised
  end.

(* ---------- Client.accept: connect_ex returns a code, nothing raises ---------- *)
Definition EISCONN : N := 106.  Definition EINVAL : N := 22.  Definition EINPROGRESS : N := 115.
Inductive acc_out := AccConnected | AccRetry | AccReopenRetry.
Definition client_accept (r : N) : acc_out :=
  if memN r [0%N; EISCONN] then AccConnected
  else if memN r [EINVAL; ECONNREFUSED] then AccReopenRetry
  else AccRetry.

(* ---------- fault sites and their outcome, as one finite table ---------- *)
Inductive site :=
| SSend (k : kind) | SRecv (k : kind)        (* X.send / X.receive inside serviceSends / serviceReceives *)
| SHsRemoter | SHsClient                     (* RemoterTls.handshake | ClientTls.handshake *)
| SConnect.                                  (* Client.accept, code returned by connect_ex *)

Inductive outcome := OBlocked | OCut | OAborted | ORetry | ORaised.

Definition outcome_of (s : site) (fl : flavor) (e : N) : outcome :=
  match s with
  | SSend k => match classify k DTx e with WouldBlock => OBlocked | CutOff => OCut | Raise => ORaised end
  | SRecv k => match classify k DRx e with WouldBlock => OBlocked | CutOff => OCut | Raise => ORaised end
  | SHsRemoter => match remoter_handshake (HFail fl e) with
                  | HsPending => OBlocked | HsAborted => OAborted | HsRaised => ORaised | HsConnected => OBlocked end
  | SHsClient => match client_handshake (HFail fl e) with
                 | HsPending => OBlocked | HsAborted => OAborted | HsRaised => ORaised | HsConnected => OBlocked end
  | SConnect => match client_accept e with AccConnected => OBlocked | _ => ORetry end
  end.

(* the property's fault domain *)
Definition conn_errnos : list N :=
  [ECONNRESET; EPIPE; ENETRESET; ENETUNREACH; EHOSTUNREACH; ENETDOWN; EHOSTDOWN; ETIMEDOUT; ECONNREFUSED].
Definition tls_eofs : list N := [SSL_EOF; SSL_ZERO_RETURN].
Definition hs_errnos : list N := ECONNABORTED :: conn_errnos.

Definition kinds : list kind := [KClient; KClientTls; KRemoter; KRemoterTls].
Definition io_sites : list site := map SSend kinds ++ map SRecv kinds.
Definition site_tls (s : site) : bool :=
  match s with SSend k | SRecv k => is_tls k | SHsRemoter | SHsClient => true | SConnect => false end.

(* the connection-level faults that can be injected at a site *)
Definition faults_at (s : site) : list (flavor * N) :=
  match s with
  | SSend k | SRecv k =>
    map (pair FOs) conn_errnos ++ (if is_tls k then map (pair FSsl) tls_eofs else [])
  | SHsRemoter | SHsClient => map (pair FOs) hs_errnos ++ map (pair FSsl) tls_eofs
  | SConnect => map (pair FOs) conn_errnos
  end.

Definition handled (o : outcome) : bool :=
  match o with OCut | OAborted | ORetry => true | _ => false end.

(* ---------- Server.service over many connections ---------- *)
Record script := { sc_recvs : list rres; sc_send : sres }.
Record pass := {
  p_tx : list (N * bytes);       (* transmitIx(data, ca) calls before the service *)
  p_acc : list (N * bool);       (* connections the listen socket hands out in this pass: (address, already reset) *)
  p_hs : list (N * hres);        (* do_handshake answers for pending connections *)
  p_io : list (N * script) }.    (* socket answers per established connection *)

Record server := {
  ixes : list (N * conn);        (* dict order *)
  cxes : list N;                 (* pending TLS handshakes, dict order *)
  closed : list N }.             (* ghost: connections whose socket the server closed, in order *)

Fixpoint lookup {A} (k : N) (l : list (N * A)) : option A :=
  match l with
  | [] => None
  | (k', v) :: r => if N.eqb k k' then Some v else lookup k r
  end.

Definition recvs_of (io : list (N * script)) (ca : N) : list rres :=
  match lookup ca io with Some sc => sc_recvs sc | None => [] end.
Definition send_of (io : list (N * script)) (ca : N) : sres :=
  match lookup ca io with Some sc => sc_send sc | None => SAccept 0 end.
Definition hs_of (hs : list (N * hres)) (ca : N) : hres :=
  match lookup ca hs with Some h => h | None => HFail FSsl SSL_WANT_READ end.

(* serviceReceivesAllIx: try: ix.serviceReceives() except OSError: removeIx(ca) (closes) *)
Fixpoint recv_all (c : cfg) (io : list (N * script)) (l : list (N * conn)) : list (N * conn) * list N :=
  match l with
  | [] => ([], [])
  | (ca, s) :: r =>
    match service_receives c s (recvs_of io ca) with
    | (s', Ok _, _) => let (r', cl) := recv_all c io r in ((ca, s') :: r', cl)
    | (_, Exc _, _) => let (r', cl) := recv_all c io r in (r', ca :: cl)
    end
  end.

(* serviceSendsAllIx: for rm in ixes.values(): rm.serviceSends() -- an exception ends the loop *)
Fixpoint send_all (c : cfg) (io : list (N * script)) (l : list (N * conn)) : list (N * conn) * res unit :=
  match l with
  | [] => ([], Ok tt)
  | (ca, s) :: r =>
    match service_sends c s (send_of io ca) with
    | (s', Ok _, _) => let (r', x) := send_all c io r in ((ca, s') :: r', x)
    | (s', Exc e, _) => ((ca, s') :: r, Exc e)
    end
  end.

(* ServerTls.serviceCxes: handshake each pending connection; connected -> moved to the end of
   .ixes; aborted -> dropped (RemoterTls.handshake closed it); else stays pending *)
Fixpoint service_cxes (hs : list (N * hres)) (l : list N) : list N * list N * list N :=
  match l with
  | [] => ([], [], [])
  | ca :: r =>
    let '(pend, conn, ab) := service_cxes hs r in
    match remoter_handshake (hs_of hs ca) with
    | HsConnected => (pend, ca :: conn, ab)
    | HsPending => (ca :: pend, conn, ab)
    | _ => (pend, conn, ca :: ab)
    end
  end.

Fixpoint tx_all (txs : list (N * bytes)) (l : list (N * conn)) : list (N * conn) :=
  match l with
  | [] => []
  | (ca, s) :: r =>
    (ca, match lookup ca txs with Some d => set_txbs s (txbs s ++ d) | None => s end) :: tx_all txs r
  end.

Fixpoint mem_ix (ca : N) (l : list (N * conn)) : bool :=
  match l with [] => false | (k, _) :: r => N.eqb ca k || mem_ix ca r end.

(* self.ixes[ca] = fresh remoter: an existing key keeps its place in the dict, a new key goes last *)
Fixpoint put_ix (ca : N) (l : list (N * conn)) : list (N * conn) :=
  match l with
  | [] => [(ca, init true)]
  | (k, s) :: r => if N.eqb ca k then (k, init true) :: r else (k, s) :: put_ix ca r
  end.
Definition put_all (cas : list N) (l : list (N * conn)) : list (N * conn) := fold_left (fun l ca => put_ix ca l) cas l.

(* Server.serviceAxes: a connection already reset when accepted (getpeername raises) is closed and skipped;
   an address that is still in .ixes has its old connection closed and is replaced by the new one *)
Fixpoint accept_ix (acc : list (N * bool)) (l : list (N * conn)) : list (N * conn) * list N :=
  match acc with
  | [] => (l, [])
  | (ca, dead) :: r =>
    if dead then let (l', cl) := accept_ix r l in (l', ca :: cl)
    else let (l', cl) := accept_ix r (put_ix ca l) in (l', if mem_ix ca l then ca :: cl else cl)
  end.

(* ServerTls.serviceAxes: same, into .cxes (a pending connection of that address is closed and replaced) *)
Fixpoint accept_cx (acc : list (N * bool)) (l : list N) : list N * list N :=
  match acc with
  | [] => (l, [])
  | (ca, dead) :: r =>
    if dead then let (l', cl) := accept_cx r l in (l', ca :: cl)
    else if existsb (N.eqb ca) l then let (l', cl) := accept_cx r l in (l', ca :: cl)
    else accept_cx r (l ++ [ca])
  end.

(* sockets closed by serviceCxes, in order: aborted handshakes, and established connections replaced by a
   completed handshake from the same address *)
Definition cx_closed (hs : list (N * hres)) (l : list N) (ix : list (N * conn)) : list N :=
  flat_map (fun ca => match remoter_handshake (hs_of hs ca) with
                      | HsConnected => if mem_ix ca ix then [ca] else []
                      | HsPending => []
                      | _ => [ca]
                      end) l.

(* everything before the receive phase: transmitIx calls, accepts, handshakes *)
Definition staged (c : cfg) (p : pass) (sv : server) : list (N * conn) * list N * list N :=
  let ix0 := tx_all (p_tx p) (ixes sv) in
  if is_tls (kd c) then
    let (cxa, cla) := accept_cx (p_acc p) (cxes sv) in
    let '(pend, conn, _) := service_cxes (p_hs p) cxa in
    (put_all conn ix0, pend, cla ++ cx_closed (p_hs p) cxa ix0)
  else
    let (ixa, cla) := accept_ix (p_acc p) ix0 in (ixa, cxes sv, cla).

Definition service (c : cfg) (p : pass) (sv : server) : server * res unit :=
  let '(ix1, pend, cl0) := staged c p sv in
  let (ix2, cl) := recv_all c (p_io p) ix1 in
  let (ix3, r) := send_all c (p_io p) ix2 in
  ({| ixes := ix3; cxes := pend; closed := closed sv ++ cl0 ++ cl |}, r).

(* ---------- correspondence ---------- *)
Record ixsnap := { is_ca : N; is_cut : bool; is_tx : N; is_rx : N }.
Record psnap := { ps_res : res unit; ps_ixes : list ixsnap; ps_cxes : list N; ps_closed : list N }.

Definition snap_ix (x : N * conn) : ixsnap :=
  {| is_ca := fst x; is_cut := cutoff (snd x); is_tx := lenN (txbs (snd x)); is_rx := lenN (rxbs (snd x)) |}.

Fixpoint run_passes (c : cfg) (sv : server) (ps : list pass) : list psnap :=
  match ps with
  | [] => []
  | p :: ps' =>
    let x := service c p sv in
    {| ps_res := snd x; ps_ixes := map snap_ix (ixes (fst x)); ps_cxes := cxes (fst x);
       ps_closed := closed (fst x) |} :: run_passes c (fst x) ps'
  end.

Definition ixsnap_eqb (a b : ixsnap) : bool :=
  N.eqb (is_ca a) (is_ca b) && Bool.eqb (is_cut a) (is_cut b) && N.eqb (is_tx a) (is_tx b) && N.eqb (is_rx a) (is_rx b).
Definition psnap_eqb (a b : psnap) : bool :=
  res_eqb unit_eqb (ps_res a) (ps_res b) && list_eqb ixsnap_eqb (ps_ixes a) (ps_ixes b) &&
  list_eqb N.eqb (ps_cxes a) (ps_cxes b) && list_eqb N.eqb (ps_closed a) (ps_closed b).

Definition hs_out_eqb (a b : hs_out) : bool :=
  match a, b with
  | HsConnected, HsConnected | HsPending, HsPending | HsAborted, HsAborted | HsRaised, HsRaised => true
  | _, _ => false
  end.
Definition acc_out_eqb (a b : acc_out) : bool :=
  match a, b with
  | AccConnected, AccConnected | AccRetry, AccRetry | AccReopenRetry, AccReopenRetry => true
  | _, _ => false
  end.

Inductive case :=
| CStream (x : Stream.case)                               (* a fault inside a single connection's op sequence *)
| CHandshake (client : bool) (h : hres) (o : hs_out)      (* one handshake attempt and what was observed *)
| CConnect (r : N) (o : acc_out)                          (* Client.accept with connect_ex = r *)
| CServer (tls : bool) (ix0 : list N) (cx0 : list N) (ps : list pass) (o : list psnap).

Definition server_cfg (tls : bool) : cfg :=
  {| kd := if tls then KRemoterTls else KRemoter; wl_tx := false; wl_rx := false |}.

Definition check_case (x : case) : bool :=
  match x with
  | CStream y => Stream.check_case y
  | CHandshake client h o => hs_out_eqb (if client then client_handshake h else remoter_handshake h) o
  | CConnect r o => acc_out_eqb (client_accept r) o
  | CServer tls ix0 cx0 ps o =>
    list_eqb psnap_eqb
      (run_passes (server_cfg tls)
         {| ixes := map (fun ca => (ca, init true)) ix0; cxes := cx0; closed := [] |} ps) o
  end.

(* ---------- branch classifier ---------- *)
Definition out_id (o : outcome) : nat :=
  match o with OBlocked => 0 | OCut => 1 | OAborted => 2 | ORetry => 3 | ORaised => 4 end.
Definition case_branches (x : case) : list nat :=
  match x with
  | CStream y => 0 :: map (fun b => if Nat.eqb b 21 then 38 else 1 + b) (Stream.case_branches y)
  | CHandshake client h _ =>
    [match (if client then client_handshake h else remoter_handshake h) with
     | HsConnected => 22 | HsPending => 23 | HsAborted => 24 | HsRaised => 25 end + (if client then 4 else 0)]
  | CConnect r _ => [match client_accept r with AccConnected => 30 | AccRetry => 31 | AccReopenRetry => 32 end]
  | CServer tls _ _ ps o =>
    33 :: (if tls then [34] else []) ++
    flat_map (fun s => (match ps_res s with Ok _ => 35 | Exc _ => 36 end) ::
                       (if is_nil (ps_closed s) then [] else [37])) o
  end.
Definition n_branches : nat := 39.
