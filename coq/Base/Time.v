(* Time values: models are generic in a [Time] instance.  [ZTime] is exact and
   carries the ordered-group laws used by closed-form theorems; [FTime] is IEEE
   binary64 (Coq primitive floats), used by the correspondence so that model
   and Python agree bit for bit, including on non-dyadic values. *)
From Coq Require Import ZArith Bool Lia PrimFloat.

Class Time (T : Type) := {
  tadd : T -> T -> T;
  tsub : T -> T -> T;
  tleb : T -> T -> bool;     (* a <= b *)
  tltb : T -> T -> bool;     (* a < b *)
  tzero : T;
  tfalsy : T -> bool;        (* Python truthiness of a number: x == 0 *)
  tabs : T -> T;
  teqb : T -> T -> bool;     (* structural comparison for the correspondence *)
}.

#[export] Instance ZTime : Time Z := {
  tadd := Z.add; tsub := Z.sub; tleb := Z.leb; tltb := Z.ltb; tzero := 0%Z;
  tfalsy := fun x => Z.eqb x 0; tabs := Z.abs; teqb := Z.eqb }.

(* bit-level equality on floats: equal as numbers and same sign of zero, or both nan *)
Definition float_same (a b : float) : bool :=
  match PrimFloat.compare a b with
  | FEq => PrimFloat.eqb (PrimFloat.div 1 a) (PrimFloat.div 1 b)
  | FNotComparable => negb (PrimFloat.eqb a a) && negb (PrimFloat.eqb b b)
  | _ => false
  end.

#[export] Instance FTime : Time float := {
  tadd := PrimFloat.add; tsub := PrimFloat.sub; tleb := PrimFloat.leb; tltb := PrimFloat.ltb;
  tzero := PrimFloat.zero; tfalsy := fun x => PrimFloat.eqb x PrimFloat.zero;
  tabs := PrimFloat.abs; teqb := float_same }.

(* The laws the exact instance satisfies and closed-form theorems rely on. *)
Class TimeLaws (T : Type) `{Time T} := {
  tadd_assoc : forall a b c, tadd a (tadd b c) = tadd (tadd a b) c;
  tadd_comm : forall a b, tadd a b = tadd b a;
  tadd_zero : forall a, tadd a tzero = a;
  tsub_add : forall a b, tsub (tadd a b) b = a;
  tleb_refl : forall a, tleb a a = true;
  tleb_trans : forall a b c, tleb a b = true -> tleb b c = true -> tleb a c = true;
  tleb_add : forall a b c, tleb a b = true -> tleb (tadd a c) (tadd b c) = true;
  tleb_total : forall a b, tleb a b = true \/ tleb b a = true;
  tltb_spec : forall a b, tltb a b = negb (tleb b a);
}.

#[export] Instance ZTimeLaws : TimeLaws Z.
Proof.
  constructor; simpl; intros; try lia.
Qed.
