"""C09 — TCP/TLS byte streams are delivered exactly, in order, under partial I/O; wire log exact.

Drives the real Client / ClientTls / Remoter / RemoterTls with a scripted fake socket
assigned to `.cs` (TLS classes get a fake SSLContext whose wrap_socket returns the fake)
and a real in-memory WireLog whose buffers record every write.

case = {"kind": "client|clienttls|remoter|remotertls", "conn0": bool, "bs": int,
        "wl": {"mode": 0|1|2, "rxed": bool, "txed": bool},
        "ops": [op...], optional "drain": true}
op   = ["tx", hex] | ["sends", sres] | ["recvs", [rres...]] | ["once", rres]
     | ["service", sres, [rres...]] | ["take"] | ["connect"]
sres = ["acc", n] | ["err", flavor, code]        (kernel takes up to n bytes | raises)
rres = ["data", hex] | ["err", flavor, code]     ("data","" = orderly EOF)
flavor = "os" (OSError(errno)) | "ssl" (ssl.SSLError subclass with args[0] = code)
"""
import errno, io, os, ssl

from harness.core import coq_N, coq_list, coq_bool, coq_res, coq_bytes, coq_nat, exn_kind

PROP = "C09"
COQ_REQUIRES = ["Hio.Model.Stream"]
COQ_CHECK = "Stream.check_case"
COQ_CASE_TYPE = "Stream.case"
COQ_BRANCHES = ("Stream.case_branches", "Stream.n_branches")
SHARD = 120
RULE = ("op sequences (tx / serviceSends / serviceReceives / serviceReceiveOnce / service / clearRxbs / connect) on "
        "the four connection classes over a scripted fake socket: every send is answered by 'kernel takes up to n "
        "bytes' (0..len+), would-block (EAGAIN, SSLWantRead/Write) or an OSError/SSLError code; every recv by a chunk "
        "(1..bs bytes), EOF, would-block or an error; WireLog none / data-only format in two buffers / default format "
        "in one shared buffer, rxed/txed on or off; payloads empty, 1 byte, up to several times bs; directed stream "
        "hits every model branch for every class; a case is non-trivial when it has >= 2 tx calls and >= 1 partial "
        "accept or would-block answer on a send that was actually attempted")
MODELLED = ["kernel/OpenSSL socket behaviour (scripted fake socket: send takes a prefix of the buffer it is given, "
            "recv returns chunks, errors are OSError/ssl.SSLError instances with args[0] = code; after shutdown(SHUT_RD) every recv reports end of stream, after shutdown(SHUT_WR) every send fails with EPIPE; after a chunk marked dead, i.e. read after the peer reset, getpeername() raises ENOTCONN)",
            "Python bytearray extend / del [:n] / slicing (as list append, skipn, firstn)",
            "io.BytesIO and bytes %-formatting inside WireLog (each write observed as one record)",
            "OpenSSL's rule that a write retried after WANT_WRITE may see a moved/grown buffer (CPython sets "
            "SSL_MODE_ACCEPT_MOVING_WRITE_BUFFER)"]

KINDS = ["client", "clienttls", "remoter", "remotertls"]
COQ_KIND = {"client": "Stream.KClient", "clienttls": "Stream.KClientTls", "remoter": "Stream.KRemoter",
            "remotertls": "Stream.KRemoterTls"}
HA = ("127.0.0.1", 56000)      # server side address
CA = ("127.0.0.1", 40001)      # client side address

PLAIN_BLOCK = [errno.EAGAIN]
TLS_BLOCK = [ssl.SSL_ERROR_WANT_READ, ssl.SSL_ERROR_WANT_WRITE]
CONN_ERRNOS = [errno.ECONNRESET, errno.EPIPE, errno.ENETRESET, errno.ENETUNREACH, errno.EHOSTUNREACH,
               errno.ENETDOWN, errno.EHOSTDOWN, errno.ETIMEDOUT, errno.ECONNREFUSED]
TLS_EOF = [int(ssl.SSL_ERROR_EOF), int(ssl.SSL_ERROR_ZERO_RETURN)]
OTHER_ERRNOS = [errno.EBADF, errno.ENOTCONN, errno.EINVAL, errno.ENOMEM, errno.ECONNABORTED, errno.EINTR,
                errno.ENOBUFS, 1, 5]


def is_tls(kind):
    return kind.endswith("tls")


def is_client(kind):
    return kind.startswith("client")


def make_exc(flavor, code):
    if flavor == "ssl":
        cls = {int(ssl.SSL_ERROR_WANT_READ): ssl.SSLWantReadError, int(ssl.SSL_ERROR_WANT_WRITE): ssl.SSLWantWriteError,
               int(ssl.SSL_ERROR_EOF): ssl.SSLEOFError, int(ssl.SSL_ERROR_ZERO_RETURN): ssl.SSLZeroReturnError,
               int(ssl.SSL_ERROR_SYSCALL): ssl.SSLSyscallError}.get(code, ssl.SSLError)
        return cls(code, "scripted ssl error %d" % code)
    return OSError(code, os.strerror(code))      # maps to BrokenPipeError, ConnectionResetError, BlockingIOError ...


class FakeSock:
    """Scripted non-blocking socket.  Answers are loaded before each op; an exhausted recv script would block."""

    def __init__(self, tls, peer, name):
        self.tls, self.peer, self.name = tls, peer, name
        self.sends, self.recvs = [], []
        self.calls = self.n_send = self.n_recv = 0
        self.on_close = None
        self.dead = False
        self.shut = []
        self.accepted = bytearray()     # bytes the kernel took, in order
        self.delivered = bytearray()    # bytes the kernel handed out, in order
        self.connect_result = errno.EINPROGRESS
        self.handshake = None           # None = succeeds, else (flavor, code)
        self.closed = False
        self.misuse = []

    def _block(self):
        return make_exc("ssl", int(ssl.SSL_ERROR_WANT_READ)) if self.tls else make_exc("os", errno.EAGAIN)

    def send(self, data):
        self.calls += 1
        self.n_send += 1
        if 1 in self.shut or 2 in self.shut:          # sending side shut down locally
            raise OSError(errno.EPIPE, os.strerror(errno.EPIPE))
        if not self.sends:
            self.misuse.append("send without scripted answer")
            raise self._block()
        a = self.sends.pop(0)
        if a[0] == "acc":
            n = min(a[1], len(data))
            self.accepted.extend(bytes(data[:n]))
            return n
        raise make_exc(a[1], a[2])

    def recv(self, bufsize):
        self.calls += 1
        self.n_recv += 1
        if 0 in self.shut or 2 in self.shut:          # receiving side shut down locally: end of stream at once
            return b""
        if not self.recvs:
            raise self._block()
        a = self.recvs.pop(0)
        if a[0] == "data":
            d = bytes.fromhex(a[1])
            if len(d) > bufsize:
                self.misuse.append("scripted chunk larger than bufsize")
            if len(a) > 2 and a[2] == "dead":
                self.dead = True     # the peer has already reset: these bytes were still queued, the socket is no longer connected
            self.delivered.extend(d)
            return d
        raise make_exc(a[1], a[2])

    def connect_ex(self, ha):
        return self.connect_result

    def do_handshake(self):
        if self.handshake is not None:
            raise make_exc(*self.handshake)

    def getpeername(self):
        if self.dead:                                 # True (ENOTCONN) or the errno to report
            e = errno.ENOTCONN if self.dead is True else int(self.dead)
            raise OSError(e, os.strerror(e))
        return self.peer

    def getsockname(self):
        return self.name

    def setblocking(self, flag):
        pass

    def getsockopt(self, *a):
        return 0

    def setsockopt(self, *a):
        pass

    def shutdown(self, how):
        self.shut.append(int(how))                    # SHUT_RD 0, SHUT_WR 1, SHUT_RDWR 2
        if self.dead:                                 # a socket whose peer has reset is not connected any more
            raise OSError(errno.ENOTCONN, os.strerror(errno.ENOTCONN))

    def close(self):
        if not self.closed and self.on_close:
            self.on_close(self)
        self.closed = True

    def fileno(self):
        return -1


class FakeCtx:
    """Stands in for ssl.SSLContext: wrap_socket hands back the scripted socket."""
    verify_mode = ssl.CERT_NONE
    check_hostname = False

    def wrap_socket(self, sock, **kwa):
        sock.tls = True
        sock.wrapped = kwa
        return sock

    def load_default_certs(self, *a, **k):
        pass


class RecIO(io.BytesIO):
    def __init__(self, records, tag):
        super().__init__()
        self.records, self.tag = records, tag

    def write(self, b):
        self.records.append((self.tag, bytes(b)))
        return super().write(b)


class RecFile:
    """Proxy of a real log file that records each write (a file-backed WireLog)."""
    def __init__(self, f, records, tag):
        self._f, self.records, self.tag = f, records, tag

    def write(self, b):
        self.records.append((self.tag, bytes(b)))
        return self._f.write(b)

    def __getattr__(self, name):
        return getattr(self._f, name)


_WL_COUNT = [0]

# wire-log formats: data only (direction known from the buffer), the class default, a custom one; each can be
# handed to WireLog(...) / reopen(fmt=...) as bytes or as str (the docstring allows both)
FMT = {"data": b"%(data)b", "default": b"\n%(dx)b %(who)b:\n%(data)b\n", "custom": b"<%(dx)b|%(who)b|%(data)b>"}


def fmt_arg(name, as_str):
    f = FMT[name]
    return f.decode() if as_str else f


def make_wl(spec, records):
    """Real WireLog (memory buffers, or files under the check's scratch dir) whose buffers record each write.
    spec.get("opened") False: created but not opened (a WireLogDoer will open it)."""
    from hio.core import wiring
    from harness import core
    mode = spec["mode"]
    if mode == 0:
        return None
    kw = {}
    if spec.get("filed"):
        _WL_COUNT[0] += 1
        head = core.scratch_dir() / "c09wl" / f"{os.getpid()}_{_WL_COUNT[0]}"
        head.mkdir(parents=True, exist_ok=True)
        kw = {"filed": True, "temp": False, "headDirPath": str(head), "name": "c09"}
    if mode == 1:
        wl = wiring.WireLog(rxed=spec["rxed"], txed=spec["txed"], samed=False, fmt=fmt_arg("data", spec.get("fmtstr")), **kw)
    elif spec.get("fmt") or spec.get("fmtstr"):
        wl = wiring.WireLog(rxed=spec["rxed"], txed=spec["txed"], samed=True,
                            fmt=fmt_arg(spec.get("fmt") or "default", spec.get("fmtstr")), **kw)
    else:
        wl = wiring.WireLog(rxed=spec["rxed"], txed=spec["txed"], samed=True, **kw)      # the class default format
    if spec.get("opened", True):
        wl.reopen()
        wrap_wl(wl, records)
    return wl


def wrap_wl(wl, records):
    """Replace the (freshly created, open) buffers of the log by recording ones; stale closed handles stay."""
    fresh = lambda b: b is not None and not b.closed and not isinstance(b, (RecIO, RecFile))
    rec = lambda b, tag: RecFile(b, records, tag) if wl.filed else RecIO(records, tag)
    if wl.samed:
        if fresh(wl.rxl) or fresh(wl.txl):
            shared = rec(wl.rxl if fresh(wl.rxl) else wl.txl, "shared")
            if fresh(wl.rxl):
                wl.rxl = shared
            if fresh(wl.txl):
                wl.txl = shared
    else:
        if fresh(wl.rxl):
            wl.rxl = rec(wl.rxl, "rxbuf")
        if fresh(wl.txl):
            wl.txl = rec(wl.txl, "txbuf")


def wl_states(case):
    """State of the attached WireLog before the first op and after each op, as the harness reads the WireLog /
    WireLogDoer contract: dict(opened, txed, rxed, samed, fresh) ; fresh = the op (re)created the log's buffers.
    ops: close | reopen {rxed,txed,samed} | enter (WireLogDoer.enter: opens only a log that is not open) | exit."""
    spec = case["wl"]
    st = {"opened": bool(spec.get("opened", True)), "txed": spec["txed"], "rxed": spec["rxed"],
          "samed": spec["mode"] == 2, "fresh": False}
    out = [dict(st)]
    for op in case["ops"]:
        st["fresh"] = False
        if op[0] == "wl":
            if op[1] in ("close", "exit"):
                st["opened"] = False
            elif op[1] == "enter":
                if not st["opened"]:
                    st["opened"], st["fresh"] = True, True
            else:
                for k in ("txed", "rxed", "samed"):
                    if op[2].get(k) is not None:
                        st[k] = op[2][k]
                st["opened"], st["fresh"] = True, True
        out.append(dict(st))
    return out


def wl_flags(case):
    """(txed, rxed) in force while each op runs, and after the last one: list of pairs, one per op + 1."""
    on = bool(case["wl"]["mode"])
    return [(on and st["opened"] and st["txed"], on and st["opened"] and st["rxed"]) for st in wl_states(case)]


def build(kind, conn0, bs, wl, tymth=None, bufs=None, refreshable=None):
    """Returns (connection object, fake socket, who-bytes used in wire log records).
    bufs = (txbs, rxbs) bytearrays supplied by the owner of a client (None = let the client make its own)."""
    from hio.core.tcp import clienting, serving
    if is_client(kind):
        sock = FakeSock(False, HA, CA)
        kw = {} if bufs is None else {"txbs": bufs[0], "rxbs": bufs[1]}
        if kind == "client":
            c = clienting.Client(ha=HA, bs=bs, wl=wl, tymth=tymth, **kw)
        else:
            c = clienting.ClientTls(context=FakeCtx(), ha=HA, bs=bs, wl=wl, tymth=tymth, **kw)
            sock.tls = True
        c.cs = sock
        if conn0:
            c.accepted = True
            c.connected = True
        who = str(HA).encode()
    else:
        sock = FakeSock(False, CA, HA)
        kw = {} if refreshable is None else {"refreshable": refreshable, "tymeout": 2.0}    # only the remoters have it
        if kind == "remoter":
            c = serving.Remoter(ha=HA, ca=CA, cs=sock, bs=bs, wl=wl, tymth=tymth, **kw)
        else:
            c = serving.RemoterTls(context=FakeCtx(), ha=HA, ca=CA, cs=sock, bs=bs, wl=wl, tymth=tymth, **kw)
        who = str(CA).encode()
    return c, sock, who


def parse_records(spec, records, who):
    """WireLog writes -> [[dir, hex]] ; anything not of the expected shape -> ["bad", hex]."""
    out = []
    for tag, b in records:
        if spec["mode"] == 1:
            out.append(["tx" if tag == "txbuf" else "rx", b.hex()])
        else:
            done = False
            for d, dx in (("tx", b"Tx"), ("rx", b"Rx")):
                for pre, suf in ((b"\n" + dx + b" " + who + b":\n", b"\n"), (b"<" + dx + b"|" + who + b"|", b">")):
                    if not done and b.startswith(pre) and b.endswith(suf) and len(b) >= len(pre) + len(suf):
                        out.append([d, b[len(pre):len(b) - len(suf)].hex()])
                        done = True
            if not done:
                out.append(["bad", b.hex()])
    return out


def run_impl(case):
    from hio.base import tyming
    tymist = tyming.Tymist()
    records = []
    wl = make_wl(case["wl"], records)
    doer = None
    if wl is not None:
        from hio.core import wiring
        doer = wiring.WireLogDoer(wl=wl)
    client = is_client(case["kind"])
    bufs = None
    if case.get("bufs") and client:       # the owner hands its own buffers to the client (empty or preloaded txbs, empty rxbs)
        bufs = (bytearray(bytes.fromhex(case["bufs"]["txpre"])), bytearray())
    c, sock, who = build(case["kind"], case["conn0"], case["bs"], wl, tymth=tymist.tymen(), bufs=bufs,
                         refreshable=case.get("refreshable"))
    ixsrv = None
    if not client:                       # a server that has this remoter registered, for the by-address helpers
        from hio.core.tcp import serving
        ixsrv = serving.Server(ha=HA, tymth=tymist.tymen())
        ixsrv.ixes[c.ca] = c
    otx, orx = (bufs if bufs is not None else (c.txbs, c.rxbs))     # the buffers as the owner sees them
    ident = [c.txbs is otx, c.rxbs is orx]
    snaps, taken = [], bytearray()
    for op in case["ops"]:
        sock.sends, sock.recvs, sock.calls = [], [], 0
        sock.connect_result = errno.EINPROGRESS
        res = ["ok", None]
        try:
            k = op[0]
            if k == "tx":
                c.tx(bytes.fromhex(op[1]))
            elif k == "txo":            # the owner queues directly on the buffer it supplied
                otx.extend(bytes.fromhex(op[1]))
            elif k == "sends":
                sock.sends = [op[1]]
                c.serviceSends()
            elif k == "recvs":
                sock.recvs = list(op[1])
                c.serviceReceives()
            elif k == "once":
                sock.recvs = [op[1]]
                c.serviceReceiveOnce()
            elif k == "service":
                sock.sends, sock.recvs = [op[1]], list(op[2])
                if client:
                    c.service()
                else:
                    c.serviceReceives()
                    c.serviceSends()
            elif k == "take":
                taken.extend(orx)
                if bufs is not None:
                    del orx[:]          # the owner consumes from its own buffer
                else:
                    c.clearRxbs()
            elif k == "connect":
                if client:
                    sock.connect_result = 0
                    c.serviceConnect()
            elif k == "shut":        # half close by the connection itself, or by its server through the ...Ix helpers
                if len(op) > 2 and op[2] == "ix" and not client:
                    {"send": ixsrv.shutdownSendIx, "recv": ixsrv.shutdownReceiveIx, "both": ixsrv.shutdownIx}[op[1]](c.ca)
                else:
                    {"send": c.shutdownSend, "recv": c.shutdownReceive, "both": c.shutdown}[op[1]]()
            elif k == "wl":          # the attached WireLog is closed / reconfigured while the connection lives
                if wl is not None:
                    if op[1] == "close":
                        wl.close()
                    elif op[1] == "enter":        # the life cycle of a WireLogDoer that owns the log
                        doer.enter(temp=None)
                        wrap_wl(wl, records)
                    elif op[1] == "exit":
                        doer.exit()
                    else:
                        kw = {a: b for a, b in op[2].items() if b is not None and a != "fmtstr"}
                        if kw.get("fmt"):
                            kw["fmt"] = fmt_arg(kw["fmt"], op[2].get("fmtstr"))
                        wl.reopen(**kw)
                        wrap_wl(wl, records)
            else:
                raise AssertionError("bad op " + repr(op))
        except AssertionError:
            raise
        except Exception as ex:
            res = ["exc", exn_kind(ex)]
        if c.cs is not sock:
            raise AssertionError("connection replaced its socket")
        snaps.append({"res": res, "calls": sock.calls, "tx": len(otx), "rx": len(orx), "cut": bool(c.cutoff),
                      "ks": len(sock.accepted), "kr": len(sock.delivered), "nrec": len(records),
                      "rd": None if wl is None else [None if x is None else bytes(x).hex() for x in (wl.readTx(), wl.readRx())]})
    if sock.misuse:
        raise AssertionError("fake socket misuse: %s" % sock.misuse)
    obs = {"snaps": snaps,
           "connected": bool(c.connected) if client else True,
           "cutoff": bool(c.cutoff),
           "txbs": bytes(otx).hex(), "rxbs": bytes(orx).hex(), "ident": ident,
           "ksent": bytes(sock.accepted).hex(), "krecvd": bytes(sock.delivered).hex(),
           "taken": bytes(taken).hex(),
           "wlog": parse_records(case["wl"], records, who),
           "raw": [[tag, b.hex()] for tag, b in records],
           "shutcalls": list(sock.shut)}
    if wl is not None:
        static = case["wl"]["mode"] == 1 and case["wl"].get("opened", True) and not any(op[0] == "wl" for op in case["ops"])
        obs["readTx"] = (wl.readTx() or b"").hex() if static else None
        obs["readRx"] = (wl.readRx() or b"").hex() if static else None
        wl.close(clear=True)
    return obs


def preload(case):
    return bytes.fromhex(case["bufs"]["txpre"]) if case.get("bufs") and is_client(case["kind"]) else b""


def all_tx(case):
    return preload(case) + b"".join(bytes.fromhex(op[1]) for op in case["ops"] if op[0] in ("tx", "txo"))


def oracle(case, obs):
    H = bytes.fromhex
    want_shut = [HOW[op[1]] for op in case["ops"] if op[0] == "shut"]
    if obs.get("shutcalls", []) != want_shut:
        return f"half close: the socket was shut down with how={obs.get('shutcalls')}, the calls made ask for how={want_shut} (0 receive side, 1 send side, 2 both)"
    case = dict(case, ops=effective_ops(case))
    if not all(obs.get("ident", [True])):
        return "the client does not use the txbs/rxbs buffers its owner supplied (the stream below is judged on the owner's buffers)"
    queued = all_tx(case)
    ksent, txbs = H(obs["ksent"]), H(obs["txbs"])
    if not queued.startswith(ksent):
        return "bytes the kernel accepted are not a prefix of the concatenated tx payloads"
    if ksent + txbs != queued:
        return "accepted ++ txbs != concatenated tx payloads (loss, duplication or reordering)"
    if H(obs["taken"]) + H(obs["rxbs"]) != H(obs["krecvd"]):
        return "consumed ++ rxbs != bytes delivered by the kernel"
    spec = case["wl"]
    log = obs["wlog"]
    if any(r[0] == "bad" for r in log):
        return "wire log record not of the configured format"
    # per op: the records written are exactly the bytes the kernel moved during the op in every direction that is
    # enabled at that moment, and a disabled (or closed) direction receives nothing
    flags = wl_flags(case)
    krecvd = H(obs["krecvd"])
    p_ks = p_kr = p_n = 0
    for n, (op, sn) in enumerate(zip(case["ops"], obs["snaps"])):
        new = log[p_n:sn["nrec"]]
        ltx = b"".join(H(r[1]) for r in new if r[0] == "tx")
        lrx = b"".join(H(r[1]) for r in new if r[0] == "rx")
        txed, rxed = flags[n]
        if ltx != (ksent[p_ks:sn["ks"]] if txed else b""):
            return f"op {n} {op[0]}: wire log tx != bytes actually sent" if txed else f"op {n} {op[0]}: the disabled tx wire log received data"
        if lrx != (krecvd[p_kr:sn["kr"]] if rxed else b""):
            return f"op {n} {op[0]}: wire log rx != bytes actually received" if rxed else f"op {n} {op[0]}: the disabled rx wire log received data"
        p_ks, p_kr, p_n = sn["ks"], sn["kr"], sn["nrec"]
    # what the log holds when read back: everything written since its buffers were last (re)created by a reopen or by
    # a WireLogDoer entering while the log was NOT open; entering with the log already open must keep what is there
    if spec["mode"]:
        states = wl_states(case)
        cur = {"rxbuf": b"", "txbuf": b"", "shared": b""}
        p_n = 0
        for n, (op, sn) in enumerate(zip(case["ops"], obs["snaps"])):
            st = states[n + 1]
            if st["fresh"]:
                cur = {"rxbuf": b"", "txbuf": b"", "shared": b""}
            for tag, hx_ in obs["raw"][p_n:sn["nrec"]]:
                cur[tag] += H(hx_)
            p_n = sn["nrec"]
            want_tx = (cur["shared"] if st["samed"] else cur["txbuf"]) if (st["opened"] and st["txed"]) else None
            want_rx = (cur["shared"] if st["samed"] else cur["rxbuf"]) if (st["opened"] and st["rxed"]) else None
            got_tx, got_rx = [None if x is None else H(x) for x in sn["rd"]]
            if got_tx != want_tx:
                return f"op {n} {op}: WireLog.readTx() holds {None if got_tx is None else len(got_tx)} bytes, {None if want_tx is None else len(want_tx)} were logged since it was opened"
            if got_rx != want_rx:
                return f"op {n} {op}: WireLog.readRx() holds {None if got_rx is None else len(got_rx)} bytes, {None if want_rx is None else len(want_rx)} were logged since it was opened"
    if obs.get("readTx") is not None:
        if spec["txed"] and H(obs["readTx"]) != ksent:
            return "WireLog.readTx() != bytes actually sent"
        if spec["rxed"] and H(obs["readRx"]) != krecvd:
            return "WireLog.readRx() != bytes actually received"
    # progress: an attempted send that the kernel answers with n >= 1 shrinks txbs by min(n, len)
    prev = len(preload(case))
    for op, sn in zip(case["ops"], obs["snaps"]):
        if op[0] in ("tx", "txo"):
            prev += len(H(op[1]))
            if sn["tx"] != prev:
                return "tx did not append exactly its payload"
        elif op[0] == "sends":
            if sn["calls"] == 1 and op[1][0] == "acc" and sn["res"][0] == "ok":
                if sn["tx"] != prev - min(op[1][1], prev):
                    return "serviceSends did not remove exactly the accepted prefix"
            elif sn["tx"] != prev:
                return "serviceSends changed txbs although nothing was accepted"
        prev = sn["tx"]
    # health: answers that are only data, accepts and the class's own would-block codes (EAGAIN; SSLWantRead AND
    # SSLWantWrite, on a send or on a recv) never raise and never cut the connection off
    kind = case["kind"]
    prev_cut = False
    all_benign = True
    for op, sn in zip(case["ops"], obs["snaps"]):
        answers = op_answers(op)
        ben = all(benign(kind, a) for a in answers)
        all_benign = all_benign and ben
        if ben and answers:
            if sn["res"][0] != "ok":
                return f"{kind}.{op[0]}: only data / accept / would-block answers, yet it raised {sn['res'][1]}"
            if sn["cut"] and not prev_cut:
                return f"{kind}.{op[0]}: only data / accept / would-block answers, yet the connection was marked cutoff"
        prev_cut = sn["cut"]
    if all_benign and obs["cutoff"]:
        return "connection cut off although the kernel never reported a fault or EOF"
    if case.get("drain") and all_benign and obs["connected"]:
        if obs["cutoff"] or txbs or ksent != queued:
            return "healthy connection serviced len(txbs) times did not deliver everything"
    elif case.get("drain") and not obs["cutoff"] and obs["connected"] and not any(o[0] == "shut" for o in case["ops"]):
        if txbs or ksent != queued:
            return "healthy connection serviced len(txbs) times did not deliver everything"
    return None


HOW = {"recv": 0, "send": 1, "both": 2}


def effective_ops(case):
    """The socket answers in force once half-closes are taken into account: after the connection shut its own
    receiving side every recv reports end of stream, after it shut its sending side every send fails with EPIPE; the
    other direction keeps answering as scripted.  ["shut", side(, "ix")] ops themselves move no bytes."""
    rd = wr = False
    out = []
    for op in case["ops"]:
        k = op[0]
        if k == "shut":
            rd = rd or op[1] in ("recv", "both")
            wr = wr or op[1] in ("send", "both")
            out.append(op)
            continue
        op = list(op)
        eof, pipe = ["data", ""], ["err", "os", errno.EPIPE]
        if k == "sends" and wr:
            op[1] = pipe
        elif k == "recvs" and rd:
            op[1] = [eof]
        elif k == "once" and rd:
            op[1] = eof
        elif k == "service":
            if wr:
                op[1] = pipe
            if rd:
                op[2] = [eof]
        out.append(op)
    return out


def op_answers(op):
    if op[0] == "wl":
        return [["acc", 0]]      # reconfiguring the log involves no socket at all: must not raise, must not cut

    k = op[0]
    if k == "sends":
        return [op[1]]
    if k == "recvs":
        return list(op[1])
    if k == "once":
        return [op[1]]
    if k == "service":
        return [op[1]] + list(op[2])
    return []


def benign(kind, a):
    """data chunk, accept count, or a would-block the class must tolerate at any send or recv"""
    if a[0] == "acc":
        return True
    if a[0] == "data":
        return a[1] != ""
    if is_tls(kind):
        return a[1] == "ssl" and a[2] in TLS_BLOCK
    return a[1] == "os" and a[2] in PLAIN_BLOCK


# ----------------------------------------------------------------------------- Gallina

def _err(a):
    return coq_N(a[2])


def _sres(a):
    return f"(Stream.SAccept (N.to_nat {coq_N(a[1])}))" if a[0] == "acc" else f"(Stream.SFail {_err(a)})"


def _rres(a):
    return f"(Stream.RData {coq_bytes(bytes.fromhex(a[1]))})" if a[0] == "data" else f"(Stream.RFail {_err(a)})"


def _op(op):
    k = op[0]
    if k in ("tx", "txo"):
        return f"(Stream.Tx {coq_bytes(bytes.fromhex(op[1]))})"
    if k == "sends":
        return f"(Stream.SvcSends {_sres(op[1])})"
    if k == "recvs":
        return f"(Stream.SvcRecvs {coq_list([_rres(a) for a in op[1]], 'Stream.rres')})"
    if k == "once":
        return f"(Stream.SvcRecvOnce {_rres(op[1])})"
    if k == "service":
        return f"(Stream.Service {_sres(op[1])} {coq_list([_rres(a) for a in op[2]], 'Stream.rres')})"
    if k == "take":
        return "Stream.TakeRx"
    if k == "shut":
        return "(Stream.Tx (@nil N))"      # moves nothing; its effect is in the answers of the later socket calls
    if k == "wl":
        return op      # resolved in to_coq (needs the flags in force)
    return "Stream.Connect"


def _unit(_):
    return "tt"


def _snap(s):
    return ("{| Stream.sn_res := %s; Stream.sn_calls := %s; Stream.sn_tx := %s; Stream.sn_rx := %s; "
            "Stream.sn_cut := %s |}" % (coq_res(s["res"], _unit), coq_nat(s["calls"]), coq_N(s["tx"]), coq_N(s["rx"]),
                                        coq_bool(s["cut"])))


def coq_cfg(case):
    spec = case["wl"]
    return "{| Stream.kd := %s; Stream.wl_tx := %s; Stream.wl_rx := %s |}" % (
        COQ_KIND[case["kind"]], coq_bool(wl_flags(case)[0][0]), coq_bool(wl_flags(case)[0][1]))


def _rec(r):
    d = {"tx": "Stream.DTx", "rx": "Stream.DRx"}.get(r[0], "Stream.DTx")
    b = bytes.fromhex(r[1]) if r[0] != "bad" else b"\xff" + bytes.fromhex(r[1])
    return f"({d}, {coq_bytes(b)})"


def to_coq(case, obs):
    H = bytes.fromhex
    case = dict(case, ops=effective_ops(case))
    pre_op, pre_snap = [], []
    if case.get("bufs") and is_client(case["kind"]):      # a preloaded supplied txbs = a tx before anything else
        pre = preload(case)
        pre_op = [f"(Stream.Tx {coq_bytes(pre)})"]
        pre_snap = [_snap({"res": ["ok", None], "calls": 0, "tx": len(pre), "rx": 0, "cut": False})]
    return ("{| Stream.c_cfg := %s; Stream.c_conn0 := %s; Stream.c_ops := %s; Stream.c_snaps := %s; "
            "Stream.c_connected := %s; Stream.c_cutoff := %s; Stream.c_txbs := %s; Stream.c_rxbs := %s; "
            "Stream.c_ksent := %s; Stream.c_krecvd := %s; Stream.c_taken := %s; Stream.c_wlog := %s |}" % (
                coq_cfg(case), coq_bool(case["conn0"]),
                coq_list(pre_op + [_op(o) if o[0] != "wl" else "(Stream.WlSet %s %s)" % (coq_bool(f[0]), coq_bool(f[1]))
                                   for o, f in zip(case["ops"], wl_flags(case)[1:])], "Stream.op"),
                coq_list(pre_snap + [_snap(s) for s in obs["snaps"]], "Stream.snap"),
                coq_bool(obs["connected"] if is_client(case["kind"]) else case["conn0"]), coq_bool(obs["cutoff"]),
                coq_bytes(H(obs["txbs"])), coq_bytes(H(obs["rxbs"])), coq_bytes(H(obs["ksent"])),
                coq_bytes(H(obs["krecvd"])), coq_bytes(H(obs["taken"])),
                coq_list([_rec(r) for r in obs["wlog"]], "Stream.dir * bytes")))


# ----------------------------------------------------------------------------- generators

def block_ans(kind, i=0):
    if is_tls(kind):
        return ["err", "ssl", TLS_BLOCK[i % 2]]
    return ["err", "os", errno.EAGAIN]


def fault_ans(kind, code):
    if is_tls(kind) and code in (TLS_EOF + TLS_BLOCK + [1, 5]):
        return ["err", "ssl", code]
    return ["err", "os", code]


def hx(rng, n):
    return bytes(rng.randrange(256) for _ in range(n)).hex()


WL0 = {"mode": 0, "rxed": True, "txed": True}
WL1 = {"mode": 1, "rxed": True, "txed": True}
WL2 = {"mode": 2, "rxed": True, "txed": True}


def directed():
    out = []
    for kind in KINDS:
        blk = block_ans(kind)
        blk2 = block_ans(kind, 1)
        p1, p2, p3 = b"GET /a HTTP/1.1\r\n".hex(), b"".hex(), b"x".hex()
        big = bytes(range(256)).hex()
        # partial sends, would-block, empty payload, over-accept, zero accept; wire log exact
        out.append({"kind": kind, "conn0": True, "bs": 64, "wl": WL1, "ops": [
            ["sends", ["acc", 5]], ["tx", p1], ["tx", p2], ["sends", ["acc", 4]], ["sends", blk], ["tx", p3],
            ["sends", ["acc", 0]], ["sends", blk2], ["sends", ["acc", 1]], ["sends", ["acc", 1000]],
            ["sends", ["acc", 3]], ["tx", big], ["sends", ["acc", 100]], ["sends", ["acc", 155]],
            ["sends", ["acc", 1]], ["sends", ["acc", 1]]]})
        # receives: chunks, would-block, exhausted, EOF; consumption
        out.append({"kind": kind, "conn0": True, "bs": 16, "wl": WL2, "ops": [
            ["recvs", [["data", b"HTTP/1.1 200 OK".hex()], ["data", b"\r\n\r\n".hex()], blk]],
            ["recvs", []], ["once", ["data", b"ab\ncd".hex()]], ["once", blk], ["once", blk2], ["take"],
            ["recvs", [["data", b"y".hex()], blk2]],
            ["recvs", [["data", b"z".hex()]]], ["tx", p1], ["service", ["acc", 7], [["data", b"tail".hex()]]],
            ["recvs", [["data", b"q".hex()], ["data", ""], ["data", b"never".hex()]]],
            ["recvs", [["data", b"never".hex()]]], ["sends", ["acc", 3]], ["once", ["data", b"never".hex()]],
            ["service", ["acc", 1], [["data", b"never".hex()]]], ["take"]]})
        # once: EOF and cut; client not connected then connect
        out.append({"kind": kind, "conn0": False, "bs": 16, "wl": {"mode": 1, "rxed": False, "txed": True}, "ops": [
            ["tx", p1], ["sends", ["acc", 3]], ["recvs", [["data", b"early".hex()]]], ["service", ["acc", 2], []],
            ["connect"], ["connect"], ["sends", ["acc", 3]], ["recvs", [["data", b"late".hex()]]],
            ["once", ["data", ""]], ["sends", ["acc", 3]], ["connect"]]})
        out.append({"kind": kind, "conn0": True, "bs": 16, "wl": {"mode": 2, "rxed": True, "txed": False}, "ops": [
            ["tx", p1], ["sends", ["acc", 3]], ["once", fault_ans(kind, errno.ECONNRESET)], ["sends", ["acc", 3]]]})
        # faults on send and on receive: cut, then raise (unlisted errno)
        out.append({"kind": kind, "conn0": True, "bs": 16, "wl": WL1, "ops": [
            ["tx", p1], ["sends", ["acc", 2]], ["sends", fault_ans(kind, errno.ETIMEDOUT)], ["sends", ["acc", 2]],
            ["recvs", [["data", "00"]]]]})
        out.append({"kind": kind, "conn0": True, "bs": 16, "wl": WL1, "ops": [
            ["tx", p1], ["sends", fault_ans(kind, errno.EBADF)], ["sends", ["acc", 2]],
            ["recvs", [["data", "0102"], fault_ans(kind, errno.ENOTCONN)]], ["once", fault_ans(kind, errno.EBADF)],
            ["service", fault_ans(kind, errno.EBADF), [["data", "03"]]],
            ["service", ["acc", 1], [["data", "03"], fault_ans(kind, errno.EBADF)]],
            ["recvs", [["data", "04"], fault_ans(kind, errno.EHOSTDOWN), ["data", "05"]]]]})
        # the peer resets while bytes are still readable: the socket no longer knows its peer, the wire log must
        out.append({"kind": kind, "conn0": True, "bs": 16, "wl": WL2, "ops": [
            ["tx", p1], ["sends", ["acc", 4]], ["recvs", [["data", "0102"], ["data", "0304", "dead"], blk]],
            ["sends", ["acc", 2]], ["once", ["data", "05"]], ["recvs", [["data", "06"], fault_ans(kind, errno.ECONNRESET)]],
            ["sends", ["acc", 2]]]})
        # half close: after shutting its sending side the connection still receives everything the peer sends; after
        # shutting its receiving side it still sends; directly and (remoters) through the server's ...Ix helpers
        for via in ([], ["ix"]):
            out.append({"kind": kind, "conn0": True, "bs": 16, "wl": WL1, "ops": [
                ["tx", p1], ["sends", ["acc", 5]], ["recvs", [["data", "0102"], blk]], ["shut", "send"] + via,
                ["recvs", [["data", "0304"], ["data", "05"], blk]], ["once", ["data", "06"]], ["recvs", [blk]],
                ["recvs", [["data", "0708"]]], ["take"], ["recvs", [["data", "09"], ["data", ""]]]]})
            out.append({"kind": kind, "conn0": True, "bs": 16, "wl": WL2, "ops": [
                ["tx", p1], ["sends", ["acc", 5]], ["recvs", [["data", "0102"], blk]], ["shut", "recv"] + via,
                ["sends", ["acc", 4]], ["sends", blk], ["sends", ["acc", 100]], ["tx", "aabb"], ["sends", ["acc", 1]],
                ["recvs", [["data", "0304"]]], ["sends", ["acc", 1]]]})
            out.append({"kind": kind, "conn0": True, "bs": 16, "wl": WL1, "ops": [
                ["tx", p1], ["sends", ["acc", 5]], ["shut", "both"] + via, ["recvs", [["data", "0304"]]], ["sends", ["acc", 1]]]})
        # the format handed over as str or bytes, at construction and at reopen(fmt=...): data-only, default, custom
        for spec in ({"mode": 1, "fmtstr": True}, {"mode": 2, "fmtstr": True}, {"mode": 2, "fmt": "custom"},
                     {"mode": 2, "fmt": "custom", "fmtstr": True}):
            traffic = lambda: [["sends", ["acc", 2]], ["recvs", [["data", "0a0b"], blk]], ["service", ["acc", 1], [["data", "0c"]]]]
            ops = [["tx", big[:60]]] + traffic()
            for name, as_str in (("custom", True), ("default", False), ("default", True), ("custom", False)):
                ops += [["wl", "reopen", {"fmt": "data" if spec["mode"] == 1 else name, "fmtstr": as_str}]] + traffic()
            out.append({"kind": kind, "conn0": True, "bs": 16, "ops": ops, "wl": dict({"rxed": True, "txed": True}, **spec)})
        # a WireLogDoer owns the attached log: enter with the log already open (must keep it), exit, enter again, with
        # traffic before and after; memory and file-backed; log opened beforehand or by the doer
        for mode in (1, 2):
            for filed in (False, True):
                for opened in (True, False):
                    traffic = lambda: [["sends", ["acc", 2]], ["recvs", [["data", "0a0b"], blk]], ["service", ["acc", 1], [["data", "0c"]]]]
                    ops = [["tx", big[:80]]] + traffic() + [["wl", "enter"]] + traffic() + [["wl", "enter"]] + traffic() + \
                          [["wl", "exit"]] + traffic() + [["wl", "enter"]] + traffic() + [["wl", "close"]] + [["wl", "enter"]] + traffic()
                    out.append({"kind": kind, "conn0": True, "bs": 16, "ops": ops,
                                "wl": {"mode": mode, "rxed": True, "txed": True, "filed": filed, "opened": opened}})
        # the owner supplies its own (empty / preloaded) txbs and rxbs, queues on them directly and reads from them
        if is_client(kind):
            for pre in ("", "0102030405"):
                out.append({"kind": kind, "conn0": True, "bs": 16, "wl": WL1, "bufs": {"txpre": pre}, "drain": True, "ops": [
                    ["sends", ["acc", 2]], ["txo", "a1a2a3"], ["sends", ["acc", 2]], ["tx", "b1b2"], ["txo", "c1"],
                    ["recvs", [["data", "0a0b0c"], blk]], ["sends", blk], ["sends", ["acc", 3]], ["take"],
                    ["once", ["data", "0d"]], ["txo", "d1d2"]] + [["sends", ["acc", 1]]] * 12})
        # the attached WireLog is reconfigured / closed while the connection lives
        for mode, seq in ((1, [{"rxed": False}, {"txed": False}, {"rxed": True, "txed": True}]),
                          (2, [{"txed": False}, {"samed": False, "rxed": False}, {"samed": True, "rxed": True, "txed": True}]),
                          (2, [{"samed": False}, {"rxed": False, "txed": False}, {"txed": True}])):
            traffic = lambda: [["sends", ["acc", 2]], ["recvs", [["data", "0a0b"], blk]], ["service", ["acc", 1], [["data", "0c"]]]]
            ops = [["tx", big[:60]]] + traffic()
            for kw in seq:
                ops += [["wl", "reopen", kw]] + traffic()
            ops += [["wl", "close"]] + traffic() + [["wl", "reopen", {}]] + traffic()
            out.append({"kind": kind, "conn0": True, "bs": 16, "wl": {"mode": mode, "rxed": True, "txed": True}, "ops": ops})
        # liveness: everything queued is delivered by len(txbs) healthy services (one byte at a time)
        out.append({"kind": kind, "conn0": True, "bs": 8, "wl": WL1, "drain": True, "ops":
                    [["tx", big[:80]], ["sends", blk], ["tx", big[80:120]]] + [["sends", ["acc", 1]]] * 60})
    for c in list(out):
        if not is_client(c["kind"]) and c["wl"]["mode"]:
            for flag in (False, True):
                out.append(dict(c, refreshable=flag))
    # default buffer size with payloads larger than bs
    for kind in ("client", "remotertls"):
        blob = bytes((i * 7 + 3) % 256 for i in range(20000)).hex()
        out.append({"kind": kind, "conn0": True, "bs": 8096, "wl": WL1, "drain": True, "ops":
                    [["tx", blob], ["sends", ["acc", 8096]], ["sends", block_ans(kind)], ["sends", ["acc", 1]],
                     ["recvs", [["data", blob[:16192]], ["data", blob[:200]]]],
                     ["sends", ["acc", 11000]], ["sends", ["acc", 902]], ["sends", ["acc", 5]]]})
    return out


def gen_case(rng, tier):
    kind = rng.choice(KINDS)
    bs = rng.choice([1, 4, 16, 64])
    spec = {"mode": rng.choice([0, 1, 1, 2, 2]), "rxed": rng.random() < 0.85, "txed": rng.random() < 0.85}
    if spec["mode"] and rng.random() < 0.4:
        spec["fmtstr"] = True            # format given as str
    if spec["mode"] == 2 and rng.random() < 0.3:
        spec["fmt"] = "custom"
    if spec["mode"] and rng.random() < 0.15:
        spec["filed"] = True
    if spec["mode"] and rng.random() < 0.1:
        spec["opened"] = False
    faulty = rng.random() < 0.3
    conn0 = rng.random() < 0.9
    nops = rng.choice([4, 8, 12, 20, 30])
    ops, pending = [], 0

    def send_ans():
        r = rng.random()
        if r < 0.22:
            return block_ans(kind, rng.randrange(2))
        if faulty and r < 0.32:
            pool = CONN_ERRNOS + (TLS_EOF if is_tls(kind) else []) if rng.random() < 0.7 else OTHER_ERRNOS + PLAIN_BLOCK + TLS_BLOCK
            return fault_ans(kind, rng.choice(pool))
        if r < 0.4:
            return ["acc", 0]
        hi = max(1, pending)
        return ["acc", rng.choice([1, rng.randint(1, hi), rng.randint(1, hi), hi, hi + rng.randint(1, 9)])]

    def recv_ans():
        r = rng.random()
        if r < 0.12:
            return block_ans(kind, rng.randrange(2))
        if faulty and r < 0.2:
            pool = CONN_ERRNOS + (TLS_EOF if is_tls(kind) else []) if rng.random() < 0.7 else OTHER_ERRNOS + PLAIN_BLOCK + TLS_BLOCK
            return fault_ans(kind, rng.choice(pool))
        if r < (0.25 if faulty else 0.14):
            return ["data", ""]
        d = ["data", hx(rng, rng.choice([1, bs, rng.randint(1, bs)]))]
        if rng.random() < 0.08:
            d.append("dead")      # still readable although the peer has reset: getpeername() raises ENOTCONN from now on
        return d

    for _ in range(nops):
        r = rng.random()
        if r < 0.3:
            n = rng.choice([0, 1, 2, rng.randint(1, 12), rng.randint(1, 3 * bs + 5)])
            ops.append(["tx", hx(rng, n)])
            pending += n
        elif r < 0.6:
            a = send_ans()
            ops.append(["sends", a])
            if a[0] == "acc":
                pending = max(0, pending - a[1])
        elif r < 0.78:
            ops.append(["recvs", [recv_ans() for _ in range(rng.choice([0, 1, 2, 3, 5]))]])
        elif r < 0.84:
            ops.append(["once", recv_ans()])
        elif r < 0.93:
            a = send_ans()
            ops.append(["service", a, [recv_ans() for _ in range(rng.choice([0, 1, 2, 3]))]])
            if a[0] == "acc":
                pending = max(0, pending - a[1])
        elif r < 0.945:
            ops.append(["take"])
        elif r < 0.96:
            ops.append(["shut", rng.choice(["send", "send", "recv", "both"])] + (["ix"] if rng.random() < 0.5 else []))
        elif r < 0.985:
            r2 = rng.random()
            if r2 < 0.2:
                ops.append(["wl", "close"])
            elif r2 < 0.5:
                ops.append(["wl", "enter"])
            elif r2 < 0.6:
                ops.append(["wl", "exit"])
            else:
                kw = {"rxed": rng.choice([None, True, False]), "txed": rng.choice([None, True, False])}
                if spec["mode"] == 2:
                    kw["samed"] = rng.choice([None, True, False])
                    kw["fmt"] = rng.choice([None, None, "default", "custom"])
                else:
                    kw["fmt"] = rng.choice([None, None, "data"])
                kw["fmtstr"] = rng.random() < 0.5
                ops.append(["wl", "reopen", kw])
        else:
            ops.append(["connect"])
    case = {"kind": kind, "conn0": conn0, "bs": bs, "wl": spec, "ops": ops}
    if not is_client(kind) and rng.random() < 0.6:
        case["refreshable"] = rng.random() < 0.5        # constructor parameter of Remoter / RemoterTls
    if is_client(kind) and rng.random() < 0.4:
        case["bufs"] = {"txpre": rng.choice(["", "", "", hx(rng, rng.randint(1, 10))])}
        case["ops"] = ops = [["txo", o[1]] if o[0] == "tx" and rng.random() < 0.5 else o for o in ops]
    if not faulty and not any(o[0] == "shut" for o in ops) and rng.random() < 0.3:
        total = sum(len(o[1]) // 2 for o in ops if o[0] in ("tx", "txo")) + len(preload(case))
        if total <= 120:
            case["ops"] = ops + [["connect"]] + [["sends", ["acc", rng.randint(1, 4)]] for _ in range(total)]
            case["drain"] = True
    return case


def generate(rng, tier):
    n = 700 if tier == "quick" else 5000
    return [gen_case(rng, tier) for _ in range(n)]


def nontrivial(case, obs):
    case = dict(case, ops=effective_ops(case))
    ntx = sum(1 for o in case["ops"] if o[0] in ("tx", "txo"))
    partial = False
    prev = 0
    for op, sn in zip(case["ops"], obs["snaps"]):
        if op[0] in ("sends", "service") and sn["calls"] >= 1:
            a = op[1]
            if a[0] == "err" or (a[0] == "acc" and a[1] < prev):
                partial = True
        prev = sn["tx"]
    return ntx >= 2 and partial


def classify(case, obs, why):
    return None


def shrink(case):
    ops = case["ops"]
    for i in range(len(ops)):
        yield dict(case, ops=ops[:i] + ops[i + 1:], drain=False)
    for i, o in enumerate(ops):
        if o[0] == "tx" and len(o[1]) > 2:
            yield dict(case, ops=ops[:i] + [["tx", o[1][:len(o[1]) // 4 * 2]]] + ops[i + 1:])
        if o[0] in ("recvs",) and len(o[1]) > 1:
            yield dict(case, ops=ops[:i] + [["recvs", o[1][:-1]]] + ops[i + 1:])


def distribution(cases, obs):
    d = {}
    for c in cases:
        key = c["kind"] + "/wl%d" % c["wl"]["mode"]
        d[key] = d.get(key, 0) + 1
    return d


# ----------------------------------------------------------------------------- real-kernel soak (thorough)

def _free_port():
    import socket
    s = socket.socket(socket.AF_INET, socket.SOCK_STREAM)
    s.bind(("127.0.0.1", 0))
    port = s.getsockname()[1]
    s.close()
    return port


class Inconclusive(Exception):
    """An awaited real-kernel condition was not reached within its wall-clock cap, or the loopback setup failed:
    recorded in the evidence notes, never a violation."""


def soak(tls, seed, total=600000, sockbuf=2048, bs=1024, max_cycles=100000000, max_secs=120):
    """Real loopback connection (plain or TLS) with tiny kernel buffers and slow readers on both sides.
    Both directions at once.  Returns (why | None, stats)."""
    import random, socket, time
    from pathlib import Path
    from hio.base import tyming
    from hio.core import wiring
    from hio.core.tcp import clienting, serving
    rng = random.Random(seed)
    port = _free_port()
    tymist = tyming.Tymist()
    wlc = wiring.WireLog(samed=False, filed=False, fmt=b"%(data)b")
    wls = wiring.WireLog(samed=False, filed=False, fmt=b"%(data)b")
    wlc.reopen(); wls.reopen()
    certs = Path(os.environ.get("VERIF_CERTS", "/repo/tests/core/tcp/certs"))
    if tls:
        server = serving.ServerTls(ha=("127.0.0.1", port), bs=bs, wl=wls, tymth=tymist.tymen(),
                                   keypath=str(certs / "server_key.pem"), certpath=str(certs / "server_cert.pem"),
                                   cafilepath=str(certs / "client.pem"), certify=ssl.CERT_NONE)
        client = clienting.ClientTls(ha=("127.0.0.1", port), bs=bs, wl=wlc, tymth=tymist.tymen(), certedhost="localhost",
                                     keypath=str(certs / "client_key.pem"), certpath=str(certs / "client_cert.pem"),
                                     cafilepath=str(certs / "server.pem"), certify=ssl.CERT_NONE, hostify=False)
    else:
        server = serving.Server(ha=("127.0.0.1", port), bs=bs, wl=wls, tymth=tymist.tymen())
        client = clienting.Client(ha=("127.0.0.1", port), bs=bs, wl=wlc, tymth=tymist.tymen())
    stats = {"tls": tls, "cycles": 0, "sends_left_data": 0, "sends_no_progress": 0, "bytes_each_way": total}
    try:
        setup = True
        if not server.reopen():
            raise Inconclusive("cannot listen on loopback")
        client.reopen()
        for opt in (socket.SO_SNDBUF, socket.SO_RCVBUF):     # before connecting, so the windows start small
            client.cs.setsockopt(socket.SOL_SOCKET, opt, sockbuf)
            server.ss.setsockopt(socket.SOL_SOCKET, opt, sockbuf)
        t0 = time.time()
        while not (client.connected and server.ixes):
            client.serviceConnect()
            server.serviceConnects()
            if time.time() - t0 > max_secs:
                raise Inconclusive(f"connection (and TLS handshake) not established within {max_secs} s")
        setup = False
        rm = list(server.ixes.values())[0]
        stats["bufs"] = [client.actualBufSizes(), (rm.cs.getsockopt(socket.SOL_SOCKET, socket.SO_SNDBUF),
                                                   rm.cs.getsockopt(socket.SOL_SOCKET, socket.SO_RCVBUF))]
        t0 = time.time()
        sent = {"c": bytearray(), "s": bytearray()}      # everything handed to tx by client / server side
        seen = {"c": 0, "s": 0}                           # verified length of what the peer of c / of s received
        ends = {"c": (client, rm), "s": (rm, client)}
        for cycle in range(max_cycles):
            stats["cycles"] = cycle + 1
            for who, (tx_end, _) in ends.items():
                if len(sent[who]) < total and rng.random() < 0.3:
                    n = min(total - len(sent[who]), rng.choice([1, 7, 100, 1500, 9000, 30000]))
                    chunk = rng.randbytes(n)
                    tx_end.tx(chunk)
                    sent[who].extend(chunk)
            for tx_end in (client, rm):
                before = len(tx_end.txbs)
                if tx_end is client:
                    client.serviceSends()
                else:
                    server.serviceSendsAllIx()
                if before and len(tx_end.txbs):
                    stats["sends_left_data"] += 1
                    if len(tx_end.txbs) == before:
                        stats["sends_no_progress"] += 1
            if rng.random() < 0.2:
                server.serviceReceivesAllIx()
            if rng.random() < 0.2:
                client.serviceReceives()
            for who, (tx_end, rx_end) in ends.items():
                got = rx_end.rxbs
                if len(got) > len(sent[who]):
                    return f"soak: peer of {who} received more bytes than were transmitted", stats
                if bytes(got[seen[who]:]) != bytes(sent[who][seen[who]:len(got)]):
                    return f"soak: bytes received by the peer of {who} are not a prefix of what was transmitted (cycle {cycle})", stats
                seen[who] = len(got)
            if client.cutoff or rm.cutoff:
                return "soak: healthy loopback connection was marked cutoff", stats
            if all(len(sent[w]) == total and seen[w] == total for w in sent):
                break
            if time.time() - t0 > max_secs:      # how fast a loaded machine moves the bytes says nothing about hio
                raise Inconclusive(f"transfer not complete within {max_secs} s / {cycle} services: {seen} of {total}")
            if cycle % 50 == 49:
                time.sleep(0.0005)      # let the loopback stack run
        else:
            raise Inconclusive(f"transfer not complete after {max_cycles} services: {seen} of {total}")
        if client.txbs or rm.txbs:
            return "soak: txbs not empty although the peer has everything", stats
        for name, logged, real in (("client tx log", wlc.readTx(), sent["c"]), ("client rx log", wlc.readRx(), sent["s"]),
                                   ("server tx log", wls.readTx(), sent["s"]), ("server rx log", wls.readRx(), sent["c"])):
            if logged != bytes(real):
                return f"soak: {name} differs from the bytes actually moved", stats
        return None, stats
    except OSError as ex:
        if setup:                       # listen / connect / handshake on loopback failed: the environment
            raise Inconclusive(f"loopback setup failed: {ex}")
        raise
    finally:
        client.close()
        server.close()
        wlc.close()
        wls.close()


def gen_server_liveness(rng):
    """Server scene (format of c10.py) with healthy answers only: data, partial accepts and would-block of either
    kind at any recv/send on any connection, then drain passes.  Every connection must survive and deliver."""
    tls = rng.random() < 0.6
    kind = "remotertls" if tls else "remoter"
    ids = list(range(1, rng.choice([1, 2, 3, 4]) + 1))
    cx0 = [i for i in ids if tls and rng.random() < 0.25]
    ix0 = [i for i in ids if i not in cx0]
    passes, queued = [], {i: 0 for i in ids}
    for n in range(rng.choice([1, 2, 4])):
        tx = []
        for i in ids:
            if (i in ix0 or n > 0) and rng.random() < 0.7:
                d = hx(rng, rng.randint(1, 30))
                tx.append([i, d])
                queued[i] += len(d) // 2
        io = []
        for i in ids:
            recvs = []
            for _ in range(rng.choice([0, 1, 2, 3])):
                recvs.append(["data", hx(rng, rng.randint(1, 16))] if rng.random() < 0.6 else block_ans(kind, rng.randrange(2)))
            send = ["acc", rng.choice([0, 1, 3, 7])] if rng.random() < 0.6 else block_ans(kind, rng.randrange(2))
            io.append([i, {"recvs": recvs, "send": send}])
        passes.append({"tx": tx, "hs": [[i, ["done"]] for i in cx0] if n == 0 else [], "io": io})
    for _ in range(max(queued.values()) + 1):      # drain: the kernel takes >= 1 byte per service
        passes.append({"tx": [], "hs": [], "io": [[i, {"recvs": [block_ans(kind, rng.randrange(2))],
                                                       "send": ["acc", rng.randint(1, 4)]}] for i in ids]})
    case = {"scene": "server", "tls": tls, "ix0": ix0, "cx0": cx0, "passes": passes}
    if rng.random() < 0.5:
        case["tymth"] = "none"         # server born unwound, wound later while its connections carry traffic
    for p in passes:
        if rng.random() < 0.25:
            p["wind"] = [rng.choice(["server", "doer"]), rng.choice(["a", "b"])]
    if rng.random() < 0.6:
        case["wl"] = True              # WireLog given to the SERVER
    if rng.random() < 0.7:
        if tls:                        # every connection accepted by the server itself, handshake completing in pass 0
            case["ix0"], case["cx0"] = [], list(ids)
            passes[0]["hs"] = [[i, ["done"]] for i in ids]
        case["accept"] = True
    return case


def server_liveness_why(case, obs):
    ids = case["ix0"] + case["cx0"]
    want_rx = {i: 0 for i in ids}
    for n, (p, po) in enumerate(zip(case["passes"], obs["passes"])):
        if po["res"][0] != "ok":
            return f"pass {n}: Server.service raised {po['res'][1]} although no socket reported a fault"
        now = {e[0]: e for e in po["ixes"]}
        for i in ids:
            if i not in now:
                return f"pass {n}: healthy connection {i} was removed from the server (only data / would-block answers)"
            if now[i][1]:
                return f"pass {n}: healthy connection {i} was marked cutoff"
        for i, sc in p["io"]:
            for a in sc["recvs"]:
                if a[0] != "data":
                    break
                want_rx[i] += len(a[1]) // 2
    last = {e[0]: e for e in obs["passes"][-1]["ixes"]}
    for i in ids:
        if last[i][2] != 0:
            return f"connection {i}: {last[i][2]} queued bytes not delivered after the drain passes"
        if last[i][3] != want_rx[i]:
            return f"connection {i}: rxbs holds {last[i][3]} bytes, the kernel delivered {want_rx[i]}"
    return None


def server_liveness(ctx, n):
    import random
    from harness.drivers import c10
    rng = random.Random(ctx.seed * 7919 + 9)
    bad = 0
    for _ in range(n):
        case = gen_server_liveness(rng)
        try:
            obs = c10.run_server(case)
            why = server_liveness_why(case, obs) or c10.oracle(case, obs)    # + configuration handed down, server wire log exact
        except Exception as ex:
            why = f"harness escape {type(ex).__name__}: {ex}"
        if why and bad < 3:
            ctx.violations.append({"kind": "server-liveness", "why": why, "case": case})
        bad += bool(why)
    return {"server_liveness_scenes": n, "server_liveness_failures": bad}


def static_params():
    """Extra evidence only (the deciding checks run the code): every keyword Server.serviceAxes passes to Remoter is
    also passed, with the same expression, by ServerTls.serviceAxes to RemoterTls."""
    import ast, inspect, textwrap
    from hio.core.tcp import serving

    def kws(fn, callee):
        tree = ast.parse(textwrap.dedent(inspect.getsource(fn)))
        for node in ast.walk(tree):
            if isinstance(node, ast.Call) and getattr(node.func, "id", None) == callee:
                return {k.arg: ast.unparse(k.value) for k in node.keywords}
        return None
    plain, tls = kws(serving.Server.serviceAxes, "Remoter"), kws(serving.ServerTls.serviceAxes, "RemoterTls")
    if plain is None or tls is None:
        return ["constructor call not found"]
    return [f"{k}={v}" for k, v in plain.items() if tls.get(k) != v]


def extra(tier, ctx):
    out = server_liveness(ctx, 200 if tier != "thorough" else 2000)
    missing = static_params()
    out["static_serviceAxes_params_missing_in_tls"] = missing
    if missing:
        ctx.violations.append({"kind": "static", "no_input": True, "case": None,
                               "why": f"ServerTls.serviceAxes does not pass {missing} to RemoterTls although Server.serviceAxes passes it to Remoter"})
    if tier != "thorough":
        return out
    out["soak"] = []
    for tls in (False, True):
        for k in range(3):
            try:
                why, stats = soak(tls, ctx.seed * 100 + k)
            except Inconclusive as ex:
                out["soak"].append({"tls": tls, "result": f"inconclusive: {ex}"})
                ctx.notes.append(f"loopback soak tls={tls} seed={ctx.seed * 100 + k} inconclusive: {ex}")
                continue
            except FileNotFoundError as ex:     # test certificates not available in this environment
                out["soak"].append({"tls": tls, "result": f"inconclusive: {ex}"})
                ctx.notes.append(f"loopback soak tls={tls} inconclusive: {ex}")
                continue
            except Exception as ex:     # an exception out of servicing an established healthy connection is a failure
                why, stats = f"soak: {type(ex).__name__}: {ex}", {"tls": tls}
            out["soak"].append(stats)
            if why:
                ctx.violations.append({"kind": "soak", "why": why, "case": {"soak": {"tls": tls, "seed": ctx.seed * 100 + k}}})
    return out
