(* Model of the Base64 helpers of src/hio/help/helping.py:
   intToB64, b64ToInt, codeB64ToB2, codeB2ToB64, nabSextets.
   Text is a list of code points (N); bytes are a list of N < 256.
   Python's  <<  >>  |  are N.shiftl N.shiftr N.lor. *)
From Hio Require Import Base.Prelude.
Local Open Scope N_scope.

Definition chr_of_idx (i : N) : N :=
  if i <? 26 then 65 + i
  else if i <? 52 then 97 + (i - 26)
  else if i <? 62 then 48 + (i - 52)
  else if i =? 62 then 45 else 95.

Definition idx_of_chr (c : N) : option N :=
  if (65 <=? c) && (c <=? 90) then Some (c - 65)
  else if (97 <=? c) && (c <=? 122) then Some (c - 97 + 26)
  else if (48 <=? c) && (c <=? 57) then Some (c - 48 + 52)
  else if c =? 45 then Some 62
  else if c =? 95 then Some 63
  else None.

(* digits of i in base 64, least significant first; the Python loop
     while True: d.appendleft(chr[i % 64]); i //= 64; if not i: break
   runs once per digit.  fuel bounds the number of iterations. *)
Fixpoint digs (fuel : nat) (i : N) : list N :=
  match fuel with
  | O => []
  | S f => (i mod 64) :: (if i / 64 =? 0 then [] else digs f (i / 64))
  end.

Definition fuel_for (i : N) : nat := S (N.to_nat (N.size i)).

(* intToB64(i, l): the loop is guarded by `while l:`, so l = 0 yields the
   empty string whatever i is (finding D29, documented as intended by the
   tree's own unit test); otherwise at least one digit, left padded with 'A'
   to l characters. *)
Definition intToB64 (i : N) (l : nat) : list N :=
  match l with
  | O => []
  | _ => let d := rev (digs (fuel_for i) i) in
         repeat 65 (l - length d) ++ map chr_of_idx d
  end.

(* b64ToInt: i |= idx[c] << (e*6) over enumerate(reversed(s)) *)
Fixpoint b64_fold (rs : list N) (e : N) (i : N) : res N :=
  match rs with
  | [] => Ok i
  | c :: rs' =>
    match idx_of_chr c with
    | None => Exc KeyErr
    | Some d => b64_fold rs' (e + 1) (N.lor i (N.shiftl d (e * 6)))
    end
  end.

Definition b64ToInt (s : list N) : res N :=
  match s with
  | [] => Exc ValueErr
  | _ => b64_fold (rev s) 0 0
  end.

(* int.to_bytes(n, 'big') / int.from_bytes(b, 'big') *)
Fixpoint to_bytes_le (n : nat) (i : N) : list N :=
  match n with
  | O => []
  | S m => (i mod 256) :: to_bytes_le m (i / 256)
  end.

Definition to_bytes (n : nat) (i : N) : res bytes :=
  if i <? 256 ^ N.of_nat n then Ok (rev (to_bytes_le n i)) else Exc OverflowErr.

Definition from_bytes (b : bytes) : N := fold_left (fun a x => a * 256 + x) b 0.

(* sceil(l * 3 / 4) for l >= 0 *)
Definition nbytes (l : nat) : nat := Nat.div (l * 3 + 3) 4.
Definition padbits (l : nat) : N := 2 * (N.of_nat l mod 4).

Definition codeB64ToB2 (s : list N) : res bytes :=
  bind (b64ToInt s) (fun i =>
    to_bytes (nbytes (length s)) (N.shiftl i (padbits (length s)))).

Definition codeB2ToB64 (b : bytes) (l : nat) : res (list N) :=
  let n := nbytes l in
  if Nat.ltb (length b) n then Exc ValueErr
  else Ok (intToB64 (N.shiftr (from_bytes (firstn n b)) (padbits l)) l).

Definition nabSextets (b : bytes) (l : nat) : res bytes :=
  let n := nbytes l in
  if Nat.ltb (length b) n then Exc ValueErr
  else to_bytes n (N.shiftl (N.shiftr (from_bytes (firstn n b)) (padbits l)) (padbits l)).

(* --- correspondence --- *)
Inductive case :=
| CIntTo (i : N) (l : nat) (out : list N)
| CToInt (s : list N) (out : res N)
| CToB2 (s : list N) (out : res bytes)
| CToB64 (b : bytes) (l : nat) (out : res (list N))
| CNab (b : bytes) (l : nat) (out : res bytes).

Definition check_case (c : case) : bool :=
  match c with
  | CIntTo i l out => bytes_eqb (intToB64 i l) out
  | CToInt s out => res_eqb N.eqb (b64ToInt s) out
  | CToB2 s out => res_eqb bytes_eqb (codeB64ToB2 s) out
  | CToB64 b l out => res_eqb bytes_eqb (codeB2ToB64 b l) out
  | CNab b l out => res_eqb bytes_eqb (nabSextets b l) out
  end.

Definition case_branches (c : case) : list nat :=
  match c with
  | CIntTo i l _ => [if Nat.ltb (length (digs (fuel_for i) i)) l then 0 else 1]%nat
  | CToInt s _ => [match b64ToInt s with Ok _ => 2 | Exc ValueErr => 3 | Exc _ => 4 end]%nat
  | CToB2 s _ => [match codeB64ToB2 s with Ok _ => 5 | Exc _ => 6 end]%nat
  | CToB64 b l _ => [match codeB2ToB64 b l with Ok _ => 7 | Exc _ => 8 end]%nat
  | CNab b l _ => [match nabSextets b l with Ok _ => 9 | Exc _ => 10 end]%nat
  end.
Definition n_branches : nat := 11.
