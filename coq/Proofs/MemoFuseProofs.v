(* Reassembly at the level of picked grams (Model/MemoRx.v: store, fuse,
   rx_grams): what the receive state holds after ANY sequence of accepted grams
   (any order, duplicates, interleaving of memos), when a memo is fused, and
   with what text. *)
From Coq Require Import FinFun.
From Hio Require Import Base.Prelude Model.B64 Model.MemoGram Model.MemoRx.
Local Open Scope N_scope.

Lemma bytes_eqb_refl : forall a : bytes, bytes_eqb a a = true.
Proof. induction a as [|x a IH]; [reflexivity|]. cbn. rewrite N.eqb_refl, IH. reflexivity. Qed.

Lemma bytes_eqb_eq : forall a b : bytes, bytes_eqb a b = true <-> a = b.
Proof.
  induction a as [|x a IH]; intros [|y b]; cbn; split; intros H; try discriminate; try reflexivity.
  - apply andb_prop in H. destruct H as [H1 H2]. apply N.eqb_eq in H1. apply IH in H2. subst. reflexivity.
  - inversion H; subst. rewrite N.eqb_refl. apply IH. reflexivity.
Qed.

Lemma NoDup_app_snoc : forall A (l : list A) x, NoDup l -> ~ In x l -> NoDup (l ++ [x]).
Proof.
  induction l as [|a l IH]; intros x ND Hx; cbn.
  - constructor; [intros []|constructor].
  - inversion ND; subst. constructor.
    + intros C. apply in_app_or in C. destruct C as [C|[C|[]]]; [contradiction|]. subst. apply Hx. left. reflexivity.
    + apply IH; [assumption|]. intros C. apply Hx. right. exact C.
Qed.

(* ---------- feeding picked grams ---------- *)
Definition feed (es : list entry) (l : list (picked * N)) : list entry :=
  fold_left (fun es ps => store es (fst ps) (snd ps)) l es.

(* first body seen for (mid, gn), first count, first (vid, src) for mid *)
Fixpoint first_body (l : list (picked * N)) (mid : bytes) (gn : N) : option bytes :=
  match l with
  | [] => None
  | (p, _) :: l' => if bytes_eqb (p_mid p) mid && (p_gn p =? gn) then Some (p_body p)
                    else first_body l' mid gn
  end.
Fixpoint first_count (l : list (picked * N)) (mid : bytes) : option N :=
  match l with
  | [] => None
  | (p, _) :: l' => if bytes_eqb (p_mid p) mid then
                      match p_gc p with Some c => Some c | None => first_count l' mid end
                    else first_count l' mid
  end.
Fixpoint first_pick (l : list (picked * N)) (mid : bytes) : option (picked * N) :=
  match l with
  | [] => None
  | (p, s) :: l' => if bytes_eqb (p_mid p) mid then Some (p, s) else first_pick l' mid
  end.

(* what an entry says, as functions *)
Definition entry_matches (e : entry) (l : list (picked * N)) (mid : bytes) : Prop :=
  e_mid e = mid /\
  (forall gn, gram_at gn (e_grams e) = first_body l mid gn) /\
  e_count e = first_count l mid /\
  (exists p s, first_pick l mid = Some (p, s) /\ e_vid e = p_vid p /\ e_src e = s) /\
  NoDup (map fst (e_grams e)).

Lemma gram_at_app : forall gs gn x,
  gram_at gn (gs ++ x) = match gram_at gn gs with Some b => Some b | None => gram_at gn x end.
Proof.
  induction gs as [|[k b] gs IH]; intros gn x; cbn; [reflexivity|].
  destruct (k =? gn); [reflexivity|apply IH].
Qed.

Lemma gram_at_none_notin : forall gs gn, gram_at gn gs = None -> ~ In gn (map fst gs).
Proof.
  induction gs as [|[k b] gs IH]; intros gn H; cbn in *; [tauto|].
  destruct (k =? gn) eqn:E; [discriminate|]. apply N.eqb_neq in E. intros [C|C]; [contradiction|].
  exact (IH _ H C).
Qed.

(* store on a state whose entry for mid (if any) matches the history *)
Lemma find_store_same : forall es p src,
  exists e, find_entry (p_mid p) (store es p src) = Some e /\
    match find_entry (p_mid p) es with
    | Some e0 => e = upd_entry e0 p
    | None => e = {| e_mid := p_mid p; e_grams := [(p_gn p, p_body p)]; e_count := p_gc p;
                     e_vid := p_vid p; e_src := src |}
    end.
Proof.
  induction es as [|e0 es IH]; intros p src; cbn [store find_entry e_mid].
  - rewrite bytes_eqb_refl. eexists; split; reflexivity.
  - destruct (bytes_eqb (e_mid e0) (p_mid p)) eqn:M; cbn [find_entry].
    + unfold upd_entry at 1. cbn [e_mid]. rewrite M. eexists; split; reflexivity.
    + rewrite M. apply IH.
Qed.

Lemma find_store_other : forall es p src mid, bytes_eqb (p_mid p) mid = false ->
  find_entry mid (store es p src) = find_entry mid es.
Proof.
  induction es as [|e0 es IH]; intros p src mid Hne; cbn [store find_entry e_mid].
  - rewrite Hne. reflexivity.
  - destruct (bytes_eqb (e_mid e0) (p_mid p)) eqn:M; cbn [find_entry].
    + unfold upd_entry. cbn [e_mid]. destruct (bytes_eqb (e_mid e0) mid) eqn:M2; [|reflexivity].
      apply bytes_eqb_eq in M. apply bytes_eqb_eq in M2. rewrite <- M, M2, bytes_eqb_refl in Hne. discriminate.
    + destruct (bytes_eqb (e_mid e0) mid); [reflexivity|]. apply IH. exact Hne.
Qed.

Lemma first_body_snoc : forall l p s mid gn,
  first_body (l ++ [(p, s)]) mid gn =
  match first_body l mid gn with
  | Some b => Some b
  | None => if bytes_eqb (p_mid p) mid && (p_gn p =? gn) then Some (p_body p) else None
  end.
Proof.
  induction l as [|[q t] l IH]; intros; cbn [app first_body]; [reflexivity|].
  destruct (bytes_eqb (p_mid q) mid && (p_gn q =? gn)); [reflexivity|apply IH].
Qed.

Lemma first_count_snoc : forall l p s mid,
  first_count (l ++ [(p, s)]) mid =
  match first_count l mid with
  | Some c => Some c
  | None => if bytes_eqb (p_mid p) mid then p_gc p else None
  end.
Proof.
  induction l as [|[q t] l IH]; intros; cbn [app first_count].
  - destruct (bytes_eqb (p_mid p) mid); [destruct (p_gc p)|]; reflexivity.
  - destruct (bytes_eqb (p_mid q) mid); [destruct (p_gc q); [reflexivity|]|]; apply IH.
Qed.

Lemma first_pick_snoc : forall l p s mid,
  first_pick (l ++ [(p, s)]) mid =
  match first_pick l mid with
  | Some x => Some x
  | None => if bytes_eqb (p_mid p) mid then Some (p, s) else None
  end.
Proof.
  induction l as [|[q t] l IH]; intros; cbn [app first_pick]; [reflexivity|].
  destruct (bytes_eqb (p_mid q) mid); [reflexivity|apply IH].
Qed.

Lemma first_pick_none : forall l mid, first_pick l mid = None ->
  (forall gn, first_body l mid gn = None) /\ first_count l mid = None.
Proof.
  induction l as [|[q t] l IH]; intros mid H; cbn in *; [auto|].
  destruct (bytes_eqb (p_mid q) mid); [discriminate|]. cbn. apply IH. exact H.
Qed.

(* THE storage invariant: after feeding any sequence of picked grams from the
   empty state, the entry for each mid records exactly the first body per gram
   number, the first count, the first vid and source; no entry for unseen mids. *)
Theorem feed_spec : forall l mid,
  match find_entry mid (feed [] l) with
  | Some e => entry_matches e l mid
  | None => first_pick l mid = None
  end.
Proof.
  intros l. induction l as [|[p s] l IH] using rev_ind; intros mid; [reflexivity|].
  unfold feed in *. rewrite fold_left_app. cbn [fold_left fst snd].
  set (es := fold_left (fun es ps => store es (fst ps) (snd ps)) l []) in *.
  destruct (bytes_eqb (p_mid p) mid) eqn:M.
  - apply bytes_eqb_eq in M. subst mid.
    destruct (find_store_same es p s) as (e & -> & He).
    specialize (IH (p_mid p)). destruct (find_entry (p_mid p) es) as [e0|].
    + subst e. destruct IH as (I1 & I2 & I3 & (q & t & I4 & I5 & I6) & I7).
      unfold entry_matches, upd_entry. cbn [e_mid e_grams e_count e_vid e_src].
      split; [exact I1|]. split; [|split; [|split]].
      * intros gn. rewrite first_body_snoc, bytes_eqb_refl. cbn [andb]. rewrite <- I2.
        destruct (gram_at (p_gn p) (e_grams e0)) eqn:G.
        -- destruct (gram_at gn (e_grams e0)) eqn:G2; [reflexivity|].
           destruct (p_gn p =? gn) eqn:E; [|reflexivity]. apply N.eqb_eq in E. congruence.
        -- rewrite gram_at_app. destruct (gram_at gn (e_grams e0)); [reflexivity|]. cbn.
           destruct (p_gn p =? gn); reflexivity.
      * rewrite first_count_snoc, bytes_eqb_refl, <- I3. destruct (e_count e0); reflexivity.
      * exists q, t. rewrite first_pick_snoc, I4. auto.
      * destruct (gram_at (p_gn p) (e_grams e0)) eqn:G; [exact I7|].
        rewrite map_app. cbn. apply NoDup_app_snoc; [exact I7|]. apply gram_at_none_notin. exact G.
    + subst e. destruct (first_pick_none _ _ IH) as [B C].
      unfold entry_matches. cbn [e_mid e_grams e_count e_vid e_src].
      split; [reflexivity|]. split; [|split; [|split]].
      * intros gn. rewrite first_body_snoc, B, bytes_eqb_refl. cbn. destruct (p_gn p =? gn); reflexivity.
      * rewrite first_count_snoc, C, bytes_eqb_refl. reflexivity.
      * exists p, s. rewrite first_pick_snoc, IH, bytes_eqb_refl. auto.
      * cbn. constructor; [intros []|constructor].
  - rewrite (find_store_other es p s mid M). specialize (IH mid).
    destruct (find_entry mid es) as [e0|].
    + destruct IH as (I1 & I2 & I3 & (q & t & I4 & I5 & I6) & I7). unfold entry_matches.
      split; [exact I1|]. split; [|split; [|split]]; auto.
      * intros gn. rewrite first_body_snoc, M. cbn. rewrite <- I2. destruct (gram_at gn (e_grams e0)); reflexivity.
      * rewrite first_count_snoc, M, <- I3. destruct (e_count e0); reflexivity.
      * exists q, t. rewrite first_pick_snoc, I4. auto.
    + rewrite first_pick_snoc, IH, M. reflexivity.
Qed.

(* ---------- fuse ---------- *)
Lemma collect_all : forall gs (bodies : list bytes) i,
  (forall j, (j < length bodies)%nat -> gram_at (i + N.of_nat j) gs = Some (nth j bodies [])) ->
  collect gs i (length bodies) = Some (concat bodies).
Proof.
  intros gs bodies. induction bodies as [|b bs IH]; intros i H; [reflexivity|].
  cbn [length collect concat].
  pose proof (H 0%nat ltac:(cbn; lia)) as H0. rewrite N.add_0_r in H0. cbn in H0. rewrite H0.
  rewrite IH; [reflexivity|]. intros j Hj.
  specialize (H (S j) ltac:(cbn; lia)). cbn [nth] in H. rewrite <- H. f_equal. lia.
Qed.

Lemma collect_missing : forall gs n i j, (j < n)%nat -> gram_at (i + N.of_nat j) gs = None ->
  collect gs i n = None.
Proof.
  induction n; intros i j Hj G; [lia|]. cbn [collect].
  destruct j as [|j].
  - rewrite N.add_0_r in G. rewrite G. reflexivity.
  - destruct (gram_at i gs); [|reflexivity].
    rewrite (IHn (i + 1) j); [reflexivity|lia|]. rewrite <- G. f_equal. lia.
Qed.

Lemma keys_length : forall gs k, NoDup (map fst gs) ->
  (forall j, (j < k)%nat -> gram_at (N.of_nat j) gs <> None) -> (k <= length gs)%nat.
Proof.
  intros gs k ND H.
  assert (I : incl (map N.of_nat (seq 0 k)) (map fst gs)).
  { intros x Hx. apply in_map_iff in Hx. destruct Hx as (j & <- & Hj). apply in_seq in Hj.
    specialize (H j ltac:(lia)). destruct (gram_at (N.of_nat j) gs) eqn:G; [|contradiction].
    clear - G. induction gs as [|[a c] gs IH]; cbn in *; [discriminate|].
    destruct (a =? N.of_nat j) eqn:E; [left; apply N.eqb_eq; exact E|right; apply IH; exact G]. }
  assert (ND2 : NoDup (map N.of_nat (seq 0 k))).
  { apply Injective_map_NoDup; [intros a b E; lia|apply seq_NoDup]. }
  pose proof (NoDup_incl_length ND2 I) as L. rewrite !map_length, seq_length in L. exact L.
Qed.

(* every gram below the count present: fused text is the concatenation in gram order *)
Theorem fuse_complete : forall gs bodies, NoDup (map fst gs) ->
  (forall j, (j < length bodies)%nat -> gram_at (N.of_nat j) gs = Some (nth j bodies [])) ->
  fuse gs (N.of_nat (length bodies)) =
  if utf8_ok (concat bodies) then Ok (Some (concat bodies)) else Exc MemoErr.
Proof.
  intros gs bodies ND H. unfold fuse.
  assert (L : (length bodies <= length gs)%nat).
  { apply keys_length; [exact ND|]. intros j Hj. rewrite (H j Hj). discriminate. }
  assert (E : N.of_nat (length gs) <? N.of_nat (length bodies) = false) by (apply N.ltb_ge; lia).
  rewrite E, Nat2N.id.
  assert (HC : collect gs 0 (length bodies) = Some (concat bodies)).
  { apply collect_all. intros j Hj. rewrite N.add_0_l. apply H. exact Hj. }
  unfold bytes in *. rewrite HC. reflexivity.
Qed.

(* some gram below the count missing: never fused *)
Theorem fuse_incomplete : forall gs cnt j, j < cnt -> gram_at j gs = None -> fuse gs cnt = Ok None.
Proof.
  intros gs cnt j Hj G. unfold fuse. destruct (N.of_nat (length gs) <? cnt); [reflexivity|].
  rewrite (collect_missing gs (N.to_nat cnt) 0 (N.to_nat j)); [reflexivity|lia|].
  rewrite N.add_0_l, N2Nat.id. exact G.
Qed.

(* one pass of _serviceOnceRxGrams delivers exactly the entries whose fuse succeeds, in order *)
Definition deliverable (e : entry) : list memo :=
  match e_count e with
  | Some c => match fuse (e_grams e) c with Ok (Some m) => [(m, e_src e, e_vid e)] | _ => [] end
  | None => []
  end.

Theorem rx_grams_delivers : forall es, snd (rx_grams es) = flat_map deliverable es.
Proof.
  induction es as [|e es IH]; [reflexivity|]. cbn [rx_grams flat_map].
  destruct (rx_grams es) as [k d]. cbn [snd] in IH. subst d. unfold deliverable.
  destruct (e_count e) as [c|]; [|reflexivity].
  destruct (fuse (e_grams e) c) as [[m|]|x]; reflexivity.
Qed.

(* an entry that is not fused stays; a fused or undecodable one is removed *)
Theorem rx_grams_keeps : forall es e, In e (fst (rx_grams es)) <->
  In e es /\ (e_count e = None \/ exists c, e_count e = Some c /\ fuse (e_grams e) c = Ok None).
Proof.
  induction es as [|e0 es IH]; intros e; cbn [rx_grams]; [cbn; tauto|].
  destruct (rx_grams es) as [k d]. cbn [fst] in *.
  destruct (e_count e0) as [c|] eqn:C.
  - destruct (fuse (e_grams e0) c) as [[m|]|x] eqn:F; cbn [fst].
    + rewrite IH. split; [intros [A B]; split; [right; exact A|exact B]|].
      intros [[A|A] B]; [|split; assumption]. subst e0. exfalso.
      destruct B as [B|(c' & B1 & B2)]; congruence.
    + cbn [In]. rewrite IH. split.
      * intros [A|[A B]]; [subst; split; [left; reflexivity|right; eauto]|split; [right; exact A|exact B]].
      * intros [[A|A] B]; [left; exact A|right; split; assumption].
    + rewrite IH. split; [intros [A B]; split; [right; exact A|exact B]|].
      intros [[A|A] B]; [|split; assumption]. subst e0. exfalso.
      destruct B as [B|(c' & B1 & B2)]; congruence.
  - cbn [fst In]. rewrite IH. split.
    + intros [A|[A B]]; [subst; split; [left; reflexivity|left; exact C]|split; [right; exact A|exact B]].
    + intros [[A|A] B]; [left; exact A|right; split; assumption].
Qed.

(* ---- the receiver's own transmit configuration is irrelevant to reception ---- *)
Definition not_rxset (o : op) : bool := match o with RxSet _ => false | _ => true end.

Theorem rxset_irrelevant : forall verify authic ops s,
  fst (run verify authic s ops) = fst (run verify authic s (filter not_rxset ops)).
Proof.
  intros verify authic. induction ops as [|o ops IH]; intros s; [reflexivity|].
  cbn [filter]. destruct (not_rxset o) eqn:E.
  - cbn [run]. destruct (step verify authic s o) as [s' x]. specialize (IH s').
    destruct (run verify authic s' ops) as [a b]. destruct (run verify authic s' (filter not_rxset ops)) as [a' b'].
    cbn [fst] in *. exact IH.
  - destruct o; try discriminate. cbn [run step]. specialize (IH s).
    destruct (run verify authic s ops) as [a b]. cbn [fst] in *. exact IH.
Qed.
