(* Named sub-databases of one environment are independent: a history over several
   stores is, store by store, the history of that store alone. *)
From Hio Require Import Base.Prelude Base.ListFacts Model.Lmdb Model.IoSub
  Proofs.IoSubBlock Proofs.IoSubProofs.

Lemma kind_eqb_eq a b : kind_eqb a b = true <-> a = b.
Proof. destruct a, b; simpl; split; intros H; try reflexivity; try discriminate. Qed.

Lemma subdb_name_inj a b : subdb_name a = subdb_name b -> a = b.
Proof. destruct a, b; simpl; intros H; try reflexivity; discriminate. Qed.

(* an op on one store leaves every other named sub-db as it is *)
Lemma estep_other E k o k' : k' <> k -> fst (estep E (k, o)) (subdb_name k') = E (subdb_name k').
Proof.
  intros Hne. unfold estep. cbn [fst snd]. destruct (step k (E (subdb_name k)) o) as [d' r]. cbn [fst].
  apply upd_other_b. intros H. apply subdb_name_inj in H. contradiction.
Qed.

Lemma estep_same E k o :
  fst (estep E (k, o)) (subdb_name k) = fst (step k (E (subdb_name k)) o) /\
  snd (estep E (k, o)) = snd (step k (E (subdb_name k)) o).
Proof.
  unfold estep. cbn [fst snd]. destruct (step k (E (subdb_name k)) o) as [d' r]. cbn [fst snd].
  now rewrite upd_same_b.
Qed.

(* projection: the results a store returns inside a mixed history, and its final sub-db, are
   those of its own ops run alone on its own sub-db *)
Theorem erun_project k : forall ops E,
  proj_res k ops (snd (erun E ops)) = snd (run k (E (subdb_name k)) (proj_ops k ops)) /\
  fst (erun E ops) (subdb_name k) = fst (run k (E (subdb_name k)) (proj_ops k ops)).
Proof.
  induction ops as [|[k' o] ops IH]; intros E; [split; reflexivity|].
  cbn [erun proj_ops]. destruct (estep E (k', o)) as [E' r] eqn:Es.
  specialize (IH E'). destruct (erun E' ops) as [E'' rs]. cbn [fst snd proj_res] in *.
  destruct (kind_eqb k' k) eqn:Ek.
  - apply kind_eqb_eq in Ek. subst k'. destruct (estep_same E k o) as [H1 H2]. rewrite Es in H1, H2.
    cbn [fst snd] in H1, H2. cbn [run]. destruct (step k (E (subdb_name k)) o) as [d' r'].
    cbn [fst snd] in *. rewrite H1 in IH. rewrite H2.
    destruct (run k d' (proj_ops k ops)) as [d'' rs']. cbn [fst snd] in *. destruct IH as [I1 I2].
    split; [now f_equal|assumption].
  - assert (Hne : k <> k') by (intros ->; destruct k'; discriminate).
    pose proof (estep_other E k' o k Hne) as H. rewrite Es in H. cbn [fst] in H. now rewrite H in IH.
Qed.
