"""C17 — chunked transfer coding decodes exactly; invalid chunk sizes are rejected.

Drives hio.core.http.httping.parseChunk exactly as Requestant/Respondent.parseBody do
(a fresh generator per chunk over one shared bytearray, until the size-0 chunk)."""
from harness.core import coq_N, coq_list, coq_bool, coq_bytes, coq_option, exn_kind

PROP = "C17"
COQ_REQUIRES = ["Hio.Model.HttpLine", "Hio.Model.Chunk", "Hio.Model.HttpMsg"]
COQ_CHECK = "HttpMsg.check_c17"
COQ_CASE_TYPE = "HttpMsg.c17case"
COQ_BRANCHES = ("HttpMsg.c17_branches", "Chunk.n_branches")
SHARD = 150
RULE = ("well-formed stream: 1-5 chunks of 1-40 arbitrary bytes (CR/LF included), any hex spelling of the size "
        "(case, leading zeros, blank padding), 0-3 chunk extensions per chunk (bare names, values, blank padding, "
        "empty and repeated names), 0-3 trailers, trailing pipelined bytes, cut into reads at random points, at "
        "every byte, or inside every CRLF / size line; malformed stream: size fields that are not 1*HEXDIG "
        "(sign, 0x, underscore, inner blank, empty, non-ASCII digits, LF-terminated), missing chunk-end CRLF, "
        "trailer without ': ', over-long lines.  Histories through the real message parsers (Respondent and "
        "Requestant): a chunked (also content-length / close-delimited / pipelined) message whose bytes arrive in "
        "several pieces, with parse() and close() interleaved at arbitrary points -- in particular close() while later "
        "chunks, the last-chunk or trailers are already buffered or arrive before the next parse(); everything "
        "buffered must be decoded exactly; truncated variants are compared with the model only.  Non-trivial: >= 2 "
        "chunks with an extension or trailer, a size field containing a non-hex character, or a history in which "
        "close() precedes the parsing of >= 1 buffered data chunk")
MODELLED = ["Python bytearray/bytes slicing, find, partition, split, strip (as list functions)",
            "dict with bytes keys (insertion-ordered association list)",
            "multidict.CIMultiDict __setitem__/update/items (ordered list keyed by str.lower() of the iso-8859-1 text)",
            "int(s, 16) on a non-empty all-hex-digit ASCII string (as positional value)"]

HEXD = b"0123456789abcdefABCDEF"


def h(b):
    return bytes(b).hex()


def unh(s):
    return bytes.fromhex(s)


# ----------------------------------------------------------------------------- building cases

def render_ext(exts, rng=None):
    out = b""
    for name, val, pads in exts:
        p = pads or ("", "", "", "")
        out += b";" + p[0].encode() + name + p[1].encode()
        if val is not None:
            out += b"=" + p[2].encode() + val + p[3].encode()
    return out


def build_wire(spec):
    """spec: {"chunks":[{"hex":..,"ext":[[name,val,pads]..],"data":..}], "zeros":.., "lastext":[..], "trailers":[[k,v]..], "tail":..}
    (bytes fields as hex strings)."""
    w = b""
    for c in spec["chunks"]:
        w += unh(c["hex"]) + render_ext(_ext(c["ext"])) + b"\r\n" + unh(c["data"]) + b"\r\n"
    w += unh(spec["zeros"]) + render_ext(_ext(spec["lastext"])) + b"\r\n"
    for k, v in spec["trailers"]:
        w += unh(k) + b": " + unh(v) + b"\r\n"
    w += b"\r\n" + unh(spec.get("tail", ""))
    return w


def _ext(l):
    return [(unh(n), None if v is None else unh(v), pads) for n, v, pads in l]


def cut(wire, points):
    pts = sorted(set(p for p in points if 0 < p < len(wire)))
    out, last = [], 0
    for p in pts:
        out.append(wire[last:p]); last = p
    out.append(wire[last:])
    return out


def interesting_cuts(wire):
    """positions inside every CRLF and inside/around every size line"""
    pts = []
    i = wire.find(b"\r\n")
    while i >= 0:
        pts += [i, i + 1, i + 2]
        i = wire.find(b"\r\n", i + 1)
    return pts


def _token(rng, lo=1, hi=5):
    return bytes(rng.choice(b"abcXYZ019-_.!") for _ in range(rng.randint(lo, hi)))


def _spell_hex(rng, n):
    s = "%x" % n
    r = rng.random()
    if r < 0.25:
        s = s.upper()
    elif r < 0.4:
        s = "".join(ch.upper() if rng.random() < 0.5 else ch for ch in s)
    if rng.random() < 0.25:
        s = "0" * rng.randint(1, 3) + s
    if rng.random() < 0.15:
        s = rng.choice(["", " ", "\t"]) + s + rng.choice([" ", "\t ", ""])
    return s.encode()


def _rand_exts(rng):
    out = []
    for _ in range(rng.choice([0, 0, 1, 1, 2, 3])):
        r = rng.random()
        name = b"" if r < 0.08 else (b"a" if r < 0.3 else _token(rng))
        val = None if rng.random() < 0.35 else (b'"q r"' if rng.random() < 0.15 else _token(rng, 0, 4))
        pads = None
        if rng.random() < 0.3:
            pads = [rng.choice(["", " ", "\t", "  "]) for _ in range(4)]
        out.append([h(name), None if val is None else h(val), pads])
    return out


def _rand_data(rng):
    n = rng.choice([1, 1, 2, 3, 5, 8, 16, 17, 40])
    alphabet = rng.choice([b"abc", b"\r\n0;:a", bytes(range(256))])
    return bytes(rng.choice(alphabet) for _ in range(n))


def _rand_spec(rng):
    chunks = []
    for _ in range(rng.choice([1, 2, 2, 3, 4, 5])):
        d = _rand_data(rng)
        chunks.append({"hex": h(_spell_hex(rng, len(d))), "ext": _rand_exts(rng), "data": h(d)})
    trailers = []
    for _ in range(rng.choice([0, 0, 1, 2, 3])):
        k = rng.choice([b"X-A", b"x-a", b"Etag", b"\xc9t\xe9", _token(rng)])
        v = rng.choice([b"1", b"", b"v: w", b"tr\xe9s", b"x\r", _token(rng, 0, 8)])
        trailers.append([h(k), h(v)])
    return {"chunks": chunks, "zeros": h(rng.choice([b"0", b"0", b"00", b"000", b"0 "])),
            "lastext": _rand_exts(rng) if rng.random() < 0.3 else [], "trailers": trailers,
            "tail": h(rng.choice([b"", b"", b"GET / HTTP/1.1\r\n", b"\r\n", b"5"]))}


def _rand_cuts(rng, wire):
    r = rng.random()
    if r < 0.2:
        return list(range(1, len(wire)))                      # every byte
    if r < 0.45:
        return interesting_cuts(wire)
    if r < 0.55:
        return []
    return [rng.randrange(1, max(2, len(wire))) for _ in range(rng.choice([1, 2, 3, 6]))] + \
           (rng.sample(interesting_cuts(wire), k=min(2, len(interesting_cuts(wire)))))


BAD_SIZES = [b"+5", b"-5", b"0x5", b"0X5", b"1_0", b"5 5", b"", b" ", b"g", b"5g", b"5h;a=b", b"\xd9\xa3", b"5\n",
             b"\n5", b"\x0b5", b"5\x0c", b"-0", b"+0", b"0x0", b"0_0", b"\xb2", b"5.", b"1e1", b"0b1", b"5L"]
OK_SIZES = [b"5", b" 5 ", b"\t5", b"5\t", b"05", b"005;x", b"5 ;x=y", b"A", b"a", b"0a", b"10", b"1F"]


def _mal_case(rng):
    r = rng.random()
    data = b"helloworldhelloworldhelloworld-."
    if r < 0.45:
        sz = rng.choice(BAD_SIZES)
        pre = b"" if rng.random() < 0.5 else b"3\r\nabc\r\n"
        wire = pre + sz + b"\r\n" + data + b"\r\n0\r\n\r\n"
        kind = "badsize"
    elif r < 0.6:
        sz = rng.choice(OK_SIZES)
        n = int(sz.split(b";")[0].strip(), 16)
        wire = sz + b"\r\n" + data[:n] + b"\r\n0\r\n\r\n"
        kind = "oksize"
    elif r < 0.75:
        n = rng.randint(1, 9)
        wire = b"%x\r\n" % n + data[:n] + rng.choice([b"X\r\n", b"\n", b"\r", b"\rX\r\n", b" \r\n"]) + b"0\r\n\r\n"
        kind = "badend"
    elif r < 0.9:
        wire = b"2\r\nab\r\n0\r\n" + rng.choice([b"novalue\r\n\r\n", b"k:v\r\n\r\n", b"k :v\r\n\r\n", b": \r\n\r\n",
                                                  b"a: b\nc: d\r\n\n", b"a: b\r\nx\r\n\r\n"])
        kind = "trailer"
    else:
        wire = bytes(rng.choice(b"05a;=\r\n :x") for _ in range(rng.randint(1, 30)))
        kind = "noise"
    return {"kind": kind, "reads": [h(x) for x in cut(wire, _rand_cuts(rng, wire))]}


HEADS = {"req": b"POST /x HTTP/1.1\r\nHost: h\r\nTransfer-Encoding: chunked\r\n\r\n",
         "resp": b"HTTP/1.1 200 OK\r\nTransfer-Encoding: chunked\r\n\r\n"}


def _hist_ops(rng, wire, first_cut):
    """data/parse pairs for wire[:first_cut]; then the rest in 1-3 data ops with close() somewhere among them and a
    single parse at the end (so nothing is parsed with .closed set before everything is buffered)"""
    ops = []
    pre = cut(wire[:first_cut], [rng.randrange(1, max(2, first_cut)) for _ in range(rng.choice([0, 1, 3]))]) if first_cut else []
    for frag in pre:
        ops += [["data", h(frag)], ["parse"]]
    if not pre:
        ops += [["parse"]]          # a close() before the very first parse() is reset by parseMessage (directed case)
    rest = wire[first_cut:]
    pieces = cut(rest, [rng.randrange(1, max(2, len(rest))) for _ in range(rng.choice([0, 1, 2]))]) if rest else []
    tail = [["data", h(x)] for x in pieces]
    tail.insert(rng.randrange(len(tail) + 1), ["close"])
    return ops + tail + [["parse"]]


def _gen_one_message(rng, who, n, allow_until):
    """(wire, expect) of one message of a keep-alive sequence on one parser"""
    kind = rng.choice(["chunked", "chunked", "length", "length", "none"] + (["until"] if allow_until else []))
    if kind == "chunked":
        spec = _rand_spec(rng); spec["tail"] = ""
        enc = build_wire(spec)
        body = b"".join(unh(c["data"]) for c in spec["chunks"])
        te = (rng.choice([b"Transfer-Encoding", b"transfer-encoding", b"TRANSFER-ENCODING", b"Transfer-encoding", b"tRANSFER-eNCODING"])
              + b": " + rng.choice([b"", b"", b" ", b"\t"]) + rng.choice([b"chunked", b"chunked", b"Chunked", b"CHUNKED", b"cHunKed"])
              + rng.choice([b"", b"", b" ", b" \t"]) + b"\r\n")
        hdrs = [te]
        if rng.random() < 0.3:
            # both framings announced: Transfer-Encoding overrides Content-Length (RFC 7230 3.3.3), whatever its value
            cl = rng.choice([0, 1, len(body), max(0, len(enc) - rng.randint(1, 9)), len(enc), len(enc) + rng.randint(1, 20),
                             rng.randint(0, len(enc) + 5)])
            hdrs.insert(rng.choice([0, 1]), b"Content-Length: %d\r\n" % cl)
        start = b"POST /m%d HTTP/1.1\r\nHost: h\r\n" % n if who == "req" else b"HTTP/1.1 200 OK\r\n"
        return start + b"".join(hdrs) + b"\r\n" + enc, {"body": h(body), "trails": expected(spec)[-1]["trails"]}
    if kind == "length":
        data = _rand_data(rng) * rng.choice([1, 2])
        head = (b"PUT /m%d HTTP/1.1\r\nContent-Length: %d\r\n\r\n" % (n, len(data)) if who == "req"
                else b"HTTP/1.1 200 OK\r\nContent-Length: %d\r\n\r\n" % len(data))
        return head + data, {"body": h(data), "trails": []}
    if kind == "until":
        data = _rand_data(rng) * 2
        return b"HTTP/1.0 200 OK\r\n\r\n" + data, {"body": h(data), "trails": []}
    return (b"GET /m%d HTTP/1.1\r\n\r\n" % n if who == "req" else b"HTTP/1.1 204 No\r\n\r\n"), {"body": "", "trails": []}


def _gen_hist(rng):
    """1-4 messages back to back on ONE Requestant / Respondent (makeParser between them, as Server / Client do),
    mixing chunked, content-length and body-less ones; close() somewhere in the tail"""
    who = rng.choice(["req", "resp", "resp"])
    nmsg = rng.choice([1, 2, 2, 3, 4])
    wire, expects = b"", []
    for n in range(nmsg):
        w, e = _gen_one_message(rng, who, n, allow_until=(who == "resp" and n == nmsg - 1 and rng.random() < 0.3))
        wire += w
        expects.append(e)
    first_cut = rng.choice([0, rng.randrange(1, len(wire)), rng.randrange(1, len(wire)), len(wire)])
    ops = _hist_ops(rng, wire, first_cut)
    # parseMessage forgets .closed when a message starts; Client repeats close() every pass while cut off
    ops += [["close"], ["parse"]]
    case = {"kind": "hist", "who": who, "ops": ops, "expect": expects}
    if rng.random() < 0.15:                  # truncated: closure with the last message incomplete (model comparison only)
        k = rng.randrange(1, len(wire))
        case = {"kind": "hist", "who": who, "ops": _hist_ops(rng, wire[:k], min(first_cut, k)), "expect": None}
    return case


def _gen_hist_idle(rng):
    """Client.service shape: the parser is closed (repeatedly) while it is idle between messages -- cut off, reconnect
    timer not yet expired -- then the next message arrives in fragments cut at line ends or anywhere"""
    who = rng.choice(["req", "resp", "resp"])
    nmsg = rng.choice([1, 2, 3])
    ops, expects = [], []
    for n in range(nmsg):
        last = n == nmsg - 1
        w, e = _gen_one_message(rng, who, n, allow_until=(who == "resp" and last and rng.random() < 0.4))
        expects.append(e)
        for _ in range(rng.choice([0, 1, 2, 3])):
            ops += [["parse"], ["close"]]
        ops += [["parse"]]
        lines = [i + 2 for i in range(len(w) - 2) if w[i:i + 2] == b"\r\n"]
        cuts = rng.sample(lines, k=min(len(lines), rng.choice([1, 2, 3]))) if rng.random() < 0.7 else \
            [rng.randrange(1, len(w)) for _ in range(rng.choice([1, 2, 4]))]
        for frag in cut(w, cuts):
            ops += [["data", h(frag)], ["parse"]]
    ops += [["close"], ["parse"]]
    return {"kind": "hist", "who": who, "ops": ops, "expect": expects}


def _hist_case(who, steps, expect):
    ops = []
    for st in steps:
        ops.append(["data", h(st)] if isinstance(st, bytes) else [st])
    return {"kind": "hist", "who": who, "ops": ops, "expect": expect}


def directed():
    out = []
    body = b"3\r\nabc\r\n4;x=y\r\ndefg\r\n0\r\nT: 1\r\n\r\n"
    exp = [{"body": h(b"abcdefg"), "trails": [[h(b"t"), h(b"1")]]}]
    for who in ("req", "resp"):
        hd = HEADS[who]
        out.append(_hist_case(who, [hd + b"3\r\nab", "parse", b"c\r\n4;x=y\r\ndefg\r\n0\r\nT: 1\r\n\r\n", "close", "parse"], exp))
        out.append(_hist_case(who, [hd, "parse", "close", body, "parse"], exp))
        out.append(_hist_case(who, [hd[:9], "parse", hd[9:] + body[:8], "close", body[8:], "parse"], exp))
        out.append(_hist_case(who, ["close", hd + body, "parse"], exp))            # close before the first parse is reset
        out.append(_hist_case(who, [hd + body[:8], "parse", "close", "parse"], None))   # dry after a data chunk
        out.append(_hist_case(who, [hd + body[:5], "parse", "close", "parse", "parse"], None))   # dry inside a chunk
        out.append(_hist_case(who, [hd, "parse", "close", "parse"], None))
        out.append(_hist_case(who, [hd[:20], "parse", "close", "parse"], None))
    # one parser, several messages: earlier bodies/trailers must not show in later ones (seeded C17-5, finding D41)
    seq = (b"POST /a HTTP/1.1\r\nContent-Length: 5\r\n\r\nfirst"
           b"POST /b HTTP/1.1\r\nTransfer-Encoding: chunked\r\n\r\n6\r\nsecond\r\n0\r\nT: 1\r\n\r\n"
           b"POST /c HTTP/1.1\r\nTransfer-Encoding: chunked\r\n\r\n5\r\nthird\r\n0\r\n\r\n"
           b"GET /d HTTP/1.1\r\n\r\n")
    exp4 = [{"body": h(b"first"), "trails": []}, {"body": h(b"second"), "trails": [[h(b"t"), h(b"1")]]},
            {"body": h(b"third"), "trails": []}, {"body": "", "trails": []}]
    out.append(_hist_case("req", [seq, "parse"], exp4))
    out.append(_hist_case("req", [seq[:60], "parse", seq[60:150], "parse", seq[150:], "parse"], exp4))
    rseq = (b"HTTP/1.1 200 OK\r\nTransfer-Encoding: chunked\r\n\r\n5\r\nfirst\r\n0\r\nT: 1\r\n\r\n"
            b"HTTP/1.1 200 OK\r\nTransfer-Encoding: chunked\r\n\r\n6\r\nsecond\r\n0\r\n\r\n"
            b"HTTP/1.1 200 OK\r\nContent-Length: 2\r\n\r\nok")
    out.append(_hist_case("resp", [rseq[:70], "parse", rseq[70:], "parse"],
                          [{"body": h(b"first"), "trails": [[h(b"t"), h(b"1")]]}, {"body": h(b"second"), "trails": []},
                           {"body": h(b"ok"), "trails": []}]))
    # boundary-length lines (MAX_LINE_SIZE = 65536): chunk-size lines and trailer lines of MAX-1, MAX, MAX+1 bytes,
    # whole and cut before the CR, between CR and LF, after the LF (seeded C17-13: the verdict depended on the cut)
    MAXL = 65536
    for L in (MAXL - 1, MAXL, MAXL + 1):
        size_line = b"5;" + b"x" * (L - 2)
        w = size_line + b"\r\nhello\r\n0\r\n\r\n"
        for cuts in ([], [L], [L + 1], [L + 2]):
            out.append({"kind": "noise", "reads": [h(x) for x in cut(w, cuts)]})
        trailer = b"T: " + b"v" * (L - 3)
        w = b"2\r\nab\r\n0\r\n" + trailer + b"\r\n\r\n"
        for cuts in ([], [10 + L + 1]):
            out.append({"kind": "trailer", "reads": [h(x) for x in cut(w, cuts)]})
    for who in ("req", "resp"):
        hd = HEADS[who]
        for L, ok in ((MAXL, True), (MAXL + 1, False)):
            w = hd + b"5;" + b"x" * (L - 2) + b"\r\nhello\r\n0\r\n\r\n"
            k = len(hd) + L + 1          # between the CR and the LF of the size line
            out.append(_hist_case(who, [w[:k], "parse", w[k:], "parse"], [{"body": h(b"hello"), "trails": []}] if ok else None))
            out.append(_hist_case(who, [w, "parse"], [{"body": h(b"hello"), "trails": []}] if ok else None))
    # Transfer-Encoding: chunked together with Content-Length: N (both orders; N smaller / equal / larger than the
    # encoded length, N = decoded length): the chunked coding is what frames the body (seeded C17-7)
    enc = b"3;x=y\r\nabc\r\n4\r\ndefg\r\n0\r\nT: 1\r\n\r\n"
    expb = [{"body": h(b"abcdefg"), "trails": [[h(b"t"), h(b"1")]]}, {"body": "", "trails": []}]
    for who, start, nxt in (("req", b"POST /x HTTP/1.1\r\n", b"GET /n HTTP/1.1\r\n\r\n"),
                            ("resp", b"HTTP/1.1 200 OK\r\n", b"HTTP/1.1 204 No\r\n\r\n")):
        for cl in (0, 3, 7, len(enc) - 4, len(enc), len(enc) + 9):
            for order in (0, 1):
                hd = [b"Transfer-Encoding: chunked\r\n", b"Content-Length: %d\r\n" % cl]
                if order:
                    hd.reverse()
                w = start + b"".join(hd) + b"\r\n" + enc + nxt
                out.append(_hist_case(who, [w[:30], "parse", w[30:], "parse"], expb))
    # closed while idle, then a healthy message whose head is split at a line end (finding D42, repo 0a30e14)
    out.append(_hist_case("resp", ["parse", "close", "parse", "close", b"HTTP/1.1 200 OK\r\n", "parse",
                                   b"Content-Length: 2\r\n\r\n", "parse", b"ok", "parse"], [{"body": h(b"ok"), "trails": []}]))
    out.append(_hist_case("resp", ["parse", "close", "parse", "close", b"HTTP/1.0 200 OK\r\n\r\nabc", "parse", b"def", "parse",
                                   "close", "parse"], [{"body": h(b"abcdef"), "trails": []}]))
    out.append(_hist_case("req", ["parse", "close", "parse", "close", b"POST / HTTP/1.1\r\n", "parse",
                                  b"Transfer-Encoding: chunked\r\n\r\n", "parse", b"2\r\nok\r\n", "parse", b"0\r\n\r\n", "parse"],
                          [{"body": h(b"ok"), "trails": []}]))
    out.append(_hist_case("resp", [b"HTTP/1.0 200 OK\r\n\r\nabc", "parse", b"def", "close", "parse"], [{"body": h(b"abcdef")}]))
    out.append(_hist_case("resp", [b"HTTP/1.1 200 OK\r\nContent-Length: 6\r\n\r\nabc", "parse", "close", b"def", "parse"], [{"body": h(b"abcdef")}]))
    out.append(_hist_case("req", [b"PUT / HTTP/1.1\r\nContent-Length: 6\r\n\r\nabc", "parse", "close", "parse"], None))
    out.append(_hist_case("resp", [b"HTTP/1.1 200 OK\r\nContent-Length: 6\r\n\r\nabc", "parse", "close", "parse", "parse"], None))
    out.append(_hist_case("resp", [b"HTTP/1.1 100 Continue\r\n\r\n", "parse", "close", "parse"], None))
    spec = {"chunks": [{"hex": h(b"5"), "ext": [[h(b"a"), h(b"b"), None], [h(b"n"), None, None]], "data": h(b"he\r\nl")},
                       {"hex": h(b"00A"), "ext": [], "data": h(b"0123456789")}],
            "zeros": h(b"0"), "lastext": [[h(b"z"), h(b"1"), None]],
            "trailers": [[h(b"X-T"), h(b"v")], [h(b"x-t"), h(b"w")], [h(b"Y"), h(b"")]], "tail": h(b"zz")}
    w = build_wire(spec)
    out.append({"kind": "wf", "spec": spec, "reads": [h(w)]})
    out.append({"kind": "wf", "spec": spec, "reads": [h(bytes([x])) for x in w]})
    out.append({"kind": "wf", "spec": spec, "reads": [h(x) for x in cut(w, interesting_cuts(w))]})
    for sz in BAD_SIZES:
        out.append({"kind": "badsize", "reads": [h(sz + b"\r\nhelloworldhelloworld\r\n0\r\n\r\n")]})
    for sz in OK_SIZES:
        n = int(sz.split(b";")[0].strip(), 16)
        out.append({"kind": "oksize", "reads": [h(sz + b"\r\n" + b"helloworldhelloworldhelloworld-."[:n] + b"\r\n0\r\n\r\n")]})
    out.append({"kind": "badend", "reads": [h(b"3\r\nabcd\r\n0\r\n\r\n")]})
    out.append({"kind": "badend", "reads": [h(b"3\r\nabc"), h(b"\r"), h(b"X\r\n")]})
    out.append({"kind": "trailer", "reads": [h(b"0\r\nbad\r\n\r\n")]})
    out.append({"kind": "trailer", "reads": [h(b"0\r\na: 1\nB: 2\r\nA: 3\n\n"), h(b"rest")]})
    out.append({"kind": "noise", "reads": [h(b"5;;a = b ; c;=d\r\nhello\r\n"), h(b"0;\r\n\r\n")]})
    out.append({"kind": "noise", "reads": [h(b"5\r\nhel"), h(b"lo"), h(b"\r"), h(b"\n0\r"), h(b"\n\r"), h(b"\n")]})
    out.append({"kind": "noise", "reads": [h(b""), h(b"1\r\na\r\n"), h(b"")]})
    # too many trailers (101 distinct names)
    out.append({"kind": "trailer", "reads": [h(b"0\r\n" + b"".join(b"k%d: v\r\n" % i for i in range(101)) + b"\r\n")]})
    out.append({"kind": "trailer", "reads": [h(b"0\r\n" + b"".join(b"k%d: v\r\n" % i for i in range(100)) + b"\r\n")]})
    return out


def generate(rng, tier):
    n_wf, n_mal = (500, 350) if tier == "quick" else (5000, 3000)
    out = []
    for _ in range(n_wf):
        spec = _rand_spec(rng)
        w = build_wire(spec)
        out.append({"kind": "wf", "spec": spec, "reads": [h(x) for x in cut(w, _rand_cuts(rng, w))]})
    for _ in range(n_mal):
        out.append(_mal_case(rng))
    for _ in range(250 if tier == "quick" else 2500):
        out.append(_gen_hist(rng))
    for _ in range(120 if tier == "quick" else 1200):
        out.append(_gen_hist_idle(rng))
    return out


# ----------------------------------------------------------------------------- implementation

def run_reads(reads):
    from hio.core.http import httping
    raw = bytearray()
    gen = httping.parseChunk(raw)
    chunks, err, done = [], None, False
    for frag in reads:
        raw.extend(frag)
        if err is not None or done:
            continue
        while True:
            try:
                r = next(gen)
            except Exception as ex:  # noqa
                err = exn_kind(ex)
                break
            if r is None:
                break
            size, parms, trails, chunk = r
            chunks.append({"size": size,
                           "parms": [[h(k), None if v is None else h(v)] for k, v in parms.items()],
                           "trails": [[h(k.lower().encode("iso-8859-1")), h(v.encode("iso-8859-1"))] for k, v in trails.items()],
                           "data": h(chunk)})
            if size == 0:
                done = True
                break
            gen = httping.parseChunk(raw)
    return {"chunks": chunks, "err": err, "done": done, "left": h(raw)}


class _Remoter:
    tymeout = 5.0


def run_hist(who, ops):
    """the real Requestant / Respondent; parse = step until it yields None (three times, so that a closure test that
    sits behind a yield is reached), makeParser() after every ended message"""
    from hio.core.http import serving, clienting
    from harness.drivers import c13
    if who == "req":
        p = serving.Requestant(msg=bytearray(), remoter=_Remoter())
    else:
        p = clienting.Respondent(msg=bytearray(), method="GET")
    msgs, err, errtext = [], None, None

    def pump():
        nonlocal err, errtext
        while err is None:
            try:
                p.parse()
            except Exception as ex:  # noqa
                err, errtext = exn_kind(ex), f"{type(ex).__name__}: {ex}"
                return
            if p.parser is not None:
                return
            if p.errored:
                err, errtext = "HTTPExc", p.error
                return
            msgs.append(c13._snapshot(who, p))
            p.makeParser()

    buf = p.msg          # the caller's receive buffer: what it extends when bytes arrive
    for op in ops:
        if op[0] == "data":
            buf.extend(unh(op[1]))
        elif op[0] == "close":
            p.close()
        elif op[0] == "rebind":
            # a new receive buffer (empty or already holding bytes) handed over through the public API
            buf = bytearray(unh(op[2]))
            if err is None:
                if op[1] == "make":
                    p.makeParser(msg=buf)
                else:
                    p.reinit(msg=buf)
        else:
            pump(); pump(); pump()
    return {"msgs": msgs, "err": err, "errtext": errtext, "left": h(buf)}


def run_impl(case):
    if case["kind"] == "hist":
        return run_hist(case["who"], case["ops"])
    return run_reads([unh(x) for x in case["reads"]])


# ----------------------------------------------------------------------------- oracle

def expected(spec):
    """what the receiver must deliver for a well-formed spec, by the definition of the coding"""
    chunks = []
    for c in spec["chunks"]:
        chunks.append({"size": len(unh(c["data"])), "parms": _dict_items(c["ext"]), "trails": [], "data": c["data"]})
    tr = {}
    for k, v in spec["trailers"]:
        lk = unh(k).decode("iso-8859-1").lower()
        tr[lk] = unh(v)
    chunks.append({"size": 0, "parms": _dict_items(spec["lastext"]),
                   "trails": [[h(k.encode("iso-8859-1")), h(v)] for k, v in tr.items()], "data": ""})
    return chunks


def _dict_items(exts):
    d = {}
    for n, v, _ in exts:
        d[n] = v if v else None
    return [[k, v] for k, v in d.items()]


def strict_hex(field):
    f = field.strip(b" \t")
    return len(f) > 0 and all(c in HEXD for c in f)


def first_size_field(wire):
    """the size field of the first chunk-size line of a wire that starts at a chunk boundary"""
    i = wire.find(b"\r\n")
    if i < 0:
        return None
    return wire[:i].split(b";")[0]


def oracle_hist(case, obs):
    exp = case.get("expect")
    if exp is None:
        return None
    # every byte was buffered before the last parse: closure must not have changed what is decoded
    if obs["err"] is not None:
        return f"fully buffered message rejected ({obs['errtext']}) in a history with close()"
    if len(obs["msgs"]) != len(exp):
        return f"{len(exp)} complete message(s) buffered, {len(obs['msgs'])} decoded; left in buffer: {obs['left'][:80]}"
    for i, (m, e) in enumerate(zip(obs["msgs"], exp)):
        if m["body"] != e["body"]:
            return (f"message {i}: body decoded as {len(m['body']) // 2} bytes {m['body'][:60]}, sent "
                    f"{len(e['body']) // 2} bytes {e['body'][:60]}; left in buffer: {obs['left'][:80]}")
        if "trails" in e and (m["trails"] or []) != e["trails"]:
            return f"message {i}: trailers {m['trails']} but {e['trails']} were sent"
    if obs["left"] != "":
        return f"undecoded bytes left in the buffer: {obs['left'][:80]}"
    return None


def oracle(case, obs):
    if case["kind"] == "hist":
        return oracle_hist(case, obs)
    reads = [unh(x) for x in case["reads"]]
    wire = b"".join(reads)
    whole = run_reads([wire])
    if whole != obs and not (whole["err"] and obs["err"] == whole["err"] and whole["chunks"] == obs["chunks"]):
        return f"result depends on fragmentation: split {obs} vs whole {whole}"
    if case["kind"] == "wf":
        exp = expected(case["spec"])
        if obs["err"] is not None or not obs["done"]:
            return f"well-formed chunked body not decoded: err={obs['err']} done={obs['done']}"
        # an empty extension name (";;", "5;") is not a chunk-ext-name; the oracle ignores those entries
        got = [dict(c, parms=[kv for kv in c["parms"] if kv[0] != ""]) for c in obs["chunks"]]
        exp = [dict(c, parms=[kv for kv in c["parms"] if kv[0] != ""]) for c in exp]
        if got != exp:
            return f"decoded {got} but {exp} was sent"
        if obs["left"] != case["spec"].get("tail", ""):
            return f"bytes after the chunked body changed: {obs['left']}"
        body = "".join(c["data"] for c in obs["chunks"])
        if body != "".join(c["data"] for c in case["spec"]["chunks"]):
            return "body differs"
    # strictness: walk the wire chunk by chunk with the reference reading of the grammar
    pos, k = 0, 0
    while True:
        i = wire.find(b"\r\n", pos)
        if i < 0:
            break
        field = wire[pos:i].split(b";")[0]
        if i - pos > 65536:
            break
        if not strict_hex(field):
            # this line must be reported as an error; chunks before it are the only ones delivered
            if obs["err"] != "HTTPExc":
                return f"size field {field!r} is not 1*HEXDIG but was not rejected: {obs}"
            if len(obs["chunks"]) != k:
                return f"size field {field!r} rejected but {len(obs['chunks'])} chunks delivered, expected {k}"
            break
        n = int(field.strip(b" \t"), 16)
        if n == 0:
            break
        if len(wire) < i + 2 + n + 2:
            break
        if wire[i + 2 + n:i + 4 + n] != b"\r\n":
            if wire.find(b"\r\n", i + 2 + n) >= 0 and obs["err"] != "HTTPExc":
                return f"chunk data not followed by CRLF but no error: {obs}"
            break
        if k >= len(obs["chunks"]) or obs["chunks"][k]["size"] != n or obs["chunks"][k]["data"] != h(wire[i + 2:i + 2 + n]):
            return f"chunk {k} of size {n} decoded as {obs['chunks'][k] if k < len(obs['chunks']) else None}"
        pos, k = i + 4 + n, k + 1
    return None


# ----------------------------------------------------------------------------- Gallina

def coq_hexbytes(s):
    """bytes literal; runs of >= 200 equal bytes are written as HttpLine.rep_byte (no huge list literals)"""
    b = unh(s)
    if len(b) < 2000:
        return coq_bytes(b)
    parts, i, lit = [], 0, bytearray()
    while i < len(b):
        j = i
        while j < len(b) and b[j] == b[i]:
            j += 1
        if j - i >= 200:
            if lit:
                parts.append(coq_bytes(bytes(lit))); lit = bytearray()
            parts.append(f"(HttpLine.rep_byte {b[i]}%N {j - i}%N)")
        else:
            lit += b[i:j]
        i = j
    if lit:
        parts.append(coq_bytes(bytes(lit)))
    return "(" + " ++ ".join(parts) + ")"


def coq_parms(p):
    return coq_list([f"({coq_hexbytes(k)}, {coq_option(v, coq_hexbytes, 'bytes')})" for k, v in p], "bytes * option bytes")


def coq_headers(hs):
    return coq_list([f"({coq_hexbytes(k)}, {coq_hexbytes(v)})" for k, v in hs], "bytes * bytes")


def coq_chunk(c):
    return ("{| Chunk.k_size := %s; Chunk.k_parms := %s; Chunk.k_trails := %s; Chunk.k_data := %s |}" % (
        coq_N(c["size"]), coq_parms(c["parms"]), coq_headers(c["trails"]), coq_hexbytes(c["data"])))


def _coq_op(op):
    if op[0] == "data":
        return f"(HttpMsg.OData {coq_hexbytes(op[1])})"
    if op[0] == "rebind":
        return f"(HttpMsg.ORebind {coq_bool(op[1] == 'make')} {coq_hexbytes(op[2])})"
    return "HttpMsg.OClose" if op[0] == "close" else "HttpMsg.OParse"


def to_coq(case, obs):
    if case["kind"] == "hist":
        from harness.drivers import c13
        return ("(HttpMsg.KHist {| HttpMsg.h_kind := %s; HttpMsg.h_ops := %s; HttpMsg.h_msgs := %s; HttpMsg.h_err := %s; "
                "HttpMsg.h_left := %s |})" % (
                    c13._kind(case["who"]), coq_list([_coq_op(o) for o in case["ops"]], "HttpMsg.op"),
                    coq_list([c13.coq_omsg(m) for m in obs["msgs"]], "HttpMsg.omsg"),
                    coq_option(obs["err"], lambda x: x, "exn"), coq_hexbytes(obs["left"] if obs["err"] is None else "")))
    return "(HttpMsg.KChunk %s)" % _to_coq_chunk(case, obs)


def _to_coq_chunk(case, obs):
    return ("{| Chunk.c_reads := %s; Chunk.c_chunks := %s; Chunk.c_err := %s; Chunk.c_done := %s; Chunk.c_left := %s |}" % (
        coq_list([coq_hexbytes(x) for x in case["reads"]], "bytes"),
        coq_list([coq_chunk(c) for c in obs["chunks"]], "Chunk.chunk"),
        coq_option(obs["err"], lambda s: s, "exn"), coq_bool(obs["done"]),
        coq_hexbytes(obs["left"] if obs["err"] is None else "")))


def nontrivial(case, obs):
    if case["kind"] == "hist":
        ops = case["ops"]
        if ["close"] not in ops or not obs.get("msgs"):
            return False
        i = ops.index(["close"])
        return any(o == ["parse"] for o in ops[:i]) and len(obs["msgs"][0]["body"]) > 0
    if case["kind"] == "wf":
        s = case["spec"]
        return len(s["chunks"]) >= 2 and (any(c["ext"] for c in s["chunks"]) or bool(s["trailers"]) or bool(s["lastext"]))
    wire = b"".join(unh(x) for x in case["reads"])
    f = first_size_field(wire)
    return f is not None and not strict_hex(f)


def classify(case, obs, why):
    return None


def shrink(case):
    if case["kind"] == "hist":
        ops = case["ops"]
        for i in range(len(ops) - 1):
            if ops[i][0] == "data" and ops[i + 1][0] == "data":
                yield dict(case, ops=ops[:i] + [["data", ops[i][1] + ops[i + 1][1]]] + ops[i + 2:])
        return
    reads = case["reads"]
    if len(reads) > 1:
        yield dict(case, reads=["".join(reads)])
        for i in range(len(reads) - 1):
            yield dict(case, reads=reads[:i] + [reads[i] + reads[i + 1]] + reads[i + 2:])


def distribution(cases, obs):
    kinds = {}
    for c in cases:
        kinds[c.get("kind", "?")] = kinds.get(c.get("kind", "?"), 0) + 1
    nreads = sorted(len(c["reads"]) if "reads" in c else len(c["ops"]) for c in cases)
    return {"kinds": kinds, "reads_median": nreads[len(nreads) // 2], "reads_max": nreads[-1],
            "errors": sum(1 for o in obs if isinstance(o, dict) and o.get("err"))}


def extra(tier, ctx):
    """Exhaustive sweep of every size field of length <= 3 (thorough: <= 4 over a reduced alphabet) over the
    characters that int(x, 16) treats specially, directly against parseChunk: accepted iff 1*HEXDIG after
    blank-stripping, and then with the positional value."""
    import itertools
    alphabet = b"0159aAfFgG+-_xX \t\n.eL"
    maxlen = 3 if tier == "quick" else 4
    n = 0
    data = bytes(range(48, 48 + 64)) * 1024
    for L in range(0, maxlen + 1):
        for t in itertools.product(alphabet, repeat=L):
            f = bytes(t)
            if b"\n" in f and b"\r\n" in f:
                continue
            n += 1
            ok = strict_hex(f)
            val = int(f.strip(b" \t"), 16) if ok else None
            wire = f + b"\r\n" + (data[:val] + b"\r\n" if val else b"\r\n")
            o = run_reads([wire])
            if ok:
                good = o["err"] is None and len(o["chunks"]) == 1 and o["chunks"][0]["size"] == val
            else:
                good = o["err"] == "HTTPExc" and not o["chunks"]
            if not good:
                ctx.violations.append({"kind": "oracle", "why": f"size field {f!r}: strict_hex={ok} but parseChunk gave {o if len(str(o)) < 300 else o['err']}",
                                       "case": {"kind": "badsize", "reads": [h(wire)]}})
                if len(ctx.violations) > 3:
                    return {"size_fields_swept": n}
    return {"size_fields_swept": n, "size_field_sweep": f"all strings of length <= {maxlen} over {alphabet!r}"}
