(* Composition: grams built by rend's gram_of, delivered as datagrams in any
   order with duplicates and interleaving, then one greedy service. *)
From Hio Require Import Base.Prelude Model.B64 Model.MemoGram Model.MemoRx
  Proofs.MemoRxProofs Proofs.MemoFuseProofs Proofs.MemoCodecProofs Proofs.MemoCodecB2Proofs Proofs.MemoRendProofs.
Local Open Scope N_scope.

(* a memo as the sender segments it: parameters, source, the gram bodies *)
Record msg := { g_p : rparams; g_src : N; g_bodies : list bytes }.

Definition g_mid (m : msg) : bytes := r_mid (g_p m).
Definition g_code (m : msg) : code := r_code (g_p m).
Definition g_signed (m : msg) : bool := auth (g_code m).
Definition g_vid (m : msg) : bytes := r_vid (g_p m).
Definition g_vidopt (m : msg) : option bytes := if g_signed m then Some (g_vid m) else None.
Definition g_count (m : msg) : N := N.of_nat (length (g_bodies m)).

Lemma zero_code_facts : forall c, kind_of c = KZero ->
  kind_of (pair_of c) = KGram /\ auth (pair_of c) = auth c /\ vz (pair_of c) = 0%nat /\
  Nat.ltb 0 (vz c) = auth c.
Proof. intros [] H; try discriminate; repeat split; reflexivity. Qed.

Section Compose.
  Variable verify : bytes -> bytes -> bytes -> res unit.
  Variable sign : bytes -> bytes -> bytes.
  Variable authic : bool.
  Variable ms : list msg.

  Definition msg_ok (m : msg) : Prop :=
    kind_of (g_code m) = KZero /\
    length (g_mid m) = 24%nat /\ is_b64 (g_mid m) = true /\
    (g_signed m = true -> length (g_vid m) = 44%nat /\ is_b64 (g_vid m) = true) /\
    (g_signed m = true -> codec_premises verify sign (g_vid m)) /\
    (authic = true -> g_signed m = true) /\
    g_count m < 16777216.

  Hypothesis all_ok : forall j m, nth_error ms j = Some m -> msg_ok m.
  Hypothesis distinct_mids : forall j j' m m', nth_error ms j = Some m -> nth_error ms j' = Some m' ->
    g_mid m = g_mid m' -> j = j'.

  (* gram i of message m, exactly as rend builds it *)
  Definition gram (m : msg) (i : nat) : bytes :=
    match i with
    | O => gram_of sign (g_p m) (g_code m) (g_count m) (Nat.ltb 0 (vz (g_code m))) (nth 0 (g_bodies m) [])
    | _ => gram_of sign (g_p m) (pair_of (g_code m)) (N.of_nat i) false (nth i (g_bodies m) [])
    end.

  (* what pick returns for it *)
  Definition xp (m : msg) (i : nat) : picked :=
    {| p_mid := g_mid m; p_vid := g_vidopt m; p_gn := N.of_nat i;
       p_gc := match i with O => Some (g_count m) | _ => None end;
       p_body := nth i (g_bodies m) [] |}.

  Lemma gram_of_params : forall p c n w b,
    gram_of sign p c n w b =
    gram_of sign {| r_code := c; r_curt := r_curt p; r_size := 0; r_mid := r_mid p; r_vid := r_vid p |} c n w b.
  Proof. intros [] c n w b. reflexivity. Qed.

  Lemma codec_any : forall vids c n p body,
    (auth c = true -> codec_premises verify sign (r_vid p)) ->
    kind_of c <> KAck -> (authic = true -> auth c = true) ->
    n < 16777216 -> length (r_mid p) = 24%nat -> is_b64 (r_mid p) = true ->
    (auth c = true -> length (r_vid p) = 44%nat /\ is_b64 (r_vid p) = true) ->
    (kind_of c = KGram -> vids (r_mid p) = (if auth c then r_vid p else vids (r_mid p))) ->
    pick verify authic vids (gram_of sign p c n (Nat.ltb 0 (vz c)) body) =
    Ok {| p_mid := r_mid p;
          p_vid := (match kind_of c with
                    | KZero => if Nat.ltb 0 (vz c) then Some (r_vid p) else None
                    | _ => vid_opt (vids (r_mid p)) end);
          p_gn := (match kind_of c with KZero => 0 | _ => n end);
          p_gc := (match kind_of c with KZero => Some n | _ => None end);
          p_body := body |}.
  Proof.
    intros vids c n p body Hp Hk Ha Hn Lm Bm Hv Hvm. rewrite gram_of_params.
    destruct (r_curt p); [apply codec_b2|apply codec_b64]; assumption.
  Qed.

  (* pick of gram i of m in a state whose vid for m's id is right *)
  Lemma pick_gram : forall m i vids, msg_ok m -> (i < length (g_bodies m))%nat ->
    (i <> O -> vids (g_mid m) = (if g_signed m then g_vid m else [])) ->
    pick verify authic vids (gram m i) = Ok (xp m i).
  Proof.
    intros m i vids (Kz & Lm & Bm & Hv & Hp & Ha & Hc) Hi Hvids.
    destruct (zero_code_facts _ Kz) as (Kg & Ap & Vp & Za).
    assert (Hn : N.of_nat i < 16777216) by (unfold g_count in Hc; lia).
    destruct i as [|i].
    - unfold gram. rewrite codec_any; auto.
      + unfold xp, g_vidopt, g_signed, g_mid, g_vid. rewrite Kz, Za. reflexivity.
      + rewrite Kz. discriminate.
      + rewrite Kz. discriminate.
    - unfold gram. replace false with (Nat.ltb 0 (vz (pair_of (g_code m)))) by (rewrite Vp; reflexivity).
      specialize (Hvids ltac:(discriminate)).
      rewrite codec_any; auto.
      + unfold xp, g_vidopt, g_signed, g_mid, g_vid in *. rewrite Kg. fold (g_mid m). unfold g_mid. rewrite Hvids.
        destruct (auth (g_code m)) eqn:A; [|reflexivity].
        destruct (Hv eq_refl) as [L44 _]. destruct (r_vid (g_p m)); [discriminate|reflexivity].
      + rewrite Ap. exact Hp.
      + rewrite Kg. discriminate.
      + rewrite Ap. exact Ha.
      + rewrite Ap. exact Hv.
      + intros _. rewrite Ap. unfold g_mid, g_signed, g_vid in *. rewrite Hvids.
        destruct (auth (g_code m)); reflexivity.
  Qed.

  (* a schedule: (message index, gram index) *)
  Definition valid (x : nat * nat) : Prop :=
    exists m, nth_error ms (fst x) = Some m /\ (snd x < length (g_bodies m))%nat.

  Definition dummy : picked := {| p_mid := []; p_vid := None; p_gn := 0; p_gc := None; p_body := [] |}.
  Definition dgram_of (x : nat * nat) : bytes * N :=
    match nth_error ms (fst x) with Some m => (gram m (snd x), g_src m) | None => ([], 0) end.
  Definition pick_of (x : nat * nat) : picked * N :=
    match nth_error ms (fst x) with Some m => (xp m (snd x), g_src m) | None => (dummy, 0) end.

  (* D23a excluded: a non-zeroth gram of a signed message comes after a copy of its zeroth gram *)
  Definition zeroth_first (pre : list (nat * nat)) (x : nat * nat) : Prop :=
    forall m, nth_error ms (fst x) = Some m -> g_signed m = true -> snd x <> O -> In (fst x, O) pre.

  Fixpoint ordered (pre s : list (nat * nat)) : Prop :=
    match s with
    | [] => True
    | x :: s' => zeroth_first pre x /\ ordered (pre ++ [x]) s'
    end.

  (* the vid recorded for m's id after any prefix of valid picks *)
  Lemma first_pick_mid : forall pre j m, nth_error ms j = Some m -> Forall valid pre ->
    match first_pick (map pick_of pre) (g_mid m) with
    | Some (p, sr) => p_vid p = g_vidopt m /\ sr = g_src m /\ exists i, In (j, i) pre
    | None => forall i, ~ In (j, i) pre
    end.
  Proof.
    induction pre as [|[j' i'] pre IH]; intros j m Hm Hv; cbn [map first_pick]; [intros i []|].
    inversion Hv as [|? ? (m' & Hm' & Hi') Hv']; subst. cbn [fst snd] in *.
    unfold pick_of at 1. cbn [fst snd]. rewrite Hm'. cbn [xp p_mid].
    destruct (bytes_eqb (g_mid m') (g_mid m)) eqn:E.
    - apply bytes_eqb_eq in E. assert (j' = j) by (eapply distinct_mids; eauto). subst j'.
      rewrite Hm in Hm'. inversion Hm'; subst m'. split; [reflexivity|]. split; [reflexivity|]. exists i'. left. reflexivity.
    - specialize (IH j m Hm Hv'). destruct (first_pick (map pick_of pre) (g_mid m)) as [[p s]|].
      + destruct IH as (A & A2 & i & B). split; [exact A|]. split; [exact A2|]. exists i. right. exact B.
      + intros i [C|C]; [|exact (IH i C)]. inversion C; subst. rewrite Hm in Hm'. inversion Hm'; subst.
        rewrite bytes_eqb_refl in E. discriminate.
  Qed.

  Lemma vids_after : forall pre j m, nth_error ms j = Some m -> Forall valid pre ->
    (exists i, In (j, i) pre) \/ g_signed m = false ->
    vids_of (feed [] (map pick_of pre)) (g_mid m) = (if g_signed m then g_vid m else []).
  Proof.
    intros pre j m Hm Hv Hin. unfold vids_of.
    pose proof (feed_spec (map pick_of pre) (g_mid m)) as S.
    pose proof (first_pick_mid pre j m Hm Hv) as F.
    destruct (find_entry (g_mid m) (feed [] (map pick_of pre))) as [e|].
    - destruct S as (_ & _ & _ & (p & s & P & V & _) & _). rewrite P in F. destruct F as [F _].
      rewrite V, F. unfold g_vidopt. destruct (g_signed m); reflexivity.
    - rewrite S in F. destruct Hin as [[i Hi]|Hs]; [exfalso; exact (F i Hi)|]. rewrite Hs. reflexivity.
  Qed.

  (* every scheduled datagram is accepted with the expected parse *)
  Lemma receives_sched : forall s pre, Forall valid pre -> Forall valid s -> ordered pre s ->
    receives verify authic (feed [] (map pick_of pre)) (map dgram_of s) =
    (feed [] (map pick_of (pre ++ s)), [], None).
  Proof.
    induction s as [|[j i] s IH]; intros pre Hpre Hs Ho; cbn [map receives].
    - rewrite app_nil_r. reflexivity.
    - inversion Hs as [|? ? (m & Hm & Hi) Hs']; subst. cbn [fst snd] in *.
      destruct Ho as [Hz Ho].
      unfold dgram_of at 1. cbn [fst snd]. rewrite Hm.
      assert (P : pick verify authic (vids_of (feed [] (map pick_of pre))) (gram m i) = Ok (xp m i)).
      { apply pick_gram; [eapply all_ok; eauto|exact Hi|]. intros Hne.
        apply (vids_after pre j m Hm Hpre).
        destruct (g_signed m) eqn:Sg; [left|right; reflexivity].
        exists O. apply (Hz m Hm Sg Hne). }
      assert (Gne : gram m i <> []).
      { intros C. rewrite C in P. discriminate. }
      destruct (gram m i) as [|b0 g0] eqn:G; [contradiction|].
      unfold receive_one. rewrite P.
      assert (St : store (feed [] (map pick_of pre)) (xp m i) (g_src m) = feed [] (map pick_of (pre ++ [(j, i)]))).
      { unfold feed. rewrite map_app, fold_left_app. cbn [map fold_left].
        replace (pick_of (j, i)) with (xp m i, g_src m) by (unfold pick_of; cbn [fst snd]; rewrite Hm; reflexivity).
        reflexivity. }
      rewrite St. rewrite IH; [rewrite <- app_assoc; reflexivity| |exact Hs'|exact Ho].
      apply Forall_app. split; [exact Hpre|]. constructor; [exists m; auto|constructor].
  Qed.

  (* ---- what the storage sees of message m ---- *)
  Lemma first_body_sched : forall s j m i, nth_error ms j = Some m -> Forall valid s ->
    first_body (map pick_of s) (g_mid m) (N.of_nat i) =
    if existsb (fun x => Nat.eqb (fst x) j && Nat.eqb (snd x) i) s then Some (nth i (g_bodies m) []) else None.
  Proof.
    induction s as [|[j' i'] s IH]; intros j m i Hm Hv; cbn [map first_body existsb]; [reflexivity|].
    inversion Hv as [|? ? (m' & Hm' & Hi') Hv']; subst. cbn [fst snd] in *.
    unfold pick_of at 1. cbn [fst snd]. rewrite Hm'. cbn [xp p_mid p_gn p_body].
    destruct (bytes_eqb (g_mid m') (g_mid m)) eqn:E.
    - apply bytes_eqb_eq in E. assert (j' = j) by (eapply distinct_mids; eauto). subst j'.
      rewrite Hm in Hm'. inversion Hm'; subst m'. rewrite Nat.eqb_refl. cbn [andb].
      destruct (Nat.eqb i' i) eqn:Ei.
      + apply Nat.eqb_eq in Ei. subst i'. rewrite N.eqb_refl. reflexivity.
      + assert ((N.of_nat i' =? N.of_nat i) = false) by (apply N.eqb_neq; apply Nat.eqb_neq in Ei; lia).
        rewrite H. apply IH; assumption.
    - cbn [andb]. destruct (Nat.eqb j' j) eqn:Ej.
      + apply Nat.eqb_eq in Ej. subst j'. rewrite Hm in Hm'. inversion Hm'; subst. rewrite bytes_eqb_refl in E. discriminate.
      + cbn [andb]. apply IH; assumption.
  Qed.

  Lemma first_count_sched : forall s j m, nth_error ms j = Some m -> Forall valid s ->
    first_count (map pick_of s) (g_mid m) =
    if existsb (fun x => Nat.eqb (fst x) j && Nat.eqb (snd x) 0) s then Some (g_count m) else None.
  Proof.
    induction s as [|[j' i'] s IH]; intros j m Hm Hv; cbn [map first_count existsb]; [reflexivity|].
    inversion Hv as [|? ? (m' & Hm' & Hi') Hv']; subst. cbn [fst snd] in *.
    unfold pick_of at 1. cbn [fst snd]. rewrite Hm'. cbn [xp p_mid p_gc].
    destruct (bytes_eqb (g_mid m') (g_mid m)) eqn:E.
    - apply bytes_eqb_eq in E. assert (j' = j) by (eapply distinct_mids; eauto). subst j'.
      rewrite Hm in Hm'. inversion Hm'; subst m'. rewrite Nat.eqb_refl. cbn [andb].
      destruct i' as [|i']; [reflexivity|]. cbn [Nat.eqb]. apply IH; assumption.
    - destruct (Nat.eqb j' j) eqn:Ej.
      + apply Nat.eqb_eq in Ej. subst j'. rewrite Hm in Hm'. inversion Hm'; subst. rewrite bytes_eqb_refl in E. discriminate.
      + cbn [andb]. apply IH; assumption.
  Qed.

  Lemma existsb_In : forall s j i,
    existsb (fun x => Nat.eqb (fst x) j && Nat.eqb (snd x) i) s = true <-> In (j, i) s.
  Proof.
    intros s j i. rewrite existsb_exists. split.
    - intros ([a b] & Hin & E). apply andb_prop in E. destruct E as [E1 E2].
      apply Nat.eqb_eq in E1. apply Nat.eqb_eq in E2. cbn in *. subst. exact Hin.
    - intros Hin. exists (j, i). split; [exact Hin|]. cbn. rewrite !Nat.eqb_refl. reflexivity.
  Qed.

  (* ---- the run: all datagrams of the schedule arrive, then one serviceAllRx ---- *)
  Definition ops_of (s : list (nat * nat)) : list op :=
    map (fun x => Dgram (fst (dgram_of x)) (snd (dgram_of x))) s ++ [SvcAllRx].

  Lemma run_dgrams : forall q st,
    run verify authic st (map (fun gs => Dgram (fst gs) (snd gs)) q) =
    ({| rxgs := rxgs st; queue := queue st ++ q; rxms := rxms st; inbox := inbox st |}, map (fun _ => None) q).
  Proof.
    induction q as [|[g src] q IH]; intros st; cbn [map run step].
    - rewrite app_nil_r. destruct st; reflexivity.
    - rewrite IH. cbn [rxgs queue rxms inbox fst snd]. rewrite <- app_assoc. reflexivity.
  Qed.

  Theorem run_sched : forall s, Forall valid s -> ordered [] s ->
    let l := map pick_of s in
    run verify authic init (ops_of s) =
    ({| rxgs := fst (rx_grams (feed [] l)); queue := []; rxms := [];
        inbox := flat_map deliverable (feed [] l) |},
     map (fun _ => None) s ++ [None]).
  Proof.
    intros s Hv Ho l. unfold ops_of.
    assert (R : forall a b st, run verify authic st (a ++ b) =
              let (s1, x1) := run verify authic st a in let (s2, x2) := run verify authic s1 b in (s2, x1 ++ x2)).
    { induction a as [|o a IH]; intros b st; cbn [app run].
      - destruct (run verify authic st b); reflexivity.
      - destruct (step verify authic st o) as [s0 x0]. rewrite IH.
        destruct (run verify authic s0 a) as [s1 x1]. destruct (run verify authic s1 b) as [s2 x2]. reflexivity. }
    rewrite R. rewrite <- (map_map dgram_of (fun gs => Dgram (fst gs) (snd gs))), run_dgrams.
    cbn [run step init rxgs queue rxms inbox app]. unfold do_receives. cbn [rxgs queue rxms inbox].
    pose proof (receives_sched s [] ltac:(constructor) Hv Ho) as RS.
    change (feed [] (map pick_of [])) with (@nil entry) in RS. cbn [app] in RS. rewrite RS.
    unfold do_rx_grams, do_rx_memos. cbn [rxgs queue rxms inbox].
    pose proof (rx_grams_delivers (feed [] l)) as D. fold l.
    destruct (rx_grams (feed [] l)) as [k d]. cbn [fst snd] in *. subst d.
    cbn [rxgs queue rxms inbox app]. rewrite map_map. reflexivity.
  Qed.

  (* a message all of whose grams are in the schedule is fused to its text, source and signer *)
  Theorem complete_delivered : forall s j m, nth_error ms j = Some m -> Forall valid s ->
    g_bodies m <> [] ->
    (forall i, (i < length (g_bodies m))%nat -> In (j, i) s) ->
    utf8_ok (concat (g_bodies m)) = true ->
    exists e, find_entry (g_mid m) (feed [] (map pick_of s)) = Some e /\
              deliverable e = [(concat (g_bodies m), g_src m, g_vidopt m)].
  Proof.
    intros s j m Hm Hv Hne Hall U. set (l := map pick_of s).
    pose proof (feed_spec l (g_mid m)) as S.
    pose proof (first_pick_mid s j m Hm Hv) as F. fold l in F.
    destruct (find_entry (g_mid m) (feed [] l)) as [e|] eqn:Fe.
    - exists e. split; [reflexivity|].
      assert (Fe' : find_entry (g_mid m) (feed [] l) = Some e) by exact Fe.
      assert (B : forall i, (i < length (g_bodies m))%nat ->
                  first_body l (g_mid m) (N.of_nat i) = Some (nth i (g_bodies m) [])).
      { intros i Hi. unfold l. rewrite (first_body_sched s j m i Hm Hv).
        rewrite (proj2 (existsb_In s j i) (Hall i Hi)). reflexivity. }
      assert (C : first_count l (g_mid m) = Some (N.of_nat (length (g_bodies m)))).
      { unfold l. rewrite (first_count_sched s j m Hm Hv).
        rewrite (proj2 (existsb_In s j 0%nat)); [reflexivity|]. apply Hall. destruct (g_bodies m); [contradiction|cbn; lia]. }
      destruct S as (_ & G & Cn & (p & sr & P & V & Sr) & ND).
      rewrite P in F. destruct F as (F1 & F2 & _).
      unfold deliverable. rewrite Cn, C, fuse_complete, U; [rewrite V, Sr, F1, F2; reflexivity|exact ND|].
      intros i Hi. rewrite G. apply B. exact Hi.
    - exfalso. rewrite S in F. apply (F 0%nat). apply Hall. destruct (g_bodies m); [contradiction|cbn; lia].
  Qed.

  (* a message with a gram that never arrives is not delivered *)
  Theorem incomplete_not_delivered : forall s j m i e, nth_error ms j = Some m -> Forall valid s ->
    (i < length (g_bodies m))%nat -> ~ In (j, i) s ->
    find_entry (g_mid m) (feed [] (map pick_of s)) = Some e -> deliverable e = [].
  Proof.
    intros s j m i e Hm Hv Hi Hn Fe. set (l := map pick_of s) in *.
    pose proof (feed_spec l (g_mid m)) as S. rewrite Fe in S.
    destruct S as (_ & G & Cn & _). unfold deliverable. rewrite Cn.
    unfold l. rewrite (first_count_sched s j m Hm Hv).
    destruct (existsb (fun x => Nat.eqb (fst x) j && Nat.eqb (snd x) 0) s); [|reflexivity].
    rewrite (fuse_incomplete (e_grams e) (g_count m) (N.of_nat i)); [reflexivity|unfold g_count; lia|].
    rewrite G. unfold l. rewrite (first_body_sched s j m i Hm Hv).
    destruct (existsb (fun x => Nat.eqb (fst x) j && Nat.eqb (snd x) i) s) eqn:E; [|reflexivity].
    apply existsb_In in E. contradiction.
  Qed.
End Compose.

(* one rx entry per memo id, whatever is fed *)
Lemma store_mids : forall es p src,
  map e_mid (store es p src) =
  if existsb (fun e => bytes_eqb (e_mid e) (p_mid p)) es then map e_mid es else map e_mid es ++ [p_mid p].
Proof.
  induction es as [|e es IH]; intros p src; cbn [store map existsb]; [reflexivity|].
  destruct (bytes_eqb (e_mid e) (p_mid p)) eqn:E; cbn [orb map].
  - reflexivity.
  - rewrite IH. destruct (existsb _ es); reflexivity.
Qed.

Lemma feed_nodup : forall l, NoDup (map e_mid (feed [] l)).
Proof.
  intros l. induction l as [|[p s] l IH] using rev_ind; [constructor|].
  unfold feed in *. rewrite fold_left_app. cbn [fold_left fst snd].
  set (es := fold_left (fun es ps => store es (fst ps) (snd ps)) l []) in *.
  rewrite store_mids. destruct (existsb (fun e => bytes_eqb (e_mid e) (p_mid p)) es) eqn:E; [exact IH|].
  apply NoDup_app_snoc; [exact IH|]. intros C. apply in_map_iff in C. destruct C as (e & Em & Hin).
  assert (existsb (fun e => bytes_eqb (e_mid e) (p_mid p)) es = true).
  { apply existsb_exists. exists e. split; [exact Hin|]. rewrite Em. apply bytes_eqb_refl. }
  congruence.
Qed.

(* ---- rend produces exactly the grams [gram m 0; gram m 1; ...] of its message ---- *)
Lemma map_nth_seq : forall A B (F : A -> B) d (l : list A) (h : nat -> B),
  (forall i, (i < length l)%nat -> h i = F (nth i l d)) -> map F l = map h (seq 0 (length l)).
Proof.
  intros A B F d. induction l as [|a l IH]; intros h H; [reflexivity|].
  cbn [map length seq]. rewrite (H 0%nat) by (cbn; lia). cbn [nth]. f_equal.
  rewrite <- seq_shift, map_map. apply IH. intros i Hi. apply (H (S i)). cbn. lia.
Qed.

Lemma nth_map_seq : forall (h : nat -> N) n i d, (i < n)%nat -> nth i (map h (seq 0 n)) d = h i.
Proof.
  intros h n i d Hi. rewrite (nth_indep _ d (h 0%nat)) by (rewrite map_length, seq_length; exact Hi).
  rewrite map_nth, seq_nth by exact Hi. reflexivity.
Qed.

Definition msg_of (p : rparams) (src : N) (memo : bytes) : msg :=
  {| g_p := p; g_src := src;
     g_bodies := firstn (zbz p) memo :: map snd (chunks (length memo) (nbz p) 1 (skipn (zbz p) memo)) |}.

Theorem rend_is_grams : forall sign p src memo grams,
  rend sign p memo = Ok grams -> memo <> [] ->
  let m := msg_of p src memo in
  grams = map (gram sign m) (seq 0 (length (g_bodies m))) /\ concat (g_bodies m) = memo /\ g_bodies m <> [].
Proof.
  intros sign p src memo grams H Hne m.
  destruct (rend_partition sign p memo grams H Hne) as (Hn & G & C & Nm & _).
  set (rest := chunks (length memo) (nbz p) 1 (skipn (zbz p) memo)) in *.
  split; [|split; [exact C|discriminate]].
  rewrite G. unfold m, msg_of. cbn [g_bodies length seq map]. fold rest. rewrite map_length.
  f_equal.
  - unfold gram, g_count, g_code. cbn [g_p g_bodies nth length]. fold rest. rewrite map_length. reflexivity.
  - rewrite <- seq_shift, map_map.
    apply (map_nth_seq _ _ _ (0, [])). intros i Hi.
    unfold gram, g_code. cbn [g_p g_bodies nth]. fold rest.
    assert (F : fst (nth i rest (0, [])) = N.of_nat (S i)).
    { pose proof (map_nth fst rest (0, @nil N) i) as E. cbn [fst] in E. rewrite <- E, Nm.
      rewrite nth_map_seq by exact Hi. lia. }
    f_equal; [symmetry; exact F|exact (map_nth snd rest (0, @nil N) i)].
Qed.
