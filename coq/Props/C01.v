(* C01 — every doer runs a well-formed lifecycle on every exit path.
   Model: Model/Sched.v (Doist/Doer/DoDoer of src/hio/base/doing.py as a fuelled
   interpreter over doer programs).  Proofs: Proofs/SchedFrame.v, SchedLife.v, SchedTop.v. *)
From Hio Require Import Base.Prelude Base.AMap Base.Time Model.Sched Proofs.SchedLife Proofs.SchedTop.

(* For every time type, every program (any forest of leaf doers of the three
   kinds and DoDoers, any scripts of yields / returns / raises / KeyboardInterrupts,
   any runtime extend/remove effects, any limit), and any budgets: the lifecycle
   events of every doer j, oldest first, are a sequence of complete lifecycles
       Enter Recur* (Clean | Cease | Abort) Exit
   (the terminal kind is missing only in the KeyboardInterrupt form, finding
   D40-kbd), followed — exactly when its generator is still suspended or
   executing — by one lifecycle in progress; nothing ever follows an Exit except
   a new Enter. *)
Theorem C01_lifecycles :
  forall (T : Type) (TT : Time T) (cycles fuel : nat) (p : prog T) (j : id),
    life_ok (get_gen (do_run cycles fuel p) j) (events j (do_run cycles fuel p)).
Proof. intros. apply do_run_lifecycles. Qed.
Print Assumptions C01_lifecycles.

(* The same invariant holds after every single scheduler operation, from any
   state satisfying it (not only at the end of a run): one-step form for the
   three generator operations. *)
Theorem C01_preserved_by_operations :
  forall (T : Type) (TT : Time T) (tk : T) (fuel : nat) (s : st T) (i : id),
    LInv s ->
    LInv (fst (gen_start tk fuel s i)) /\ LInv (fst (gen_send tk fuel s i)) /\ LInv (gen_close tk fuel s i).
Proof.
  intros T TT tk fuel s i L.
  destruct (linv_all tk fuel) as (Ist & _ & Isd & Icl & _).
  repeat split.
  - destruct (gen_start tk fuel s i) as [s' r] eqn:E. eapply Ist; eassumption.
  - destruct (gen_send tk fuel s i) as [s' r] eqn:E. eapply Isd; eassumption.
  - now apply Icl.
Qed.
Print Assumptions C01_preserved_by_operations.

(* NOT PROVED (checked on the implementation by the oracle of every run, and on
   the model by the correspondence): completeness — when do_run ends without
   running out of budget, no doer is left suspended, i.e. every started doer has
   exited before DoReturn/DoRaise.  It needs the second invariant of DESIGN §6
   (every suspended doer is held by exactly one reachable deque). *)

(* Non-vacuity: a forest with a nested DoDoer, a raise in the middle of a pass
   and doers alive on both sides of it. *)
Definition ex_prog : prog Z :=
  let Y := {| f_es := []; f_out := OYield None |} in
  let X := {| f_es := []; f_out := ORaise |} in
  {| p_tock := 1%Z; p_limit := None; p_tyme := 0%Z; p_doers := [1; 2; 5]%N;
     p_defs := [(1, FLeaf KFunc [Y; Y; Y; Y]); (2, FNest 0%Z false [3; 4]);
                (3, FLeaf KDoer [Y; Y; Y; Y]); (4, FLeaf KDoerGen [Y; Y; X]);
                (5, FLeaf KFunc [Y; Y; Y; Y])]%N |}.
Example C01_example :
  let s := do_run 10 100 ex_prog in
  oof s = false /\
  events 4%N s = [Enter; Recur; Recur; Abort; Exit] /\
  events 3%N s = [Enter; Recur; Recur; Cease; Exit] /\
  events 2%N s = [Enter; Recur; Recur; Abort; Exit] /\
  events 5%N s = [Enter; Recur; Cease; Exit] /\
  events 1%N s = [Enter; Recur; Recur; Cease; Exit].
Proof. vm_compute. repeat split. Qed.
