(* C27 — Name/address registry stays a one-to-one bijection.
   Statements only; proofs are in Proofs/NamerProofs.v. *)
From Hio Require Import Base.Prelude Base.AMap Model.Namer Proofs.NamerProofs.

(* For every operation sequence the two maps are exact inverses. *)
Theorem C27_inverse : forall ops n a,
  get (abn (final ops)) n = Some a <-> get (nba (final ops)) a = Some n.
Proof. exact final_inv. Qed.
Print Assumptions C27_inverse.

(* ... hence no two names share an address. *)
Theorem C27_injective : forall ops n1 n2 a,
  get (abn (final ops)) n1 = Some a -> get (abn (final ops)) n2 = Some a -> n1 = n2.
Proof. intros ops. exact (inv_injective _ (final_inv ops)). Qed.
Print Assumptions C27_injective.

(* A rejected or no-change operation leaves both mappings unchanged (in every
   state, reachable or not). *)
Theorem C27_unchanged : forall s o,
  o <> Clear ->
  (snd (step s o) = Ok false \/ exists k, snd (step s o) = Exc k) ->
  fst (step s o) = s.
Proof. exact step_unchanged. Qed.
Print Assumptions C27_unchanged.

(* Non-vacuity: a concrete history with conflicts, no-change and rejected ops. *)
Example C27_example :
  let ops := [Add 1 10; Add 2 20; Add 1 20; ChgAddr 1 30; ChgName 20 1; Rem 2 0; Add 0 5] in
  snd (run init ops) = [Ok true; Ok true; Exc NamerErr; Ok true; Exc NamerErr; Ok true; Exc NamerErr]
  /\ abn (final ops) = [(1, 30)]%N /\ nba (final ops) = [(30, 1)]%N.
Proof. vm_compute. repeat split. Qed.

(* The constructor Namer(entries=[(name, addr); ...]) is part of the histories: an object it returns, driven
   by any further operations, has inverse maps ... *)
Theorem C27_constructed_inverse : forall entries s0 ops n a,
  construct init entries = Ok s0 ->
  (get (abn (fst (run s0 ops))) n = Some a <-> get (nba (fst (run s0 ops))) a = Some n).
Proof. intros entries s0 ops n a E. exact (constructed_run_inv entries ops s0 E n a). Qed.
Print Assumptions C27_constructed_inverse.

(* ... it is exactly "add the entries one by one", raising at the first rejected one ... *)
Theorem C27_constructor_is_adds : forall entries s,
  construct s entries =
  let (s', rs) := run s (map (fun e => Add (fst e) (snd e)) entries) in
  match find (fun r => match r with Exc _ => true | Ok _ => false end) rs with
  | Some (Exc k) => Exc k
  | _ => Ok s'
  end.
Proof. exact construct_as_run. Qed.
Print Assumptions C27_constructor_is_adds.

(* ... and an entry whose address is already held by another name is rejected (the conflict that a bulk load
   written without addNameAddr would miss). *)
Theorem C27_add_conflicting_address_rejected : forall s n a n0,
  falsy n = false -> falsy a = false -> get (abn s) n = None -> get (nba s) a = Some n0 -> n0 <> n ->
  exists k, snd (add s n a) = Exc k.
Proof. exact add_conflict_addr. Qed.
Print Assumptions C27_add_conflicting_address_rejected.

Example C27_constructor_example :
  construct init [(1, 1); (2, 1)]%N = Exc NamerErr /\
  exists s, construct init [(1, 1); (2, 2); (1, 1)]%N = Ok s /\ get (nba s) 2%N = Some 2%N.
Proof. split; [reflexivity|]. eexists. split; reflexivity. Qed.
