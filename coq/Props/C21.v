(* C21 — Memo transmission loses no gram under transport backpressure.
   Statements only; proofs are in Proofs/MemoTxProofs.v.  The model
   (Model/MemoTx.v) is Memoer's transmit servicing over Peer.send as repaired by
   the two D24 fix commits.

   Vocabulary: [run init ks ops] executes the op sequence (gramit /
   serviceTxGrams / serviceTxGramsOnce / open-close) against the script [ks] of
   kernel sendto results (count, all, OSError errno), one result per send call.
   [accounted ev] is, in order, every byte (tagged with its destination) that a
   send call accepted ([Sent]) or that was discarded with a gram ([Drop]: the
   unreachable case, [Lost]: an unexpected errno escaped).  [pending_bytes s] is
   the unsent rest: .txbs remainder followed by .txgs.  [tags (queued ops)] is
   every queued gram, byte by byte, in queue order. *)
From Hio Require Import Base.Prelude Model.MemoTx Proofs.MemoTxProofs Proofs.MemoTxLiveProofs.

(* Conservation, for EVERY script (also unexpected errnos) and every op
   sequence: accepted-or-discarded bytes followed by the pending bytes are
   exactly the queued grams in queue order: nothing duplicated, nothing
   reordered, nothing vanishes unaccounted. *)
Theorem C21_conservation : forall ops ks s ks' ev xs,
  run init ks ops = (s, ks', ev, xs) ->
  accounted ev ++ pending_bytes s = tags (queued ops).
Proof. intros. apply run_conserve in H. exact H. Qed.
Print Assumptions C21_conservation.

(* Under backpressure and unreachable-peer errors only (every acceptance count
   0..len and beyond, would-block errnos, unreachable errnos; any sequence):
   no servicing call raises, no gram is lost, and a gram is discarded exactly
   once per unreachable error that the transport reported. *)
Theorem C21_drop_only_unreachable : forall ops ks s ks' ev xs,
  run init ks ops = (s, ks', ev, xs) ->
  forallb expected ks = true ->
  forallb quiet xs = true /\ filter is_lost ev = [] /\
  n_drop ev + n_unreach ks' = n_unreach ks.
Proof.
  intros ops ks s ks' ev xs H E. apply run_result in H. destruct H as (_ & H2 & H3).
  destruct (H3 E) as (_ & Hl & Hq). auto.
Qed.
Print Assumptions C21_drop_only_unreachable.

(* Hence with partial / zero acceptance only (no error at all beyond would-block)
   the bytes accepted by the transport, followed by what is still pending, are
   the queued grams in queue order. *)
Theorem C21_no_loss : forall ops ks s ks' ev xs,
  run init ks ops = (s, ks', ev, xs) ->
  forallb expected ks = true -> n_unreach ks = 0 ->
  wire ev ++ pending_bytes s = tags (queued ops).
Proof.
  intros ops ks s ks' ev xs H E U. pose proof (run_conserve _ _ _ _ _ _ _ H) as C.
  apply run_result in H. destruct H as (_ & H2 & H3). destruct (H3 E) as (_ & Hl & _).
  rewrite no_drop_wire; [exact C|exact Hl|lia].
Qed.
Print Assumptions C21_no_loss.

(* ... and per destination d: the byte stream accepted for d (plus discarded
   remainders) followed by the pending bytes for d is the concatenation of the
   grams queued for d, in queue order. *)
Theorem C21_per_destination : forall ops ks s ks' ev xs d,
  run init ks ops = (s, ks', ev, xs) ->
  stream d (accounted ev) ++ stream d (pending_bytes s) = grams_for d (queued ops).
Proof.
  intros. apply run_conserve in H. rewrite <- stream_app, <- stream_tags.
  f_equal. exact H.
Qed.
Print Assumptions C21_per_destination.

(* Eventual completion.  The script is an arbitrary finite prefix of kernel
   results (any acceptance counts, would-block and unreachable errors); after it
   the transport accepts.  If the peer is open after [ops], then more greedy
   service calls than there are unconsumed script entries leave nothing pending,
   and every queued byte has been accepted by the transport or discarded with an
   unreachable gram. *)
Theorem C21_completion : forall ops ks n s ks' ev xs,
  forallb expected ks = true ->
  (let '(s1, _, _, _) := run init ks ops in opened s1 = true) ->
  length ks < n ->
  run init ks (ops ++ repeat Service n) = (s, ks', ev, xs) ->
  pending s = false /\ accounted ev = tags (queued ops) /\
  forallb quiet xs = true /\ filter is_lost ev = [].
Proof.
  intros ops ks n s ks' ev xs E Ho Hn H.
  pose proof (run_conserve _ _ _ _ _ _ _ H) as C.
  pose proof (run_result _ _ _ _ _ _ _ H) as (_ & _ & R3). destruct (R3 E) as (_ & Hl & Hq).
  rewrite run_app in H.
  destruct (run init ks ops) as [[[s1 k1] e1] x1] eqn:R1.
  destruct (run s1 k1 (repeat Service n)) as [[[s2 k2] e2] x2] eqn:R2.
  inversion H; subst; clear H.
  assert (P : pending s = false).
  { eapply drain; [exact Ho| |exact R2]. apply run_length in R1. lia. }
  split; [exact P|]. split; [|auto].
  rewrite (idle_no_bytes _ P), app_nil_r, queued_app, queued_services, app_nil_r in C. exact C.
Qed.
Print Assumptions C21_completion.

(* Liveness without any default: for ANY script (acceptance counts incl. 0,
   would-block and unreachable errnos, in any order) of at most m entries that
   contains at least as many progressing results (a send that accepts >= 1 byte
   or all, or an unreachable report) as there is work pending (1 + unsent bytes
   per pending gram), m greedy service calls on an open peer leave nothing
   pending.  A transport that accepts >= 1 byte infinitely often supplies such
   a prefix for every state, so every queued gram is eventually sent in full
   (by C21_conservation: in order, exactly once) or dropped as unreachable. *)
Theorem C21_liveness : forall m ks s, opened s = true -> forallb expected ks = true ->
  (length ks <= m)%nat -> (units s <= cp ks)%nat ->
  forall s' ks' ev xs, run s ks (repeat Service m) = (s', ks', ev, xs) -> pending s' = false.
Proof. exact liveness. Qed.
Print Assumptions C21_liveness.

Example C21_liveness_example :
  let s := {| txgs := [([66;66;66]%N, 2%N)]; txbs := ([65;65]%N, Some 1%N); opened := true |} in
  let ks := [KAcc 0; KAcc 1; KErr EAGAIN; KAcc 1; KAcc 1; KAcc 0; KAcc 1; KErr ENOBUFS; KAcc 1; KAcc 1; KAcc 1] in
  forallb expected ks = true /\ units s = 7%nat /\ cp ks = 7%nat /\ length ks = 11%nat /\
  pending (fst (fst (fst (run s ks (repeat Service 11))))) = false /\
  sent_chunks (snd (fst (run s ks (repeat Service 11)))) =
    [(1, [65]); (1, [65]); (2, [66]); (2, [66]); (2, [66])]%N.
Proof. vm_compute. repeat split. Qed.

(* The loop bound used by the model is never the reason a run stops. *)
Theorem C21_fuel_adequate : forall ops ks s ks' ev xs,
  run init ks ops = (s, ks', ev, xs) -> ~ In (Some RuntimeErr) xs.
Proof. intros. apply run_result in H. tauto. Qed.
Print Assumptions C21_fuel_adequate.

(* Non-vacuity: two destinations, zero acceptance on a newly dequeued gram (the
   D24 witness), a would-block errno, a partial send, an unreachable drop of a
   remainder; the script satisfies [expected]; everything else arrives in order. *)
Example C21_example :
  let A := [65;65;65;65;65;65]%N in let B := [66;66;66;66]%N in let C := [67;67]%N in
  let ops := [Gramit A 1%N; Gramit B 2%N; Gramit C 1%N] ++ repeat Service 6 in
  let ks := [KAcc 0; KErr EAGAIN; KAcc 3; KAcc 1; KErr ECONNREFUSED] in
  forallb expected ks = true /\
  let '(s, _, ev, xs) := run init ks ops in
  pending s = false /\ forallb quiet xs = true /\
  sent_chunks ev = [(1, [65;65;65]); (1, [65]); (2, B); (1, C)]%N /\
  dropped ev = [([65;65]%N, 1%N)].
Proof. vm_compute. repeat split. Qed.
