(* C28 — registered data objects round-trip losslessly through JSON, CBOR and
   MessagePack.  Statements only; proofs are in Proofs/DomProofs.v.  The model
   (Model/Dom.v) is the tree after the D31 repair (postponed annotations are
   resolved).

   The full statement — every data object whose fields hold representable
   values, "including nested data objects" — is false of the code: a nested
   data object is rebuilt only when its field is annotated with exactly its
   class (open finding D31b).  C28_roundtrip_refuted gives the witness;
   C28_roundtrip proves the round trip for every schema, every codec that
   decodes its own encodings on the common domain, and every well-typed
   object: [fits S (TDom c) d] says that each dataclass-annotated field holds
   None or an instance of exactly that class (recursively well-typed) and
   every other field holds a value free of data objects — lists and dicts of
   any depth, ints, float bits, strings. *)
From Hio Require Import Base.Prelude Model.Dom Proofs.DomProofs.

(* datify inverts dictify on the well-typed objects (no codec involved). *)
Theorem C28_datify_dictify : forall S, schema_ok S ->
  forall d t, fits S t d -> datify S t (dictify d) = d.
Proof. exact datify_dictify. Qed.
Print Assumptions C28_datify_dictify.

(* from_x (as_x d) = d, same class, for JSON, CBOR, MessagePack or any other
   codec with dec (enc v) = Some v on the values it represents. *)
Theorem C28_roundtrip : forall (wire : Type) (enc : value -> wire) (dec : wire -> option value)
    (common : value -> Prop),
  (forall v, common v -> dec (enc v) = Some v) ->
  forall S c fs,
    schema_ok S -> fits S (TDom c) (DDom c fs) -> common (dictify (DDom c fs)) ->
    from_x wire dec S c (as_x wire enc (DDom c fs)) = Ok (DDom c fs).
Proof. exact roundtrip. Qed.
Print Assumptions C28_roundtrip.

(* The same with the decidable well-typedness test the correspondence
   evaluates on every case ([fitsb] agrees with the harness's own judgement
   of which cases the oracle must hold on). *)
Theorem C28_roundtrip_checked : forall (wire : Type) (enc : value -> wire) (dec : wire -> option value)
    (common : value -> Prop),
  (forall v, common v -> dec (enc v) = Some v) ->
  forall S c fs,
    schema_ok S -> fitsb S (TDom c) (DDom c fs) = true -> common (dictify (DDom c fs)) ->
    from_x wire dec S c (as_x wire enc (DDom c fs)) = Ok (DDom c fs).
Proof. intros. eapply roundtrip; eauto. now apply fitsb_fits. Qed.
Print Assumptions C28_roundtrip_checked.

(* The full statement fails (D31b): class 0 = Leaf(a, b), class 1 =
   Opt(leaf : Leaf | None, v); an Opt holding a Leaf comes back holding a
   dict, even through a perfect codec (the identity). *)
Theorem C28_roundtrip_refuted :
  exists S c d, schema_ok S /\ has_dom d = true /\
    from_x value Some S c (as_x value (fun v => v) d) <> Ok d.
Proof.
  exists [[([97], TOther); ([98], TOther)]; [([108], TOther); ([118], TOther)]]%N, 1,
         (DDom 1 [([108], DDom 0 [([97], DInt 1); ([98], DNull)]); ([118], DNull)]%N).
  split; [|split].
  - intros c. destruct c as [|[|[|c]]]; simpl; repeat constructor; simpl; intuition discriminate.
  - reflexivity.
  - vm_compute. discriminate.
Qed.
Print Assumptions C28_roundtrip_refuted.

(* Non-vacuity: Leaf(a, b), Mid(leaf : Leaf, v); Mid(Leaf(1, "é"), [2.5, None, {"k": -7}])
   is well-typed and goes through the identity codec unchanged. *)
Example C28_example :
  let S := [[([97], TOther); ([98], TOther)]; [([108], TDom 0); ([118], TOther)]]%N in
  let d := DDom 1 [([108], DDom 0 [([97], DInt 1); ([98], DStr [233])]);
                   ([118], DList [DFloat 4612811918334230528; DNull; DDict [([107], DInt (-7))]])]%N in
  schema_ok S /\ fits S (TDom 1) d /\
  from_x value Some S 1 (as_x value (fun v => v) d) = Ok d.
Proof.
  cbv zeta. split; [|split].
  - intros c. destruct c as [|[|[|c]]]; simpl; repeat constructor; simpl; intuition discriminate.
  - apply fits_dom. simpl. repeat constructor; simpl; auto.
  - vm_compute. reflexivity.
Qed.
