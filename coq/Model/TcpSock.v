(* Model of the socket bookkeeping of hio.core.tcp.serving (Acceptor, Server,
   ServerTls, Remoter(Tls).close/handshake) and hio.core.tcp.clienting (Client,
   ClientTls open/reopen/close/accept/connect/serviceConnect), as the code is
   after the fix commits for D10, D11 and the axes leak.

   Sockets are ids (N) handed out in creation order; the ghost lists [opened]
   and [closed] record every socket created for the endpoint and every id on
   which close() was called.  Peer addresses (ca) are N.  The python dicts
   .cxes and .ixes are ordered association lists (overwrite keeps the position,
   a new key is appended), because the service loops iterate over them and can
   be left early by an exception.  No proofs here. *)
From Hio Require Import Base.Prelude.

(* outcome of one do_handshake() call / of one recv() call *)
(* WANT_READ, WANT_WRITE, success, SSL EOF, other SSLError, OSError ECONNABORTED, OSError with another
   errno (ECONNRESET, ETIMEDOUT, EPIPE), unexpected non-OSError exception *)
Inductive hs := HWant | HWantw | HOk | HEof | HSsl | HOs | HReset | HTimedout | HPipe | HExc.
Inductive rout := RData | REof | RReset | RErr.

(* a Remoter / RemoterTls: its socket (None once closed), .cutoff, and the
   remaining handshake script of its (fake) socket *)
Record conn := { c_id : option N; c_cut : bool; c_hs : list hs }.
Definition close_conn (c : conn) : conn := {| c_id := None; c_cut := c_cut c; c_hs := c_hs c |}.

Definition omap := list (N * conn).
Fixpoint oget (m : omap) (k : N) : option conn :=
  match m with
  | [] => None
  | (k', v) :: m' => if N.eqb k k' then Some v else oget m' k
  end.
Fixpoint oupd (m : omap) (k : N) (v : conn) : omap :=
  match m with
  | [] => [(k, v)]
  | (k', v') :: m' => if N.eqb k k' then (k, v) :: m' else (k', v') :: oupd m' k v
  end.
Fixpoint odel (m : omap) (k : N) : omap :=
  match m with
  | [] => []
  | (k', v') :: m' => if N.eqb k k' then m' else (k', v') :: odel m' k
  end.
Definition opt_list (o : option N) : list N := match o with Some i => [i] | None => [] end.
Definition ids (m : omap) : list N := flat_map (fun kv => opt_list (c_id (snd kv))) m.
Definition okeys (m : omap) : list N := map fst m.

(* what serviceAxes finds when it looks at an accepted socket: fine, addresses malformed (ValueError),
   or already reset by the peer (getpeername raises ENOTCONN/ECONNABORTED: closed and skipped) *)
Inductive ak := AOk | ABad | AGone.

(* an accepted (cs, ca) duple waiting in .axes: ca, kind, socket id, handshake script *)
Definition axe := (N * ak * N * list hs)%type.
Definition axe_id (e : axe) : N := snd (fst e).

Record server := { ss : option N; axes : list axe; cxes : omap; ixes : omap;
                   nxt : N; opened : list N; closed : list N }.
Definition init : server :=
  {| ss := None; axes := []; cxes := []; ixes := []; nxt := 0; opened := []; closed := [] |}.

Definition set_ss s v := {| ss := v; axes := axes s; cxes := cxes s; ixes := ixes s;
                            nxt := nxt s; opened := opened s; closed := closed s |}.
Definition set_axes s v := {| ss := ss s; axes := v; cxes := cxes s; ixes := ixes s;
                              nxt := nxt s; opened := opened s; closed := closed s |}.
Definition set_cxes s v := {| ss := ss s; axes := axes s; cxes := v; ixes := ixes s;
                              nxt := nxt s; opened := opened s; closed := closed s |}.
Definition set_ixes s v := {| ss := ss s; axes := axes s; cxes := cxes s; ixes := v;
                              nxt := nxt s; opened := opened s; closed := closed s |}.
Definition add_closed s (l : list N) :=
  {| ss := ss s; axes := axes s; cxes := cxes s; ixes := ixes s;
     nxt := nxt s; opened := opened s; closed := closed s ++ l |}.
(* a fresh socket id *)
Definition alloc s := {| ss := ss s; axes := axes s; cxes := cxes s; ixes := ixes s;
                         nxt := N.succ (nxt s); opened := opened s ++ [nxt s]; closed := closed s |}.

(* ---------- closing ---------- *)
(* Acceptor.close: listen socket, then whatever is still queued in .axes *)
Definition acceptor_close s :=
  let s1 := add_closed (set_ss s None) (opt_list (ss s)) in
  add_closed (set_axes s1 []) (map axe_id (axes s1)).
Definition close_all (m : omap) : omap := map (fun kv => (fst kv, close_conn (snd kv))) m.
(* Server.closeAllIx: the Remoters stay in .ixes with .cs = None *)
Definition close_all_ix s := add_closed (set_ixes s (close_all (ixes s))) (ids (ixes s)).
(* ServerTls.close additionally closes and forgets the pending handshakes *)
Definition server_close (tls : bool) s :=
  let s1 := close_all_ix (acceptor_close s) in
  if tls then add_closed (set_cxes s1 []) (ids (cxes s1)) else s1.

(* Acceptor.open; a failing bind calls self.close() (the subclass's) and returns False *)
Definition server_open (tls : bool) s (bindfail : bool) : server * res bool :=
  let s1 := set_ss (alloc s) (Some (nxt s)) in
  if bindfail then (server_close tls s1, Ok false) else (s1, Ok true).
Definition server_reopen tls s bindfail := server_open tls (server_close tls s) bindfail.

(* ---------- accepting ---------- *)
Fixpoint accept_all s (conns : list (N * ak * list hs)) : server :=
  match conns with
  | [] => s
  | (ca, bad, h) :: conns' =>
    accept_all (set_axes (alloc s) (axes s ++ [(ca, bad, nxt s, h)])) conns'
  end.
(* Acceptor.serviceAccepts: self.ss is None when not open -> AttributeError *)
Definition svc_accepts s conns : server * res bool :=
  match ss s with
  | None => (s, Exc AttrErr)
  | Some _ => (accept_all s conns, Ok false)
  end.

Definition close_ix_if s ca :=
  match oget (ixes s) ca with
  | Some c => add_closed (set_ixes s (oupd (ixes s) ca (close_conn c))) (opt_list (c_id c))
  | None => s
  end.
Definition close_cx_if s ca :=
  match oget (cxes s) ca with
  | Some c => add_closed (set_cxes s (oupd (cxes s) ca (close_conn c))) (opt_list (c_id c))
  | None => s
  end.

(* one iteration of the serviceAxes loop on the popped entry e; s already has the rest in .axes *)
Definition axes_body (tls : bool) s (e : axe) : server * option exn :=
  match e with
  | (ca, bad, i, h) =>
    match bad with
    | ABad => (add_closed s [i], Some ValueErr)
    | AGone => (add_closed s [i], None)      (* not kept so closed; the loop goes on *)
    | AOk =>
      let c := {| c_id := Some i; c_cut := false; c_hs := h |} in
      if tls then let s1 := close_cx_if s ca in (set_cxes s1 (oupd (cxes s1) ca c), None)
      else let s1 := close_ix_if s ca in (set_ixes s1 (oupd (ixes s1) ca c), None)
    end
  end.
Fixpoint axes_loop (tls : bool) (fuel : nat) s : server * res bool :=
  match fuel with
  | O => (s, Ok false)
  | S f =>
    match axes s with
    | [] => (s, Ok false)
    | e :: l' =>
      match axes_body tls (set_axes s l') e with
      | (s1, Some k) => (s1, Exc k)
      | (s1, None) => axes_loop tls f s1
      end
    end
  end.
Definition svc_axes tls s conns : server * res bool :=
  match svc_accepts s conns with
  | (s1, Exc k) => (s1, Exc k)
  | (s1, Ok _) => axes_loop tls (length (axes s1)) s1
  end.

(* ---------- ServerTls.serviceCxes ---------- *)
Definition cxes_body s (ca : N) (c : conn) : server * option exn :=
  match c_id c with
  | None => (s, Some AttrErr)   (* closed by an earlier unexpected exception: None.do_handshake *)
  | Some i =>
    match c_hs c with
    | [] => (s, None)
    | HWant :: h | HWantw :: h =>
      (set_cxes s (oupd (cxes s) ca {| c_id := Some i; c_cut := c_cut c; c_hs := h |}), None)
    | HOk :: h =>
      let s1 := set_cxes s (odel (cxes s) ca) in
      let s2 := close_ix_if s1 ca in
      (set_ixes s2 (oupd (ixes s2) ca {| c_id := Some i; c_cut := c_cut c; c_hs := h |}), None)
    | HExc :: h =>
      (add_closed (set_cxes s (oupd (cxes s) ca {| c_id := None; c_cut := c_cut c; c_hs := h |})) [i],
       Some RuntimeErr)
    | _ :: h => (* EOF / other SSLError / OSError of any errno: close, aborted, forget *)
      (add_closed (set_cxes s (odel (cxes s) ca)) [i], None)
    end
  end.
Fixpoint cxes_loop s (ks : list N) : server * res bool :=
  match ks with
  | [] => (s, Ok false)
  | ca :: ks' =>
    match oget (cxes s) ca with
    | None => cxes_loop s ks'
    | Some c =>
      match cxes_body s ca c with
      | (s1, Some k) => (s1, Exc k)
      | (s1, None) => cxes_loop s1 ks'
      end
    end
  end.
Definition svc_cxes (tls : bool) s : server * res bool :=
  if tls then cxes_loop s (okeys (cxes s)) else (s, Ok false).

Definition svc_connects tls s conns : server * res bool :=
  match svc_axes tls s conns with
  | (s1, Exc k) => (s1, Exc k)
  | (s1, Ok _) => svc_cxes tls s1
  end.

(* ---------- Server.serviceReceivesAllIx with one scripted recv outcome ---------- *)
Definition recv_body s (k : N) (c : conn) (target : N) (o : rout) : server * option exn :=
  if c_cut c then (s, None)
  else match c_id c with
       | None => (s, Some AttrErr)   (* None.recv *)
       | Some i =>
         if N.eqb k target then
           match o with
           | RData => (s, None)
           | REof | RReset =>
             (set_ixes s (oupd (ixes s) k {| c_id := Some i; c_cut := true; c_hs := c_hs c |}), None)
           | RErr => (add_closed (set_ixes s (odel (ixes s) k)) [i], None)   (* removeIx *)
           end
         else (s, None)
       end.
Fixpoint recv_loop s (target : N) (o : rout) (ks : list N) : server * res bool :=
  match ks with
  | [] => (s, Ok false)
  | k :: ks' =>
    match oget (ixes s) k with
    | None => recv_loop s target o ks'
    | Some c =>
      match recv_body s k c target o with
      | (s1, Some e) => (s1, Exc e)
      | (s1, None) => recv_loop s1 target o ks'
      end
    end
  end.

Definition remove_ix s ca : server * res bool :=
  match oget (ixes s) ca with
  | None => (s, Exc ValueErr)
  | Some c => (add_closed (set_ixes s (odel (ixes s) ca)) (opt_list (c_id c)), Ok false)
  end.
Definition close_ix s ca : server * res bool :=
  match oget (ixes s) ca with
  | None => (s, Exc ValueErr)
  | Some _ => (close_ix_if s ca, Ok false)
  end.

Inductive sev :=
| Reopen (bindfail : bool)
| SvcAccepts (conns : list (N * ak * list hs))
| SvcAxes (conns : list (N * ak * list hs))
| SvcCxes
| SvcConnects (conns : list (N * ak * list hs))
| Recv (ca : N) (o : rout)
| RemoveIx (ca : N)
| CloseIx (ca : N)
| Close.

Definition sstep (tls : bool) s (e : sev) : server * res bool :=
  match e with
  | Reopen b => server_reopen tls s b
  | SvcAccepts cs => svc_accepts s cs
  | SvcAxes cs => svc_axes tls s cs
  | SvcCxes => svc_cxes tls s
  | SvcConnects cs => svc_connects tls s cs
  | Recv ca o => recv_loop s ca o (okeys (ixes s))
  | RemoveIx ca => remove_ix s ca
  | CloseIx ca => close_ix s ca
  | Close => (server_close tls s, Ok false)
  end.

Fixpoint srun (tls : bool) s (evs : list sev) : server :=
  match evs with
  | [] => s
  | e :: evs' => srun tls (fst (sstep tls s e)) evs'
  end.

Definition mem_N (i : N) (l : list N) : bool := existsb (N.eqb i) l.
Definition open_of (op cl : list N) : list N := filter (fun i => negb (mem_N i cl)) op.
Definition open_ids s : list N := open_of (opened s) (closed s).

(* ================= client ================= *)
Record client := { cl_cs : option N; cl_acc : bool; cl_con : bool;
                   cl_nxt : N; cl_opened : list N; cl_closed : list N }.
Definition cinit : client :=
  {| cl_cs := None; cl_acc := false; cl_con := false; cl_nxt := 0; cl_opened := []; cl_closed := [] |}.

Definition cclose c :=
  match cl_cs c with
  | Some i => {| cl_cs := None; cl_acc := false; cl_con := false; cl_nxt := cl_nxt c;
                 cl_opened := cl_opened c; cl_closed := cl_closed c ++ [i] |}
  | None => c
  end.
(* raw open(): does not look at the socket it may already hold *)
Definition copen c :=
  {| cl_cs := Some (cl_nxt c); cl_acc := false; cl_con := false; cl_nxt := N.succ (cl_nxt c);
     cl_opened := cl_opened c ++ [cl_nxt c]; cl_closed := cl_closed c |}.
Definition creopen c := copen (cclose c).

Inductive cout := COk | CInprog | CRefused | CRaise.

Definition set_acc (tls : bool) c :=
  {| cl_cs := cl_cs c; cl_acc := true; cl_con := if tls then cl_con c else true; cl_nxt := cl_nxt c;
     cl_opened := cl_opened c; cl_closed := cl_closed c |}.
Definition set_con c :=
  {| cl_cs := cl_cs c; cl_acc := cl_acc c; cl_con := true; cl_nxt := cl_nxt c;
     cl_opened := cl_opened c; cl_closed := cl_closed c |}.

Definition caccept (tls : bool) c (o : cout) : client * res bool :=
  let c1 := match cl_cs c with None => creopen c | Some _ => c end in
  match o with
  | CRaise => (c1, Exc OSErr)
  | CInprog => (c1, Ok false)
  | CRefused => (creopen c1, Ok false)
  | COk => (set_acc tls c1, Ok true)
  end.

Definition chandshake c (h : hs) : client * option exn :=
  match cl_cs c with
  | None => (c, Some AttrErr)
  | Some _ =>
    match h with
    | HWant | HWantw => (c, None)
    | HOk => (set_con c, None)
    | HExc => (cclose c, Some RuntimeErr)
    | _ => (cclose c, Some OSErr)
    end
  end.

(* Client.connect = accept;  ClientTls.connect = accept, wrap, handshake *)
Definition cconnect (tls : bool) c (o : cout) (h : hs) : client * res bool :=
  if tls then
    let '(c1, r1) := if cl_acc c then (c, Ok true) else caccept tls c o in
    match r1 with
    | Exc k => (c1, Exc k)
    | Ok _ =>
      if cl_acc c1 && negb (cl_con c1) then
        match chandshake c1 h with
        | (c2, Some k) => (c2, Exc k)
        | (c2, None) => (c2, Ok (cl_con c2))
        end
      else (c1, Ok (cl_con c1))
    end
  else caccept tls c o.

(* serviceConnect of a reconnectable client with tymeout > 0; [expired] = tymer.expired *)
Definition csvc (tls : bool) c (o : cout) (h : hs) (expired : bool) : client * res bool :=
  if cl_con c then (c, Ok true)
  else match cconnect tls c o h with
       | (c1, Exc k) => (c1, Exc k)
       | (c1, Ok _) =>
         if negb (cl_con c1) && expired then (creopen c1, Ok false) else (c1, Ok (cl_con c1))
       end.

Inductive cev :=
| COpen | CReopen | CClose
| CAccept (o : cout)
| CConnect (o : cout) (h : hs)
| CSvc (o : cout) (h : hs) (expired : bool).

Definition cstep (tls : bool) c (e : cev) : client * res bool :=
  match e with
  | COpen => (copen c, Ok true)
  | CReopen => (creopen c, Ok true)
  | CClose => (cclose c, Ok false)
  | CAccept o => caccept tls c o
  | CConnect o h => cconnect tls c o h
  | CSvc o h x => csvc tls c o h x
  end.
Fixpoint crun (tls : bool) c (evs : list cev) : client :=
  match evs with
  | [] => c
  | e :: evs' => crun tls (fst (cstep tls c e)) evs'
  end.
Definition copen_ids c : list N := open_of (cl_opened c) (cl_closed c).

(* ================= correspondence ================= *)
Inductive evs := SrvEvs (l : list sev) | CliEvs (l : list cev).
Record case := { k_tls : bool; k_evs : evs;
                 k_results : list (res bool);      (* per event: return value / exception *)
                 k_opens : list (list N) }.        (* per event: ids created and not closed, ascending *)

Fixpoint strace (tls : bool) s (l : list sev) : list (res bool) * list (list N) :=
  match l with
  | [] => ([], [])
  | e :: l' => let (s1, r) := sstep tls s e in
               let (rs, os) := strace tls s1 l' in (r :: rs, open_ids s1 :: os)
  end.
Fixpoint ctrace (tls : bool) c (l : list cev) : list (res bool) * list (list N) :=
  match l with
  | [] => ([], [])
  | e :: l' => let (c1, r) := cstep tls c e in
               let (rs, os) := ctrace tls c1 l' in (r :: rs, copen_ids c1 :: os)
  end.

Definition check_case (k : case) : bool :=
  let (rs, os) := match k_evs k with
                  | SrvEvs l => strace (k_tls k) init l
                  | CliEvs l => ctrace (k_tls k) cinit l
                  end in
  list_eqb (res_eqb Bool.eqb) rs (k_results k) && list_eqb (list_eqb N.eqb) os (k_opens k).

(* ---------- branch classifier (generator coverage) ---------- *)
Definition is_exc (r : res bool) : bool := match r with Exc _ => true | Ok _ => false end.
Definition has_gone (cs : list (N * ak * list hs)) : bool :=
  existsb (fun c => match snd (fst c) with AGone => true | _ => false end) cs.
Definition sbranch (tls : bool) s (e : sev) : nat :=
  let (s1, r) := sstep tls s e in
  let grew := Nat.ltb (length (closed s)) (length (closed s1)) in
  match e with
  | Reopen b => if b then 1 else 0
  | SvcAccepts _ => if is_exc r then 3 else 2
  | SvcAxes cs => match r with Exc ValueErr => 5 | Exc _ => 6
                  | Ok _ => if has_gone cs then 35 else if grew then 30 else 4 end
  | SvcCxes => if is_exc r then 8 else if grew then 31 else 7
  | SvcConnects cs => if is_exc r then 10 else if has_gone cs then 36 else if grew then 32 else 9
  | Recv _ _ => if is_exc r then 12 else if grew then 33 else 11
  | RemoveIx _ => if is_exc r then 14 else 13
  | CloseIx _ => if is_exc r then 16 else 15
  | Close => if grew then 17 else 34
  end%nat.
Definition cbranch (tls : bool) c (e : cev) : nat :=
  let (c1, r) := cstep tls c e in
  match e with
  | COpen => 18 | CReopen => 19 | CClose => 20
  | CAccept _ => match r with Ok true => 21 | Ok false => 22 | Exc _ => 23 end
  | CConnect _ _ => match r with Ok true => 24 | Ok false => 25 | Exc _ => 26 end
  | CSvc _ _ _ => match r with Ok true => 27 | Ok false => 28 | Exc _ => 29 end
  end%nat.
Fixpoint sbranches tls s l : list nat :=
  match l with [] => [] | e :: l' => sbranch tls s e :: sbranches tls (fst (sstep tls s e)) l' end.
Fixpoint cbranches tls c l : list nat :=
  match l with [] => [] | e :: l' => cbranch tls c e :: cbranches tls (fst (cstep tls c e)) l' end.
Definition n_branches : nat := 37.
Definition case_branches (k : case) : list nat :=
  match k_evs k with
  | SrvEvs l => sbranches (k_tls k) init l
  | CliEvs l => cbranches (k_tls k) cinit l
  end.
