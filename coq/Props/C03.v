From Hio Require Import Base.Prelude Model.Sched.
Theorem C03_placeholder : True. Proof. exact I. Qed.
Print Assumptions C03_placeholder.
