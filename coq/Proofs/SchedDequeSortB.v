(* Enter order, regime B (the passes; programs without extend()): during the
   calls nested in a pass of scheduler j (or in the root's pass), j's deque
   changes only by deletion of deeds ([del_all]); every deque stays sorted by
   enter position in its canonical (un-rotated) order, and only schedulers that
   are executing carry a marker ([srtb_all]). *)
From Coq Require Import Sorting.Sorted.
From Hio Require Import Base.Prelude Base.AMap Base.Time Model.Sched Proofs.SchedEqs Proofs.SchedFrame Proofs.SchedLife
  Proofs.SchedDeque Proofs.SchedDequeHold Proofs.SchedDequeAll Proofs.SchedDequeEffects Proofs.SchedDequeEpos.

Section SortB.
Context {T : Type} `{Time T}.
Implicit Types s a b : st T.
Variable tk : T.

(* j's deque is protected: j is executing, or j is the root (never a generator) *)
Definition prot s (j : id) : Prop := running s j \/ (j = 0%N /\ get (defs s) 0%N = None).

Lemma prot_ne s i j pc : prot s j -> get_gen s i = GSusp pc -> get (defs s) i <> None -> i <> j.
Proof.
  intros [R|[Hz D0]] G D.
  - eapply susp_ne; eassumption.
  - intro Heq. subst. congruence.
Qed.

Lemma prot_same s s' j : (forall x, get_gen s' x = get_gen s x) -> defs s' = defs s -> prot s j -> prot s' j.
Proof.
  intros Hg Hd [[pc R]|[Hz D0]]; [left; exists pc; now rewrite Hg|right; split; [exact Hz|now rewrite Hd]].
Qed.
Lemma prot_gen s i g j : i <> j -> prot s j -> prot (set_gen s i g) j.
Proof.
  intros Hne [[pc R]|[Hz D0]]; [left; exists pc; now rewrite gen_set_gen_other by congruence|right; split; assumption].
Qed.

Lemma prot_all f j :
  (forall s i k sc pc s' r, prot s j -> i <> j -> run_step tk f s i k sc pc = (s', r) -> prot s' j) /\
  (forall s i s' r, prot s j -> gen_send tk f s i = (s', r) -> prot s' j) /\
  (forall s i, prot s j -> prot (gen_close tk f s i) j) /\
  (forall s i, prot s j -> prot (close_own tk f s i) j) /\
  (forall s ds, prot s j -> prot (close_list tk f s ds) j) /\
  (forall s c es s' r, prot s j -> run_effects tk f s c es = (s', r) -> prot s' j) /\
  (forall s sid s' r, prot s j -> recur_pass tk f s sid = (s', r) -> prot s' j) /\
  (forall s sid s' r, prot s j -> recur_loop tk f s sid = (s', r) -> prot s' j).
Proof.
  destruct (framej_all tk j f) as (Jst & Jrs & Jsd & Jcl & Jco & Jli & Jeo & Jel & Jef & Jrp & Jrl).
  destruct (frame_all tk f) as (Fst & Frs & Fsd & Fcl & Fco & Fli & Feo & Fel & Fef & Frp & Frl).
  assert (K : forall s s', steps s s' -> (running s j -> noj j s s') -> prot s j -> prot s' j).
  { intros s s' St Nj [R|[Hz D0]].
    - left. eapply running_noj; [exact R|now apply Nj].
    - right. split; [exact Hz|]. now rewrite (steps_defs _ _ St). }
  repeat split; intros.
  - eapply K; [eapply Frs; [apply st_refl|eassumption]| |eassumption]. intro R. eapply Jrs; [exact R|apply noj_refl|eassumption|eassumption].
  - eapply K; [eapply Fsd; [apply st_refl|eassumption]| |eassumption]. intro R. eapply Jsd; [exact R|apply noj_refl|eassumption].
  - eapply K; [apply Fcl, st_refl| |eassumption]. intro R. apply Jcl; [exact R|apply noj_refl].
  - eapply K; [apply Fco, st_refl| |eassumption]. intro R. apply Jco; [exact R|apply noj_refl].
  - eapply K; [apply Fli, st_refl| |eassumption]. intro R. apply Jli; [exact R|apply noj_refl].
  - eapply K; [eapply Fef; [apply st_refl|eassumption]| |eassumption]. intro R. eapply Jef; [exact R|apply noj_refl|eassumption].
  - eapply K; [eapply Frp; [apply st_refl|eassumption]| |eassumption]. intro R. eapply Jrp; [exact R|apply noj_refl|eassumption].
  - eapply K; [eapply Frl; [apply st_refl|eassumption]| |eassumption]. intro R. eapply Jrl; [exact R|apply noj_refl|eassumption].
Qed.

(* ---------- the frame: a protected deque only loses deeds ---------- *)

Definition dqdel (j : id) a s : Prop := delq (dq s j) (dq a j).

Lemma dqdel_same j a s s' : dq s' j = dq s j -> dqdel j a s -> dqdel j a s'.
Proof. unfold dqdel. intros E D. now rewrite E. Qed.

Lemma xf_defs s s' : defs s' = defs s -> XF (defs s) -> XF (defs s').
Proof. intros E X. now rewrite E. Qed.

Definition del_at (j : id) (f : nat) : Prop :=
  (forall a s i k sc pc s' r, XF (defs s) -> get (defs s) i = Some (FLeaf k sc) -> prot s j -> i <> j ->
       dqdel j a s -> run_step tk f s i k sc pc = (s', r) -> dqdel j a s') /\
  (forall a s i s' r, XF (defs s) -> prot s j -> dqdel j a s -> gen_send tk f s i = (s', r) -> dqdel j a s') /\
  (forall a s i, prot s j -> dqdel j a s -> dqdel j a (gen_close tk f s i)) /\
  (forall a s sid, sid <> j -> prot s j -> dqdel j a s -> dqdel j a (close_own tk f s sid)) /\
  (forall a s ds, prot s j -> dqdel j a s -> dqdel j a (close_list tk f s ds)) /\
  (forall a s c es s' r, XF (defs s) -> noext es -> prot s j -> dqdel j a s ->
       run_effects tk f s c es = (s', r) -> dqdel j a s') /\
  (forall a s sid s' r, XF (defs s) -> sid <> j -> prot s j -> dqdel j a s -> recur_pass tk f s sid = (s', r) -> dqdel j a s') /\
  (forall a s sid s' r, XF (defs s) -> sid <> j -> prot s j -> dqdel j a s -> recur_loop tk f s sid = (s', r) -> dqdel j a s').

Lemma del_all j : forall f, del_at j f.
Proof.
  induction f as [|f IH].
  - unfold del_at. repeat match goal with |- _ /\ _ => split end; intros;
      try match goal with E : _ = (_, _) |- _ => cbn in E; inversion E; subst; clear E end; cbn; assumption.
  - destruct IH as (Irs & Isd & Icl & Ico & Ili & Ief & Irp & Irl).
    destruct (prot_all f j) as (Prs & Psd & Pcl & Pco & Pli & Pef & Prp & Prl).
    unfold del_at. repeat match goal with |- _ /\ _ => split end.
    + (* run_step *)
      intros a s i k sc pc s' r X D P Hne Dq E. rewrite run_step_S in E. cbv zeta in E.
      destruct (run_effects tk f s i _) as [s1 r0] eqn:Ee.
      assert (D1 : dqdel j a s1) by (eapply Ief; [exact X|exact (proj2 X i k sc pc D)|exact P|exact Dq|exact Ee]).
      destruct r0; [| |destruct kbd|]; cbv beta iota zeta in E; try (destruct (f_out _)); fin; exact D1.
    + (* gen_send *)
      intros a s i s' r X P Dq E. rewrite gen_send_S in E.
      destruct (get_gen s i) eqn:G; try (fin; exact Dq).
      destruct (get (defs s) i) as [[k sc|t0 al kids]|] eqn:D; [| |fin; exact Dq].
      * assert (Hne : i <> j) by (eapply prot_ne; [exact P|exact G|congruence]).
        eapply Irs; [| | | | |exact E]; [exact X|exact D| |exact Hne|exact Dq].
        apply (prot_same (set_gen s i (GRun pc))); [reflexivity|reflexivity|]. now apply prot_gen.
      * assert (Hne : i <> j) by (eapply prot_ne; [exact P|exact G|congruence]).
        cbv zeta in E.
        set (s1 := emit (set_gen s i (GRun pc)) Recur i) in *.
        assert (P1 : prot s1 j) by (apply (prot_same (set_gen s i (GRun pc))); [reflexivity|reflexivity|now apply prot_gen]).
        destruct (recur_pass tk f s1 i) as [s2 r0] eqn:Ee.
        assert (D2 : dqdel j a s2) by (eapply Irp; [| | | |exact Ee]; [exact X|exact Hne|exact P1|exact Dq]).
        assert (P2 : prot s2 j) by (eapply Prp; [exact P1|exact Ee]).
        assert (Fin : forall s3, dqdel j a s3 -> prot s3 j -> dqdel j a (set_gen (emit (close_own tk f s3 i) Exit i) i GDone)).
        { intros s3 D3 P3. apply (Ico a s3 i Hne P3 D3). }
        destruct r0; cbv beta iota zeta in E.
        -- match type of E with (if ?c then _ else _) = _ => destruct c end; fin; [apply Fin; assumption|exact D2].
        -- match type of E with (if ?c then _ else _) = _ => destruct c end; fin; [apply Fin; assumption|exact D2].
        -- fin. apply Fin; destruct kbd; assumption.
        -- fin. exact D2.
    + (* gen_close *)
      intros a s i P Dq. rewrite gen_close_S. destruct (get_gen s i) eqn:G; try exact Dq.
      destruct (get (defs s) i) as [[k sc|t0 al kids]|] eqn:D; [exact Dq| |exact Dq].
      cbv zeta. assert (Hne : i <> j) by (eapply prot_ne; [exact P|exact G|congruence]).
      apply (Ico a (emit (set_gen s i (GRun pc)) Cease i) i Hne); [|exact Dq].
      apply (prot_same (set_gen s i (GRun pc))); [reflexivity|reflexivity|now apply prot_gen].
    + (* close_own *)
      intros a s sid Hne P Dq. rewrite close_own_S. cbv zeta. apply Ili.
      * apply (prot_same s); [reflexivity|reflexivity|exact P].
      * eapply dqdel_same; [|exact Dq]. apply dq_deeds_other. congruence.
    + (* close_list *)
      intros a s ds P Dq. rewrite close_list_S. destruct ds as [|[|i re] r]; [exact Dq|now apply Ili|].
      apply Ili; [now apply Pcl|now apply Icl].
    + (* run_effects *)
      intros a s c es s' r X Ne P Dq E. rewrite run_effects_S in E.
      destruct es as [|e rest]; [fin; exact Dq|].
      inversion Ne as [|e0 rest0 He Hrest]; subst.
      destruct (negb (live s match e with EExtend t _ => t | ERemove t _ => t end)); [eapply Ief; eassumption|].
      destruct e as [t news|t who]; [contradiction|]. cbv zeta in E.
      match type of E with run_effects tk f (emit (close_list tk f ?s1 ?l) RemRet c) c rest = _ =>
        assert (P1 : prot s1 j) by (apply (prot_same s); [reflexivity|reflexivity|exact P]);
        assert (D1 : dqdel j a s1);
        [|assert (P2 : prot (close_list tk f s1 l) j) by (now apply Pli);
          assert (D2 : dqdel j a (close_list tk f s1 l)) by (now apply Ili);
          eapply Ief; [| | | |exact E];
          [eapply xf_defs; [|exact X]; change (defs (close_list tk f s1 l) = defs s);
           destruct (defs_all tk f) as (_ & _ & K & _); now rewrite K
          |exact Hrest|exact P2|exact D2]]
      end.
      destruct (N.eq_dec t j) as [Heq|Hne].
      * subst t. unfold dqdel in *. rewrite dq_set_same. cbn [deeds].
        eapply delq_trans; [exact Dq|].
        eexists (fun i => negb (memN i _)). apply filter_ext. intros [|i re]; reflexivity.
      * eapply dqdel_same; [|exact Dq]. apply dq_set_other. congruence.
    + (* recur_pass *)
      intros a s sid s' r X Hne P Dq E. rewrite recur_pass_S in E. cbv zeta in E.
      eapply Irl; [| | | |exact E]; [exact X|exact Hne|apply (prot_same s); [reflexivity|reflexivity|exact P]|].
      eapply dqdel_same; [|exact Dq]. apply dq_deeds_other. congruence.
    + (* recur_loop *)
      intros a s sid s' r X Hne P Dq E. rewrite recur_loop_S in E.
      assert (SD : forall s0 l, dqdel j a s0 -> dqdel j a (set_deeds s0 sid l)).
      { intros s0 l D0. eapply dqdel_same; [|exact D0]. apply dq_deeds_other. congruence. }
      assert (SP : forall s0 l, prot s0 j -> prot (set_deeds s0 sid l) j).
      { intros s0 l P0. apply (prot_same s0); [reflexivity|reflexivity|exact P0]. }
      destruct (deeds (get_sched s sid)) as [|[|i re] rest]; [fin; exact Dq|fin; now apply SD|].
      cbv zeta in E. destruct (tleb re _).
      * destruct (gen_send tk f _ i) as [s2 g] eqn:Eg.
        assert (D2 : dqdel j a s2) by (eapply Isd; [| | |exact Eg]; [exact X|now apply SP|now apply SD]).
        assert (P2 : prot s2 j) by (eapply Psd; [|exact Eg]; now apply SP).
        assert (X2 : XF (defs s2)).
        { eapply xf_defs; [|exact X]. destruct (defs_all tk f) as (_ & K & _). now rewrite (K _ _ _ _ Eg). }
        destruct g; fin; try exact D2.
        -- eapply Irl; [| | | |exact E]; [exact X2|exact Hne|now apply SP|now apply SD].
        -- eapply Irl; [exact X2|exact Hne|exact P2|exact D2|exact E].
      * eapply Irl; [| | | |exact E]; [exact X|exact Hne|now apply SP, SP|now apply SD, SD].
Qed.

(* ---------- sortedness and marker discipline in regime B ---------- *)

Lemma oof_back_steps s s' : steps s s' -> oof s' = false -> oof s = false.
Proof. intros St O. destruct (oof s) eqn:Os; [|reflexivity]. rewrite <- O. symmetry. eapply steps_oof; eassumption. Qed.

Lemma ob_all f :
  (forall s i k sc pc s' r, run_step tk f s i k sc pc = (s', r) -> oof s' = false -> oof s = false) /\
  (forall s i s' r, gen_send tk f s i = (s', r) -> oof s' = false -> oof s = false) /\
  (forall s i, oof (gen_close tk f s i) = false -> oof s = false) /\
  (forall s i, oof (close_own tk f s i) = false -> oof s = false) /\
  (forall s ds, oof (close_list tk f s ds) = false -> oof s = false) /\
  (forall s c es s' r, run_effects tk f s c es = (s', r) -> oof s' = false -> oof s = false) /\
  (forall s sid s' r, recur_pass tk f s sid = (s', r) -> oof s' = false -> oof s = false) /\
  (forall s sid s' r, recur_loop tk f s sid = (s', r) -> oof s' = false -> oof s = false).
Proof.
  destruct (frame_all tk f) as (Fst & Frs & Fsd & Fcl & Fco & Fli & Feo & Fel & Fef & Frp & Frl).
  repeat split; intros; eapply oof_back_steps; try eassumption.
  - eapply Frs; [apply st_refl|eassumption].
  - eapply Fsd; [apply st_refl|eassumption].
  - apply Fcl, st_refl.
  - apply Fco, st_refl.
  - apply Fli, st_refl.
  - eapply Fef; [apply st_refl|eassumption].
  - eapply Frp; [apply st_refl|eassumption].
  - eapply Frl; [apply st_refl|eassumption].
Qed.

Variable ord : id -> nat.

Definition SrtF s : Prop := forall x, srt ord (canon (dq s x)).
Definition ML s : Prop := forall x, x <> 0%N -> ~ mf (dq s x) -> running s x /\ isnest (defs s) x = true.
Definition GoodB s : Prop := SrtF s /\ ML s.
Definition form2 (ds : list (deed T)) : Prop := exists u r, ds = u ++ DMark :: r /\ mf u /\ mf r.
Definition own' s (sid : id) : Prop := prot s sid /\ (sid <> 0%N -> isnest (defs s) sid = true).

Lemma good_same s s' : (forall x, dq s' x = dq s x) -> (forall x, get_gen s' x = get_gen s x) -> defs s' = defs s ->
  GoodB s -> GoodB s'.
Proof.
  intros Hq Hg Hd [S M]. split.
  - intro x. rewrite Hq. apply S.
  - intros x Hz Hm. rewrite Hq in Hm. destruct (M x Hz Hm) as [[pc R] N]. split; [exists pc; now rewrite Hg|now rewrite Hd].
Qed.
Lemma good_emit s k i : GoodB s -> GoodB (emit s k i). Proof. now apply good_same. Qed.
Lemma good_done s i d : GoodB s -> GoodB (set_done s i d). Proof. now apply good_same. Qed.

Lemma good_gen s i g : GoodB s -> (mf (dq s i) \/ exists pc, g = GRun pc) -> GoodB (set_gen s i g).
Proof.
  intros [S M] Hi. split; [exact S|].
  intros x Hz Hm. change (dq (set_gen s i g) x) with (dq s x) in Hm. destruct (M x Hz Hm) as [[pc R] N].
  split; [|exact N]. destruct (N.eq_dec x i) as [Heq|Hne].
  - subst x. destruct Hi as [Hi|[pc' ->]]; [contradiction|]. exists pc'. apply gen_set_gen_same.
  - exists pc. now rewrite gen_set_gen_other.
Qed.

(* the deque of x is replaced by ds' *)
Lemma good_sched s x c' :
  srt ord (canon (deeds c')) ->
  (x <> 0%N -> ~ mf (deeds c') -> running s x /\ isnest (defs s) x = true) ->
  GoodB s -> GoodB (set_sched s x c').
Proof.
  intros Sx Mx [S M]. split.
  - intro y. destruct (N.eq_dec y x) as [Heq|Hne]; [subst y; now rewrite dq_set_same|rewrite dq_set_other by exact Hne; apply S].
  - intros y Hz Hm. destruct (N.eq_dec y x) as [Heq|Hne].
    + subst y. rewrite dq_set_same in Hm. now apply Mx.
    + rewrite dq_set_other in Hm by exact Hne. now apply M.
Qed.
Lemma good_deeds s x ds' :
  srt ord (canon ds') ->
  (x <> 0%N -> ~ mf ds' -> running s x /\ isnest (defs s) x = true) ->
  GoodB s -> GoodB (set_deeds s x ds').
Proof. intros. unfold set_deeds. now apply good_sched. Qed.

Lemma mf_dec (ds : list (deed T)) : mf ds \/ ~ mf ds.
Proof.
  destruct (split_cases ds) as [M|(u & r & -> & _)]; [now left|right].
  intro M. apply M. apply in_or_app. right. now left.
Qed.

Lemma good_del s x c' q : deeds c' = filter (keepf q) (dq s x) -> GoodB s -> GoodB (set_sched s x c').
Proof.
  intros E G. apply good_sched; [| |exact G].
  - rewrite E, canon_keepf. apply srt_filter. apply (proj1 G).
  - intros Hz Hm. apply (proj2 G x Hz). intro M. apply Hm. rewrite E. now apply mf_filter.
Qed.

Lemma srt_mid (q : id -> bool) l1 i l2 : srt ord (l1 ++ i :: l2) -> srt ord (filter q l1 ++ i :: filter q l2).
Proof.
  intro S. apply srt_app_iff in S. destruct S as (S1 & S2 & C).
  inversion S2 as [|? ? S2' F2]; subst. apply srt_app_iff. split; [now apply srt_filter|]. split.
  - constructor; [now apply srt_filter|]. rewrite Forall_forall in *. intros y Hy. apply filter_In in Hy. apply F2. tauto.
  - intros x y Hx Hy. apply filter_In in Hx. apply C; [tauto|]. destruct Hy as [Hy|Hy]; [now left|right].
    apply filter_In in Hy. tauto.
Qed.

Definition passok (r : @gres T) s (sid : id) : Prop :=
  match r with GYield _ | GReturn => mf (dq s sid) | _ => True end.

Definition srtb_at (f : nat) : Prop :=
  (forall s i k sc pc s' r, XF (defs s) -> get (defs s) i = Some (FLeaf k sc) -> GoodB s ->
       run_step tk f s i k sc pc = (s', r) -> oof s' = false -> GoodB s') /\
  (forall s i s' r, XF (defs s) -> GoodB s -> gen_send tk f s i = (s', r) -> oof s' = false -> GoodB s') /\
  (forall s i, XF (defs s) -> GoodB s -> oof (gen_close tk f s i) = false -> GoodB (gen_close tk f s i)) /\
  (forall s sid, XF (defs s) -> GoodB s -> oof (close_own tk f s sid) = false -> GoodB (close_own tk f s sid)) /\
  (forall s ds, XF (defs s) -> GoodB s -> oof (close_list tk f s ds) = false -> GoodB (close_list tk f s ds)) /\
  (forall s c es s' r, XF (defs s) -> noext es -> GoodB s -> run_effects tk f s c es = (s', r) -> oof s' = false -> GoodB s') /\
  (forall s sid s' r, XF (defs s) -> own' s sid -> mf (dq s sid) -> GoodB s ->
       recur_pass tk f s sid = (s', r) -> oof s' = false -> GoodB s' /\ passok r s' sid) /\
  (forall s sid s' r, XF (defs s) -> own' s sid -> form2 (dq s sid) -> GoodB s ->
       recur_loop tk f s sid = (s', r) -> oof s' = false -> GoodB s' /\ passok r s' sid).

Lemma leaf_mf s i k sc : GoodB s -> get (defs s) i = Some (FLeaf k sc) -> XF (defs s) -> mf (dq s i).
Proof.
  intros [_ M] D X. destruct (mf_dec (dq s i)) as [Y|Nm]; [exact Y|exfalso].
  assert (Hz : i <> 0%N) by (intro Heq; subst i; rewrite (proj1 X) in D; discriminate).
  destruct (M i Hz Nm) as [_ Nn]. unfold isnest in Nn. rewrite D in Nn. discriminate.
Qed.

Lemma susp_mf s i pc : GoodB s -> get_gen s i = GSusp pc -> i <> 0%N -> mf (dq s i).
Proof.
  intros [_ M] G Hz. destruct (mf_dec (dq s i)) as [Y|Nm]; [exact Y|exfalso].
  destruct (M i Hz Nm) as [[pc' R] _]. congruence.
Qed.

Lemma own_keep' s s' sid : own' s sid -> prot s' sid -> defs s' = defs s -> own' s' sid.
Proof. intros [_ N] P D. split; [exact P|]. intro Hz. rewrite D. now apply N. Qed.

Lemma srtb_all : forall f, srtb_at f.
Proof.
  induction f as [|f IH].
  - unfold srtb_at. repeat match goal with |- _ /\ _ => split end; intros;
      try match goal with E : _ = (_, _) |- _ => cbn in E; inversion E; subst; clear E end;
      match goal with O : oof _ = false |- _ => cbn in O; discriminate end.
  - destruct IH as (Irs & Isd & Icl & Ico & Ili & Ief & Irp & Irl).
    destruct (ob_all f) as (Brs & Bsd & Bcl & Bco & Bli & Bef & Brp & Brl).
    assert (CloseEnd : forall s3 i, XF (defs s3) -> GoodB s3 ->
              oof (set_gen (emit (close_own tk f s3 i) Exit i) i GDone) = false ->
              GoodB (set_gen (emit (close_own tk f s3 i) Exit i) i GDone)).
    { intros s3 i X3 G3 O. change (oof (close_own tk f s3 i) = false) in O.
      apply good_gen; [apply good_emit; now apply Ico|]. left.
      change (mf (dq (close_own tk f s3 i) i)). rewrite (close_own_empty tk f s3 i O). intros []. }
    unfold srtb_at. repeat match goal with |- _ /\ _ => split end.
    + (* run_step *)
      intros s i k sc pc s' r X D G E O. rewrite run_step_S in E. cbv zeta in E.
      destruct (run_effects tk f s i _) as [s1 r0] eqn:Ee.
      assert (O1 : oof s1 = false).
      { destruct r0; [| |destruct kbd|]; cbv beta iota zeta in E; try (destruct (f_out _)); fin; exact O. }
      assert (G1 : GoodB s1) by (eapply Ief; [exact X|exact (proj2 X i k sc pc D)|exact G|exact Ee|exact O1]).
      assert (D1 : get (defs s1) i = Some (FLeaf k sc)).
      { destruct (defs_all tk f) as (_ & _ & _ & _ & K). now rewrite (K _ _ _ _ _ Ee). }
      assert (X1 : XF (defs s1)).
      { eapply xf_defs; [|exact X]. destruct (defs_all tk f) as (_ & _ & _ & _ & K). now rewrite (K _ _ _ _ _ Ee). }
      assert (M1 : mf (dq s1 i)) by (eapply leaf_mf; eassumption).
      destruct r0; [| |destruct kbd|]; cbv beta iota zeta in E; try (destruct (f_out _)); fin; try exact G1;
        repeat first [exact G1 | apply good_done | apply good_emit | (apply good_gen; [|left; exact M1])].
    + (* gen_send *)
      intros s i s' r X G E O. rewrite gen_send_S in E.
      destruct (get_gen s i) eqn:Gi; try (fin; exact G).
      destruct (get (defs s) i) as [[k sc|t0 al kids]|] eqn:D; [| |fin; exact G].
      * eapply Irs; [| | |exact E|exact O]; [exact X|exact D|].
        apply good_emit. apply good_gen; [exact G|right; now exists pc].
      * assert (Hz : i <> 0%N) by (intro Heq; subst i; rewrite (proj1 X) in D; discriminate).
        assert (Mi : mf (dq s i)) by (eapply susp_mf; eassumption).
        cbv zeta in E.
        set (s1 := emit (set_gen s i (GRun pc)) Recur i) in *.
        assert (G1 : GoodB s1) by (apply good_emit; apply good_gen; [exact G|right; now exists pc]).
        assert (W1 : own' s1 i).
        { split; [left; exists pc; apply gen_set_gen_same|]. intros _. unfold isnest. change (defs s1) with (defs s). now rewrite D. }
        destruct (recur_pass tk f s1 i) as [s2 r0] eqn:Ee.
        assert (X2 : XF (defs s2)).
        { eapply xf_defs; [|exact X]. destruct (frame_all tk f) as (_ & _ & _ & _ & _ & _ & _ & _ & _ & Frp & _).
          apply (steps_defs s1). eapply Frp; [apply st_refl|exact Ee]. }
        destruct r0; cbv beta iota zeta in E.
        -- match type of E with (if ?c then _ else _) = _ => destruct c end; fin.
           ++ assert (O2 : oof s2 = false) by (change (oof (close_own tk f (emit (set_done s2 i (Some true)) Clean i) i) = false) in O || idtac; eapply Bco in O; exact O).
              destruct (Irp s1 i s2 _ X W1 Mi G1 Ee O2) as [G2 _].
              apply CloseEnd; [exact X2|apply good_emit, good_done; exact G2|exact O].
           ++ destruct (Irp s1 i s2 _ X W1 Mi G1 Ee O) as [G2 P2].
              apply good_gen; [apply good_done; exact G2|left; exact P2].
        -- match type of E with (if ?c then _ else _) = _ => destruct c end; fin.
           ++ assert (O2 : oof s2 = false) by (eapply Bco in O; exact O).
              destruct (Irp s1 i s2 _ X W1 Mi G1 Ee O2) as [G2 _].
              apply CloseEnd; [exact X2|apply good_emit, good_done; exact G2|exact O].
           ++ destruct (Irp s1 i s2 _ X W1 Mi G1 Ee O) as [G2 P2].
              apply good_gen; [apply good_done; exact G2|left; exact P2].
        -- fin. assert (O2 : oof s2 = false) by (eapply Bco in O; destruct kbd; exact O).
           destruct (Irp s1 i s2 _ X W1 Mi G1 Ee O2) as [G2 _].
           apply CloseEnd; [destruct kbd; exact X2| destruct kbd; [exact G2|apply good_emit; exact G2]|exact O].
        -- fin. destruct (fuel_all tk f) as (_ & _ & _ & _ & _ & _ & K & _). rewrite (K _ _ _ Ee) in O. discriminate.
    + (* gen_close *)
      intros s i X G O. rewrite gen_close_S in *. destruct (get_gen s i) eqn:Gi; try exact G.
      destruct (get (defs s) i) as [[k sc|t0 al kids]|] eqn:D; [| |exact G].
      * assert (M1 : mf (dq s i)) by (eapply leaf_mf; eassumption).
        apply good_gen; [apply good_emit, good_emit; apply good_gen; [exact G|right; now exists pc]|left; exact M1].
      * cbv zeta in *. apply CloseEnd; [exact X| |exact O].
        apply good_emit. apply good_gen; [exact G|right; now exists pc].
    + (* close_own *)
      intros s sid X G O. rewrite close_own_S in *. cbv zeta in *. apply Ili; [exact X| |exact O].
      apply good_deeds; [constructor|intros _ Nm; exfalso; apply Nm; intros []|exact G].
    + (* close_list *)
      intros s ds X G O. rewrite close_list_S in *. destruct ds as [|[|i re] r]; [exact G|now apply Ili|].
      assert (O1 : oof (gen_close tk f s i) = false) by (eapply Bli; exact O).
      apply Ili; [|now apply Icl|exact O].
      eapply xf_defs; [|exact X]. destruct (frame_all tk f) as (_ & _ & _ & Fcl & _). apply (steps_defs s). apply Fcl, st_refl.
    + (* run_effects *)
      intros s c es s' r X Ne G E O. rewrite run_effects_S in E.
      destruct es as [|e rest]; [fin; exact G|].
      inversion Ne as [|e0 rest0 He Hrest]; subst.
      destruct (negb (live s match e with EExtend t _ => t | ERemove t _ => t end)); [eapply Ief; eassumption|].
      destruct e as [t news|t who]; [contradiction|]. cbv zeta in E.
      match type of E with run_effects tk f (emit (close_list tk f ?s1 ?l) RemRet c) c rest = _ =>
        assert (O2 : oof (close_list tk f s1 l) = false) by exact (Bef _ _ _ _ _ E O);
        assert (G1 : GoodB s1) by (eapply good_del; [|exact G]; cbn [deeds];
                                   apply filter_ext; intros [|i re]; reflexivity);
        assert (X2 : XF (defs (close_list tk f s1 l)))
          by (eapply xf_defs; [|exact X]; destruct (defs_all tk f) as (_ & _ & K & _); now rewrite K);
        eapply Ief; [| | |exact E|exact O]; [exact X2|exact Hrest|];
        apply good_emit; apply Ili; [exact X|exact G1|exact O2]
      end.
    + (* recur_pass *)
      intros s sid s' r X W M G E O. rewrite recur_pass_S in E. cbv zeta in E.
      eapply Irl; [| | | |exact E|exact O].
      * exact X.
      * destruct W as [P N]. split; [apply (prot_same s); [reflexivity|reflexivity|exact P]|exact N].
      * exists (dq s sid), []. split; [now rewrite dq_deeds_same|]. split; [exact M|intros []].
      * apply good_deeds; [| |exact G].
        -- change (deeds (get_sched s sid)) with (dq s sid). rewrite (canon_mark _ [] M). cbn [dids flat_map app].
           rewrite <- (canon_mf _ M). apply (proj1 G).
        -- intros Hz _. destruct W as [[R|[Hz' _]] N]; [split; [exact R|now apply N]|contradiction].
    + (* recur_loop *)
      intros s sid s' r X W (u & rr & Q & Mu & Mr) G E O. rewrite recur_loop_S in E.
      change (deeds (get_sched s sid)) with (dq s sid) in E. rewrite Q in E.
      assert (Sx : srt ord (dids rr ++ dids u)) by (rewrite <- (canon_mark u rr Mu), <- Q; apply (proj1 G)).
      assert (Wx : forall s0, (forall x, get_gen s0 x = get_gen s x) -> defs s0 = defs s -> own' s0 sid).
      { intros s0 Hg Hd. destruct W as [P N]. split; [now apply (prot_same s)|]. intro Hz. rewrite Hd. now apply N. }
      assert (Mk : forall s0 (l : list (deed T)), (forall x, get_gen s0 x = get_gen s x) -> defs s0 = defs s ->
                   sid <> 0%N -> ~ mf l -> running s0 sid /\ isnest (defs s0) sid = true).
      { intros s0 l Hg Hd Hz _. destruct (Wx s0 Hg Hd) as [[R|[Hz' _]] N]; [split; [exact R|now apply N]|contradiction]. }
      destruct u as [|[|i re] u']; cbn [app] in E.
      * (* marker reached *)
        fin. split.
        -- apply good_deeds; [|intros Hz Nm; contradiction|exact G]. rewrite (canon_mf _ Mr).
           rewrite app_nil_r in Sx. exact Sx.
        -- cbn [passok]. now rewrite dq_deeds_same.
      * exfalso. apply Mu. now left.
      * (* a deed *)
        cbv zeta in E.
        assert (Mu' : mf u') by (intro Hin; apply Mu; now right).
        change (dids (DDeed i re :: u')) with (i :: dids u') in Sx.
        set (s1 := set_deeds s sid (u' ++ DMark :: rr)) in *.
        assert (G1 : GoodB s1).
        { apply good_deeds; [|now apply (Mk s)|exact G]. rewrite (canon_mark _ _ Mu').
          apply srt_app_iff in Sx. destruct Sx as (S1 & S2 & C). inversion S2; subst.
          apply srt_app_iff. split; [exact S1|]. split; [assumption|]. intros x y Hx Hy. apply C; [exact Hx|now right]. }
        assert (W1 : own' s1 sid) by (apply Wx; reflexivity).
        destruct (tleb re (tyme s1)).
        -- destruct (gen_send tk f s1 i) as [s2 g] eqn:Eg.
           assert (O2 : oof s2 = false).
           { destruct g; fin; try exact O; exact (Brl _ _ _ _ E O). }
           assert (G2 : GoodB s2) by (eapply Isd; [| |exact Eg|exact O2]; [exact X|exact G1]).
           assert (Dd : defs s2 = defs s1) by (destruct (defs_all tk f) as (_ & K & _); eapply K; exact Eg).
           assert (X2 : XF (defs s2)) by (eapply xf_defs; [exact Dd|exact X]).
           assert (P2 : prot s2 sid).
           { destruct (prot_all f sid) as (_ & K & _). eapply K; [exact (proj1 W1)|exact Eg]. }
           assert (W2 : own' s2 sid) by (eapply own_keep'; [exact W1|exact P2|exact Dd]).
           destruct (del_all sid f) as (_ & Dsd & _).
           destruct (Dsd s1 s1 i s2 g X (proj1 W1) (delq_refl _) Eg) as [q Eq].
           unfold s1 in Eq. rewrite dq_deeds_same, filter_app in Eq. cbn [filter keepf] in Eq.
           destruct g; fin.
           ++ match type of E with recur_loop tk f (set_deeds s2 sid (_ ++ [?d])) sid = _ =>
                eapply (Irl (set_deeds s2 sid (dq s2 sid ++ [d]))); [| | | |exact E|exact O] end.
              ** exact X2.
              ** destruct W2 as [P N]. split; [apply (prot_same s2); [reflexivity|reflexivity|exact P]|exact N].
              ** eexists _, _. split; [rewrite dq_deeds_same, Eq, <- app_assoc; cbn [app]; reflexivity|].
                 split; [now apply mf_filter|]. apply mf_app. split; [now apply mf_filter|intros [Hx|[]]; discriminate].
              ** apply good_deeds; [| |exact G2].
                 --- rewrite Eq, <- app_assoc. cbn [app]. rewrite (canon_mark _ _ (mf_filter q u' Mu')).
                     rewrite dids_app, !dids_keepf. cbn [dids flat_map app]. rewrite <- app_assoc. cbn [app].
                     now apply srt_mid.
                 --- intros Hz _. destruct W2 as [[R|[Hz' _]] N]; [split; [exact R|now apply N]|contradiction].
           ++ eapply (Irl s2); [exact X2|exact W2| |exact G2|exact E|exact O].
              eexists _, _. split; [exact Eq|]. split; now apply mf_filter.
           ++ split; [exact G2|exact Logic.I].
           ++ split; [exact G2|exact Logic.I].
        -- eapply (Irl (set_deeds s1 sid ((u' ++ DMark :: rr) ++ [DDeed i re]))); [| | | |exact E|exact O].
           ++ exact X.
           ++ apply Wx; reflexivity.
           ++ eexists u', (rr ++ [DDeed i re]). split; [rewrite dq_deeds_same, <- app_assoc; reflexivity|].
              split; [exact Mu'|]. apply mf_app. split; [exact Mr|intros [Hx|[]]; discriminate].
           ++ apply good_deeds; [|now apply (Mk s1)|exact G1].
              rewrite <- app_assoc. cbn [app]. rewrite (canon_mark _ _ Mu'), dids_app. cbn [dids flat_map app].
              rewrite <- app_assoc. exact Sx.
Qed.

End SortB.
