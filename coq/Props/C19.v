(* C19 — placeholder, theorems follow *)
From Hio Require Import Base.Prelude Model.HttpClient Proofs.HttpClientProofs.
Theorem C19_run_app : forall s evs evs', run s (evs ++ evs') = run (run s evs) evs'.
Proof. exact run_app. Qed.
Print Assumptions C19_run_app.
