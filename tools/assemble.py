#!/usr/bin/env python3
"""Assemble MANIFEST.json from manifest.d/*.json fragments and known_findings.json from
findings.d/*.json.  Run before committing; the checks read only the assembled files."""
import json, sys
from pathlib import Path
V = Path(__file__).resolve().parent.parent
BASELINE = json.loads(Path("/root/.vp/BASELINE.json").read_text())["cmd"] if Path("/root/.vp/BASELINE.json").exists() else ""
def main():
    props = [json.loads(l)["id"] for l in (V / "properties.jsonl").read_text().splitlines() if l.strip()]
    frags = {}
    for f in sorted((V / "manifest.d").glob("C*.json")):
        d = json.loads(f.read_text()); frags[d["property_id"]] = d
    na = json.loads((V / "manifest.d" / "not_applicable.json").read_text()) if (V / "manifest.d" / "not_applicable.json").exists() else {}
    checks = []
    for p in props:
        if p not in frags:
            continue
        d = frags[p]
        checks.append({
            "property_id": p,
            "quick_cmd": f"./check {p} --tier quick",
            "thorough_cmd": f"./check {p} --tier thorough",
            "evidence_file": f"evidence/{p}.json",
            "replay_cmd_template": f"./check {p} --replay {{path}}",
            "engine": "coq-model+correspondence",
            "level_claimed": {"category": "proof", "text": d["text"], "design_ref": d.get("design_ref", "DESIGN.md §6 " + p)},
            "level_note": d["level_note"],
            "technique": d.get("technique", "Coq 8.16 proof over a hand-written Gallina model, tied to the code by a differential correspondence check evaluated with vm_compute"),
        })
    not_app = [{"property_id": p, "reason": na.get(p, "check not built yet in this round; see DESIGN.md")} for p in props if p not in frags]
    man = {
        "version": 1,
        "setup_cmd": "python3 tools/gen_coqproject.py && cd coq && (timeout 3000 make -k -j16 || echo setup: some files did not build, the checks that depend on them will report it)",
        "hooks": {"guard": "IOFLO_HIO_VERIF", "enable": "no hooks needed: checks import /repo/src unmodified (PYTHONPATH=/repo/src); ./check exports IOFLO_HIO_VERIF=1 for uniformity",
                  "baseline_off_cmd": BASELINE.replace("--junitxml=<file>", "--junitxml=/var/tmp/hio-baseline.junit.xml"),
                  "source_commits": [], "add_only": True},
        "engines": [
            {"name": "coq-model", "path": "coq/", "serves_properties": [c["property_id"] for c in checks],
             "kind_free_text": "Gallina models (coq/Model), lemmas (coq/Proofs), property theorems (coq/Props), Coq 8.16.1 stdlib only"},
            {"name": "correspondence-harness", "path": "harness/", "serves_properties": [c["property_id"] for c in checks],
             "kind_free_text": "Python drivers run real hio classes and emit Cases/*.v evaluated by coqc vm_compute against the same model definitions the theorems are about"},
        ],
        "checks": checks,
        "not_applicable": not_app,
        "notes": "See DESIGN.md. known_findings.json lists open/fixed genuine defects; mutants/ and seeded/ hold the changes used to validate detection.",
    }
    (V / "MANIFEST.json").write_text(json.dumps(man, indent=1) + "\n")
    findings = []
    for f in sorted((V / "findings.d").glob("C*.json")):
        findings += json.loads(f.read_text())
    (V / "known_findings.json").write_text(json.dumps({"findings": findings}, indent=1) + "\n")
    print(f"MANIFEST: {len(checks)} checks, {len(not_app)} not yet claimed; findings: {len(findings)}")
if __name__ == "__main__":
    main()
