(* Facts about the LMDB sub-db model: the byte order and operations on
   sorted lists written as  A ++ B  around the position of a key. *)
From Hio Require Import Base.Prelude Base.ListFacts Model.Lmdb.

(* ---------- the lexicographic order ---------- *)
Lemma bcmp_refl a : bcmp a a = Eq.
Proof. induction a as [|x a IH]; simpl; [reflexivity|]. now rewrite N.compare_refl. Qed.

Lemma bcmp_eq a b : bcmp a b = Eq -> a = b.
Proof.
  revert b. induction a as [|x a IH]; intros [|y b]; simpl; try discriminate; auto.
  destruct (N.compare x y) eqn:E; try discriminate.
  apply N.compare_eq in E. subst. intros H. f_equal. now apply IH.
Qed.

Lemma bcmp_antisym a b : bcmp b a = CompOpp (bcmp a b).
Proof.
  revert b. induction a as [|x a IH]; intros [|y b]; simpl; auto.
  rewrite (N.compare_antisym x y). destruct (N.compare x y); simpl; auto.
Qed.

Lemma blt_irrefl a : blt a a = false.
Proof. unfold blt. now rewrite bcmp_refl. Qed.

Lemma blt_asym a b : blt a b = true -> blt b a = false.
Proof. unfold blt. rewrite (bcmp_antisym a b). destruct (bcmp a b); simpl; congruence. Qed.

Lemma blt_neq a b : blt a b = true -> a <> b.
Proof. intros H ->. rewrite blt_irrefl in H. discriminate. Qed.

Lemma bcmp_lt_trans a b c : bcmp a b = Lt -> bcmp b c = Lt -> bcmp a c = Lt.
Proof.
  revert b c. induction a as [|x a IH]; intros [|y b] [|z c]; simpl; try discriminate; auto.
  destruct (N.compare x y) eqn:E1; try discriminate.
  - apply N.compare_eq in E1. subst y. destruct (N.compare x z); try discriminate; auto. apply IH.
  - intros _. destruct (N.compare y z) eqn:E2; try discriminate.
    + apply N.compare_eq in E2. subst z. now rewrite E1.
    + intros _. rewrite N.compare_lt_iff in *. assert (H : (x < z)%N) by lia.
      apply N.compare_lt_iff in H. now rewrite H.
Qed.

Lemma blt_trans a b c : blt a b = true -> blt b c = true -> blt a c = true.
Proof.
  unfold blt. destruct (bcmp a b) eqn:E1; try discriminate. destruct (bcmp b c) eqn:E2; try discriminate.
  intros _ _. now rewrite (bcmp_lt_trans a b c).
Qed.

Lemma blt_total a b : blt a b = false -> blt b a = false -> a = b.
Proof.
  unfold blt. rewrite (bcmp_antisym a b). destruct (bcmp a b) eqn:E; simpl; try discriminate.
  intros _ _. now apply bcmp_eq.
Qed.

Lemma bcmp_app_l p a b : bcmp (p ++ a) (p ++ b) = bcmp a b.
Proof. induction p as [|x p IH]; simpl; auto. now rewrite N.compare_refl. Qed.

Lemma blt_app_l p a b : blt (p ++ a) (p ++ b) = blt a b.
Proof. unfold blt. now rewrite bcmp_app_l. Qed.

(* ---------- sorted lists ---------- *)
Section Sorted.
  Context {V : Type}.
  Notation db := (db V).
  Implicit Types A B d : Lmdb.db V.

  Definition klt (x : bytes) (d : db) : Prop := Forall (fun e => blt x (fst e) = true) d.   (* x < all keys *)
  Definition kgt (x : bytes) (d : db) : Prop := Forall (fun e => blt (fst e) x = true) d.   (* all keys < x *)

  Fixpoint sorted (d : db) : Prop :=
    match d with
    | [] => True
    | e :: d' => klt (fst e) d' /\ sorted d'
    end.

  Lemma sorted_app A B :
    sorted (A ++ B) <-> sorted A /\ sorted B /\ Forall (fun a => klt (fst a) B) A.
  Proof.
    induction A as [|a A IH]; simpl.
    - split; [intros; repeat split; auto|tauto].
    - unfold klt in *. rewrite Forall_app, IH. split.
      + intros [[H1 H2] [H3 [H4 H5]]]. repeat split; auto.
      + intros [[H1 H2] [H3 H4]]. inversion H4; subst. repeat split; auto.
  Qed.

  (* seek: everything before the cursor is below x, the entry under the cursor is not *)
  Lemma seek_split A B x :
    kgt x A -> match B with [] => True | e :: _ => blt (fst e) x = false end ->
    seek (A ++ B) x = (A, B).
  Proof.
    intros HA HB. induction A as [|[k v] A IH]; simpl.
    - destruct B as [|[k v] B]; simpl; [reflexivity|]. simpl in HB. now rewrite HB.
    - inversion HA; subst. simpl in H1. rewrite H1. now rewrite IH.
  Qed.

  Lemma bcmp_gt_of_blt x k : blt k x = true -> bcmp x k = Gt.
  Proof. unfold blt. rewrite (bcmp_antisym k x). destruct (bcmp k x); simpl; congruence. Qed.
  Lemma bcmp_lt_of_blt x k : blt x k = true -> bcmp x k = Lt.
  Proof. unfold blt. destruct (bcmp x k); congruence. Qed.

  (* put of a key that sits between A and B *)
  Lemma db_put_mid ow A B x v :
    kgt x A -> klt x B -> db_put ow (A ++ B) x v = (A ++ (x, v) :: B, true).
  Proof.
    intros HA HB. induction A as [|[k w] A IH]; simpl.
    - destruct B as [|[k w] B]; simpl; [reflexivity|].
      inversion HB; subst. simpl in H1. now rewrite (bcmp_lt_of_blt _ _ H1).
    - inversion HA; subst. simpl in H1. rewrite (bcmp_gt_of_blt _ _ H1). now rewrite IH.
  Qed.

  (* put of a key that is present *)
  Lemma db_put_hit ow A B x v0 v :
    kgt x A ->
    db_put ow (A ++ (x, v0) :: B) x v =
      if ow then (A ++ (x, v) :: B, true) else (A ++ (x, v0) :: B, false).
  Proof.
    intros HA. induction A as [|[k w] A IH]; simpl.
    - rewrite bcmp_refl. now destruct ow.
    - inversion HA; subst. simpl in H1. rewrite (bcmp_gt_of_blt _ _ H1). rewrite IH by assumption.
      now destruct ow.
  Qed.

  Lemma db_get_skip A B x :
    Forall (fun e => fst e <> x) A -> db_get (A ++ B) x = db_get B x.
  Proof.
    intros HA. induction A as [|[k w] A IH]; simpl; [reflexivity|].
    inversion HA; subst. simpl in H1.
    destruct (bcmp x k) eqn:E; [apply bcmp_eq in E; congruence| |]; now apply IH.
  Qed.

  Lemma db_get_hd B x v : db_get ((x, v) :: B) x = Some v.
  Proof. simpl. now rewrite bcmp_refl. Qed.

  Lemma db_get_none A x : Forall (fun e => fst e <> x) A -> db_get A x = None.
  Proof. intros H. rewrite <- (app_nil_r A). now rewrite db_get_skip. Qed.

  Lemma db_del_hit A B x v :
    Forall (fun e => fst e <> x) A -> db_del (A ++ (x, v) :: B) x = (A ++ B, true).
  Proof.
    intros HA. induction A as [|[k w] A IH]; simpl.
    - now rewrite bcmp_refl.
    - inversion HA; subst. simpl in H1.
      destruct (bcmp x k) eqn:E; [apply bcmp_eq in E; congruence| |]; now rewrite IH.
  Qed.

  Lemma db_del_none A x : Forall (fun e => fst e <> x) A -> db_del A x = (A, false).
  Proof.
    intros HA. induction A as [|[k w] A IH]; simpl; [reflexivity|].
    inversion HA; subst. simpl in H1.
    destruct (bcmp x k) eqn:E; [apply bcmp_eq in E; congruence| |]; now rewrite IH.
  Qed.

  Lemma kgt_neq x A : kgt x A -> Forall (fun e => fst e <> x) A.
  Proof. apply Forall_impl. intros e H. now apply blt_neq. Qed.
  Lemma klt_neq x A : klt x A -> Forall (fun e => fst e <> x) A.
  Proof. apply Forall_impl. intros e H E. symmetry in E. revert E. now apply blt_neq. Qed.

  Lemma last_entry_app A (e : bytes * V) : last_entry (A ++ [e]) = Some e.
  Proof. unfold last_entry. now rewrite rev_unit. Qed.
  Lemma last_entry_nil : last_entry (@nil (bytes * V)) = None.
  Proof. reflexivity. Qed.

  (* every sorted list splits around any key: entries below x, maybe x itself, entries above x *)
  Lemma sorted_split d x : sorted d ->
    exists A B, d = A ++ B /\ kgt x A /\
      (klt x B \/ exists v B', B = (x, v) :: B' /\ klt x B').
  Proof.
    induction d as [|[k v] d IH]; intros S.
    - exists [], []. split; [reflexivity|]. split; [constructor|]. left. constructor.
    - destruct S as [S1 S2]. simpl in S1.
      destruct (blt k x) eqn:E1.
      + destruct (IH S2) as (A & B & -> & HA & HB).
        exists ((k, v) :: A), B. repeat split; auto. constructor; auto.
      + exists [], ((k, v) :: d). split; [reflexivity|]. split; [constructor|].
        destruct (blt x k) eqn:E2.
        * left. constructor; auto. eapply Forall_impl; [|exact S1].
          intros e H. simpl in H. eapply blt_trans; eauto.
        * right. assert (k = x) by now apply blt_total. subst. exists v, d. split; auto.
  Qed.
End Sorted.
