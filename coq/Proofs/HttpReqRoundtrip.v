(* C14, general theorem, layer 7: assembly.  Every well formed request is
   recovered from the bytes the client builds. *)
From Hio Require Import Base.Prelude Model.HttpReqUrl Model.HttpTotal Model.HttpReq
     Proofs.HttpReqProofs Proofs.HttpReqCodec Proofs.HttpReqQuery Proofs.HttpReqLines
     Proofs.HttpReqHeaders Proofs.HttpReqTarget Proofs.HttpReqLength.
From Coq Require Import String ZifyBool.
Local Open Scope N_scope.

(* well-formedness in terms of what is sent (the header list includes the fields build adds) *)
Definition wf_core (host : ustr) (port : N) (r : request) : bool :=
  existsb (ustr_eqb (q_method r)) METHODS
  && wf_path (q_path r)
  && forallb pair_ok (q_qargs r)
  && (blen (start_line r) <=? MAXL)
  && forallb field_ok (all_headers host port r)
  && distinct_keys (all_headers host port r)
  && Nat.leb (List.length (all_headers host port r)) 100
  && negb (has_header (all_headers host port r) "transfer-encoding")
  && match hget (all_headers host port r) (str "content-length") with
     | None => is_nil (body_bytes r)
     | Some v => ustr_eqb v (dec_str (blen (body_bytes r)))
     end
  && (blen (body_bytes r) <? 10 ^ 40)
  && match q_body r with Form f => forallb pair_ok f | _ => true end.

(* ---------- reshaping the wire ---------- *)
Lemma flat_map_map {A B C} (f : B -> list C) (g : A -> B) l : flat_map f (map g l) = flat_map (fun x => f (g x)) l.
Proof. induction l as [|x l IH]; [reflexivity|]. cbn [map flat_map]. now rewrite IH. Qed.

Lemma build_shape host port r :
  build host port r = start_line r ++ CRLFb ++ (flat_map hline (all_headers host port r) ++ CRLFb ++ body_bytes r).
Proof.
  unfold build. cbn [flat_map]. rewrite flat_map_map. rewrite <- !app_assoc. reflexivity.
Qed.

Lemma flat_map_hline_length l : (List.length l <= List.length (flat_map hline l))%nat.
Proof.
  induction l as [|x l IH]; [cbn; lia|]. cbn [flat_map List.length]. rewrite app_length.
  unfold hline at 1. rewrite app_length. cbn [List.length CRLFb]. lia.
Qed.

(* ---------- header lookups ---------- *)
Lemma hget_titled : forall l k, hget (titled l) k = hget l k.
Proof.
  induction l as [|[n v] l IH]; intros k; [reflexivity|].
  cbn [titled map fst snd hget]. rewrite lower_title. fold (titled l). now rewrite IH.
Qed.

Lemma hget_in_distinct : forall l n v, distinct_keys l = true -> In (n, v) l -> hget l (lower n) = Some v.
Proof.
  induction l as [|[k w] l IH]; intros n v Hd Hin; [destruct Hin|].
  cbn [distinct_keys] in Hd. apply andb_true_iff in Hd. destruct Hd as [Hk Hd].
  cbn [hget]. destruct Hin as [E|Hin].
  - injection E as -> ->. now rewrite ustr_eqb_refl.
  - destruct (ustr_eqb (lower k) (lower n)) eqn:E.
    + exfalso. apply negb_true_iff in Hk.
      assert (existsb (fun kv => ustr_eqb (lower (fst kv)) (lower k)) l = true).
      { apply existsb_exists. exists (n, v). split; [exact Hin|]. cbn [fst]. now rewrite ustr_eqb_sym. }
      congruence.
    + now apply IH.
Qed.

Lemma pairs_eqb_refl l : pairs_eqb l l = true.
Proof.
  unfold pairs_eqb. induction l as [|[a b] l IH]; [reflexivity|].
  cbn [list_eqb]. unfold pair_eqb at 1. cbn [fst snd]. now rewrite !ustr_eqb_refl, IH.
Qed.

Lemma bytes_eqb_refl b : bytes_eqb b b = true.
Proof. exact (ustr_eqb_refl b). Qed.

Lemma firstn_all_N (b : bytes) : firstn (N.to_nat (blen b)) b = b.
Proof. unfold blen. rewrite Nat2N.id. apply firstn_all. Qed.

(* ---------- the main theorem in terms of wf_core ---------- *)
Theorem roundtrip_core o host port r : wf_core host port r = true -> roundtrip o host port r = true.
Proof.
  unfold wf_core. intros H.
  repeat (apply andb_true_iff in H; destruct H as [H ?]).
  rename H into Hm, H9 into Hpath, H8 into Hq, H7 into Hstart, H6 into Hfields, H5 into Hdist,
         H4 into Hcount, H3 into Hte, H2 into Hcl, H1 into Hbody, H0 into Hform.
  apply N.leb_le in Hstart. apply Nat.leb_le in Hcount. apply N.ltb_lt in Hbody. apply negb_true_iff in Hte.
  pose proof (target_ok r Hpath Hq) as TF.
  destruct (request_line_start o r Hm TF) as [Hrl [Hnth Hnolf]].
  destruct TF as [[t' [Et Hs]] Hc [Hp63 Hq63]].
  set (allh := all_headers host port r) in *.
  set (body := body_bytes r) in *.
  unfold roundtrip, parse_request. rewrite build_shape. fold allh. fold body.
  rewrite line_lf_crlf by assumption.
  rewrite Hrl. cbn [bind]. rewrite Hnth.
  assert (Hus : url_site o (target r) =
                Ok ({| u_scheme := []; u_netloc := []; u_path := quote_path (q_path r);
                       u_query := enc_pairs (q_qargs r); u_fragment := [] |}, None)).
  { rewrite Et. rewrite url_site_target; [|exact Hs|rewrite <- Et; exact Hc]. rewrite <- Et, Hp63, Hq63. reflexivity. }
  rewrite Hus. cbn [bind].
  rewrite (leader_all_fields allh [] _ body Hfields Hdist); [|cbn [List.length]; lia|].
  2:{ rewrite app_length. pose proof (flat_map_hline_length allh). lia. }
  cbn [bind app fst snd].
  (* not chunked *)
  assert (Hnc : is_chunked (titled allh) = false).
  { unfold is_chunked, hget_str. rewrite hget_titled. unfold has_header in Hte.
    destruct (hget allh (str "transfer-encoding")); [discriminate|]. reflexivity. }
  rewrite Hnc.
  (* the length *)
  assert (Hlen : req_length (titled allh) = Some (blen body)).
  { unfold req_length. rewrite Hnc. unfold hget_str. rewrite hget_titled.
    destruct (hget allh (str "content-length")) as [v|].
    - apply ustr_eqb_eq in Hcl. subst v.
      destruct (dec_str_spec (blen body) Hbody) as [Hne _].
      destruct (dec_str (blen body)) as [|c s] eqn:E; [congruence|].
      rewrite <- E. now apply content_length_dec_str.
    - destruct body; [reflexivity|discriminate]. }
  rewrite Hlen. rewrite N.ltb_irrefl. rewrite firstn_all_N.
  (* what was recovered *)
  unfold recovered. cbn [p_method p_path p_query p_headers p_body p_length build_environ
                         e_path_info e_query_string e_http fst snd u_path u_query].
  rewrite !ustr_eqb_refl.
  assert (Htext : text_ok (q_path r) = true).
  { unfold wf_path in Hpath. apply andb_true_iff in Hpath. tauto. }
  assert (Hunq : unquote (quote_path (q_path r)) = q_path r).
  { apply unquote_quote; [split; reflexivity|exact Htext]. }
  rewrite Hunq, ustr_eqb_refl. rewrite Hunq, ustr_eqb_refl.
  rewrite parse_qsl_enc_pairs by exact Hq. rewrite pairs_eqb_refl.
  cbn [andb].
  (* headers *)
  assert (Hsub : forall nv, In nv (final_headers r) -> In nv allh).
  { intros nv Hin. unfold allh, all_headers. rewrite !in_app_iff. right. right. now right. }
  assert (Hh1 : forallb (fun nv => option_eqb ustr_eqb (hget (titled allh) (lower (fst nv))) (Some (snd nv)))
                        (final_headers r) = true).
  { apply forallb_forall. intros [n v] Hin. cbn [fst snd]. rewrite hget_titled.
    rewrite (hget_in_distinct allh n v Hdist (Hsub _ Hin)). cbn [option_eqb]. apply ustr_eqb_refl. }
  rewrite Hh1.
  assert (Hh2 : forallb (fun nv => existsb (fun kv => ustr_eqb (fst kv) (environ_key (fst nv)) && ustr_eqb (snd kv) (snd nv))
                                           (map (fun kv => (environ_key (fst kv), snd kv)) (titled allh)))
                        (final_headers r) = true).
  { apply forallb_forall. intros [n v] Hin. cbn [fst snd]. apply existsb_exists.
    exists (environ_key (title n), v). split.
    - apply in_map_iff. exists (title n, v). split; [reflexivity|].
      unfold titled. apply in_map_iff. exists (n, v). split; [reflexivity|now apply Hsub].
    - cbn [fst snd]. rewrite environ_key_title, !ustr_eqb_refl. reflexivity. }
  rewrite Hh2. cbn [andb].
  (* form fields *)
  destruct (q_body r) as [b|e|f] eqn:Eb; try reflexivity.
  destruct (ustr_eqb (q_method r) (str "GET")) eqn:Eg; [reflexivity|].
  unfold body, body_bytes. rewrite Eg, Eb. rewrite parse_qsl_enc_pairs by exact Hform. apply pairs_eqb_refl.
Qed.
