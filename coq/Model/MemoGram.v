(* Gram codec of hio.core.memo.memoing.Memoer: codes, part sizes, wiff, pick
   (both header encodings, every raising site, as the code is after the D25
   repairs) and rend (segmentation).  Text is bytes (list N); Base64 text is
   its ASCII bytes.  sign / verify are parameters (Section variables). *)
From Hio Require Import Base.Prelude Model.B64.
Local Open Scope N_scope.

(* ---- codes (MemoGramCodex): 'bAA' + letter ---- *)
Inductive code := GZ | GN | AZ | AN | SZ | SN | SAZ | SAN | ACK | ACKA.
Inductive kind := KZero | KGram | KAck.

Definition letter (c : code) : N :=
  match c with GZ => 65 | GN => 66 | AZ => 67 | AN => 68 | SZ => 69
             | SN => 70 | SAZ => 71 | SAN => 72 | ACK => 73 | ACKA => 74 end.
Definition code_text (c : code) : list N := [98; 65; 65; letter c].

Definition code_of_letter (l : N) : option code :=
  if l =? 65 then Some GZ else if l =? 66 then Some GN else if l =? 67 then Some AZ
  else if l =? 68 then Some AN else if l =? 69 then Some SZ else if l =? 70 then Some SN
  else if l =? 71 then Some SAZ else if l =? 72 then Some SAN else if l =? 73 then Some ACK
  else if l =? 74 then Some ACKA else None.

(* membership in Sizes / Codex *)
Definition code_of_text (t : list N) : option code :=
  match t with
  | [b; a1; a2; l] => if (b =? 98) && (a1 =? 65) && (a2 =? 65) then code_of_letter l else None
  | _ => None
  end.

Definition kind_of (c : code) : kind :=
  match c with GZ | AZ | SZ | SAZ => KZero | GN | AN | SN | SAN => KGram | ACK | ACKA => KAck end.
(* AuthDex *)
Definition auth (c : code) : bool :=
  match c with AZ | AN | SAZ | SAN | ACKA => true | _ => false end.
(* Sizes: bz = 4, nz = 4, mz = 24 for every code *)
Definition vz (c : code) : nat := match c with AZ | SAZ | ACKA => 44 | _ => 0 end.
Definition az (c : code) : nat := if auth c then 88 else 0.
(* Pairs: zeroth code -> non-zeroth code *)
Definition pair_of (c : code) : code :=
  match c with GZ => GN | AZ => AN | SZ => SN | SAZ => SAN | c => c end.
Definition b2z (n : nat) : nat := Nat.div (3 * n) 4.   (* 3 * z // 4 *)

(* ---- Base64 text <-> bytes for whole groups (base64.urlsafe_b64encode /
   urlsafe_b64decode on lengths that are multiples of 3 / 4; other lengths do
   not occur in pick or rend) ---- *)
Fixpoint enc (b : bytes) : list N :=
  match b with
  | a :: b1 :: c :: r =>
    chr_of_idx (a / 4) :: chr_of_idx ((a mod 4) * 16 + b1 / 16)
    :: chr_of_idx ((b1 mod 16) * 4 + c / 64) :: chr_of_idx (c mod 64) :: enc r
  | _ => []
  end.

Definition idx (c : N) : N := match idx_of_chr c with Some d => d | None => 0 end.

Fixpoint dec (s : list N) : bytes :=
  match s with
  | w :: x :: y :: z :: r =>
    (idx w * 4 + idx x / 16) :: ((idx x mod 16) * 16 + idx y / 4)
    :: ((idx y mod 4) * 64 + idx z) :: dec r
  | _ => []
  end.

(* helping.Reb64.match: only Base64 url-safe characters *)
Definition is_b64 (s : list N) : bool :=
  forallb (fun c => match idx_of_chr c with Some _ => true | None => false end) s.

Definition slice {A} (i j : nat) (l : list A) : list A := firstn (j - i) (skipn i l).

(* ---- strict UTF-8 validity (bytes.decode()) ---- *)
Definition cont (c : N) : bool := (128 <=? c) && (c <=? 191).
Fixpoint utf8_ok (b : bytes) : bool :=
  match b with
  | [] => true
  | c :: r =>
    if c <? 128 then utf8_ok r
    else if (194 <=? c) && (c <=? 223) then
      match r with c1 :: r1 => cont c1 && utf8_ok r1 | _ => false end
    else if (224 <=? c) && (c <=? 239) then
      match r with
      | c1 :: c2 :: r2 =>
        (if c =? 224 then (160 <=? c1) && (c1 <=? 191)
         else if c =? 237 then (128 <=? c1) && (c1 <=? 159) else cont c1)
        && cont c2 && utf8_ok r2
      | _ => false
      end
    else if (240 <=? c) && (c <=? 244) then
      match r with
      | c1 :: c2 :: c3 :: r3 =>
        (if c =? 240 then (144 <=? c1) && (c1 <=? 191)
         else if c =? 244 then (128 <=? c1) && (c1 <=? 143) else cont c1)
        && cont c2 && cont c3 && utf8_ok r3
      | _ => false
      end
    else false
  end.

(* ---- text -> raw decoders of keys and signatures (_decodeVID / _decodeQVK /
   _decodeSGN): total, and rejecting every non-canonical text (wrong length,
   non Base64 character, non-zero midpad bits) ---- *)
(* 44 chars: code char + 43 chars; 'A' + 43 chars decode to 33 bytes whose first
   (midpad) byte must be zero; the other 32 are the raw key *)
Definition decode_key (t : bytes) : option (N * bytes) :=
  match t with
  | c :: rest =>
    if Nat.eqb (length t) 44 && is_b64 t then
      match dec (65 :: rest) with
      | 0 :: raw => Some (c, raw)
      | _ => None
      end
    else None
  | [] => None
  end.
Definition encode_key (c : N) (raw : bytes) : bytes := c :: tl (enc (0 :: raw)).

(* 88 chars: code '0B' + 86 chars; 'AA' + 86 chars decode to 66 bytes whose first
   two (midpad) bytes must be zero; the other 64 are the raw signature *)
Definition decode_sgn (t : bytes) : option bytes :=
  match t with
  | c0 :: c1 :: rest =>
    if (c0 =? 48) && (c1 =? 66) && Nat.eqb (length t) 88 && is_b64 t then
      match dec (65 :: 65 :: rest) with
      | 0 :: 0 :: raw => Some raw
      | _ => None
      end
    else None
  | _ => None
  end.
Definition encode_sgn (raw : bytes) : bytes := 48 :: 66 :: skipn 2 (enc (0 :: 0 :: raw)).

(* ---- Memoer.verify: which key a signature is checked against ---- *)
Section Verify.
  (* libsodium crypto_sign_verify_detached on raw key (32 bytes), raw signature
     (64 bytes) and the signed bytes *)
  Variable rawverify : bytes -> bytes -> bytes -> res unit.
  (* self.keep.get(vid) -> keyage.qvk *)
  Variable keep : bytes -> option bytes.

  (* a non-transferable vid ('B') IS the verkey; a transferable ('D') or digest
     ('E') vid is only a label whose current verkey text (code 'B') must be
     looked up in .keep *)
  Definition key_raw (vid : bytes) : option bytes :=
    match decode_key vid with
    | None => None
    | Some (c, rawv) =>
      if c =? 66 then Some rawv
      else if (c =? 68) || (c =? 69) then
        match keep vid with
        | None => None                                          (* missing keyage *)
        | Some qvk => match decode_key qvk with
                      | Some (cq, rawq) => if cq =? 66 then Some rawq else None
                      | None => None
                      end
        end
      else None                                                 (* code not in B D E *)
    end.

  Definition mverify (vid sig ser : bytes) : res unit :=
    match key_raw vid, decode_sgn sig with
    | Some k, Some rs => rawverify k rs ser
    | _, _ => Exc MemoErr
    end.
End Verify.

(* ---- pick ---- *)
Record picked := { p_mid : bytes;            (* 24 Base64 chars *)
                   p_vid : option bytes;     (* 44 Base64 chars or None *)
                   p_gn : N; p_gc : option N;
                   p_body : bytes }.

Section Pick.
  (* Memoer.verify(vid, sig, ser): Ok tt = returned True, Exc k = raised k
     (MemoerVerifyError and MemoerError are both MemoErr) *)
  Variable verify : bytes -> bytes -> bytes -> res unit.
  Variable authic : bool.
  (* self.vids.get(mid) as bytes: b"" when absent or None *)
  Variable vids : bytes -> bytes.

  Definition finish (c : code) (n : N) (mid vid sig sgram body : bytes) : res picked :=
    let ret (v : bytes) (gn : N) (gc : option N) :=
        bind (match sig with [] => Ok tt | _ => verify v sig sgram end) (fun _ =>
        Ok {| p_mid := mid; p_vid := match v with [] => None | _ => Some v end;
              p_gn := gn; p_gc := gc; p_body := body |}) in
    match kind_of c with
    | KZero => ret vid 0 (Some n)
    | KGram => ret (match vid with [] => vids mid | _ => vid end) n None
    | KAck => Exc MemoErr                       (* acks are not supported on rx *)
    end.

  Definition pick_b64 (gram : bytes) : res picked :=
    if Nat.ltb (length gram) 4 then Exc MemoErr else
    let ct := firstn 4 gram in
    if negb (is_b64 ct) then Exc MemoErr else
    match code_of_text ct with
    | None => Exc MemoErr                       (* not in Audex when authic, else not in Sizes *)
    | Some c =>
      if authic && negb (auth c) then Exc MemoErr else
      let oz := (32 + vz c + az c)%nat in
      if Nat.ltb (length gram) oz then Exc MemoErr else
      let hz := (32 + vz c)%nat in
      let sgram := firstn (length gram - az c) gram in
      let sig := skipn (length gram - az c) gram in
      if negb (is_b64 (firstn hz gram) && is_b64 sig) then Exc MemoErr else
      bind (b64ToInt (slice 4 8 gram)) (fun n =>
      finish c n (slice 8 32 gram) (slice 32 hz gram) sig sgram (skipn hz sgram))
    end.

  Definition pick_b2 (gram : bytes) : res picked :=
    if Nat.ltb (length gram) 3 then Exc MemoErr else
    bind (codeB2ToB64 gram 4) (fun ct =>
    match code_of_text ct with
    | None => Exc MemoErr
    | Some c =>
      if authic && negb (auth c) then Exc MemoErr else
      let vz2 := b2z (vz c) in let az2 := b2z (az c) in
      let oz := (24 + vz2 + az2)%nat in
      if Nat.ltb (length gram) oz then Exc MemoErr else
      let hz := (24 + vz2)%nat in
      let sgram := firstn (length gram - az2) gram in
      let sig := enc (skipn (length gram - az2) gram) in
      finish c (from_bytes (slice 3 6 gram)) (enc (slice 6 24 gram)) (enc (slice 24 hz gram))
             sig sgram (skipn hz sgram)
    end).

  (* wiff then the matching branch; pick is never called on an empty gram *)
  Definition pick (gram : bytes) : res picked :=
    match gram with
    | [] => Exc IndexErr
    | b :: _ =>
      if b / 4 =? 24 then pick_b64 gram
      else if b / 4 =? 27 then pick_b2 gram
      else Exc MemoErr
    end.
End Pick.

(* ---- rend ---- *)
Section Rend.
  (* Memoer.sign(vid, ser) as the 88 char qb64 signature text (before the
     conversion to base2 when .curt) *)
  Variable sign : bytes -> bytes -> bytes.

  Record rparams := { r_code : code;        (* zeroth code, in Zedex *)
                      r_curt : bool;
                      r_size : nat;         (* .size as set by the size setter: >= zoz + 1 *)
                      r_mid : bytes;        (* 24 chars from makeMID *)
                      r_vid : bytes }.      (* 44 chars, or [] when not signing *)

  Definition zoz (p : rparams) : nat :=
    let o := (32 + vz (r_code p) + az (r_code p))%nat in if r_curt p then b2z o else o.
  (* the non-zeroth overhead is NOT reduced when .curt (as in the code) *)
  Definition noz (p : rparams) : nat := (32 + vz (pair_of (r_code p)) + az (pair_of (r_code p)))%nat.
  (* the size setter: size = max(requested or MaxGramSize, zeroth overhead + 1,
     non-zeroth overhead + 1) *)
  Definition min_size (p : rparams) : nat := Nat.max (S (zoz p)) (S (noz p)).
  Definition eff_size (p : rparams) (req : nat) : nat := Nat.max req (min_size p).
  (* configuration history of one Memoer: the .code / .curt / .size setters, each of
     which re-clamps .size for the configuration it has just established
     (.size never shrinks: the refresh passes the current size back in) *)
  Inductive cfgop := SetCode (c : code) | SetCurt (b : bool) | SetSize (n : nat).
  Record cfg := { f_code : code; f_curt : bool; f_size : nat }.
  Definition cfg_params (f : cfg) : rparams :=
    {| r_code := f_code f; r_curt := f_curt f; r_size := f_size f; r_mid := []; r_vid := [] |}.
  Definition reclamp (f : cfg) : cfg :=
    {| f_code := f_code f; f_curt := f_curt f; f_size := eff_size (cfg_params f) (f_size f) |}.
  Definition cfg_step (f : cfg) (o : cfgop) : cfg :=
    match o with
    | SetCode c => reclamp {| f_code := c; f_curt := f_curt f; f_size := f_size f |}
    | SetCurt b => reclamp {| f_code := f_code f; f_curt := b; f_size := f_size f |}
    | SetSize n => reclamp {| f_code := f_code f; f_curt := f_curt f; f_size := n |}
    end.
  (* __init__: code, curt, then size *)
  Definition cfg_init (c : code) (curt : bool) (n : nat) : cfg :=
    reclamp {| f_code := c; f_curt := curt; f_size := n |}.
  Definition cfg_run (c : code) (curt : bool) (n : nat) (h : list cfgop) : cfg :=
    fold_left cfg_step h (cfg_init c curt n).

  Definition zbz (p : rparams) : nat := (r_size p - zoz p)%nat.
  Definition nbz (p : rparams) : nat := (r_size p - noz p)%nat.

  Definition neck (p : rparams) (n : N) : bytes :=
    if r_curt p then match to_bytes 3 n with Ok b => b | Exc _ => [] end
    else intToB64 n 4.
  Definition cvt (p : rparams) (t : list N) : bytes := if r_curt p then dec t else t.

  Definition gram_of (p : rparams) (c : code) (n : N) (with_vid : bool) (body : bytes) : bytes :=
    let head := cvt p (code_text c) ++ neck p n ++ cvt p (r_mid p)
                ++ (if with_vid then cvt p (r_vid p) else []) in
    let g := head ++ body in
    if auth c then g ++ cvt p (sign (r_vid p) g) else g.

  (* the while loop over the rest of the memo after the zeroth gram; fuel =
     number of bytes left (every turn removes nbz >= 1 bytes) *)
  Fixpoint rend_rest (fuel : nat) (p : rparams) (gn : N) (memo : bytes) : list bytes :=
    match fuel with
    | O => []
    | S f =>
      match memo with
      | [] => []
      | _ => gram_of p (pair_of (r_code p)) gn false (firstn (nbz p) memo)
             :: rend_rest f p (gn + 1) (skipn (nbz p) memo)
      end
    end.

  (* gc = max(1, ceil((ml + nbz - zbz) / nbz)) *)
  Definition gcount (p : rparams) (ml : nat) : N :=
    let num := (Z.of_nat ml + Z.of_nat (nbz p) - Z.of_nat (zbz p))%Z in
    Z.to_N (Z.max 1 (- ((- num) / Z.of_nat (nbz p))))%Z.

  Definition rend (p : rparams) (memo : bytes) : res (list bytes) :=
    if Nat.ltb 0 (vz (r_code p)) && negb (Nat.eqb (length (r_vid p)) 44) then Exc MemoErr else
    if negb (Nat.eqb (length (r_mid p)) 24) then Exc MemoErr else
    if Nat.ltb (r_size p) (noz p) then Exc MemoErr      (* nbz < 0: max memo size negative *)
    else if Nat.eqb (r_size p) (noz p) then Exc OtherErr  (* nbz = 0: ZeroDivisionError *)
    else
    match memo with
    | [] => Ok []
    | _ =>
      Ok (gram_of p (r_code p) (gcount p (length memo)) (Nat.ltb 0 (vz (r_code p)))
                  (firstn (zbz p) memo)
          :: rend_rest (length memo) p 1 (skipn (zbz p) memo))
    end.
End Rend.
