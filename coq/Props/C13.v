(* C13 — HTTP message parsing does not depend on how bytes are fragmented.
   Statements only; proofs in Proofs/HttpLineProofs.v, ChunkProofs.v,
   HttpMsgProofs.v. *)
From Coq Require Import Init.Byte.
From Hio Require Import Base.Prelude Model.HttpLine Model.Chunk Model.HttpMsg
  Proofs.HttpLineProofs Proofs.ChunkProofs Proofs.HttpMsgProofs Proofs.HttpMsgIdle.

(* The line splitter (findEol/parseLine after the D14 fixes), for each of the
   three terminator sets the code uses, started in any skip state: every split
   of the bytes into reads yields the same lines, the same unconsumed buffer
   and the same error. *)
Theorem C13_lines : forall m skip reads,
  feeds (line_stage m) (Live skip []) reads = feed (line_stage m) (Live skip []) (concat reads).
Proof.
  intros. apply feeds_concat.
  - intros s b s' b' o. apply line_shrinks.
  - intros s b s' b' o c. apply line_stable_step.
  - intros s b k c. apply line_stable_fail.
  - cbn. apply line_need_nil.
Qed.
Print Assumptions C13_lines.

(* Requests (Requestant) and responses (Respondent, GET or HEAD): for every
   byte stream -- well-formed or not, one message or a pipelined sequence --
   and every split of it into reads, the parser ends in the same state (phase,
   partially parsed head, body so far, unconsumed bytes, raised error) and has
   delivered the same completed messages (start line, headers, body, chunk
   parameters, trailers, persistence decision) as when all bytes arrive in one
   read; also when the connection is closed afterwards. *)
Theorem C13_fragmentation : forall k reads close,
  run_case k reads close = run_case k [concat reads] close.
Proof. exact run_case_concat. Qed.
Print Assumptions C13_fragmentation.

Theorem C13_any_two_partitions : forall k reads1 reads2 close,
  concat reads1 = concat reads2 -> run_case k reads1 close = run_case k reads2 close.
Proof. exact run_case_partition. Qed.
Print Assumptions C13_any_two_partitions.

(* The same from the middle of a connection: any parser state that is waiting
   for bytes (e.g. after some pipelined messages, inside a chunk, inside a
   header block). *)
Theorem C13_from_any_waiting_state : forall k p reads,
  stuck (msg_stage k) p ->
  feeds (msg_stage k) p reads = feed (msg_stage k) p (concat reads).
Proof. exact msg_feeds_concat_from. Qed.
Print Assumptions C13_from_any_waiting_state.

(* Message sequences with parser reuse (one Requestant per keep-alive
   connection, makeParser after every answered request): what the application
   is handed for each request of the sequence -- method, target, body -- does
   not depend on how the bytes of the sequence were split into reads. *)
Theorem C13_message_sequence : forall reads1 reads2,
  concat reads1 = concat reads2 -> seen_of reads1 = seen_of reads2.
Proof. intros r1 r2 E. unfold seen_of. rewrite (run_case_partition Req r1 r2 false E). reflexivity. Qed.
Print Assumptions C13_message_sequence.

(* Behind an idle prefix.  Whatever parse() / close() calls were made while the
   armed parser had nothing buffered (Client.service closes the respondent on
   every pass while the connection is cut off), the bytes that then arrive,
   split into any non-empty reads each followed by parse(), leave the parser in
   the state of the one-shot parse with the same completed messages: a closure
   seen while idle does not leak into the message (0a30e14). *)
Theorem C13_idle_prefix : forall k prefix reads,
  Forall idle_op prefix -> Forall (fun r => r <> []) reads -> reads <> [] ->
  hs_p (run_ops k (prefix ++ feed_ops reads)) = hs_p (run_ops k (prefix ++ feed_ops [concat reads])) /\
  hs_out (run_ops k (prefix ++ feed_ops reads)) = hs_out (run_ops k (prefix ++ feed_ops [concat reads])).
Proof. exact idle_prefix_fragmentation. Qed.
Print Assumptions C13_idle_prefix.

(* Re-pointed parser.  A parser that is between messages is pointed at a new
   receive buffer through makeParser(msg=buffer) (mk = true) or
   reinit(msg=buffer) (mk = false).  Whether the bytes of the next message(s)
   are already in that buffer at the call (c), arrive afterwards in any
   non-empty reads (r :: rs), or partly both: same final parser state, same
   completed messages.  In particular an EMPTY buffer is adopted like any other. *)
Theorem C13_rebind_fragmentation : forall k mk h0 s0 b0 c r rs,
  hs_p h0 = Live s0 b0 -> hs_started h0 = false -> c ++ r <> [] ->
  let hA := fold_left (do_op k) (ORebind mk c :: feed_ops (r :: rs)) h0 in
  let hB := fold_left (do_op k) [ORebind mk (c ++ concat (r :: rs)); OParse] h0 in
  hs_p hA = hs_p hB /\ hs_out hA = hs_out hB.
Proof. exact rebind_fragmentation. Qed.
Print Assumptions C13_rebind_fragmentation.

(* Non-vacuity: a pipelined request sequence (chunked with extension and
   trailer, then bare-LF HTTP/1.0 keep-alive, then content-length) read whole
   and byte by byte gives three messages with the expected bodies. *)
Definition ex_wire : bytes := of_bytes
  [x50;x4f;x53;x54;x20;x2f;x20;x48;x54;x54;x50;x2f;x31;x2e;x31;x0d;x0a;
   x54;x72;x61;x6e;x73;x66;x65;x72;x2d;x45;x6e;x63;x6f;x64;x69;x6e;x67;x3a;x20;x63;x68;x75;x6e;x6b;x65;x64;x0d;x0a;x0d;x0a;
   x32;x3b;x61;x3d;x62;x0d;x0a;x0d;x0a;x0d;x0a;x30;x0d;x0a;x54;x3a;x20;x31;x0d;x0a;x0d;x0a;
   x47;x45;x54;x20;x2f;x20;x48;x54;x54;x50;x2f;x31;x2e;x30;x0a;x0a;
   x50;x55;x54;x20;x2f;x20;x48;x54;x54;x50;x2f;x31;x2e;x31;x0d;x0a;
   x43;x6f;x6e;x74;x65;x6e;x74;x2d;x4c;x65;x6e;x67;x74;x68;x3a;x20;x33;x0d;x0a;x0d;x0a;x61;x0d;x0a].
Example C13_example :
  let whole := run_case Req [ex_wire] false in
  let bytewise := run_case Req (map (fun x => [x]) ex_wire) false in
  whole = bytewise /\
  map g_body (snd whole) = [of_bytes [x0d;x0a]; []; of_bytes [x61;x0d;x0a]] /\
  map g_persisted (snd whole) = [true; false; true] /\
  map g_trails (snd whole) = [Some [(of_bytes [x74], of_bytes [x31])]; None; None].
Proof. vm_compute. repeat split. Qed.
